(* C12 - node lists: executable model of the code as it is, and the independent specification.
   Definitions only (proofs are in DocOrderModel.v / NodeListModel.v).

   Sources modelled:
     src/xalanc/DOMSupport/DOMServices.cpp   isNodeAfter (1045-1168), isNodeAfterSibling (1173-1267)
     src/xalanc/DOMSupport/DOMServices.hpp   getParentOfNode (668)
     src/xalanc/XPath/MutableNodeRefList.cpp addNode, clear, addNodesInDocOrder (3 overloads),
                                              findInsertionPointBinarySearch, findInsertionPointLinearSearch,
                                              DocumentPredicate / IndexPredicate / ExecutionContextPredicate,
                                              addNodeInDocOrder, clearNulls, reverse
     src/xalanc/XPath/XPath.cpp               Union (result.addNodesInDocOrder(operand) for each operand)

   Documents.  A document is a rose tree; a node is identified by the chain of steps from the node
   up to the document node ("leaf first"), which is what the C++ walks with getParentOfNode:
   the parent of a node is the tail of its chain, the document node is the empty chain, and the
   (null) parent of the document node is [None].  Text, comment and PI nodes are elements without
   attributes and children as far as document order is concerned. *)
From Coq Require Import List Arith Bool.
Import ListNotations.
Require Import XV.GenNodelist.

Inductive tree := Node (nattr : nat) (kids : list tree).

Inductive step := SA (i : nat) | SC (i : nat).    (* i-th attribute / i-th child of the parent *)

Definition rnode := list step.

Fixpoint size (t : tree) : nat :=
  match t with Node na ks => S (na + list_sum (map size ks)) end.

Definition step_eqb (a b : step) : bool :=
  match a, b with
  | SA i, SA j => i =? j
  | SC i, SC j => i =? j
  | _, _ => false
  end.

Fixpoint rnode_eqb (a b : rnode) : bool :=
  match a, b with
  | [], [] => true
  | x :: a', y :: b' => step_eqb x y && rnode_eqb a' b'
  | _, _ => false
  end.

(* ---- specification side: pre-order numbering (node, its attributes, its children) on root-first paths *)

Fixpoint fvalid (t : tree) (p : list step) : bool :=
  match p with
  | [] => true
  | SA i :: r => match r with [] => (let 'Node na _ := t in i <? na) | _ :: _ => false end
  | SC i :: r => let 'Node _ ks := t in
                 match nth_error ks i with Some k => fvalid k r | None => false end
  end.

Fixpoint findex (t : tree) (p : list step) : nat :=
  match p with
  | [] => 0
  | SA i :: _ => S i
  | SC i :: r => let 'Node na ks := t in
                 S (na + list_sum (map size (firstn i ks))
                    + match nth_error ks i with Some k => findex k r | None => 0 end)
  end.

Fixpoint fsub (t : tree) (p : list step) : option tree :=
  match p with
  | [] => Some t
  | SA _ :: _ => None
  | SC i :: r => let 'Node _ ks := t in
                 match nth_error ks i with Some k => fsub k r | None => None end
  end.

Definition valid (t : tree) (n : rnode) : bool := fvalid t (rev n).
Definition index (t : tree) (n : rnode) : nat := findex t (rev n).

(* all nodes of a tree in pre-order (used by the driver to turn a pre-order number into a node) *)
Fixpoint all_nodes_fuel (fuel : nat) (t : tree) (self : rnode) : list rnode :=
  match fuel with
  | 0 => []
  | S f =>
    let 'Node na ks := t in
    self :: map (fun i => SA i :: self) (seq 0 na)
         ++ concat (map (fun ik => all_nodes_fuel f (snd ik) (SC (fst ik) :: self))
                        (combine (seq 0 (length ks)) ks))
  end.
Definition all_nodes (t : tree) : list rnode := all_nodes_fuel (size t) t [].

(* lexicographic order on root-first paths: prefix first, attributes before children *)
Definition step_ltb (a b : step) : bool :=
  match a, b with
  | SA i, SA j => i <? j
  | SA _, SC _ => true
  | SC _, SA _ => false
  | SC i, SC j => i <? j
  end.

Fixpoint flex (a b : list step) : bool :=
  match a, b with
  | [], [] => false
  | [], _ :: _ => true
  | _ :: _, [] => false
  | x :: a', y :: b' => if step_eqb x y then flex a' b' else step_ltb x y
  end.

(* ---- code side: DOMServices::isNodeAfter on a non-indexed document *)

Definition parent (n : rnode) : option rnode :=           (* getParentOfNode; None = null *)
  match n with [] => None | _ :: r => Some r end.

Definition opt_rnode_eqb (a b : option rnode) : bool :=
  match a, b with
  | None, None => true
  | Some x, Some y => rnode_eqb x y
  | _, _ => false
  end.

Definition is_attr (n : rnode) : bool := match n with SA _ :: _ => true | _ => false end.

Definition nattrs (t : tree) (p : rnode) : nat :=
  match fsub t (rev p) with Some (Node na _) => na | None => 0 end.
Definition nkids (t : tree) (p : rnode) : nat :=
  match fsub t (rev p) with Some (Node _ ks) => length ks | None => 0 end.

(* parent.getAttributes()->item(0..n-1)   and   getFirstChild()/getNextSibling() *)
Definition attr_items (t : tree) (p : rnode) : list rnode := map (fun i => SA i :: p) (seq 0 (nattrs t p)).
Definition kid_items (t : tree) (p : rnode) : list rnode := map (fun i => SC i :: p) (seq 0 (nkids t p)).

(* the found1/found2 scan shared by the attribute and the child branch of isNodeAfterSibling *)
Fixpoint scan (items : list rnode) (c1 c2 : rnode) (found1 found2 : bool) : bool :=
  match items with
  | [] => false
  | ch :: rest =>
    if rnode_eqb c1 ch then (if found2 then true else scan rest c1 c2 true found2)
    else if rnode_eqb c2 ch then (if found1 then false else scan rest c1 c2 found1 true)
    else scan rest c1 c2 found1 found2
  end.

Definition isNodeAfterSibling (t : tree) (p c1 c2 : rnode) : bool :=
  if negb (is_attr c1) && is_attr c2 then true
  else if is_attr c1 && negb (is_attr c2) then false
  else if is_attr c1 then scan (attr_items t p) c1 c2 false false
  else scan (kid_items t p) c1 c2 false false.

(* iterations of "while (parent != 0) { nParents++; parent = getParentOfNode(*parent); }" *)
Fixpoint chain (p : rnode) : nat := match p with [] => 1 | _ :: r => S (chain r) end.
Definition nparents (n : rnode) : nat := 2 + match parent n with None => 0 | Some p => chain p end.

(* the loop "while (0 != startNode1)": both start nodes are at the same depth after the adjustment;
   prev = (prevChild1, prevChild2), None on the first iteration *)
Fixpoint climb (t : tree) (edge : bool) (s1 s2 : rnode) (prev : option (rnode * rnode)) : bool :=
  if rnode_eqb s1 s2 then
    match prev with
    | None => edge
    | Some (p1, p2) => isNodeAfterSibling t s1 p1 p2
    end
  else
    match s1 with
    | [] => false
    | _ :: r1 => climb t edge r1 (tl s2) (Some (s1, s2))
    end.

Definition isNodeAfter_struct (t : tree) (n1 n2 : rnode) : bool :=
  let p1 := parent n1 in
  let p2 := parent n2 in
  if opt_rnode_eqb p1 p2 then
    isNodeAfterSibling t (tl n1) n1 n2
  else
    let np1 := nparents n1 in
    let np2 := nparents n2 in
    let s2 := if np1 <? np2 then skipn (np2 - np1) n2 else n2 in
    let s1 := if np2 <? np1 then skipn (np1 - np2) n1 else n1 in
    climb t (np2 <? np1) s1 s2 None.

(* ---- several documents *)

Definition lnode := (nat * rnode)%type.            (* (document number, node) *)
Definition world := list (tree * bool).            (* per document: its tree, isIndexed() *)

Definition wtree (W : world) (d : nat) : tree := fst (nth d W (Node 0 [], false)).
Definition windexed (W : world) (d : nat) : bool := snd (nth d W (Node 0 [], false)).

Definition lnode_eqb (a b : lnode) : bool := (fst a =? fst b) && rnode_eqb (snd a) (snd b).
Definition is_doc (n : lnode) : bool := match snd n with [] => true | _ => false end.
Definition key (W : world) (n : lnode) : nat := index (wtree W (fst n)) (snd n).
Definition isIndexed (W : world) (n : lnode) : bool := windexed W (fst n).
(* indexed document: document node 1, then 2, 3, ... in pre-order; otherwise the navigator's default 0 *)
Definition getIndex (W : world) (n : lnode) : nat := if isIndexed W n then S (key W n) else 0.

(* DOMServices::isNodeAfter / XalanSourceTreeDOMSupport::isNodeAfter, nodes of one document *)
Definition isNodeAfter (W : world) (n1 n2 : lnode) : bool :=
  if isIndexed W n1 then getIndex W n2 <? getIndex W n1
  else isNodeAfter_struct (wtree W (fst n1)) (snd n1) (snd n2).

(* DocumentPredicate (after commit efc3f6c): getOwner normalises "a document node owns itself", so the
   owner of every node is its document; true = "node1 belongs to another document: order it after" *)
Definition documentPredicate (n1 n2 : lnode) : bool := negb (fst n1 =? fst n2).

Definition indexPredicate (W : world) (n1 n2 : lnode) : bool :=
  if documentPredicate n1 n2 then true else getIndex W n2 <? getIndex W n1.

Definition executionContextPredicate (W : world) (n1 n2 : lnode) : bool :=
  if documentPredicate n1 n2 then true
  else if is_doc n1 then false
  else if is_doc n2 then true
  else isNodeAfter W n1 n2.

(* findInsertionPointLinearSearch: (fInsert, insertionPoint).
   [grp] = the variant of the loop that keeps the nodes of a document together (proposed repair of F7:
   a flag fSeenOwnDocument; a node of another document ends the scan once nodes of the own document were
   passed).  Which variant the source has is regenerated into GenNodelist.keeps_documents_together. *)
Fixpoint linearSearch (grp : bool) (pred : lnode -> lnode -> bool) (l : list lnode) (n : lnode) (pos : nat) (seen : bool)
  : bool * nat :=
  match l with
  | [] => (true, pos)
  | c :: r =>
    if lnode_eqb c n then (false, pos)
    else if grp && documentPredicate n c then
      (if seen then (true, pos) else linearSearch grp pred r n (S pos) seen)
    else if negb (pred n c) then (true, pos)
    else linearSearch grp pred r n (S pos) (grp || seen)
  end.

(* the loop of findInsertionPointBinarySearch; positions are offsets from begin; None = out of fuel.
   Result: (first, current, theCurrentIndex, fInsert) *)
Fixpoint bs_loop (fuel : nat) (get : nat -> nat) (x first last current cur : nat)
  : option (nat * nat * nat * bool) :=
  match fuel with
  | 0 => None
  | S f =>
    if first <=? last then
      let current := first + (last - first) / 2 in
      let cur := get current in
      if x <? cur then
        (if current =? 0 then Some (first, current, cur, true)
         else bs_loop f get x first (current - 1) current cur)
      else if cur <? x then bs_loop f get x (current + 1) last current cur
      else Some (first, current, cur, false)
    else Some (first, current, cur, true)
  end.

(* findInsertionPointBinarySearch on a non-empty range of length len *)
Definition binarySearch (get : nat -> nat) (len x : nat) : option (bool * nat) :=
  if get (len - 1) <? x then Some (true, len)
  else
    match bs_loop (S len) get x 0 (len - 1) len 0 with
    | None => None
    | Some (first, current, cur, fInsert) =>
      if negb (x =? cur) then
        if (current =? len) || (first =? len) then Some (fInsert, len)
        else if cur <? x then Some (fInsert, current + 1)
        else Some (fInsert, current)
      else Some (fInsert, 0)      (* insertionPoint is not assigned; it is not used when fInsert = false *)
    end.

Definition insert_at {A} (k : nat) (x : A) (l : list A) : list A := firstn k l ++ x :: skipn k l.

Definition dummy : lnode := (0, []).

(* MutableNodeRefList::addNodeInDocOrder (node != 0).  None = the model ran out of fuel (excluded by theorem) *)
Definition addNodeInDocOrder_v (grp : bool) (W : world) (l : list lnode) (n : lnode) : option (list lnode) :=
  match l with
  | [] => Some [n]
  | theFirst :: _ =>
    let theLast := last l dummy in
    if lnode_eqb theLast n then Some l
    else
      let theFirstOwner := fst theFirst in
      let r :=
        if isIndexed W n && (fst n =? theFirstOwner) then
          if (theFirstOwner =? fst theLast) then
            binarySearch (fun k => getIndex W (nth k l dummy)) (length l) (getIndex W n)
          else Some (linearSearch grp (indexPredicate W) l n 0 false)
        else Some (linearSearch grp (executionContextPredicate W) l n 0 false) in
      match r with
      | None => None
      | Some (fInsert, ip) => Some (if fInsert then insert_at ip n l else l)
      end
  end.

Definition add_step_v (grp : bool) (W : world) (acc : option (list lnode)) (n : lnode) : option (list lnode) :=
  match acc with None => None | Some l => addNodeInDocOrder_v grp W l n end.

(* the code as it is: the variant found in the source *)
Definition addNodeInDocOrder := addNodeInDocOrder_v keeps_documents_together.
Definition add_step := add_step_v keeps_documents_together.

Inductive order := Unknown | DocOrder | RevOrder.

Record nlist := NL { items : list lnode; ord : order }.

(* addNodesInDocOrder(const MutableNodeRefList&): trusts the order flag of the source list *)
Definition addNodesInDocOrder (W : world) (dst src : nlist) : option nlist :=
  let r :=
    match ord src with
    | Unknown => fold_left (add_step W) (items src) (Some (items dst))
    | DocOrder =>
      match items dst with
      | [] => Some (items src)
      | _ :: _ => fold_left (add_step W) (items src) (Some (items dst))
      end
    | RevOrder =>
      match items dst with
      | [] => Some (rev (items src))
      | _ :: _ => fold_left (add_step W) (rev (items src)) (Some (items dst))
      end
    end in
  match r with None => None | Some l => Some (NL l (ord dst)) end.

Definition nl_clear (_ : nlist) : nlist := NL [] Unknown.
Definition nl_addNode (l : nlist) (n : lnode) : nlist := NL (items l ++ [n]) (ord l).
Definition nl_addInOrder (W : world) (l : nlist) (n : lnode) : option nlist :=
  match addNodeInDocOrder W (items l) n with None => None | Some r => Some (NL r (ord l)) end.
Definition nl_reverse (l : nlist) : nlist :=
  NL (rev (items l)) (match ord l with DocOrder => RevOrder | RevOrder => DocOrder | Unknown => Unknown end).

(* setNode(i, 0) for the listed positions, then clearNulls() *)
Fixpoint remove_positions (pos : nat) (ps : list nat) (l : list lnode) : list lnode :=
  match l with
  | [] => []
  | x :: r => if existsb (Nat.eqb pos) ps then remove_positions (S pos) ps r
              else x :: remove_positions (S pos) ps r
  end.
Definition nl_nullClear (l : nlist) (ps : list nat) : nlist :=
  let r := remove_positions 0 ps (items l) in
  NL r (match r with [] => Unknown | _ :: _ => ord l end).

(* XPath::Union: an empty result list, every operand merged with addNodesInDocOrder, then setDocumentOrder *)
Definition union_code (W : world) (ops : list nlist) : option nlist :=
  match fold_left (fun acc o => match acc with None => None | Some r => addNodesInDocOrder W r o end)
                  ops (Some (NL [] Unknown)) with
  | None => None
  | Some r => Some (NL (items r) DocOrder)
  end.

(* ---- specification of ordered insertion *)

Fixpoint sinsert (W : world) (n : lnode) (l : list lnode) : list lnode :=
  match l with
  | [] => [n]
  | c :: r => if key W n <? key W c then n :: l
              else if key W n =? key W c then l
              else c :: sinsert W n r
  end.

Definition sort_dedup (W : world) (l : list lnode) : list lnode :=
  fold_left (fun acc n => sinsert W n acc) l [].

Fixpoint strictly_sorted (ks : list nat) : bool :=
  match ks with
  | [] => true
  | a :: r => match r with [] => true | b :: _ => (a <? b) && strictly_sorted r end
  end.

Definition sorted (W : world) (l : list lnode) : bool := strictly_sorted (map (key W) l).

(* honest producer (used by the drivers): set the flag that is true of the list, documents ordered by their
   number in the case; on one document this is [sorted] *)
Definition lnode_ltb (W : world) (a b : lnode) : bool :=
  (fst a <? fst b) || ((fst a =? fst b) && (key W a <? key W b)).
Fixpoint psorted (W : world) (l : list lnode) : bool :=
  match l with
  | [] => true
  | a :: r => match r with [] => true | b :: _ => lnode_ltb W a b && psorted W r end
  end.
Definition nl_flagIfSorted (W : world) (l : nlist) : nlist :=
  if psorted W (items l) then NL (items l) DocOrder
  else if psorted W (rev (items l)) then NL (items l) RevOrder
  else l.

(* guards *)
Definition in_doc (W : world) (d : nat) (n : lnode) : bool := (fst n =? d) && valid (wtree W d) (snd n).
Definition single_document (W : world) (d : nat) (l : list lnode) : bool :=
  forallb (in_doc W d) l.
Definition honest (W : world) (l : nlist) : bool :=
  match ord l with
  | Unknown => true
  | DocOrder => sorted W (items l)
  | RevOrder => sorted W (rev (items l))
  end.

(* ---- observations used in the statements about several documents *)
Fixpoint nodupb (l : list lnode) : bool :=
  match l with [] => true | x :: r => negb (existsb (lnode_eqb x) r) && nodupb r end.

Fixpoint drop_while_eq (a : nat) (l : list nat) : list nat :=
  match l with [] => [] | b :: r => if a =? b then drop_while_eq a r else l end.

(* the documents of the list form contiguous blocks (no d1, d2, d1) *)
Fixpoint groupedb (ds : list nat) : bool :=
  match ds with
  | [] => true
  | a :: r => negb (existsb (Nat.eqb a) (drop_while_eq a r)) && groupedb r
  end.

Definition wvalid (W : world) (n : lnode) : bool :=
  (fst n <? length W) && valid (wtree W (fst n)) (snd n).

(* ---- several documents: specification of the insertion that keeps the nodes of a document together.
   The list is a sequence of blocks, one per document, in order of first appearance; [seen] = nodes of the
   node's own document have been passed *)
Fixpoint minsert (W : world) (n : lnode) (l : list lnode) (seen : bool) : list lnode :=
  match l with
  | [] => [n]
  | c :: r =>
    if fst n =? fst c then
      if key W n <? key W c then n :: l
      else if key W n =? key W c then l
      else c :: minsert W n r true
    else if seen then n :: l
    else c :: minsert W n r false
  end.

(* the grouped-blocks invariant: inside a document strictly ascending, and a document's nodes contiguous
   (once the list leaves a document it never returns to it) *)
Fixpoint ginvb (W : world) (l : list lnode) : bool :=
  match l with
  | [] => true
  | c :: r =>
    forallb (fun m => negb (fst m =? fst c) || (key W c <? key W m)) r
    && match r with
       | [] => true
       | b :: _ => (fst b =? fst c) || forallb (fun m => negb (fst m =? fst c)) r
       end
    && ginvb W r
  end.

Definition honest_multi (W : world) (l : nlist) : bool :=
  match ord l with
  | Unknown => true
  | DocOrder => ginvb W (items l)
  | RevOrder => ginvb W (rev (items l))
  end.

(* ---- producers of XPath.cpp that set the order flag (findChildren, findAttributes, findParent, findSelf,
   findAncestors, findAncestorsOrSelf, findFollowingSiblings, findPreceedingSiblings) on one document:
   the walk (getFirstChild/getNextSibling, getAttributes()->item(i), getParentOfNode, getPreviousSibling),
   the node test as an arbitrary predicate, push_back of the matching nodes, then the flag.
   findDescendants / findFollowing / findPreceeding / findNamespace are not modelled. *)
Definition produced := (list rnode * order)%type.

Fixpoint chain_up (n : rnode) : list rnode :=            (* repeated getParentOfNode, nearest first *)
  match n with [] => [] | _ :: r => r :: chain_up r end.

Definition findChildren (t : tree) (test : rnode -> bool) (ctx : rnode) : produced :=
  (filter test (kid_items t ctx), DocOrder).
Definition findAttributes (t : tree) (test : rnode -> bool) (ctx : rnode) : produced :=
  (filter test (attr_items t ctx), DocOrder).
Definition findParent (t : tree) (test : rnode -> bool) (ctx : rnode) : produced :=
  (match parent ctx with None => [] | Some p => filter test [p] end, DocOrder).
Definition findSelf (t : tree) (test : rnode -> bool) (ctx : rnode) : produced :=
  (filter test [ctx], DocOrder).
Definition findAncestors (t : tree) (test : rnode -> bool) (ctx : rnode) : produced :=
  (filter test (chain_up ctx), RevOrder).
Definition findAncestorsOrSelf (t : tree) (test : rnode -> bool) (ctx : rnode) : produced :=
  (filter test (ctx :: chain_up ctx), RevOrder).
Definition findFollowingSiblings (t : tree) (test : rnode -> bool) (ctx : rnode) : produced :=
  (match ctx with
   | SC i :: p => filter test (map (fun k => SC k :: p) (seq (S i) (nkids t p - S i)))
   | _ => []                                              (* document node, attribute: no next sibling *)
   end, DocOrder).
Definition findPreceedingSiblings (t : tree) (test : rnode -> bool) (ctx : rnode) : produced :=
  (match ctx with
   | SC i :: p => filter test (map (fun k => SC k :: p) (rev (seq 0 i)))
   | _ => []
   end, RevOrder).

(* the end of XPath::step for the last step: a list flagged reverse document order is reversed *)
Definition step_finish (r : produced) : produced :=
  match snd r with RevOrder => (rev (fst r), DocOrder) | _ => r end.

Definition honest_produced (t : tree) (r : produced) : bool :=
  forallb (valid t) (fst r) &&
  match snd r with
  | Unknown => true
  | DocOrder => strictly_sorted (map (index t) (fst r))
  | RevOrder => strictly_sorted (map (index t) (rev (fst r)))
  end.

(* ---- document() (XSLT/FunctionDocument.cpp): every reference of the argument is resolved to a node (a document
   node, or the element of a fragment identifier) and put into the result with addNodeInDocOrder - pinned from the
   source as GenNodelist.document_function_inserts_in_doc_order - and doExecute flags the list document order *)
Definition functionDocument (W : world) (resolved : list lnode) : option nlist :=
  if document_function_inserts_in_doc_order then
    match fold_left (add_step W) resolved (Some []) with
    | None => None
    | Some l => Some (NL l DocOrder)
    end
  else None.
