(* TmplNq.v — C10: the non-quiet path of findTemplate (scan with run-time priority, same-text
   skip, conflict array) against the quiet path. *)
From Coq Require Import List Bool ZArith NArith Lia Sorting.Sorted.
From Coq Require Import ZifyBool ZifyNat ZifyN.
Require Import XV.TmplDefs XV.TmplModel XV.TmplSelect.
Import ListNotations.
Local Open Scope Z_scope.

Section Nq.
  Variable node : Type.
  Variable pmatch : N -> node -> bool.

  Notation tmatch := (tmatch node pmatch).
  Notation ok := (ok node pmatch).
  Notation nq_step := (nq_step node pmatch).

  Fixpoint first_ok (mode : option N) (n : node) (l : list entry) : option entry :=
    match l with
    | [] => None
    | e :: r => if ok mode n e then Some e else first_ok mode n r
    end.

  Lemma find_in_list_first_ok : forall l mode n,
    find_in_list node pmatch l mode n = option_map e_tmpl (first_ok mode n l).
  Proof.
    induction l as [|e r IH]; intros; cbn [TmplDefs.find_in_list first_ok]; [reflexivity|].
    unfold TmplSelect.ok. destruct (mode_eqb mode (t_mode (e_tmpl e)) && tmatch (e_tmpl e) n); [reflexivity | apply IH].
  Qed.

  Lemma first_ok_app : forall mode n l e,
    first_ok mode n (l ++ [e]) =
    match first_ok mode n l with Some f => Some f | None => if ok mode n e then Some e else None end.
  Proof.
    induction l as [|x r IH]; intros; cbn [app first_ok]; [reflexivity|].
    destruct (ok mode n x); [reflexivity | apply IH].
  Qed.

  Lemma first_ok_in : forall mode n l f, first_ok mode n l = Some f -> In f l /\ ok mode n f = true.
  Proof.
    induction l as [|x r IH]; intros f H; cbn [first_ok] in H; [discriminate|].
    destruct (ok mode n x) eqn:E.
    - inversion H; subst. split; [left; reflexivity | exact E].
    - destruct (IH f H). split; [right; assumption | assumption].
  Qed.

  (* the guards, for one list and one node *)
  Definition nq_guard (n : node) (l : list entry) : Prop :=
    (forall e, In e l -> uniform_template (e_tmpl e) = true /\ runtime_uniform_template (e_tmpl e) = true /\
                         In (e_alt e) (t_alts (e_tmpl e))) /\
    (forall e1 e2, In e1 l -> In e2 l ->
       t_text (e_tmpl e1) = t_text (e_tmpl e2) -> t_prio (e_tmpl e1) = t_prio (e_tmpl e2) ->
       tmatch (e_tmpl e1) n = tmatch (e_tmpl e2) n).

  Definition nq_inv (mode : option N) (n : node) (st : nq_state) (pre : list entry) : Prop :=
    match first_ok mode n pre with
    | None => nq_best st = None /\ nq_conf st = []
    | Some f => exists b, nq_best st = Some (b, prio_or_default f) /\
                          match nq_conf st with [] => b = f | c :: _ => c = f end
    end /\
    (forall p, nq_prev st = Some p -> In p pre /\ mode_eqb mode (t_mode (e_tmpl p)) = true).

  Lemma opt_z_eqb_eq : forall a b, opt_z_eqb a b = true -> a = b.
  Proof. destruct a, b; cbn; intro H; try discriminate; try reflexivity. f_equal; lia. Qed.

  Definition skip_test (st : nq_state) (e : entry) : bool :=
    match nq_prev st with
    | Some p => (t_text (e_tmpl p) =? t_text (e_tmpl e))%N && opt_z_eqb (t_prio (e_tmpl p)) (t_prio (e_tmpl e))
    | None => false
    end.

  Definition nq_exam (n : node) (st : nq_state) (e : entry) : nq_state :=
    match first_matching node pmatch (t_alts (e_tmpl e)) n with
    | None => {| nq_best := nq_best st; nq_conf := nq_conf st; nq_prev := Some e |}
    | Some a =>
        let pr := match t_prio (e_tmpl e) with Some p => p | None => score_value (a_rscore a) end in
        match nq_best st with
        | None => {| nq_best := Some (e, pr); nq_conf := []; nq_prev := Some e |}
        | Some (b, pb) =>
            if pb <? pr then {| nq_best := Some (e, pr); nq_conf := []; nq_prev := Some e |}
            else if pr =? pb then
              {| nq_best := Some (e, pr);
                 nq_conf := conf_add_if_absent (nq_conf st) b ++ [e];
                 nq_prev := Some e |}
            else {| nq_best := nq_best st; nq_conf := nq_conf st; nq_prev := Some e |}
        end
    end.

  Lemma nq_step_unfold : forall mode n st e,
    nq_step mode n st e =
    if negb (mode_eqb mode (t_mode (e_tmpl e))) then st
    else if skip_test st e then st else nq_exam n st e.
  Proof. reflexivity. Qed.

  Lemma nq_exam_inv : forall mode n st pre e,
    nq_inv mode n st pre ->
    (forall x, In x pre -> ge_entry x e) ->
    nq_guard n (pre ++ [e]) ->
    mode_eqb mode (t_mode (e_tmpl e)) = true ->
    nq_inv mode n (nq_exam n st e) (pre ++ [e]).
  Proof.
    intros mode n st pre e [Hb Hp] Hge [Gu Gt] Em. unfold nq_inv. rewrite first_ok_app.
    assert (He : In e (pre ++ [e])) by (apply in_app_iff; right; left; reflexivity).
    unfold nq_exam, TmplSelect.ok. rewrite Em. cbn [andb]. unfold TmplDefs.tmatch.
    destruct (first_matching node pmatch (t_alts (e_tmpl e)) n) as [a|] eqn:Ea.
    2:{ (* examined, no match *)
      cbn [nq_best nq_conf nq_prev]. split.
      - destruct (first_ok mode n pre); exact Hb.
      - intros p Hpp. inversion Hpp; subst. split; [exact He | exact Em]. }
    (* examined, matches *)
    destruct (first_matching_some node pmatch _ _ _ Ea) as [Hain _].
    destruct (Gu e He) as [Hu [Hru Halt]].
    assert (Hpr : match t_prio (e_tmpl e) with Some p => p | None => score_value (a_rscore a) end = prio_or_default e).
    { pose proof (uniform_prio (e_tmpl e) a (e_alt e) Hu Hain Halt) as Hup.
      unfold prio_of in Hup. unfold prio_or_default. unfold runtime_uniform_template in Hru.
      destruct (t_prio (e_tmpl e)); [reflexivity|].
      rewrite forallb_forall in Hru. specialize (Hru a Hain). lia. }
    cbv zeta. rewrite Hpr.
    destruct (first_ok mode n pre) as [f|] eqn:Ef.
    - destruct Hb as [b [Hbest Hconf]]. rewrite Hbest.
      destruct (first_ok_in _ _ _ _ Ef) as [Hfin _].
      pose proof (Hge f Hfin) as Hfe. unfold ge_entry in Hfe.
      destruct (prio_or_default f <? prio_or_default e) eqn:E1; [lia|].
      destruct (prio_or_default e =? prio_or_default f) eqn:E2.
      + cbn [nq_best nq_conf nq_prev]. split.
        * exists e. split; [f_equal; f_equal; lia|].
          unfold conf_add_if_absent. destruct (nq_conf st) as [|c r] eqn:Ec.
          -- cbn. subst b. reflexivity.
          -- destruct (existsb (fun x => (e_pos x =? e_pos b)%N) (c :: r)); cbn; exact Hconf.
        * intros p Hpp. inversion Hpp; subst. split; [exact He | exact Em].
      + cbn [nq_best nq_conf nq_prev]. split.
        * exists b. split; [reflexivity | exact Hconf].
        * intros p Hpp. inversion Hpp; subst. split; [exact He | exact Em].
    - destruct Hb as [Hbest Hconf]. rewrite Hbest. cbn [nq_best nq_conf nq_prev]. split.
      + exists e. split; reflexivity.
      + intros p Hpp. inversion Hpp; subst. split; [exact He | exact Em].
  Qed.

  Lemma first_ok_none : forall mode n l p, first_ok mode n l = None -> In p l -> ok mode n p = false.
  Proof.
    induction l as [|x r IH]; intros p Ef Hp; [destruct Hp|].
    cbn [first_ok] in Ef. destruct (ok mode n x) eqn:Ex; [discriminate|].
    destruct Hp as [<-|Hr]; [exact Ex | apply IH; assumption].
  Qed.

  Lemma nq_step_inv : forall mode n st pre e,
    nq_inv mode n st pre ->
    (forall x, In x pre -> ge_entry x e) ->
    nq_guard n (pre ++ [e]) ->
    nq_inv mode n (nq_step mode n st e) (pre ++ [e]).
  Proof.
    intros mode n st pre e Hi Hge Hg. rewrite nq_step_unfold.
    assert (Hin : forall x, In x pre -> In x (pre ++ [e])) by (intros; apply in_app_iff; left; assumption).
    assert (He : In e (pre ++ [e])) by (apply in_app_iff; right; left; reflexivity).
    destruct (mode_eqb mode (t_mode (e_tmpl e))) eqn:Em; cbn [negb].
    2:{ (* other mode *)
      destruct Hi as [Hb Hp]. unfold nq_inv. rewrite first_ok_app.
      assert (Hok : ok mode n e = false) by (unfold TmplSelect.ok; rewrite Em; reflexivity).
      rewrite Hok. split.
      - destruct (first_ok mode n pre); exact Hb.
      - intros p Hpp. destruct (Hp p Hpp). split; auto. }
    destruct (skip_test st e) eqn:Es; [|apply nq_exam_inv; assumption].
    (* skipped: the previously examined entry has the same pattern text and priority *)
    destruct Hi as [Hb Hp]. destruct Hg as [Gu Gt]. unfold nq_inv. rewrite first_ok_app.
    unfold skip_test in Es. destruct (nq_prev st) as [p|] eqn:Ep; [|discriminate].
    apply andb_true_iff in Es. destruct Es as [Et Epr].
    apply N.eqb_eq in Et. apply opt_z_eqb_eq in Epr.
    destruct (Hp p eq_refl) as [Hpin Hpm].
    split.
    - destruct (first_ok mode n pre) eqn:Ef; [exact Hb|].
      pose proof (first_ok_none _ _ _ _ Ef Hpin) as Hokp.
      unfold TmplSelect.ok in Hokp |- *. rewrite Hpm in Hokp. rewrite Em. cbn [andb] in *.
      rewrite <- (Gt p e (Hin p Hpin) He Et Epr). rewrite Hokp. exact Hb.
    - intros q Hq. destruct (Hp q Hq). split; auto.
  Qed.

  Lemma nq_fold_inv : forall mode n l pre st,
    nq_inv mode n st pre -> StronglySorted ge_entry (pre ++ l) -> nq_guard n (pre ++ l) ->
    nq_inv mode n (fold_left (nq_step mode n) l st) (pre ++ l).
  Proof.
    induction l as [|e r IH]; intros pre st Hi Hs Hg; cbn [fold_left].
    - rewrite app_nil_r. exact Hi.
    - replace (pre ++ e :: r) with ((pre ++ [e]) ++ r) in * by (rewrite <- app_assoc; reflexivity).
      apply IH; [|exact Hs | exact Hg].
      apply nq_step_inv; [exact Hi | |].
      + intros x Hx. clear - Hs Hx.
        induction pre as [|y q IHq]; [destruct Hx|].
        cbn [app] in Hs. inversion Hs as [|? ? Hq Hall]; subst.
        destruct Hx as [->|Hx]; [|apply IHq; assumption].
        rewrite Forall_forall in Hall. apply Hall. rewrite <- app_assoc. apply in_app_iff. right. apply in_app_iff. left. left. reflexivity.
      + destruct Hg as [G1 G2]. split.
        * intros x Hx. apply G1. apply in_app_iff. left. exact Hx.
        * intros x y Hx Hy. apply G2; apply in_app_iff; left; assumption.
  Qed.

  (* on a sorted list, under the guards, the non-quiet scan returns what the quiet scan returns *)
  Lemma nq_eq_quiet_list : forall l mode n,
    StronglySorted ge_entry l -> nq_guard n l ->
    find_in_list_nq node pmatch l mode n = find_in_list node pmatch l mode n.
  Proof.
    intros l mode n Hs Hg. rewrite find_in_list_first_ok. unfold TmplDefs.find_in_list_nq.
    pose proof (nq_fold_inv mode n l [] {| nq_best := None; nq_conf := []; nq_prev := None |}) as H.
    cbn [app] in H. destruct H as [H _]; [|exact Hs | exact Hg|].
    - split; [cbn; split; reflexivity | intros p Hp; discriminate].
    - destruct (first_ok mode n l) as [f|].
      + destruct H as [b [Hb Hc]]. rewrite Hb.
        destruct (nq_conf _) as [|c r]; cbn; congruence.
      + destruct H as [Hb Hc]. rewrite Hb, Hc. reflexivity.
  Qed.

End Nq.
