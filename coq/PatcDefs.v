(* PatcDefs.v — C09 part "compile": executable model of the match-pattern compiler of xalan-c as the code is now
   (XPathProcessorImpl::initMatchPattern / Pattern / LocationPathPattern / IdKeyPattern / RelativePathPattern /
   StepPattern / AbbreviatedNodeTestStep, src/xalanc/XPath/XPathProcessorImpl.cpp), producing the op-map-shaped
   XpAst.pattern.  Definitions only.  The tokenizer, NodeTest(), Predicate(), FunctionCall() and Expr() are the ones
   of the expression compiler (XpcLexDefs / XpcParseDefs, imported, not copied): the C++ functions are shared too.

   State = the token queue from m_token on (see XpcParseDefs).  One thing the expression compiler never needs is
   modelled in addition: LocationPathPattern() looks one token BACK (lookahead('|', -1)); the only way the token before
   the current one can be '|' at that point is that the alternative was entered right after a '|' and nothing was
   consumed since, so the state carries that bit (after_bar).

   Encoding of the op map in XpAst.pattern (harness/patc.cpp decodes the real map into the same shape):
     eFROM_ROOT eNODETYPE_ROOT                          (PkRoot, TRoot, [])                 leading '/'
     eMATCH_ANY_ANCESTOR_WITH_PREDICATE eNODETYPE_NODE  (PkAnyAncestorWithPredicate, TNode, [])   leading '//'
     eOP_FUNCTION ...                                   (PkFunction f, TNode, [])           id(..) / key(..) head
     eMATCH_ANY_ANCESTOR_WITH_FUNCTION_CALL             (PkAnyAncestorWithFunctionCall, TNode, [])   '//' after the head
     eMATCH_ATTRIBUTE / _IMMEDIATE_ANCESTOR / _ANY_ANCESTOR   (PkAttribute | PkImmediateAncestor | PkAnyAncestor, test, preds)
   m_requireLiterals (set by IdKeyPattern around FunctionCall): Argument() is called for every argument of every call
   compiled meanwhile, nested ones included, and refuses an argument whose FIRST TOKEN is not a literal; it then compiles
   a whole Expr().  On the compiled tree: every argument of every call node starts with a literal (starts_lit / lit_ok). *)
From Coq Require Import List NArith Bool Arith.
Import ListNotations.
Require Import XV.XpAst XV.GenXpc XV.GenPatc XV.XpcLexDefs XV.XpcParseDefs.

Definition kw_id : str := gen_patc_kw_id.
Definition kw_key : str := gen_patc_kw_key.
Definition kw_child : str := gen_patc_kw_child.
Definition kw_attribute : str := gen_patc_kw_attribute.

(* the first token of the text this tree was compiled from is a literal *)
Fixpoint starts_lit (e : expr) : bool :=
  match e with
  | ELiteral _ => true
  | EOr a _ | EAnd a _ | ENe a _ | EEq a _ | ELte a _ | ELt a _ | EGte a _ | EGt a _
  | EPlus a _ | EMinus a _ | EMult a _ | EDiv a _ | EMod a _ => starts_lit a
  | EUnion (a :: _) => starts_lit a
  | EPath (Some h) _ _ => starts_lit h
  | _ => false
  end.
(* what Argument() enforces while m_requireLiterals is set *)
Fixpoint lit_ok (e : expr) : bool :=
  let prs := fix prs (l : list pred) : bool := match l with [] => true | (_, p) :: r => (lit_ok p && prs r)%bool end in
  let lst := fix lst (l : list expr) : bool := match l with [] => true | x :: r => (lit_ok x && lst r)%bool end in
  let args := fix args (l : list expr) : bool :=
    match l with [] => true | x :: r => (starts_lit x && lit_ok x && args r)%bool end in
  match e with
  | EOr a b | EAnd a b | ENe a b | EEq a b | ELte a b | ELt a b | EGte a b | EGt a b
  | EPlus a b | EMinus a b | EMult a b | EDiv a b | EMod a b => (lit_ok a && lit_ok b)%bool
  | ENeg a | EGroup a => lit_ok a
  | EUnion l => lst l
  | ELiteral _ | EVar _ _ | ENumLit _ => true
  | EFunc _ l | EExtFunc _ _ l => args l
  | EPath h hp st =>
      ((match h with Some x => lit_ok x | None => true end) && prs hp &&
       (fix ss (l : list step) : bool := match l with [] => true | (_, _, ps) :: r => (prs ps && ss r)%bool end) st)%bool
  end.

(* the shapes of fixes/C09c/01_pattern_grammar.patch: translator/gen_patc.py recognises which text each function has *)
Record pflags := mkpf {
  px_args : bool;     (* Argument(): a required literal is compiled as a literal and must be followed by ',' or ')' *)
  px_count : bool;    (* IdKeyPattern(): id takes one argument, key two *)
  px_lpp : bool       (* LocationPathPattern(): no empty alternative, no '///', a separator between an id()/key() head and a step *)
}.
Definition pflags_here : pflags := mkpf gen_patc_fix_args gen_patc_fix_count gen_patc_fix_lpp.
Definition pflags_before : pflags := mkpf false false false.
Definition pflags_fixed : pflags := mkpf true true true.

Definition is_elit (e : expr) : bool := match e with ELiteral _ => true | _ => false end.
(* what IdKeyPattern() lets through: f is what FunctionCall() compiled, is_key = tokenIs(s_functionKeyString) on entry *)
Definition head_call_ok (pf : pflags) (is_key : bool) (f : expr) : bool :=
  ((if px_args pf then match f with EFunc _ args => forallb is_elit args | _ => false end else lit_ok f) &&
   (if px_count pf then match f with EFunc _ args => Nat.eqb (length args) (if is_key then 2 else 1) | _ => false end
    else true))%bool.

Definition head_root : pstep := (PkRoot, TRoot, []).
Definition head_anyp : pstep := (PkAnyAncestorWithPredicate, TNode, []).
Definition head_fn (f : expr) : pstep := (PkFunction f, TNode, []).
Definition head_anyf : pstep := (PkAnyAncestorWithFunctionCall, TNode, []).

Section PatParse.
Variable fl : flags.
Variable pf : pflags.
Variable ns : str -> option str.
Variable pe : nat -> list tok -> res (expr * list tok).     (* Expr(), with its own fuel *)
Variable lf : nat.                                          (* fuel of the loops *)

(* tokenIs('/') && lookahead('/', 1) *)
Definition is_dslash (ts : list tok) : bool := (N.eqb (tokc ts) ch_solidus && look_c ts ch_solidus 1)%bool.

(* the axis part of AbbreviatedNodeTestStep(): true = eMATCH_IMMEDIATE_ANCESTOR was appended and matchTypePos set,
   false = eMATCH_ATTRIBUTE; the queue stands at the node test.  (The tokenIs('/') inside the last else is dead.) *)
Definition pp_axis (ts : list tok) : res (bool * list tok) :=
  if N.eqb (tokc ts) ch_at then Ok (false, tl ts)
  else if look_s ts gen_xpc_kw_axis_sep 1 then
    (if tok_is ts kw_attribute then Ok (false, tl (tl ts))
     else if tok_is ts kw_child then Ok (true, tl (tl ts))
     else Err)                                               (* OnlyChildAndAttributeAxesAreAllowed *)
  else if N.eqb (tokc ts) ch_solidus then
    (if (negb (look_s ts gen_xpc_kw_axis_sep 2) && negb (look_c ts ch_at 1))%bool then Ok (true, tl ts)
     else
       let t1 := tl ts in
       if N.eqb (tokc t1) ch_at then Ok (false, tl t1)
       else if tok_is t1 kw_attribute then Ok (false, tl (tl t1))
       else if tok_is t1 kw_child then Ok (true, tl (tl t1))
       else Err)
  else Ok (true, ts).

(* AbbreviatedNodeTestStep() *)
Definition pp_step (ts : list tok) : res (pstep * list tok) :=
  bind (child, ts1) <- pp_axis ts;
  bind (t, ts2) <- p_nodetest fl ns ts1;
  bind (ps, ts3) <- p_preds pe lf 0 ts2;
  let k := if child then (if is_dslash ts3 then PkAnyAncestor else PkImmediateAncestor) else PkAttribute in
  Ok ((k, t, ps), ts3).

(* RelativePathPattern() *)
Fixpoint pp_steps (m : nat) (ts : list tok) : res (list pstep * list tok) :=
  match m with
  | 0 => Fuel
  | S m' =>
      bind (s, ts1) <- pp_step ts;
      if N.eqb (tokc ts1) ch_solidus then
        bind (r, ts2) <- pp_steps m' (tl ts1); Ok (s :: r, ts2)
      else Ok ([s], ts1)
  end.

Definition is_idkey (ts : list tok) : bool :=
  (look_c ts ch_lparen 1 && (tok_is ts kw_id || tok_is ts kw_key))%bool.

(* the head of LocationPathPattern(): (steps appended, fStepRequired, queue) *)
Definition pp_head (ts : list tok) : res (list pstep * bool * list tok) :=
  if is_idkey ts then
    bind (f, t1) <- p_funcall fl ns pe lf 0 ts;                        (* IdKeyPattern() *)
    if negb (head_call_ok pf (tok_is ts kw_key) f) then Err            (* LiteralArgumentIsRequired / argument count *)
    else if (px_lpp pf && negb (isnil t1) && negb (N.eqb (tokc t1) ch_solidus) && negb (N.eqb (tokc t1) ch_bar))%bool
         then Err                                                      (* UnexpectedTokenFound: "id('x')a" (repaired shape) *)
    else if is_dslash t1 then Ok ([head_fn f; head_anyf], false, tl t1)
    else Ok ([head_fn f], false, t1)
  else if N.eqb (tokc ts) ch_solidus then
    (if look_c ts ch_solidus 1 then Ok ([head_anyp], true, tl (tl ts))
     else Ok ([head_root], false, tl ts))
  else Ok ([], false, ts).

(* LocationPathPattern() behind its head; after_bar: the token before the alternative is '|' *)
Definition pp_tail (after_bar : bool) (hd : list pstep) (req : bool) (ts1 : list tok) : res (lpattern * list tok) :=
  if px_lpp pf then                                                     (* the repaired shape *)
    (if (negb (isnil ts1) && negb (N.eqb (tokc ts1) ch_bar))%bool then
       (if (req && N.eqb (tokc ts1) ch_solidus)%bool then Err          (* "///a" *)
        else bind (ss, ts2) <- pp_steps lf ts1; Ok (hd ++ ss, ts2))
     else if (req || isnil hd)%bool then Err                            (* '//' alone; an empty alternative *)
     else Ok (hd, ts1))
  else
  if (req && (isnil ts1 || N.eqb (tokc ts1) ch_bar))%bool then Err      (* ExpectedNodeTest *)
  else if isnil ts1 then Ok (hd, ts1)
  else if negb (N.eqb (tokc ts1) ch_bar) then
    bind (ss, ts2) <- pp_steps lf ts1; Ok (hd ++ ss, ts2)
  else if (after_bar && isnil hd)%bool then Err                         (* lookahead('|', -1): UnexpectedTokenFound *)
  else Ok (hd, ts1).

(* LocationPathPattern() *)
Definition pp_lpp (after_bar : bool) (ts : list tok) : res (lpattern * list tok) :=
  bind (hd, req, ts1) <- pp_head ts;
  pp_tail after_bar hd req ts1.

(* Pattern() *)
Fixpoint pp_pattern (m : nat) (after_bar : bool) (ts : list tok) : res (pattern * list tok) :=
  match m with
  | 0 => Fuel
  | S m' =>
      bind (a, ts1) <- pp_lpp after_bar ts;
      if N.eqb (tokc ts1) ch_bar then
        bind (r, ts2) <- pp_pattern m' true (tl ts1); Ok (a :: r, ts2)
      else Ok ([a], ts1)
  end.

End PatParse.

(* initMatchPattern after tokenize(): nextToken(); Pattern(); anything left is ExtraIllegalTokens *)
Definition pparse (fl : flags) (pf : pflags) (ns : str -> option str) (ts : list tok) : res pattern :=
  let n := S (length ts) in
  match pp_pattern fl pf ns (p_expr fl ns n) (S n) (S n) false ts with
  | Ok (p, []) => Ok p
  | Ok (_, _ :: _) => Err
  | Err => Err
  | Fuel => Fuel
  end.

Definition pcompile (fl : flags) (pf : pflags) (ns : str -> option str) (s : str) : res pattern :=
  match tokenize fl ns s with
  | Ok ts => pparse fl pf ns ts
  | Err => Err
  | Fuel => Fuel
  end.

Definition pcompile_here (ns : str -> option str) (s : str) : res pattern := pcompile flags_here pflags_here ns s.

(* the Pattern grammar has no empty alternative; the compiler accepts one at the very start ("|a") and at the very end
   ("a|") of a pattern — see Properties_C09c.pattern_alternatives_nonempty_refuted *)
Definition no_empty_alt (P : pattern) : bool := forallb (fun a => negb (isnil a)) P.
