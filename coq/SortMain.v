(* C16 — main results about the model: what xsl:for-each / xsl:apply-templates observe. *)
From Coq Require Import ZArith List Bool Arith Lia Permutation Sorted.
Import ListNotations.
Require Import XV.GenSort XV.SortDefs XV.SortOrder XV.SortCache XV.SortModel XV.SortRefine.

Lemma nth_error_ext_eq : forall A (l1 l2 : list A), (forall j, nth_error l1 j = nth_error l2 j) -> l1 = l2.
Proof.
  induction l1 as [|x t IH]; intros l2 H; destruct l2 as [|y t2].
  - reflexivity.
  - specialize (H 0). discriminate.
  - specialize (H 0). discriminate.
  - pose proof (H 0) as H0. simpl in H0. inversion H0; subst. f_equal. apply IH. intros j. apply (H (S j)).
Qed.

Section Main.
  Variable coll : str -> case_order -> str -> str -> comparison.
  Hypothesis COLL : coll_ok coll.
  Variable keys : list skey.
  Variable nev : nat -> nat -> Z.
  Variable sev : nat -> nat -> str.

  Notation c := (cmp coll keys nev sev).

  (* the specification-level result: the generic stable sort of the entries *)
  Definition spec_sorted (nodes : list N) : list entry := isort_g entry c (entries_from 0 nodes).

  (* the entries as sorted by the code as modelled (caches, comparator as coded) *)
  Definition code_sorted (nodes : list N) : list entry :=
    fst (isort_st coll keys (length nodes) nev sev (entries_from 0 nodes) empty_caches).

  Theorem code_sorted_spec : forall nodes, code_sorted nodes = spec_sorted nodes.
  Proof.
    intros nodes. unfold code_sorted, spec_sorted.
    pose proof (isort_st_pure coll keys (length nodes) nev sev (entries_from 0 nodes) empty_caches
                              (caches_ok_empty keys (length nodes) nev sev)
                              (entries_from_range nodes 0 (length nodes) (Nat.le_refl _))) as (V & _ & _).
    rewrite V. apply isort_generic.
  Qed.

  Lemma isort_all_eq : forall (l : list entry), (forall x y, c x y = Eq) -> isort_g entry c l = l.
  Proof.
    intros l H. induction l as [|x t IH]; simpl; [reflexivity|]. rewrite IH.
    destruct t as [|y t']; simpl; [reflexivity|]. unfold ltb. rewrite H. reflexivity.
  Qed.

  Theorem node_sort_spec : forall nodes, node_sort coll keys nev sev nodes = map e_node (spec_sorted nodes).
  Proof.
    intros nodes. unfold node_sort. destruct keys as [|k rest] eqn:EK.
    - unfold spec_sorted. rewrite isort_all_eq; [symmetry; apply entries_from_nodes|]. intros x y. rewrite EK. reflexivity.
    - rewrite <- EK. fold (code_sorted nodes). rewrite code_sorted_spec. reflexivity.
  Qed.

  (* createSelectedAndSortedNodeList's shortcut for lists of length <= 1 changes nothing *)
  Theorem selected_and_sorted_spec : forall nodes,
      selected_and_sorted coll keys nev sev nodes = map e_node (spec_sorted nodes).
  Proof.
    intros nodes. unfold selected_and_sorted. destruct (Nat.leb (length nodes) 1) eqn:L.
    - destruct nodes as [|x [|y t]]; try reflexivity. simpl in L. discriminate.
    - apply node_sort_spec.
  Qed.

  Theorem sort_perm : forall nodes, Permutation (selected_and_sorted coll keys nev sev nodes) nodes.
  Proof.
    intros nodes. rewrite selected_and_sorted_spec. unfold spec_sorted.
    rewrite <- (entries_from_nodes nodes 0) at 2. apply Permutation_map. apply isort_perm.
  Qed.

  Theorem sort_sorted : forall nodes, StronglySorted (le entry c) (spec_sorted nodes).
  Proof. intros nodes. apply isort_sorted. apply cmp_tp. exact COLL. Qed.

  Theorem sort_stable : forall nodes, stable entry c (entries_from 0 nodes) (spec_sorted nodes).
  Proof. intros nodes. apply isort_stable. apply cmp_tp. exact COLL. Qed.

  (* whatever stable sorting algorithm is used with this comparator, the result is this list *)
  Theorem sort_unique : forall nodes l',
      StronglySorted (le entry c) l' -> stable entry c (entries_from 0 nodes) l' -> l' = spec_sorted nodes.
  Proof. intros nodes l' S St. apply stable_sort_unique; [apply cmp_tp; exact COLL | exact S | exact St]. Qed.

  (* stability read through document order (original positions) *)
  Lemma isort_before : forall l,
      StronglySorted (fun a b => e_pos a < e_pos b) l -> StronglySorted (before entry c e_pos) (isort_g entry c l).
  Proof.
    induction l as [|x t IH]; intros H; simpl; [constructor|].
    inversion H as [|? ? Ht Hx]; subst.
    apply ins_sorted_pos; [apply cmp_tp; exact COLL | apply IH; exact Ht |].
    eapply Permutation_Forall; [symmetry; apply isort_perm | exact Hx].
  Qed.

  Theorem sort_doc_order : forall nodes, StronglySorted (before entry c e_pos) (spec_sorted nodes).
  Proof. intros nodes. apply isort_before. apply (entries_from_pos_sorted nodes 0). Qed.

  (* position() and last() *)
  Lemma number_from_nth : forall l i last j,
      nth_error (number_from i last l) j = option_map (fun n => (n, i + j, last)) (nth_error l j).
  Proof.
    induction l as [|x t IH]; intros i last j; destruct j; simpl; try reflexivity.
    - rewrite Nat.add_0_r. reflexivity.
    - rewrite IH. replace (S i + j) with (i + S j) by lia. reflexivity.
  Qed.

  Theorem position_last_sorted : forall nodes j,
      nth_error (for_each coll keys nev sev nodes) j =
      option_map (fun n => (n, S j, length nodes)) (nth_error (map e_node (spec_sorted nodes)) j).
  Proof.
    intros nodes j. unfold for_each. rewrite number_from_nth.
    rewrite (Permutation_length (sort_perm nodes)). rewrite selected_and_sorted_spec. reflexivity.
  Qed.

  Theorem for_each_spec : forall nodes,
      let s := spec_sorted nodes in
      map (fun t => fst (fst t)) (for_each coll keys nev sev nodes) = map e_node s /\
      Permutation (map e_node s) nodes /\
      StronglySorted (before entry c e_pos) s /\
      (forall j n p l, nth_error (for_each coll keys nev sev nodes) j = Some (n, p, l) -> p = S j /\ l = length nodes).
  Proof.
    intros nodes s. split; [|split; [|split]].
    - apply nth_error_ext_eq. intros j. rewrite nth_error_map, position_last_sorted.
      fold s. destruct (nth_error (map e_node s) j); reflexivity.
    - unfold s. rewrite <- selected_and_sorted_spec. apply sort_perm.
    - apply sort_doc_order.
    - intros j n p l H. rewrite position_last_sorted in H.
      destruct (nth_error (map e_node (spec_sorted nodes)) j); simpl in H; [|discriminate].
      inversion H; subst. split; reflexivity.
  Qed.
End Main.
