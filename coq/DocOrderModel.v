(* C12 - proofs about document order: the structural comparison of DOMServices::isNodeAfter equals the
   comparison of pre-order indexes, for every tree and every pair of nodes. *)
From Coq Require Import List Arith Bool Lia ZifyBool ZifyNat.
Import ListNotations.
Require Import XV.NodeListDefs.

(* ---------- equality tests ---------- *)

Lemma step_eqb_eq : forall a b, step_eqb a b = true <-> a = b.
Proof.
  destruct a, b; simpl; split; intro H; try discriminate; try (apply Nat.eqb_eq in H; subst; reflexivity);
    inversion H; subst; apply Nat.eqb_refl.
Qed.

Lemma step_eqb_refl : forall a, step_eqb a a = true.
Proof. intro a; apply step_eqb_eq; reflexivity. Qed.

Lemma rnode_eqb_eq : forall a b, rnode_eqb a b = true <-> a = b.
Proof.
  induction a as [|x a IH]; destruct b as [|y b]; simpl; split; intro H; try discriminate; try reflexivity.
  - apply andb_true_iff in H. destruct H as [H1 H2]. apply step_eqb_eq in H1. apply IH in H2. subst. reflexivity.
  - inversion H; subst. rewrite step_eqb_refl. simpl. apply IH. reflexivity.
Qed.

Lemma rnode_eqb_refl : forall a, rnode_eqb a a = true.
Proof. intro a; apply rnode_eqb_eq; reflexivity. Qed.

Lemma rnode_eqb_neq : forall a b, rnode_eqb a b = false <-> a <> b.
Proof.
  intros a b. split; intro H.
  - intro E. apply rnode_eqb_eq in E. congruence.
  - destruct (rnode_eqb a b) eqn:E; [apply rnode_eqb_eq in E; contradiction | reflexivity].
Qed.

(* ---------- sums of subtree sizes ---------- *)

Lemma sum_firstn_step : forall (l : list nat) i j x,
  nth_error l i = Some x -> i < j -> list_sum (firstn i l) + x <= list_sum (firstn j l).
Proof.
  induction l as [|a l IH]; intros i j x Hn Hij.
  - destruct i; discriminate.
  - destruct j as [|j]; [lia|]. destruct i as [|i]; simpl in *.
    + inversion Hn; subst. lia.
    + specialize (IH i j x Hn). lia.
Qed.

Lemma sum_firstn_le : forall (l : list nat) j, list_sum (firstn j l) <= list_sum l.
Proof.
  induction l as [|a l IH]; intros [|j]; simpl; try lia. specialize (IH j). lia.
Qed.

Lemma sizes_step : forall (ks : list tree) i j k,
  nth_error ks i = Some k -> i < j ->
  list_sum (map size (firstn i ks)) + size k <= list_sum (map size (firstn j ks)).
Proof.
  intros ks i j k Hn Hij. rewrite <- !firstn_map.
  apply sum_firstn_step; [|assumption]. rewrite nth_error_map, Hn. reflexivity.
Qed.

Lemma sizes_total : forall (ks : list tree) i k,
  nth_error ks i = Some k -> list_sum (map size (firstn i ks)) + size k <= list_sum (map size ks).
Proof.
  intros ks i k Hn. rewrite <- firstn_map.
  assert (Hm : nth_error (map size ks) i = Some (size k)) by (rewrite nth_error_map, Hn; reflexivity).
  pose proof (sum_firstn_step (map size ks) i (S i) (size k) Hm (Nat.lt_succ_diag_r i)).
  pose proof (sum_firstn_le (map size ks) (S i)). lia.
Qed.

(* ---------- pre-order index: bounded by the size, monotone in the lexicographic order ---------- *)

Lemma findex_lt_size : forall p t, fvalid t p = true -> findex t p < size t.
Proof.
  induction p as [|s p IH]; intros [na ks] Hv.
  - simpl. lia.
  - destruct s as [i|i]; simpl in *.
    + destruct p; [|discriminate]. apply Nat.ltb_lt in Hv. lia.
    + destruct (nth_error ks i) as [k|] eqn:Hk; [|discriminate].
      specialize (IH k Hv). pose proof (sizes_total ks i k Hk). lia.
Qed.

Lemma flex_findex : forall a b t, fvalid t a = true -> fvalid t b = true ->
  flex a b = (findex t a <? findex t b).
Proof.
  induction a as [|x a IH]; intros b [na ks] Ha Hb.
  - destruct b as [|y b]; simpl; [reflexivity|]. destruct y; symmetry; apply Nat.ltb_lt; lia.
  - destruct b as [|y b].
    + simpl. destruct x; reflexivity.
    + destruct x as [i|i], y as [j|j]; cbn [flex step_eqb step_ltb fvalid findex] in *.
      * destruct a; [|discriminate]. destruct b; [|discriminate].
        destruct (i =? j) eqn:E.
        -- apply Nat.eqb_eq in E; subst. simpl. symmetry. apply Nat.ltb_irrefl.
        -- destruct (i <? j) eqn:L; symmetry; [apply Nat.ltb_lt | apply Nat.ltb_ge]; lia.
      * destruct a; [|discriminate]. apply Nat.ltb_lt in Ha. symmetry. apply Nat.ltb_lt. lia.
      * destruct b; [|discriminate]. apply Nat.ltb_lt in Hb. symmetry. apply Nat.ltb_ge. lia.
      * destruct (nth_error ks i) as [ki|] eqn:Hi; [|discriminate].
        destruct (nth_error ks j) as [kj|] eqn:Hj; [|discriminate].
        destruct (i =? j) eqn:E.
        -- apply Nat.eqb_eq in E; subst. rewrite Hi in Hj. inversion Hj; subst.
           rewrite (IH b kj Ha Hb).
           destruct (findex kj a <? findex kj b) eqn:L; symmetry; [apply Nat.ltb_lt | apply Nat.ltb_ge]; lia.
        -- pose proof (findex_lt_size a ki Ha). pose proof (findex_lt_size b kj Hb).
           destruct (i <? j) eqn:L.
           ++ pose proof (sizes_step ks i j ki Hi ltac:(lia)). symmetry. apply Nat.ltb_lt. lia.
           ++ pose proof (sizes_step ks j i kj Hj ltac:(lia)). symmetry. apply Nat.ltb_ge. lia.
Qed.

(* ---------- facts about flex ---------- *)

Lemma flex_irrefl : forall a, flex a a = false.
Proof. induction a as [|x a IH]; simpl; [reflexivity|]. rewrite step_eqb_refl. exact IH. Qed.

Lemma flex_app_same : forall p a b, flex (p ++ a) (p ++ b) = flex a b.
Proof. induction p as [|x p IH]; intros; simpl; [reflexivity|]. rewrite step_eqb_refl. apply IH. Qed.

Lemma flex_prefix_l : forall a y v, flex a (a ++ y :: v) = true.
Proof. intros. rewrite <- (app_nil_r a) at 1. rewrite flex_app_same. reflexivity. Qed.

Lemma flex_prefix_r : forall a y v, flex (a ++ y :: v) a = false.
Proof. intros. rewrite <- (app_nil_r a) at 2. rewrite flex_app_same. reflexivity. Qed.

Lemma flex_diff_app : forall a b u v, length a = length b -> a <> b -> flex (a ++ u) (b ++ v) = flex a b.
Proof.
  induction a as [|x a IH]; intros [|y b] u v Hl Hd; simpl in *; try discriminate; try congruence.
  destruct (step_eqb x y) eqn:E; [|reflexivity].
  apply step_eqb_eq in E; subst. apply IH; [lia|]. intro; subst; apply Hd; reflexivity.
Qed.

Lemma step_total : forall x y, step_ltb x y = false -> step_ltb y x = false -> x = y.
Proof.
  destruct x as [i|i], y as [j|j]; simpl; intros H1 H2; try discriminate;
    apply Nat.ltb_ge in H1; apply Nat.ltb_ge in H2; f_equal; lia.
Qed.

Lemma flex_total : forall a b, flex a b = false -> flex b a = false -> a = b.
Proof.
  induction a as [|x a IH]; intros [|y b] H1 H2; simpl in *; try discriminate; try reflexivity.
  destruct (step_eqb x y) eqn:E.
  - apply step_eqb_eq in E; subst. rewrite step_eqb_refl in H2. f_equal. apply IH; assumption.
  - destruct (step_eqb y x) eqn:E2.
    + apply step_eqb_eq in E2; subst. rewrite step_eqb_refl in E. discriminate.
    + pose proof (step_total x y H1 H2). subst. rewrite step_eqb_refl in E. discriminate.
Qed.

(* ---------- validity ---------- *)

Lemma fvalid_app : forall a b t, fvalid t (a ++ b) = true -> fvalid t a = true.
Proof.
  induction a as [|s a IH]; intros b [na ks] H; [reflexivity|].
  destruct s as [i|i]; simpl in *.
  - destruct a; simpl in *; [destruct b; [assumption|discriminate] | discriminate].
  - destruct (nth_error ks i); [|discriminate]. eapply IH; eassumption.
Qed.

Lemma fvalid_snoc : forall a s t, fvalid t (a ++ [s]) = true ->
  exists na ks, fsub t a = Some (Node na ks) /\
                match s with SA i => i < na | SC i => i < length ks end.
Proof.
  induction a as [|x a IH]; intros s [na ks] H.
  - exists na, ks. split; [reflexivity|]. destruct s as [i|i]; simpl in H.
    + apply Nat.ltb_lt in H. exact H.
    + destruct (nth_error ks i) eqn:E; [|discriminate]. apply nth_error_Some. congruence.
  - destruct x as [i|i]; simpl in *.
    + destruct a; discriminate.
    + destruct (nth_error ks i) as [k|]; [|discriminate]. apply IH. exact H.
Qed.

Lemma valid_parent : forall t x p, valid t (x :: p) = true -> valid t p = true.
Proof. unfold valid; simpl; intros. eapply fvalid_app; eassumption. Qed.

Lemma valid_skipn : forall t k n, valid t n = true -> valid t (skipn k n) = true.
Proof.
  induction k as [|k IH]; intros n H; [exact H|]. destruct n as [|x n]; [exact H|].
  simpl. apply IH. eapply valid_parent; eassumption.
Qed.

(* ---------- the found1/found2 scan ---------- *)

Section Scan.
  Variable f : nat -> rnode.
  Hypothesis f_inj : forall a b, rnode_eqb (f a) (f b) = (a =? b).

  Lemma scan_found1 : forall n s i j, i < s ->
    scan (map f (seq s n)) (f i) (f j) true false = false.
  Proof.
    induction n as [|n IH]; intros s i j Hi; simpl; [reflexivity|].
    rewrite !f_inj. destruct (i =? s) eqn:E1; [apply Nat.eqb_eq in E1; lia|].
    destruct (j =? s); [reflexivity|]. apply IH. lia.
  Qed.

  Lemma scan_found2 : forall n s i j, j < s -> s <= i < s + n ->
    scan (map f (seq s n)) (f i) (f j) false true = true.
  Proof.
    induction n as [|n IH]; intros s i j Hj Hi; simpl; [lia|].
    rewrite !f_inj. destruct (i =? s) eqn:E1; [reflexivity|].
    apply Nat.eqb_neq in E1.
    destruct (j =? s) eqn:E2; [apply Nat.eqb_eq in E2; lia|]. apply IH; lia.
  Qed.

  Lemma scan_spec : forall n s i j, s <= i < s + n -> s <= j < s + n ->
    scan (map f (seq s n)) (f i) (f j) false false = (j <? i).
  Proof.
    induction n as [|n IH]; intros s i j Hi Hj; simpl; [lia|].
    rewrite !f_inj. destruct (i =? s) eqn:E1.
    - apply Nat.eqb_eq in E1; subst. rewrite scan_found1 by lia. symmetry. apply Nat.ltb_ge. lia.
    - apply Nat.eqb_neq in E1. destruct (j =? s) eqn:E2.
      + apply Nat.eqb_eq in E2; subst. rewrite scan_found2 by lia. symmetry. apply Nat.ltb_lt. lia.
      + apply Nat.eqb_neq in E2. apply IH; lia.
  Qed.
End Scan.

Lemma sibling_spec : forall t p x y,
  valid t (x :: p) = true -> valid t (y :: p) = true ->
  isNodeAfterSibling t p (x :: p) (y :: p) = step_ltb y x.
Proof.
  intros t p x y Hx Hy. unfold valid in *. simpl in Hx, Hy.
  destruct (fvalid_snoc _ _ _ Hx) as (na & ks & Hs & Bx).
  destruct (fvalid_snoc _ _ _ Hy) as (na' & ks' & Hs' & By).
  rewrite Hs in Hs'. inversion Hs'; subst na' ks'. clear Hs'.
  unfold isNodeAfterSibling, attr_items, kid_items, nattrs, nkids. rewrite Hs.
  destruct x as [i|i], y as [j|j]; simpl is_attr; simpl negb; simpl andb; cbv iota; try reflexivity.
  - apply (scan_spec (fun k => SA k :: p)); [|lia|lia].
    intros a b. simpl. rewrite rnode_eqb_refl. apply andb_true_r.
  - apply (scan_spec (fun k => SC k :: p)); [|lia|lia].
    intros a b. simpl. rewrite rnode_eqb_refl. apply andb_true_r.
Qed.

(* ---------- the climbing loop ---------- *)

Lemma climb_eq : forall t edge s p1 p2,
  climb t edge s s (Some (p1, p2)) = isNodeAfterSibling t s p1 p2.
Proof. intros. destruct s; simpl; rewrite ?step_eqb_refl, ?rnode_eqb_refl; reflexivity. Qed.

Lemma climb_eq_none : forall t edge s, climb t edge s s None = edge.
Proof. intros. destruct s; simpl; rewrite ?step_eqb_refl, ?rnode_eqb_refl; reflexivity. Qed.

Lemma flex_snoc_same : forall r x y, x <> y -> flex (rev r ++ [y]) (rev r ++ [x]) = step_ltb y x.
Proof.
  intros r x y D. rewrite flex_app_same. simpl.
  destruct (step_eqb y x) eqn:E; [apply step_eqb_eq in E; congruence | reflexivity].
Qed.

Lemma climb_spec : forall t edge s1 s2 prev,
  length s1 = length s2 -> s1 <> s2 -> valid t s1 = true -> valid t s2 = true ->
  climb t edge s1 s2 prev = flex (rev s2) (rev s1).
Proof.
  induction s1 as [|x r1 IH]; intros [|y r2] prev Hl Hd H1 H2; simpl in Hl; try discriminate; try congruence.
  cbn [climb]. replace (rnode_eqb (x :: r1) (y :: r2)) with false
    by (symmetry; apply rnode_eqb_neq; exact Hd).
  cbn [tl]. destruct (rnode_eqb r1 r2) eqn:E.
  - apply rnode_eqb_eq in E; subst r2. rewrite climb_eq.
    rewrite sibling_spec by assumption. simpl rev. symmetry. apply flex_snoc_same. congruence.
  - apply rnode_eqb_neq in E. rewrite IH; try assumption; try lia;
      try (eapply valid_parent; eassumption).
    simpl rev. symmetry. apply flex_diff_app; [rewrite !rev_length; lia|].
    intro R. apply E. rewrite <- (rev_involutive r1), <- (rev_involutive r2). congruence.
Qed.

(* ---------- main theorem ---------- *)

Lemma chain_length : forall p, chain p = S (length p).
Proof. induction p; simpl; congruence. Qed.

Lemma nparents_length : forall n, nparents n = 2 + length n.
Proof. destruct n; unfold nparents; simpl; [reflexivity|]. rewrite chain_length. reflexivity. Qed.

Lemma rev_skipn_split : forall (n : rnode) k, k <= length n ->
  rev n = rev (skipn k n) ++ rev (firstn k n).
Proof. intros. rewrite <- rev_app_distr, firstn_skipn. reflexivity. Qed.

Lemma struct_eq_flex : forall t n1 n2,
  valid t n1 = true -> valid t n2 = true -> (n1 <> [] \/ n2 <> []) ->
  isNodeAfter_struct t n1 n2 = flex (rev n2) (rev n1).
Proof.
  intros t n1 n2 H1 H2 Hne. unfold isNodeAfter_struct.
  destruct (opt_rnode_eqb (parent n1) (parent n2)) eqn:EP.
  - destruct n1 as [|x p1], n2 as [|y p2]; simpl in EP; try discriminate.
    + destruct Hne; congruence.
    + apply rnode_eqb_eq in EP; subst p2. cbn [tl]. rewrite sibling_spec by assumption.
      simpl rev. destruct (step_eqb y x) eqn:E.
      * apply step_eqb_eq in E; subst. rewrite flex_irrefl. destruct x; simpl; apply Nat.ltb_irrefl.
      * symmetry. apply flex_snoc_same. intro; subst. rewrite step_eqb_refl in E. discriminate.
  - assert (Hd : n1 <> n2).
    { intro; subst. destruct n2; simpl in EP; [discriminate|]. rewrite rnode_eqb_refl in EP. discriminate. }
    rewrite !nparents_length.
    destruct (Nat.lt_trichotomy (length n1) (length n2)) as [L|[L|L]].
    + replace (2 + length n1 <? 2 + length n2) with true by (symmetry; apply Nat.ltb_lt; lia).
      replace (2 + length n2 <? 2 + length n1) with false by (symmetry; apply Nat.ltb_ge; lia).
      set (k := 2 + length n2 - (2 + length n1)).
      assert (Hk : k <= length n2) by (unfold k; lia).
      rewrite (rev_skipn_split n2 k Hk).
      assert (Hlen : length (skipn k n2) = length n1) by (rewrite skipn_length; unfold k; lia).
      destruct (rnode_eqb n1 (skipn k n2)) eqn:E.
      * apply rnode_eqb_eq in E. rewrite <- E. rewrite climb_eq_none.
        destruct (rev (firstn k n2)) as [|z zs] eqn:R.
        { apply (f_equal (@length step)) in R. rewrite rev_length, firstn_length in R.
          simpl in R. unfold k in R. lia. }
        symmetry. apply flex_prefix_r.
      * apply rnode_eqb_neq in E.
        rewrite climb_spec; try assumption; try (symmetry; assumption); [|apply valid_skipn; assumption].
        rewrite <- (app_nil_r (rev n1)) at 2. symmetry. apply flex_diff_app.
        -- rewrite !rev_length. assumption.
        -- intro R. apply E. rewrite <- (rev_involutive n1), <- (rev_involutive (skipn k n2)). congruence.
    + replace (2 + length n1 <? 2 + length n2) with false by (symmetry; apply Nat.ltb_ge; lia).
      replace (2 + length n2 <? 2 + length n1) with false by (symmetry; apply Nat.ltb_ge; lia).
      apply climb_spec; assumption.
    + replace (2 + length n1 <? 2 + length n2) with false by (symmetry; apply Nat.ltb_ge; lia).
      replace (2 + length n2 <? 2 + length n1) with true by (symmetry; apply Nat.ltb_lt; lia).
      set (k := 2 + length n1 - (2 + length n2)).
      assert (Hk : k <= length n1) by (unfold k; lia).
      rewrite (rev_skipn_split n1 k Hk).
      assert (Hlen : length (skipn k n1) = length n2) by (rewrite skipn_length; unfold k; lia).
      destruct (rnode_eqb (skipn k n1) n2) eqn:E.
      * apply rnode_eqb_eq in E. rewrite E. rewrite climb_eq_none.
        destruct (rev (firstn k n1)) as [|z zs] eqn:R.
        { apply (f_equal (@length step)) in R. rewrite rev_length, firstn_length in R.
          simpl in R. unfold k in R. lia. }
        rewrite <- E at 1. symmetry. rewrite E. apply flex_prefix_l.
      * apply rnode_eqb_neq in E.
        rewrite climb_spec; try assumption; [|apply valid_skipn; assumption].
        rewrite <- (app_nil_r (rev n2)) at 2. symmetry. apply flex_diff_app.
        -- rewrite !rev_length. lia.
        -- intro R. apply E. rewrite <- (rev_involutive n2), <- (rev_involutive (skipn k n1)). congruence.
Qed.

Theorem struct_order_eq_index_order_lemma : forall t n1 n2,
  valid t n1 = true -> valid t n2 = true -> (n1 <> [] \/ n2 <> []) ->
  isNodeAfter_struct t n1 n2 = (index t n2 <? index t n1).
Proof.
  intros. rewrite struct_eq_flex by assumption. unfold index. apply flex_findex; assumption.
Qed.

Theorem index_injective : forall t n1 n2,
  valid t n1 = true -> valid t n2 = true -> index t n1 = index t n2 -> n1 = n2.
Proof.
  intros t n1 n2 H1 H2 E. unfold valid, index in *.
  assert (F1 : flex (rev n1) (rev n2) = false) by (rewrite (flex_findex _ _ t H1 H2), E; apply Nat.ltb_irrefl).
  assert (F2 : flex (rev n2) (rev n1) = false) by (rewrite (flex_findex _ _ t H2 H1), E; apply Nat.ltb_irrefl).
  pose proof (flex_total _ _ F1 F2) as R.
  rewrite <- (rev_involutive n1), <- (rev_involutive n2). congruence.
Qed.

Theorem index_lt_size : forall t n, valid t n = true -> index t n < size t.
Proof. intros. apply findex_lt_size. assumption. Qed.
