(* OutoptDefs.v — C08: output options.  Definitions only.
   1. the indent automaton of FormatterToXMLUnicode + XalanIndentWriter as coded (state: m_currentIndent,
      m_startNewLine, m_ispreserve, m_isprevtext, m_preserves; m_elemStack; m_needToOutputDoctypeDecl), producing
      lexical tokens; XalanDummyIndentWriter = [None];
   2. rendering of tokens to writer items through C04's escaping layer (SerEscDefs) -> bytes/units;
   3. the token-level reader (what a parser reports for a token stream), coalescing of adjacent text;
   4. the text method; 5. option selection (processOutputSpec / setupFormatterListener) and the XSLT 16 rule;
   6. the HTML element table look-ups. *)
From Coq Require Import NArith ZArith List Bool.
Require Import XV.SerDefs XV.GenOutopt.
Import ListNotations.
Local Open Scope N_scope.

(* ---- 1. the automaton ---------------------------------------------------------------------------- *)
Record ist : Type := mkist {
  cur : N;              (* m_currentIndent *)
  snl : bool;           (* m_startNewLine *)
  presv : bool;         (* m_ispreserve *)
  prevt : bool;         (* m_isprevtext *)
  pstack : list bool    (* m_preserves, back() first *)
}.

Definition ist0 : ist := mkist 0 false false false [].

Inductive tok : Type :=
| KDoctype (name : list N)
| KOpen (name : list N) (attrs : list (list N * list N))     (* '<name a="v" ...'  *)
| KGt                                                          (* '>' of writeParentTagEnd *)
| KEmptyEnd (name : list N)                                    (* '/>' *)
| KClose (name : list N)                                       (* '</name>' *)
| KText (s : list N)
| KCdata (s : list N)
| KComment (s : list N)
| KPI (target data : list N)
| KWs (nl : bool) (n : N).      (* what indent() wrote: the newline string (if nl) and n spaces *)

(* the operation lists of the methods as the model reads them; Properties_C08.automaton_as_modelled proves that
   the lists regenerated from the source (GenOutopt) are these *)
Definition m_startElement : list iop :=
  [ODoctype; OPte; OSetPreserve false; OIndent; OSetStartNewLine true; OChar 60; OName; OAttr; OOpenElement; OIncrease; OSetPrevText false].
Definition m_endElement : list iop :=
  [ODecrease; OChildNodesWereAdded; OIfChildren; OIndent; OChar 60; OChar 47; OName; OElse; OChar 32; OChar 47; OChar 62;
   OIfChildren; OPopPreserve; OSetPrevText false].
Definition m_endDocument : list iop := [OSetStartNewLine true; OIndent].
Definition m_comment : list iop :=
  [OPte; OIndent; OChar 60; OChar 33; OChar 45; OChar 45; OData; OChar 45; OChar 45; OChar 62; OSetStartNewLine true].
Definition m_writeProcessingInstruction : list iop := [OPte; OIndent; OChar 60; OChar 63; OName; OChar 32; OData; OChar 63; OChar 62].
Definition m_writeCharacters : list iop := [OPte; OSetPreserve true; OContent; OElse; OElse; OContent; OSetPrevText true].
(* fx: the repaired writeCDATA also calls setPrevText(true) (GenOutopt.cdata_sets_prevtext says which one /repo has) *)
Definition m_writeCDATA (fx : bool) : list iop :=
  [OPte; OSetPreserve true; OIndent; OCdataChars] ++ (if fx then [OSetPrevText true] else []).
Definition m_writeParentTagEnd : list iop := [OIfMarkParent; OChar 62; OSetPrevText false; OPushPreserve].
Definition m_charactersRaw (fx : bool) : list iop := [OPte; OSetPreserve true; ORawChars] ++ (if fx then [OSetPrevText true] else []).

Definition amt (ind : option N) : N := match ind with Some n => n | None => 0 end.

(* XalanIndentWriter::indent(); nothing at all for the dummy writer.  An indent() that writes no unit (no new
   line yet, zero spaces) leaves no token *)
Definition indent_toks (ind : option N) (st : ist) : list tok :=
  match ind with
  | None => []
  | Some _ =>
      if negb (presv st) && negb (prevt st)
      then (if negb (snl st) && (cur st =? 0) then [] else [KWs (snl st) (cur st)])
      else []
  end.

Definition set_presv (b : bool) (st : ist) : ist := mkist (cur st) (snl st) b (prevt st) (pstack st).
Definition set_prevt (b : bool) (st : ist) : ist := mkist (cur st) (snl st) (presv st) b (pstack st).
Definition set_snl (b : bool) (st : ist) : ist := mkist (cur st) b (presv st) (prevt st) (pstack st).
Definition push_preserve (st : ist) : ist := mkist (cur st) (snl st) (presv st) (prevt st) (presv st :: pstack st).
Definition pop_preserve (st : ist) : ist :=
  match pstack st with
  | [] => mkist (cur st) (snl st) false (prevt st) []
  | b :: r => mkist (cur st) (snl st) b (prevt st) r
  end.
Definition increase (ind : option N) (st : ist) : ist := mkist (cur st + amt ind) (snl st) (presv st) (prevt st) (pstack st).
(* size_type subtraction; scripts are balanced, so m_currentIndent >= m_indent (asserted in the source) *)
Definition decrease (ind : option N) (st : ist) : ist := mkist (cur st - amt ind) (snl st) (presv st) (prevt st) (pstack st).

(* writeParentTagEnd *)
Definition pte (st : ist) (es : list bool) : list tok * ist * list bool :=
  match es with
  | false :: r => ([KGt], push_preserve (set_prevt false st), true :: r)
  | _ => ([], st, es)
  end.

(* state: indent writer, m_elemStack, m_needToOutputDoctypeDecl *)
Definition fstate : Type := (ist * list bool * bool)%type.

Definition step (fx : bool) (ind : option N) (e : event) (s : fstate) : list tok * fstate :=
  let '(st, es, dt) := s in
  match e with
  | EStart name attrs =>
      let '(p, st1, es1) := pte st es in
      let st2 := set_presv false st1 in
      ((if dt then [KDoctype name] else []) ++ p ++ indent_toks ind st2 ++ [KOpen name attrs],
       (set_prevt false (increase ind (set_snl true st2)), false :: es1, false))
  | EEnd name =>
      let st1 := decrease ind st in
      match es with
      | true :: es1 => (indent_toks ind st1 ++ [KClose name], (set_prevt false (pop_preserve st1), es1, dt))
      | false :: es1 => ([KEmptyEnd name], (set_prevt false st1, es1, dt))
      | [] => ([KEmptyEnd name], (set_prevt false st1, [], dt))
      end
  | EText t =>
      match t with
      | [] => ([], s)
      | _ => let '(p, st1, es1) := pte st es in
             (p ++ [KText t], (set_prevt true (set_presv true st1), es1, dt))
      end
  | ECdata t =>
      match t with
      | [] => ([], s)
      | _ => let '(p, st1, es1) := pte st es in
             let st2 := set_presv true st1 in
             (p ++ indent_toks ind st2 ++ [KCdata t], ((if fx then set_prevt true st2 else st2), es1, dt))
      end
  | EComment t =>
      let '(p, st1, es1) := pte st es in
      (p ++ indent_toks ind st1 ++ [KComment t], (set_snl true st1, es1, dt))
  | EPI t d =>
      let '(p, st1, es1) := pte st es in
      (p ++ indent_toks ind st1 ++ [KPI t d], (st1, es1, dt))
  end.

Fixpoint run_events (fx : bool) (ind : option N) (evs : list event) (s : fstate) : list tok :=
  match evs with
  | [] => let '(st, _, _) := s in indent_toks ind (set_snl true st)       (* endDocument *)
  | e :: r => let '(t, s1) := step fx ind e s in t ++ run_events fx ind r s1
  end.

(* ---- 2. rendering -------------------------------------------------------------------------------- *)
Record xcfg : Type := mkxcfg {
  x_enc : encoding_kind;
  x_v11 : bool;
  x_encname : list N;
  x_indent : option N;       (* None: doIndent = false *)
  x_decl : bool;             (* generateXMLDeclaration = !omit-xml-declaration *)
  x_standalone : list N;
  x_dtsys : list N;
  x_dtpub : list N
}.

Definition nonempty (l : list N) : bool := match l with [] => false | _ => true end.
Definition need_doctype (c : xcfg) : bool := nonempty (x_dtsys c).
Definition writes_header (c : xcfg) : bool := x_decl c || nonempty (x_standalone c).
Fixpoint has_prefix (p l : list N) : bool :=
  match p with
  | [] => true
  | a :: p' => match l with b :: l' => (a =? b) && has_prefix p' l' | [] => false end
  end.
Definition space_before_close (c : xcfg) : bool := nonempty (x_dtpub c) && has_prefix xhtml_doctype_prefix (x_dtpub c).
Definition version_string (v11 : bool) : list N := if v11 then [49; 46; 49] else [49; 46; 48].

Fixpoint spaces (F : fam) (n : nat) : list item :=
  match n with O => [] | S k => f_unit F 32 ++ spaces F k end.

Definition render_tok (F : fam) (c : xcfg) (t : tok) : list item :=
  let v11 := x_v11 c in
  match t with
  | KDoctype name =>
      f_const F [60; 33; 68; 79; 67; 84; 89; 80; 69; 32] ++ f_str F name ++
      (if nonempty (x_dtpub c)
       then f_const F [32; 80; 85; 66; 76; 73; 67; 32; 34] ++ f_name F (x_dtpub c) ++ f_unit F 34 ++ f_unit F 32 ++ f_unit F 34
       else f_const F [32; 83; 89; 83; 84; 69; 77; 32; 34]) ++
      f_name F (x_dtsys c) ++ f_unit F 34 ++ f_unit F 62 ++ f_newline F
  | KOpen name attrs => f_unit F 60 ++ f_name F name ++ flat_map (write_attribute F v11) attrs
  | KGt => f_unit F 62
  | KEmptyEnd _ => (if space_before_close c then f_unit F 32 else []) ++ f_unit F 47 ++ f_unit F 62
  | KClose name => f_unit F 60 ++ f_unit F 47 ++ f_name F name ++ f_unit F 62
  | KText s => write_content F v11 s
  | KCdata s => write_cdata F v11 s
  | KComment s => write_comment F v11 s
  | KPI t d => write_pi F v11 t d
  | KWs nl n => (if nl then f_const F newline_units else []) ++ spaces F (N.to_nat n)
  end.

Definition header_items (F : fam) (c : xcfg) : list item :=
  if writes_header c then
    f_const F [60; 63; 120; 109; 108; 32; 118; 101; 114; 115; 105; 111; 110; 61; 34] ++
    f_str F (version_string (x_v11 c)) ++
    f_const F [34; 32; 101; 110; 99; 111; 100; 105; 110; 103; 61; 34] ++
    f_str F (x_encname c) ++
    (if nonempty (x_standalone c)
     then f_const F [34; 32; 115; 116; 97; 110; 100; 97; 108; 111; 110; 101; 61; 34] ++ f_str F (x_standalone c)
     else []) ++
    f_const F [34; 63; 62] ++
    (if need_doctype c then f_newline F                                     (* startDocument: outputNewline() *)
     else match x_indent c with Some _ => f_const F newline_units | None => [] end)   (* outputLineSep() *)
  else [].

Definition doc_tokens (c : xcfg) (evs : list event) : list tok :=
  run_events cdata_sets_prevtext (x_indent c) evs (ist0, [], need_doctype c).

Definition serialize_opt (c : xcfg) (evs : list event) : res (list N) :=
  let F := fam_of (x_enc c) in
  payload (header_items F c ++ flat_map (render_tok F c) (doc_tokens c evs) ++ [IFlush]).

(* ---- 3. the reader at token level ---------------------------------------------------------------- *)
Inductive pev : Type :=
| PS (name : list N) (attrs : list (list N * list N))
| PE (name : list N)
| PT (s : list N)
| PC (s : list N)
| PP (target data : list N).

Definition ws_string (nl : bool) (n : N) : list N := (if nl then newline_units else []) ++ repeat 32 (N.to_nat n).

Definition flat_tok (t : tok) : list pev :=
  match t with
  | KDoctype _ => []
  | KGt => []
  | KOpen n a => [PS n a]
  | KEmptyEnd n => [PE n]
  | KClose n => [PE n]
  | KText s => [PT s]
  | KCdata s => [PT s]
  | KComment s => [PC s]
  | KPI t d => [PP t d]
  | KWs nl n => [PT (ws_string nl n)]
  end.

Definition cons_text (s : list N) (l : list pev) : list pev :=
  match l with
  | PT s' :: r => PT (s ++ s') :: r
  | _ => PT s :: l
  end.

(* adjacent character data is one text node *)
Fixpoint coalesce (l : list pev) : list pev :=
  match l with
  | [] => []
  | PT s :: r => cons_text s (coalesce r)
  | e :: r => e :: coalesce r
  end.

Definition tparse (toks : list tok) : list pev := coalesce (flat_map flat_tok toks).

Definition is_text (e : pev) : bool := match e with PT _ => true | _ => false end.
Definition is_ws (c : N) : bool := (c =? 32) || (c =? 9) || (c =? 13) || (c =? 10).
Definition ws_only (s : list N) : Prop := forallb is_ws s = true /\ s <> [].

(* the allowed difference: new white-space-only text nodes; every other node is kept, in order, unchanged *)
Inductive ws_ins : list pev -> list pev -> Prop :=
| wi_nil : ws_ins [] []
| wi_keep : forall e l1 l2, ws_ins l1 l2 -> ws_ins (e :: l1) (e :: l2)
| wi_add : forall w l1 l2, ws_only w -> ws_ins l1 l2 -> ws_ins l1 (PT w :: l2).

(* no two text nodes are adjacent (so an inserted node is never next to an existing text node) *)
Fixpoint no_adjacent_text (l : list pev) : bool :=
  match l with
  | PT _ :: ((PT _ :: _) as r) => false
  | _ :: r => no_adjacent_text r
  | [] => true
  end.

(* the same on the un-coalesced event list: white space inserted only where both neighbours are markup *)
Inductive iso_ins : bool -> list pev -> list pev -> Prop :=
| ii_nil : forall b, iso_ins b [] []
| ii_keep : forall b e l0 l1, iso_ins (is_text e) l0 l1 -> iso_ins b (e :: l0) (e :: l1)
| ii_end : forall w, ws_only w -> iso_ins false [] [PT w]
| ii_ws : forall w m l0 l1, ws_only w -> is_text m = false -> iso_ins false l0 l1 ->
          iso_ins false (m :: l0) (PT w :: m :: l1).

(* the exact guard of indent_adds_only_ws: pt mirrors m_isprevtext, lt = "the last node written is character
   data"; a start tag after a CDATA section (written by cdata(), which does not set m_isprevtext) is the case in
   which the code indents next to text *)
Fixpoint ind_guard (fx : bool) (pt lt : bool) (evs : list event) : bool :=
  match evs with
  | [] => true
  | e :: r =>
      match e with
      | EStart _ _ => negb (lt && negb pt) && ind_guard fx false false r
      | EEnd _ => ind_guard fx false false r
      | EText [] => ind_guard fx pt lt r
      | ECdata [] => ind_guard fx pt lt r
      | EText _ => ind_guard fx true true r
      | ECdata _ => ind_guard fx (pt || fx) true r
      | EComment _ => ind_guard fx pt false r
      | EPI _ _ => ind_guard fx pt false r
      end
  end.

(* ---- 4. the text method (FormatterToText) --------------------------------------------------------- *)
(* characters() and cdata() write every unit; every other event writes nothing *)
Definition text_step (e : event) : list N :=
  match e with EText s => s | ECdata s => s | _ => [] end.
Definition ser_text_units (evs : list event) : list N := flat_map text_step evs.

(* the result tree built from the events, and its string-value (XPath 5.1/5.2: concatenation of the
   descendant text nodes in document order) *)
Inductive rnode : Type :=
| RElem (name : list N) (attrs : list (list N * list N)) (children : list rnode)
| RText (s : list N)
| RComment (s : list N)
| RPI (t d : list N).

(* stack of open elements: (name, attrs, children so far, reversed) *)
Definition frame : Type := (list N * list (list N * list N) * list rnode)%type.

Fixpoint build (evs : list event) (cur_rev : list rnode) (stack : list frame) : list rnode :=
  match evs with
  | [] => match stack with
          | [] => rev cur_rev
          | _ => rev cur_rev     (* unbalanced script: open elements are dropped (excluded by [balanced]) *)
          end
  | EStart n a :: r => build r [] ((n, a, cur_rev) :: stack)
  | EEnd _ :: r =>
      match stack with
      | (n, a, up) :: st => build r (RElem n a (rev cur_rev) :: up) st
      | [] => build r cur_rev []
      end
  | EText s :: r => build r (RText s :: cur_rev) stack
  | ECdata s :: r => build r (RText s :: cur_rev) stack
  | EComment s :: r => build r (RComment s :: cur_rev) stack
  | EPI t d :: r => build r (RPI t d :: cur_rev) stack
  end.

Fixpoint string_value (n : rnode) : list N :=
  match n with
  | RElem _ _ ch => flat_map string_value ch
  | RText s => s
  | _ => []
  end.

Fixpoint balanced (depth : nat) (evs : list event) : bool :=
  match evs with
  | [] => Nat.eqb depth 0
  | EStart _ _ :: r => balanced (S depth) r
  | EEnd _ :: r => match depth with O => false | S d => balanced d r end
  | _ :: r => balanced depth r
  end.

(* the output stream below FormatterToText (XalanOutputStream + transcoder), as observed: a unit the encoding
   cannot represent is replaced by the substitution character 0x1A (checked by the correspondence only) *)
Definition stream_encode_unit (k : encoding_kind) (c : N) : list N :=
  match k with
  | EncLatin1 => if c <=? 255 then [c] else [26]
  | EncAscii => if c <=? 127 then [c] else [26]
  | _ => [c]      (* UTF-16: the unit itself; UTF-8: left to the UTF-8 encoder (C04) *)
  end.
Definition representable (k : encoding_kind) (c : N) : bool :=
  match k with EncLatin1 => c <=? 255 | EncAscii => c <=? 127 | _ => true end.
(* what "in the requested encoding" means: every unit encoded, or no output at all *)
Definition encode_spec (k : encoding_kind) (s : list N) : option (list N) :=
  if forallb (representable k) s then Some s else None.
Definition ser_text (k : encoding_kind) (evs : list event) : list N :=
  flat_map (stream_encode_unit k) (ser_text_units evs).
(* tx: the repaired FormatterToText::characters raises UnrepresentableCharacterException for a unit above
   m_maxCharacter (GenOutopt.text_method_checks_representability says which one /repo has); None = the exception *)
Definition ser_text_checked (tx : bool) (k : encoding_kind) (evs : list event) : option (list N) :=
  if tx && negb (forallb (representable k) (ser_text_units evs)) then None else Some (ser_text k evs).
Definition ser_text_as_coded (k : encoding_kind) (evs : list event) : option (list N) :=
  ser_text_checked text_method_checks_representability k evs.

(* ---- 5. option selection -------------------------------------------------------------------------- *)
Inductive omethod : Type := MNone | MXml | MHtml | MText.
Inductive oattr : Type :=
| AMethod (m : omethod) | AVersion (s : list N) | AIndent (b : bool) | AEncoding (s : list N)
| AOmitDecl (b : bool) | AStandalone (s : list N) | ADoctypeSystem (s : list N) | ADoctypePublic (s : list N)
| ACdataElems (names : list (list N)) | AIndentAmount (z : Z) | AEscapeUrls (b : bool) | AOmitMeta (b : bool).

Inductive indent_result : Type := IndNoImplicit | IndYesImplicit | IndNoExplicit | IndYesExplicit.

Record sroot : Type := mksroot {
  r_method : omethod; r_version : list N; r_indent : indent_result; r_encoding : list N; r_omit : bool;
  r_standalone : list N; r_dtsys : list N; r_dtpub : list N; r_cdata : list (list N);
  r_amount : Z; r_escape : bool; r_ometa : bool
}.

Definition sroot0 : sroot :=
  mksroot MNone [] IndNoImplicit [] omit_xml_decl_default [] [] [] [] stylesheet_indent_amount_default
          escape_urls_default omit_meta_default.

(* one attribute of processOutputSpec's loop *)
Definition apply_attr (r : sroot) (a : oattr) : sroot :=
  match a with
  | AMethod m => mksroot m (r_version r) (r_indent r) (r_encoding r) (r_omit r) (r_standalone r) (r_dtsys r) (r_dtpub r) (r_cdata r) (r_amount r) (r_escape r) (r_ometa r)
  | AVersion s => mksroot (r_method r) s (r_indent r) (r_encoding r) (r_omit r) (r_standalone r) (r_dtsys r) (r_dtpub r) (r_cdata r) (r_amount r) (r_escape r) (r_ometa r)
  | AIndent b => mksroot (r_method r) (r_version r) (if b then IndYesExplicit else IndNoExplicit) (r_encoding r) (r_omit r) (r_standalone r) (r_dtsys r) (r_dtpub r) (r_cdata r) (r_amount r) (r_escape r) (r_ometa r)
  | AEncoding s => mksroot (r_method r) (r_version r) (r_indent r) s (r_omit r) (r_standalone r) (r_dtsys r) (r_dtpub r) (r_cdata r) (r_amount r) (r_escape r) (r_ometa r)
  | AOmitDecl b => mksroot (r_method r) (r_version r) (r_indent r) (r_encoding r) b (r_standalone r) (r_dtsys r) (r_dtpub r) (r_cdata r) (r_amount r) (r_escape r) (r_ometa r)
  | AStandalone s => mksroot (r_method r) (r_version r) (r_indent r) (r_encoding r) (r_omit r) s (r_dtsys r) (r_dtpub r) (r_cdata r) (r_amount r) (r_escape r) (r_ometa r)
  | ADoctypeSystem s => mksroot (r_method r) (r_version r) (r_indent r) (r_encoding r) (r_omit r) (r_standalone r) s (r_dtpub r) (r_cdata r) (r_amount r) (r_escape r) (r_ometa r)
  | ADoctypePublic s => mksroot (r_method r) (r_version r) (r_indent r) (r_encoding r) (r_omit r) (r_standalone r) (r_dtsys r) s (r_cdata r) (r_amount r) (r_escape r) (r_ometa r)
  | ACdataElems ns =>
      match r_method r with
      | MNone | MXml => mksroot (r_method r) (r_version r) (r_indent r) (r_encoding r) (r_omit r) (r_standalone r) (r_dtsys r) (r_dtpub r) (r_cdata r ++ ns) (r_amount r) (r_escape r) (r_ometa r)
      | _ => r
      end
  | AIndentAmount z => mksroot (r_method r) (r_version r) (r_indent r) (r_encoding r) (r_omit r) (r_standalone r) (r_dtsys r) (r_dtpub r) (r_cdata r) (if (z <? 0)%Z then 0%Z else z) (r_escape r) (r_ometa r)
  | AEscapeUrls b => mksroot (r_method r) (r_version r) (r_indent r) (r_encoding r) (r_omit r) (r_standalone r) (r_dtsys r) (r_dtpub r) (r_cdata r) (r_amount r) b (r_ometa r)
  | AOmitMeta b => mksroot (r_method r) (r_version r) (r_indent r) (r_encoding r) (r_omit r) (r_standalone r) (r_dtsys r) (r_dtpub r) (r_cdata r) (r_amount r) (r_escape r) b
  end.

(* the end of processOutputSpec: html implies indent unless indent was given *)
Definition finish_output (r : sroot) : sroot :=
  match r_method r, r_indent r with
  | MHtml, IndNoImplicit => mksroot (r_method r) (r_version r) IndYesImplicit (r_encoding r) (r_omit r) (r_standalone r) (r_dtsys r) (r_dtpub r) (r_cdata r) (r_amount r) (r_escape r) (r_ometa r)
  | _, _ => r
  end.

(* all xsl:output elements in the order in which they are processed (imported stylesheets first) *)
Definition process_outputs (outs : list (list oattr)) : sroot :=
  fold_left (fun r o => finish_output (fold_left apply_attr o r)) outs sroot0.

Definition output_indent (r : sroot) : bool :=
  match r_indent r with IndYesImplicit | IndYesExplicit => true | _ => false end.

Record api : Type := mkapi { a_indent : Z (* -1: not set *); a_encoding : list N }.

(* setupFormatterListener: (doIndent, indent amount, encoding) *)
Definition select_coded (r : sroot) (a : api) : bool * N * list N :=
  let amount := if (a_indent a <? 0)%Z then r_amount r else a_indent a in
  let do_indent := if (indent_on_when_amount_gt <? amount)%Z then true else output_indent r in
  let dflt := match r_method r with MHtml => default_indent_amount_html | _ => default_indent_amount_xml end in
  (do_indent, (if (amount <? 0)%Z then dflt else Z.to_N amount),
   match a_encoding a with [] => r_encoding r | e => e end).

(* XSLT 16: the effective value of an attribute is the last one specified; cdata-section-elements is the union;
   indent defaults to yes for html and no otherwise.  The API may turn indenting on and give the amount. *)
Definition last_some {A} (f : oattr -> option A) (outs : list (list oattr)) : option A :=
  fold_left (fun acc a => match f a with Some x => Some x | None => acc end) (concat outs) None.

Definition spec_method (outs : list (list oattr)) : omethod :=
  match last_some (fun a => match a with AMethod m => Some m | _ => None end) outs with Some m => m | None => MNone end.
Definition spec_indent (outs : list (list oattr)) : bool :=
  match last_some (fun a => match a with AIndent b => Some b | _ => None end) outs with
  | Some b => b
  | None => match spec_method outs with MHtml => true | _ => false end
  end.
Definition spec_cdata (outs : list (list oattr)) : list (list N) :=
  flat_map (fun a => match a with ACdataElems ns => ns | _ => [] end) (concat outs).
Definition spec_encoding (outs : list (list oattr)) : list N :=
  match last_some (fun a => match a with AEncoding s => Some s | _ => None end) outs with Some s => s | None => [] end.

(* ---- 6. HTML element table ------------------------------------------------------------------------ *)
Fixpoint list_eqb (a b : list N) : bool :=
  match a, b with
  | [], [] => true
  | x :: a', y :: b' => (x =? y) && list_eqb a' b'
  | _, _ => false
  end.
Definition upper (c : N) : N := if (97 <=? c) && (c <=? 122) then c - 32 else c.
Definition html_find (name : list N) : option (N * list (list N * N)) :=
  match find (fun e => list_eqb (fst (fst e)) (map upper name)) html_elements with
  | Some (_, fl, at_) => Some (fl, at_)
  | None => None
  end.
Definition html_is (flag : N) (name : list N) : bool :=
  match html_find name with Some (fl, _) => negb (N.land fl flag =? 0) | None => false end.
Definition html_attr_is (flag : N) (elem attr : list N) : bool :=
  match html_find elem with
  | Some (_, at_) =>
      match find (fun a => list_eqb (fst a) (map upper attr)) at_ with
      | Some (_, fl) => negb (N.land fl flag =? 0)
      | None => false
      end
  | None => false
  end.
