(* C13 — whitespace stripping acts as if the stripped text nodes were not in the source.
   Statements only; proofs are in StripModel.v (decision) and StripTreeModel.v (observations).
   The tree statements carry a key (StripDefs.key): the parent's name and the inherited xml:space state. *)
From Coq Require Import String List NArith Bool.
Require Import XV.GenStrip XV.StripDefs XV.StripModel XV.StripTreeModel XV.StripObsDefs XV.StripObsModel XV.StripZipDefs XV.StripZipModel XV.StripXsDefs XV.StripXsModel.
Open Scope list_scope.
Import ListNotations.

(* ---- tie: the census of consult points regenerated from /repo equals the audited one ------------- *)
Theorem census_complete :
  census_testers = audited_testers /\ census_getnodedata = audited_getnodedata /\
  census_copy = audited_copy /\ census_builtin_rule = audited_builtin_rule /\ census_ok = true.
Proof. repeat split; reflexivity. Qed.
Print Assumptions census_complete.

Theorem source_constants :
  insert_before_equal = true /\ import_at_front = true /\ rec_priorities_ordered /\
  consults_xml_space = true /\ rtf_nodes_exempt = true /\ cdata_is_text_for_strip = true.
Proof. repeat split; reflexivity. Qed.
Print Assumptions source_constants.

(* ---- the decision -------------------------------------------------------------------------------- *)
(* the first matching tester of the list built by addWhitespaceElement / postConstruction is the
   applicable declaration of XSLT 1.0 3.4: highest import precedence, then highest priority
   (QName, then prefix:star, then star), then the last one (the Recommendation's recovery; no deviation) *)
Theorem tester_order_correct : forall s n,
  match find (matches n) (post_construction s) with
  | Some d => applicable s n d
  | None => nothing_applies s n
  end.
Proof. exact tester_order_correct_lemma. Qed.
Print Assumptions tester_order_correct.

Theorem applicable_declaration_unique : forall s n d d', applicable s n d -> applicable s n d' -> d = d'.
Proof. exact applicable_unique. Qed.
Print Assumptions applicable_declaration_unique.

Theorem strip_decision_is_recommendation : forall s n,
  sheet_strip s n = true <-> exists d, applicable s n d /\ t_strip d = true.
Proof. exact decision_is_rec. Qed.
Print Assumptions strip_decision_is_recommendation.

Theorem no_declaration_means_preserve : forall s n, nothing_applies s n -> sheet_strip s n = false.
Proof. exact default_is_preserve. Qed.
Print Assumptions no_declaration_means_preserve.

Theorem only_whitespace_is_stripped : forall l pn, should_strip l pn false = false.
Proof. exact non_whitespace_never_stripped. Qed.
Print Assumptions only_whitespace_is_stripped.

Theorem tester_list_sorted : forall own, Sorted.StronglySorted ge_score (own_list own).
Proof. exact own_list_sorted. Qed.
Print Assumptions tester_list_sorted.

Theorem swap_of_disjoint_testers_is_harmless : forall l1 l2 t1 t2 n,
  (forall m, matches m t1 && matches m t2 = false) ->
  decide (l1 ++ t1 :: t2 :: l2) n = decide (l1 ++ t2 :: t1 :: l2) n.
Proof. exact swap_disjoint_testers. Qed.
Print Assumptions swap_of_disjoint_testers_is_harmless.

(* ---- observations through the decision = observations of the physically stripped tree --------------- *)
(* pk = the key the node x itself is looked at with (its parent's name and the xml:space state inherited by the
   parent's children); the children of x are looked at, and removed, with kids_key pk x = child_key pk n a *)
Theorem strip_equiv_children : forall st pk x,
  children no_strip pk (remove_stripped st pk x) = map (remove_stripped st (kids_key pk x)) (children st pk x).
Proof. exact rs_children. Qed.
Print Assumptions strip_equiv_children.

(* every descendant is removed with its own key: desc_keyed lists the descendants with their keys
   (map snd (desc_keyed st pk x) = desc_or_self st pk x), rs_keyed st (k, y) = remove_stripped st k y *)
Theorem strip_equiv_descendants : forall st pk x, stripped st pk x = false ->
  desc_or_self no_strip pk (remove_stripped st pk x) = map (rs_keyed st) (desc_keyed st pk x) /\
  map snd (desc_keyed st pk x) = desc_or_self st pk x.
Proof. intros st pk x H. split; [apply rs_desc_or_self; exact H|apply desc_keyed_nodes]. Qed.
Print Assumptions strip_equiv_descendants.

Theorem strip_equiv_count : forall st pk x, stripped st pk x = false ->
  length (desc_or_self no_strip pk (remove_stripped st pk x)) = length (desc_or_self st pk x) /\
  length (filter is_text (desc_or_self no_strip pk (remove_stripped st pk x))) = length (filter is_text (desc_or_self st pk x)).
Proof. intros. split; [apply rs_desc_or_self_length | apply rs_desc_or_self_texts]; assumption. Qed.
Print Assumptions strip_equiv_count.

Theorem strip_equiv_string_value : forall st pk x, stripped st pk x = false ->
  string_value no_strip pk (remove_stripped st pk x) = string_value st pk x.
Proof. exact rs_string_value. Qed.
Print Assumptions strip_equiv_string_value.

Theorem strip_equiv_copy : forall st pk x, stripped st pk x = false ->
  copy_events no_strip pk (remove_stripped st pk x) = copy_events st pk x.
Proof. exact rs_copy_events. Qed.
Print Assumptions strip_equiv_copy.

(* every axis (self, child, descendant, descendant-or-self, following-sibling, preceding-sibling) from a
   visible context node: the contexts found through the decision map onto those of the stripped tree *)
Theorem strip_equiv_axis : forall st a c, ctx_visible st c = true ->
  map (strip_ctx st) (axis_ctxs st a c) = axis_ctxs no_strip a (strip_ctx st c).
Proof. exact axis_equiv. Qed.
Print Assumptions strip_equiv_axis.

(* a step with node test and positional predicate (position() = k, last(), k-th from the end) *)
Theorem strip_equiv_step : forall st s c, ctx_visible st c = true ->
  map (strip_ctx st) (eval_step st s c) = eval_step no_strip s (strip_ctx st c).
Proof. exact step_equiv. Qed.
Print Assumptions strip_equiv_step.

Theorem strip_equiv_observe : forall st c, ctx_visible st c = true ->
  observe st c = observe no_strip (strip_ctx st c).
Proof. exact observe_equiv. Qed.
Print Assumptions strip_equiv_observe.

(* the observation language: any path from the document element, every result observed (string-value,
   copy, position among the siblings, number of siblings, children, descendants, text descendants) *)
Theorem strip_equiv : forall st p n a ks,
  run_obs st p (Elem n a ks) = run_obs no_strip p (remove_stripped st root_key (Elem n a ks)).
Proof. exact strip_equiv_tree. Qed.
Print Assumptions strip_equiv.

(* the same with the decision computed from a stylesheet's declarations as the code computes it *)
Theorem strip_equiv_sheet : forall s p n a ks,
  run_obs (sheet_strip s) p (Elem n a ks) = run_obs (sheet_strip (Sheet [] [])) p (remove_stripped (sheet_strip s) root_key (Elem n a ks)).
Proof. intros. apply strip_equiv_tree. Qed.
Print Assumptions strip_equiv_sheet.

Theorem remove_stripped_idempotent : forall st pk x, remove_stripped st pk (remove_stripped st pk x) = remove_stripped st pk x.
Proof. exact rs_idempotent. Qed.
Print Assumptions remove_stripped_idempotent.

(* ---- the full-zipper observation language: parent, ancestor, following and preceding axes as well ----------- *)
Theorem strip_equiv_all_axes : forall st a z, zvisible st z = true ->
  map (zstrip st) (zaxis_ctxs st a z) = zaxis_ctxs no_strip a (zstrip st z).
Proof. exact zaxis_equiv. Qed.
Print Assumptions strip_equiv_all_axes.

(* any path over the eleven axes self, child, descendant(-or-self), parent, ancestor(-or-self), following(-sibling),
   preceding(-sibling) with node tests and positional predicates, from the document element; every result observed
   by string-value, copy, position, numbers of siblings and children, depth, numbers of following and preceding nodes *)
Theorem strip_equiv_zipper : forall st p n a ks,
  zrun st p (Elem n a ks) = zrun no_strip p (remove_stripped st root_key (Elem n a ks)).
Proof. exact zstrip_equiv. Qed.
Print Assumptions strip_equiv_zipper.

(* ---- keys, xsl:number level="single", sort keys ------------------------------------------------------ *)
(* key('k', v) for xsl:key match=<node test> use="." : the same nodes (up to the removal) *)
Theorem strip_equiv_key_dot : forall st m v n a ks,
  map (strip_ctx st) (key_dot st m v (Elem n a ks)) = key_dot no_strip m v (remove_stripped st root_key (Elem n a ks)).
Proof. exact key_dot_equiv. Qed.
Print Assumptions strip_equiv_key_dot.

(* ... and for use="text()" (the key values are the string-values of the visible text children) *)
Theorem strip_equiv_key_text : forall st m v n a ks,
  map (strip_ctx st) (key_text st m v (Elem n a ks)) = key_text no_strip m v (remove_stripped st root_key (Elem n a ks)).
Proof. exact key_text_equiv. Qed.
Print Assumptions strip_equiv_key_text.

Theorem strip_equiv_number_single : forall st t c, ctx_visible st c = true ->
  number_single no_strip t (strip_ctx st c) = number_single st t c.
Proof. exact number_single_equiv. Qed.
Print Assumptions strip_equiv_number_single.

Theorem strip_equiv_sort_keys : forall st l, Forall (fun c => ctx_visible st c = true) l ->
  sort_keys no_strip (map (strip_ctx st) l) = sort_keys st l.
Proof. exact sort_keys_equiv. Qed.
Print Assumptions strip_equiv_sort_keys.

(* ---- xml:space (K-C13-1, repaired: the code honours it) ------------------------------------------------------ *)
(* the removal of the model (decision on the key: parent name + inherited xml:space state) is the removal of
   XSLT 1.0 3.4 — a FULL theorem, no guard *)
Theorem xml_space_rule : forall st x, remove_stripped st root_key x = rec_remove st false x.
Proof. intros. apply xml_space_rule_lemma. Qed.
Print Assumptions xml_space_rule.

(* isXMLSpacePreserved (upward search from the parent: the first xml:space="preserve"/"default" decides) computes the
   state inherited downwards *)
Theorem xml_space_walk_is_inherited : forall chain, xml_space_walk chain = inherited chain.
Proof. exact walk_is_inherited. Qed.
Print Assumptions xml_space_walk_is_inherited.

(* StylesheetRoot::shouldStripSourceNode after the fix = the model's `stripped` on (parent name, that state) *)
Theorem strip_decision_after_fix : forall l pn chain d,
  should_strip_fixed l pn chain (text_ws d) = stripped (fun n => should_strip l n true) (pn, xml_space_walk chain) (Text d).
Proof. exact should_strip_fixed_key. Qed.
Print Assumptions strip_decision_after_fix.

(* the removal with the decision taken as the code takes it (upward search at every text node) is the Recommendation's *)
Theorem xml_space_rule_code : forall st x, code_remove st [] x = rec_remove st false x.
Proof. exact code_remove_is_rec. Qed.
Print Assumptions xml_space_rule_code.

(* ---- non-vacuity --------------------------------------------------------------------------------- *)
Definition ex_strip_a := {| t_test := NtQ 0 1; t_strip := true |}.
Definition ex_pres_any := {| t_test := NtAny; t_strip := false |}.
Definition ex_strip_ns := {| t_test := NtNs 2; t_strip := true |}.
Definition ex_pres_a := {| t_test := NtQ 0 1; t_strip := false |}.
(* main: preserve *, strip a (later, same module), import 1: preserve a; import 2: strip p:* *)
Definition ex_sheet := Sheet [ex_pres_any; ex_strip_a] [Sheet [ex_pres_a] []; Sheet [ex_strip_ns] []].

Example ex_tester_list : post_construction ex_sheet = [ex_strip_a; ex_pres_any; ex_strip_ns; ex_pres_a].
Proof. reflexivity. Qed.
(* a: the QName of the main module beats * of the same module and the import's preserve; p:b: * of the main
   module (higher precedence) beats the import's p:* although p:* has the higher priority *)
Example ex_decisions : sheet_strip ex_sheet (0, 1)%N = true /\ sheet_strip ex_sheet (2, 2)%N = false /\ sheet_strip ex_sheet (0, 3)%N = false.
Proof. repeat split; reflexivity. Qed.
Example ex_applicable : applicable ex_sheet (0, 1)%N ex_strip_a.
Proof.
  exists [[ex_pres_a]; [ex_strip_ns]], [ex_pres_any; ex_strip_a], []. repeat split.
  - constructor.
  - exists [ex_pres_any], []. repeat split; [ | intros d' [] ].
    intros d' [<-|[]] _. vm_compute. discriminate.
Qed.
(* last one wins among equal priority in one module *)
Example ex_last_wins : sheet_strip (Sheet [ex_strip_a; ex_pres_a] []) (0, 1)%N = false /\ sheet_strip (Sheet [ex_pres_a; ex_strip_a] []) (0, 1)%N = true.
Proof. split; reflexivity. Qed.

Definition ex_doc : node :=
  Elem (0, 3)%N [] [Text [32]; Elem (0, 1)%N [] [Text [9]; Comment [107]; Text [10]]; Text [120]; Elem (2, 2)%N [] [Text [32; 32]]]%N.
Example ex_removed : remove_stripped (sheet_strip ex_sheet) root_key ex_doc =
  Elem (0, 3)%N [] [Text [32]; Elem (0, 1)%N [] [Comment [107]]; Text [120]; Elem (2, 2)%N [] [Text [32; 32]]]%N.
Proof. reflexivity. Qed.
(* the second child of the document element, its following sibling text: something is really observed *)
Example ex_observation :
  map o_string (run_obs (sheet_strip ex_sheet)
     [ {| s_axis := AxChild; s_test := TAnyElem; s_pred := PPos 1 |}; {| s_axis := AxChild; s_test := TNode; s_pred := PLast |} ] ex_doc) = [[107%N]]
  /\ map o_child_count (run_obs (sheet_strip ex_sheet) [ {| s_axis := AxDescendantOrSelf; s_test := TAnyElem; s_pred := PAll |} ] ex_doc) = [4; 1; 1]
  /\ map o_child_count (run_obs no_strip [ {| s_axis := AxDescendantOrSelf; s_test := TAnyElem; s_pred := PAll |} ] ex_doc) = [4; 3; 1].
Proof. repeat split; reflexivity. Qed.

(* xml:space: <r xml:space="preserve">_<a xml:space="default">_<c>_</c></a><b>_</b></r> with strip-space elements="*"
   (_ = " "; r a b c = local names 1 2 3 4): the whitespace text children of r and b (preserve in force) survive,
   those of a and c (default in force) do not; the string-values through the predicate (original tree) agree
   with those of the removed tree without predicate, and differ from those of the original tree without predicate *)
Definition ex_xs_doc : node :=
  Elem (0, 1)%N [((xml_ns, space_local), preserve_value)]
    [ Text [32]; Elem (0, 2)%N [((xml_ns, space_local), default_value)] [Text [32]; Elem (0, 4)%N [] [Text [32]]];
      Elem (0, 3)%N [] [Text [32]] ]%N.
Definition ex_xs_all : list step := [ {| s_axis := AxDescendantOrSelf; s_test := TAnyElem; s_pred := PAll |} ].
Example ex_xml_space :
  remove_stripped (fun _ => true) root_key ex_xs_doc =
    Elem (0, 1)%N [((xml_ns, space_local), preserve_value)]
      [ Text [32]; Elem (0, 2)%N [((xml_ns, space_local), default_value)] [Elem (0, 4)%N [] []];
        Elem (0, 3)%N [] [Text [32]] ]%N
  /\ rec_remove (fun _ => true) false ex_xs_doc = remove_stripped (fun _ => true) root_key ex_xs_doc
  /\ string_value (fun _ => true) root_key ex_xs_doc = [32; 32]%N
  /\ string_value no_strip root_key (remove_stripped (fun _ => true) root_key ex_xs_doc) = [32; 32]%N
  /\ string_value no_strip root_key ex_xs_doc = [32; 32; 32; 32]%N
  /\ map o_string (run_obs (fun _ => true) ex_xs_all ex_xs_doc) = [[32; 32]; []; []; [32]]%N
  /\ map o_string (run_obs no_strip ex_xs_all (remove_stripped (fun _ => true) root_key ex_xs_doc)) = [[32; 32]; []; []; [32]]%N
  /\ map o_child_count (run_obs (fun _ => true) ex_xs_all ex_xs_doc) = [3; 1; 0; 1]
  /\ map o_child_count (run_obs no_strip ex_xs_all ex_xs_doc) = [3; 2; 1; 1]
  /\ ws_decisions (fun _ => true) root_key ex_xs_doc = [false; true; true; false].
Proof. vm_compute. repeat split; reflexivity. Qed.

(* ---- xsl:number level="any" ------------------------------------------------------------------------------- *)
(* <d><b><b>WS</b></b><c/></d>, strip-space elements="b", current node c, count="node()" from="b" *)
Definition ex_walk : list wnode :=
  [ {| w_depth := 1; w_from := false; w_count := true; w_stripped := false |};    (* c *)
    {| w_depth := 3; w_from := false; w_count := false; w_stripped := true |};    (* the stripped text *)
    {| w_depth := 2; w_from := true; w_count := true; w_stripped := false |};     (* inner b *)
    {| w_depth := 1; w_from := true; w_count := true; w_stripped := false |};     (* outer b *)
    {| w_depth := 0; w_from := false; w_count := true; w_stripped := false |} ].  (* d *)

Lemma ex_walk_ok : walk_ok ex_walk.
Proof.
  intros x Hx S. cbn in Hx. repeat (destruct Hx as [<-|Hx]; [cbn in S; try discriminate; split; reflexivity|]). destruct Hx.
Qed.

(* the pinned tree (getPreviousNode tests from only on moves to a parent; known finding K-C13-2, repaired in
   /repo by d323070): the walk gives 1 on the original and 2 on the physically stripped document *)
Theorem number_any_strip_refuted :
  exists l, walk_ok l /\ number_any_pinned (walk_strip l) <> number_any_pinned l.
Proof. exists ex_walk. split; [exact ex_walk_ok|]. vm_compute. discriminate. Qed.
Print Assumptions number_any_strip_refuted.

(* exact guard for that configuration: no from pattern (holds for every configuration) *)
Theorem number_any_strip_partial : forall every sf l, walk_ok l -> (forall x, In x l -> w_from x = false) ->
  number_any_cfg every sf (walk_strip l) = number_any_cfg every sf l.
Proof. exact number_any_strip_partial_lemma. Qed.
Print Assumptions number_any_strip_partial.

(* the source as it is now (GenStrip.number_from_on_every_node = true): the count of a visible node is the same
   in the original and in the physically stripped document, for every from and count pattern *)
Theorem number_any_strip_independent : forall x r, walk_ok (x :: r) -> w_stripped x = false ->
  number_any (walk_strip (x :: r)) = number_any (x :: r).
Proof. intros x r. unfold number_any. change number_from_on_every_node with true. apply number_any_repaired_strip. Qed.
Print Assumptions number_any_strip_independent.

Example ex_number_any_now : number_any ex_walk = 1 /\ number_any (walk_strip ex_walk) = 1.
Proof. split; reflexivity. Qed.

(* keys: with the declarations of ex_sheet the element a has the string-value "" (its whitespace is stripped), without
   declarations it does not; the text-children key of the document element sees " " and "x" in both *)
Example ex_keys :
  length (key_dot (sheet_strip ex_sheet) TAnyElem [] ex_doc) = 1 /\ length (key_dot no_strip TAnyElem [] ex_doc) = 0
  /\ length (key_text (sheet_strip ex_sheet) TAnyElem [9%N] ex_doc) = 0 /\ length (key_text no_strip TAnyElem [9%N] ex_doc) = 1
  /\ map (number_single (sheet_strip ex_sheet) TNode) (eval_path (sheet_strip ex_sheet) [ {| s_axis := AxChild; s_test := TAnyElem; s_pred := PPos 1 |}; {| s_axis := AxChild; s_test := TComment; s_pred := PAll |} ] (root_ctx ex_doc)) = [Some 1]
  /\ map (number_single no_strip TNode) (eval_path no_strip [ {| s_axis := AxChild; s_test := TAnyElem; s_pred := PPos 1 |}; {| s_axis := AxChild; s_test := TComment; s_pred := PAll |} ] (root_ctx ex_doc)) = [Some 2].
Proof. repeat split; reflexivity. Qed.
