(* Properties_C18.v — property theorems for C18 (number/string conversions). Nothing but
   statements closed by [exact] and their assumptions. *)
From Coq Require Import ZArith NArith List Bool Lia SpecFloat.
Require Import XV.GenNum XV.NumDefs XV.NumModel XV.NumFlocq XV.NumRoundTrip.
Import ListNotations.
Local Open Scope Z_scope.

(* sprintf output (with its NUL) fits the smallest stack buffer of the double conversions, for
   every double and every precision DoubleToCharacters can reach: the precisions of thePrintfStrings
   and those of the "%.*f" loop that follows them (start precision from frexp, end at
   MAX_FRACTION_DIGITS); sizes, precisions and the loop's constants come from GenNum.v, regenerated
   from DOMStringHelper.cpp on every run *)
Theorem printf_fits : forall x p,
  valid_binary prec emax x = true -> In p printf_precisions \/ In p (ext_precisions x) ->
  (printf_bytes p x <= printf_buffer_bytes)%nat.
Proof. exact printf_fits_ext_lemma. Qed.
Print Assumptions printf_fits.

(* the "%.*f" loop stays within (last table precision, MAX_FRACTION_DIGITS] *)
Theorem ext_loop_bounded : forall x p,
  valid_binary prec emax x = true -> In p (ext_precisions x) ->
  (printf_last_table_precision < p <= printf_max_precision)%nat.
Proof. exact ext_precisions_bounds. Qed.
Print Assumptions ext_loop_bounded.

(* the hypothesis above holds for every 64-bit pattern *)
Theorem every_pattern_valid : forall b, valid_binary prec emax (of_bits b) = true.
Proof. exact of_bits_valid. Qed.
Print Assumptions every_pattern_valid.

Example printf_fits_is_tight :
  printf_bytes 35 (of_bits 0xFFEFFFFFFFFFFFFF) = 347%nat /\
  valid_binary prec emax (of_bits 0xFFEFFFFFFFFFFFFF) = true.
Proof. exact printf_fits_tight. Qed.
Print Assumptions printf_fits_is_tight.

(* doValidate accepts exactly  S? '-'? (Digits ('.' Digits?)? | '.' Digits) S?  and reports the
   decimal point correctly on accepted strings *)
Theorem str2num_grammar : forall s,
  fst (do_validate s) = fst (ref_validate s) /\
  (fst (do_validate s) = true -> snd (do_validate s) = snd (ref_validate s)).
Proof. exact do_validate_eq_ref. Qed.
Print Assumptions str2num_grammar.

Theorem str2num_invalid_is_nan : forall s,
  fst (ref_validate (c_str s)) = false -> string_to_number s = S754_nan.
Proof. exact invalid_is_nan. Qed.
Print Assumptions str2num_invalid_is_nan.

Example str2num_grammar_instances :
  fst (ref_validate [32; 45; 49; 50; 46; 53; 10]%N) = true /\      (* " -12.5\n" *)
  fst (ref_validate [46; 53]%N) = true /\                           (* ".5" *)
  fst (ref_validate [49; 46]%N) = true /\                           (* "1." *)
  fst (ref_validate [43; 49]%N) = false /\                          (* "+1" *)
  fst (ref_validate [49; 101; 51]%N) = false /\                     (* "1e3" *)
  fst (ref_validate [45; 32; 49]%N) = false /\                      (* "- 1" *)
  fst (ref_validate [46]%N) = false.                                (* "." *)
Proof. vm_compute. repeat split. Qed.
Print Assumptions str2num_grammar_instances.

(* floor / ceiling / round are the integers XPath 4.4 prescribes, computed on the exact rational
   value sm / 2^(-e) of the double; the sign of a zero result is the sign of the argument
   (round(-0.2) = -0) *)
Theorem floor_spec : forall s m e, e < 0 ->
  d_floor (S754_finite s m e) = of_Z s (signed s m / 2 ^ (- e)).
Proof. exact d_floor_spec. Qed.
Print Assumptions floor_spec.

Theorem ceiling_spec : forall s m e, e < 0 ->
  d_ceiling (S754_finite s m e) = of_Z s (- ((- signed s m) / 2 ^ (- e))).
Proof. exact d_ceiling_spec. Qed.
Print Assumptions ceiling_spec.

Theorem round_spec : forall s m e, e < 0 ->
  d_round (S754_finite s m e) = of_Z s ((2 * signed s m + 2 ^ (- e)) / (2 * 2 ^ (- e))).
Proof. exact d_round_spec. Qed.
Print Assumptions round_spec.

Theorem rounding_fixes_integers_and_specials : forall x,
  (match x with S754_finite _ _ e => 0 <= e | _ => True end) ->
  d_floor x = x /\ d_ceiling x = x /\ d_round x = x.
Proof. exact rounding_fixed_points. Qed.
Print Assumptions rounding_fixes_integers_and_specials.

Example round_instances :
  to_bits (d_round (of_bits 0x3FDFFFFFFFFFFFFF)) = 0 /\                       (* round(0.49999999999999994) = 0 *)
  to_bits (d_round (of_bits 0x4330000000000001)) = 0x4330000000000001 /\     (* round(2^52+1) = 2^52+1 *)
  to_bits (d_round (of_bits 0xBFC999999999999A)) = 0x8000000000000000 /\     (* round(-0.2) = -0 *)
  to_bits (d_round (of_bits 0xBFE0000000000000)) = 0x8000000000000000 /\     (* round(-0.5) = -0 *)
  to_bits (d_round (of_bits 0x4004000000000000)) = 0x4008000000000000 /\     (* round(2.5) = 3 *)
  to_bits (d_round (of_bits 0xC004000000000000)) = 0xC000000000000000.       (* round(-2.5) = -2 *)
Proof. vm_compute. repeat split. Qed.
Print Assumptions round_instances.

(* ROUND TRIP, the full statement (refuted before the repair of K5, proved now).
   For every double x (every value of the model type that is a valid binary64 datum):
     - finite and non-zero: number(string(x)) is x itself, bit for bit (same sign, mantissa, exponent);
     - +0 and -0: string is "0" and number("0") is +0, so -0 comes back as +0 (IEEE-equal, see
       num2str_roundtrip_ieee) -- the sign of zero cannot survive a string that the property itself
       requires to carry '-' only for negative values;
     - NaN: "NaN" comes back as NaN (the model has one NaN; payloads are not distinguished by XPath);
     - +-Infinity: "Infinity" / "-Infinity" are not XPath Numbers, number() of them is NaN as XPath
       1.0 prescribes -- the only doubles for which number(string(x)) is not x. *)
Theorem num2str_roundtrip : forall x, valid_binary prec emax x = true ->
  string_to_number (number_to_string x) =
  match x with
  | S754_finite _ _ _ => x
  | S754_zero _ => S754_zero false
  | S754_nan => S754_nan
  | S754_infinity _ => S754_nan
  end.
Proof. exact roundtrip_all. Qed.
Print Assumptions num2str_roundtrip.

(* the same on bit patterns: for each of the 2^64 - 2^53 - 2 patterns of a finite non-zero double,
   number(string(x)) has exactly the pattern of x *)
Theorem num2str_roundtrip_bits : forall b, 0 <= b < 2 ^ 64 ->
  match of_bits b with
  | S754_finite _ _ _ => to_bits (string_to_number (number_to_string (of_bits b))) = b
  | _ => True
  end.
Proof. exact roundtrip_bits. Qed.
Print Assumptions num2str_roundtrip_bits.

(* the statement that was refuted before, for every 64-bit pattern of a finite double, with IEEE == *)
Theorem num2str_roundtrip_ieee : forall b,
  match of_bits b with
  | S754_nan | S754_infinity _ => True
  | x => d_eqb (string_to_number (number_to_string x)) x = true
  end.
Proof. exact roundtrip_patterns. Qed.
Print Assumptions num2str_roundtrip_ieee.

(* why the loops end well: whichever exit returns it, the buffer is sprintf("%.pf", x) for some p and
   atof reads it back as x (early exits by the loop's own test; the last precision because the
   expansion is exact there and atof of an exact numeral of a representable value is that value) *)
Theorem double_to_characters_reads_back : forall s m e,
  valid_binary prec emax (S754_finite s m e) = true ->
  exists p, double_to_characters (S754_finite s m e) = printf_f p (S754_finite s m e) /\
            atof (printf_f p (S754_finite s m e)) = S754_finite s m e.
Proof. exact NumRoundTrip.double_to_characters_reads_back. Qed.
Print Assumptions double_to_characters_reads_back.

(* the start precision derived from frexp() is only a short cut: every precision it skips prints
   nothing but zeros, so the "%.*f" loop returns what the plain search 36, 37, ... would return --
   the fewest fractional digits (at least 10) that read back as x *)
Theorem ext_start_skips_nothing : forall s m e, valid_binary prec emax (S754_finite s m e) = true ->
  try_precisions (S754_finite s m e) (ext_precisions (S754_finite s m e)) [] =
  try_precisions (S754_finite s m e)
    (seq (S printf_last_table_precision) (printf_max_precision - printf_last_table_precision)) [].
Proof. exact NumRoundTrip.ext_start_skips_nothing. Qed.
Print Assumptions ext_start_skips_nothing.

(* the two parsers agree where it matters: DoubleSupport::toDouble of the trimmed text (validation,
   long fast path or atof) is C atof of the untrimmed sprintf buffer the loop tested *)
Theorem toDouble_of_trimmed_is_atof_of_buffer : forall s m e p,
  string_to_number (trim_number (printf_f p (S754_finite s m e))) = atof (printf_f p (S754_finite s m e)).
Proof. exact s2n_trim_printf. Qed.
Print Assumptions toDouble_of_trimmed_is_atof_of_buffer.

(* number(s) for a numeral  ['-'] digits ['.' digits]  is the double nearest to it ... *)
Theorem str2num_numeral_nearest : forall neg ip fp, all_digits ip -> all_digits fp -> ip <> [] ->
  string_to_number (sgn neg ++ ip ++ frac fp) =
  nearest_double neg (value_of_digits 0 (ip ++ fp)) (10 ^ Z.of_nat (length fp)).
Proof. exact s2n_numeral. Qed.
Print Assumptions str2num_numeral_nearest.

(* ... where nearest_double is round-to-nearest-even of the rational num/den in the sense of Flocq
   (valid result; its real value is the rounding and its sign the given one, or overflow to infinity) *)
Theorem nearest_double_correctly_rounded : forall s num den, 0 < num -> 0 < den ->
  rounds_to s (Rdefinitions.Rdiv (Rdefinitions.IZR (Flocq.Core.Zaux.cond_Zopp s num)) (Rdefinitions.IZR den))
            (nearest_double s num den).
Proof. exact nearest_double_spec. Qed.
Print Assumptions nearest_double_correctly_rounded.

(* FORM of string(x) for finite non-zero x: optional '-' exactly when x is negative, an integer part
   that is "0" or has no leading zero, and either no fraction or a point followed by digits that do
   not end in '0' -- hence no exponent, no superfluous zeros, a digit on each side of the point *)
Theorem num2str_form : forall s m e, valid_binary prec emax (S754_finite s m e) = true ->
  exists ip fp, number_to_string (S754_finite s m e) = sgn s ++ ip ++ frac fp /\
    all_digits ip /\ all_digits fp /\ int_part_ok ip /\ frac_ok fp.
Proof. exact number_to_string_shape. Qed.
Print Assumptions num2str_form.

(* and it is an XPath Number (the recogniser of str2num_grammar accepts it) whose '-' is the sign of x;
   with num2str_roundtrip the numeral is never "-0": it denotes x, which is not zero *)
Theorem num2str_is_number : forall s m e, valid_binary prec emax (S754_finite s m e) = true ->
  fst (ref_validate (number_to_string (S754_finite s m e))) = true /\
  starts_with_minus (number_to_string (S754_finite s m e)) = s.
Proof.
  intros s m e Hv. destruct (number_to_string_is_number s m e Hv) as [H1 H2]. rewrite H1. auto.
Qed.
Print Assumptions num2str_is_number.

(* regression for K5: before the repair the loop stopped at "%.35f" and string(1e-40) was "0",
   string(-1e-40) "-0"; now both come back bit for bit, and so does the smallest subnormal *)
Example k5_before_the_fix :
  trim_number (try_precisions (of_bits 0x37A16C262777579C) printf_precisions []) = [48]%N /\
  trim_number (try_precisions (of_bits 0xB7A16C262777579C) printf_precisions []) = [45; 48]%N.
Proof. vm_compute. split; reflexivity. Qed.
Print Assumptions k5_before_the_fix.

Example k5_after_the_fix :
  to_bits (string_to_number (number_to_string (of_bits 0x37A16C262777579C))) = 0x37A16C262777579C /\
  to_bits (string_to_number (number_to_string (of_bits 0xB7A16C262777579C))) = 0xB7A16C262777579C /\
  to_bits (string_to_number (number_to_string (of_bits 1))) = 1 /\
  length (number_to_string (of_bits 1)) = 326%nat /\
  number_to_string (of_bits 0x37A16C262777579C) = [48; 46]%N ++ zeros 39 ++ [49]%N.
Proof. vm_compute. repeat split; reflexivity. Qed.
Print Assumptions k5_after_the_fix.

(* number('-0') is -0 on both paths (the short-string path goes through a long, which has no negative
   zero; repaired in the library by the coordinator's fix commit, the model follows the code) *)
Theorem str2num_negzero :
  to_bits (string_to_number [45; 48]%N) = 0x8000000000000000 /\ to_bits (atof [45; 48]%N) = 0x8000000000000000 /\
  to_bits (string_to_number [32; 45; 48; 48; 32]%N) = 0x8000000000000000 /\ to_bits (string_to_number [48]%N) = 0.
Proof. vm_compute. repeat split; reflexivity. Qed.
Print Assumptions str2num_negzero.
