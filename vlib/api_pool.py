"""C06: in-memory pools of stylesheets / sources / files for the api harness (harness/api.cpp).
Every stylesheet exercises engine state that a forgotten reset could leak into the next
transformation: keys, xsl:number counters, variable/param stacks, modes, result tree fragments,
output settings, sort, attribute sets, extension functions, top-level params.
kind: ok | compile (stylesheet does not compile) | run (aborts at run time: message terminate,
XPath run-time error, extension element, serialisation) ; tag = abort kind."""

X = 'xmlns:xsl="http://www.w3.org/1999/XSL/Transform" version="1.0"'
V = 'xmlns:v="urn:verif"'
XA = 'xmlns:xalan="http://xml.apache.org/xalan"'

# body shared by several failing sheets: deep, stateful work that is interrupted mid-way
DEEP = '''
 <xsl:key name="k" match="item" use="@g"/>
 <xsl:key name="byid" match="item" use="@id"/>
 <xsl:variable name="top" select="count(//item)"/>
 <xsl:param name="p" select="'dflt'"/>
 <xsl:template match="/">
  <out p="{$p}" top="{$top}">
   <xsl:apply-templates select="*" mode="m1"><xsl:with-param name="depth" select="1"/></xsl:apply-templates>
  </out>
 </xsl:template>
 <xsl:template match="*" mode="m1">
  <xsl:param name="depth"/>
  <xsl:variable name="frag"><f d="{$depth}"><xsl:number level="any" count="item"/></f></xsl:variable>
  <e n="{name()}" d="{$depth}" k="{count(key('k', @g))}">
   <xsl:copy-of select="$frag"/>
   <xsl:for-each select="*">
    <xsl:sort select="@id" order="descending"/>
    <xsl:number level="multiple" count="*" format="1.a"/>
    <xsl:apply-templates select="." mode="m2"><xsl:with-param name="depth" select="$depth + 1"/></xsl:apply-templates>
   </xsl:for-each>
  </e>
 </xsl:template>
 <xsl:template match="*" mode="m2">
  <xsl:param name="depth"/>
  <xsl:attribute name="a{$depth}"><xsl:value-of select="concat(name(), '-', $depth)"/></xsl:attribute>
  <xsl:comment><xsl:value-of select="$depth"/></xsl:comment>
  <xsl:choose>
   <xsl:when test="@boom">BOOM_POINT</xsl:when>
   <xsl:otherwise><xsl:apply-templates select="." mode="m1"><xsl:with-param name="depth" select="$depth + 1"/></xsl:apply-templates></xsl:otherwise>
  </xsl:choose>
 </xsl:template>
'''


def deep(boom, extra_ns="", top=""):
    return '<xsl:stylesheet %s %s>%s%s</xsl:stylesheet>' % (X, extra_ns, top, DEEP.replace("BOOM_POINT", boom))


SHEETS = [
    # ---- succeeding ------------------------------------------------------------------------
    ("ok", "keys+modes", '''<xsl:stylesheet %s><xsl:output method="xml" omit-xml-declaration="yes"/>
 <xsl:key name="k" match="item" use="@g"/>
 <xsl:template match="/"><r><xsl:for-each select="//item[generate-id()=generate-id(key('k',@g)[1])]">
   <g n="{@g}" c="{count(key('k',@g))}"><xsl:apply-templates select="key('k',@g)" mode="x"/></g></xsl:for-each>
   <xsl:apply-templates select="//item[1]"/></r></xsl:template>
 <xsl:template match="item" mode="x"><i><xsl:value-of select="@id"/></i></xsl:template>
 <xsl:template match="item"><first><xsl:value-of select="@id"/></first></xsl:template>
</xsl:stylesheet>''' % X),
    ("ok", "number", '''<xsl:stylesheet %s><xsl:output method="text"/>
 <xsl:template match="/"><xsl:apply-templates select="//item"/></xsl:template>
 <xsl:template match="item"><xsl:number level="any"/>:<xsl:number level="multiple" count="*" format="1.1"/>:<xsl:number level="single" format="a"/>;</xsl:template>
</xsl:stylesheet>''' % X),
    ("ok", "vars+recursion", '''<xsl:stylesheet %s><xsl:output method="xml" indent="no"/>
 <xsl:variable name="g" select="count(//*)"/>
 <xsl:template name="loop"><xsl:param name="n" select="0"/><xsl:param name="acc" select="''"/>
  <xsl:choose><xsl:when test="$n &gt; 0"><xsl:call-template name="loop"><xsl:with-param name="n" select="$n - 1"/><xsl:with-param name="acc" select="concat($acc, $n, ',')"/></xsl:call-template></xsl:when>
  <xsl:otherwise><xsl:value-of select="$acc"/></xsl:otherwise></xsl:choose></xsl:template>
 <xsl:template match="/"><v g="{$g}"><xsl:call-template name="loop"><xsl:with-param name="n" select="12"/></xsl:call-template></v></xsl:template>
</xsl:stylesheet>''' % X),
    ("ok", "rtf+nodeset", '''<xsl:stylesheet %s %s exclude-result-prefixes="xalan">
 <xsl:variable name="t"><a>1</a><a>2</a><b><xsl:copy-of select="/*/item[1]"/></b></xsl:variable>
 <xsl:template match="/"><r n="{count(xalan:nodeset($t)/a)}"><xsl:copy-of select="$t"/><xsl:for-each select="xalan:nodeset($t)/*"><xsl:sort select="name()" order="descending"/><x><xsl:value-of select="name()"/></x></xsl:for-each></r></xsl:template>
</xsl:stylesheet>''' % (X, XA)),
    ("ok", "sort+modes", '''<xsl:stylesheet %s><xsl:output method="xml" omit-xml-declaration="yes"/>
 <xsl:template match="/"><s><xsl:apply-templates select="//item" mode="a"><xsl:sort select="@g"/><xsl:sort select="@id" data-type="number" order="descending"/></xsl:apply-templates>
  <xsl:apply-templates select="//item" mode="b"><xsl:sort select="." lang="en"/></xsl:apply-templates></s></xsl:template>
 <xsl:template match="item" mode="a"><a><xsl:value-of select="concat(@g,@id,':',position(),'/',last())"/></a></xsl:template>
 <xsl:template match="item" mode="b"><b><xsl:value-of select="position()"/></b></xsl:template>
</xsl:stylesheet>''' % X),
    ("ok", "html+latin1+indent", '''<xsl:stylesheet %s><xsl:output method="html" indent="yes" encoding="ISO-8859-1"/>
 <xsl:template match="/"><html><head><title>t&#233;</title></head><body><p>&#8364; &#233;<br/></p><xsl:for-each select="//item"><div id="{@id}"><xsl:value-of select="."/></div></xsl:for-each></body></html></xsl:template>
</xsl:stylesheet>''' % X),
    ("ok", "toplevel-params", '''<xsl:stylesheet %s><xsl:output method="text"/>
 <xsl:param name="p" select="'dflt-p'"/><xsl:param name="q" select="'dflt-q'"/><xsl:param name="n" select="-1"/>
 <xsl:template match="/">p=<xsl:value-of select="$p"/>;q=<xsl:value-of select="$q"/>;n=<xsl:value-of select="$n"/>;</xsl:template>
</xsl:stylesheet>''' % X),
    ("ok", "extfn-available", '''<xsl:stylesheet %s %s exclude-result-prefixes="v"><xsl:output method="text"/>
 <xsl:template match="/">f1:<xsl:choose><xsl:when test="function-available('v:f1')"><xsl:value-of select="v:f1('a', 2)"/></xsl:when><xsl:otherwise>none</xsl:otherwise></xsl:choose>;f2:<xsl:choose><xsl:when test="function-available('v:f2')"><xsl:value-of select="v:f2()"/></xsl:when><xsl:otherwise>none</xsl:otherwise></xsl:choose>;</xsl:template>
</xsl:stylesheet>''' % (X, V)),
    ("ok", "document", '''<xsl:stylesheet %s><xsl:output method="xml" omit-xml-declaration="yes"/>
 <xsl:key name="d" match="e" use="@k"/>
 <xsl:template match="/"><r><xsl:for-each select="document('d2.xml')"><xsl:copy-of select="key('d','1')"/></xsl:for-each><n><xsl:value-of select="count(document('d2.xml')//e)"/></n></r></xsl:template>
</xsl:stylesheet>''' % X),
    ("ok", "attrsets+text", '''<xsl:stylesheet %s><xsl:output method="xml" omit-xml-declaration="yes" cdata-section-elements="c"/>
 <xsl:attribute-set name="s1"><xsl:attribute name="x">1</xsl:attribute></xsl:attribute-set>
 <xsl:attribute-set name="s2" use-attribute-sets="s1"><xsl:attribute name="y"><xsl:value-of select="count(//item)"/></xsl:attribute></xsl:attribute-set>
 <xsl:template match="/"><r xsl:use-attribute-sets="s2"><c>a &lt; b</c><xsl:element name="e" use-attribute-sets="s1"><xsl:value-of select="normalize-space(/*/item[2])"/></xsl:element></r></xsl:template>
</xsl:stylesheet>''' % X),
    ("ok", "deep-no-boom", deep('<ok/>')),
    ("ok", "param-in-deep", deep('<xsl:value-of select="$p"/>')),
    # ---- failing at compile time --------------------------------------------------------------
    ("compile", "syntax-error", '<xsl:stylesheet %s><xsl:template match="/"><a></xsl:template></xsl:stylesheet>' % X),
    ("compile", "xslt-error", '<xsl:stylesheet %s><xsl:template match="/"><xsl:value-of/></xsl:template></xsl:stylesheet>' % X),
    ("compile", "xpath-syntax", '<xsl:stylesheet %s><xsl:template match="/"><xsl:value-of select="1 +"/></xsl:template></xsl:stylesheet>' % X),
    ("compile", "unknown-variable", '<xsl:stylesheet %s><xsl:template match="/"><xsl:value-of select="$nope"/></xsl:template></xsl:stylesheet>' % X),
    # ---- failing at run time (after output and engine state exist) -------------------------------
    ("run", "message-terminate", deep('<xsl:message terminate="yes">stop <xsl:value-of select="$depth"/></xsl:message>')),
    ("run", "unknown-ext-function", deep('<xsl:value-of select="v:nofn(1)"/>', V)),
    ("run", "unknown-ext-element", deep('<v:nothing/>', V + ' extension-element-prefixes="v"')),
    ("run", "terminate-in-rtf", deep('<xsl:variable name="r"><z><xsl:message terminate="yes">in rtf</xsl:message></z></xsl:variable><xsl:copy-of select="$r"/>')),
    ("run", "terminate-in-sort-loop", deep('<xsl:for-each select="//item"><xsl:sort select="@id"/><xsl:if test="position()=2"><xsl:message terminate="yes">loop</xsl:message></xsl:if><i/></xsl:for-each>')),
    ("run", "terminate-in-attribute", deep('<xsl:attribute name="late"><xsl:value-of select="1"/><xsl:message terminate="yes">attr</xsl:message></xsl:attribute>')),
    ("run", "error-in-key-use", '''<xsl:stylesheet %s %s><xsl:key name="bad" match="item" use="v:nofn(@id)"/>
 <xsl:template match="/"><r><xsl:number value="3"/><xsl:value-of select="count(key('bad','x'))"/></r></xsl:template></xsl:stylesheet>''' % (X, V)),
    ("run", "unknown-encoding", '''<xsl:stylesheet %s><xsl:output method="xml" encoding="bogus-enc-42"/>
 <xsl:template match="/"><r><xsl:apply-templates select="//item" mode="m"/></r></xsl:template><xsl:template match="item" mode="m"><i/></xsl:template></xsl:stylesheet>''' % X),
    ("run", "missing-document", '''<xsl:stylesheet %s><xsl:template match="/"><r><xsl:variable name="d" select="document('missing.xml')"/><n><xsl:value-of select="count($d)"/></n><xsl:copy-of select="$d"/></r></xsl:template></xsl:stylesheet>''' % X),
    ("run", "unserialisable-name", '''<xsl:stylesheet %s><xsl:output method="xml" encoding="US-ASCII"/>
 <xsl:template match="/"><r><xsl:for-each select="//item"><ok/></xsl:for-each><xsl:element name="n&#233;"><x/></xsl:element></r></xsl:template></xsl:stylesheet>''' % X),
    ("run", "unserialisable-comment", '''<xsl:stylesheet %s><xsl:output method="xml" encoding="US-ASCII"/>
 <xsl:template match="/"><r><xsl:comment>caf&#233;</xsl:comment><xsl:processing-instruction name="pi">&#233;</xsl:processing-instruction></r></xsl:template></xsl:stylesheet>''' % X),
    ("run", "terminate-top-variable", '''<xsl:stylesheet %s><xsl:variable name="a" select="1"/><xsl:variable name="b"><xsl:message terminate="yes">topvar</xsl:message></xsl:variable>
 <xsl:template match="/"><r/></xsl:template></xsl:stylesheet>''' % X),
    ("run", "bad-element-name", deep('<xsl:element name="1bad"><q/></xsl:element>')),
]

# ---- failures INSIDE a facility that keeps internal caches (appended: earlier indices are used by corpus histories) ----
# G is true for every node except the ones carrying fail="1", for which it raises a run-time error
# (or short-circuits): the facility has already worked on several nodes when the error comes.
G = "(not(@fail) or v:nofn())"
VX = V + ' exclude-result-prefixes="v"'
SHEETS += [
    ("ok", "sort-text-foreach", '''<xsl:stylesheet %s><xsl:output method="text"/>
 <xsl:template match="/"><xsl:for-each select="//item"><xsl:sort select="@id"/><xsl:value-of select="@id"/>,</xsl:for-each>|<xsl:for-each select="//item"><xsl:sort select="."/><xsl:value-of select="."/>,</xsl:for-each></xsl:template>
</xsl:stylesheet>''' % X),
    ("ok", "sort-number-apply", '''<xsl:stylesheet %s><xsl:output method="text"/>
 <xsl:template match="/"><xsl:apply-templates select="//item"><xsl:sort select="@w" data-type="number" order="descending"/></xsl:apply-templates>|<xsl:apply-templates select="//item"><xsl:sort select="@id" data-type="number"/></xsl:apply-templates></xsl:template>
 <xsl:template match="item"><xsl:value-of select="concat(@id,':',@w)"/>,</xsl:template>
</xsl:stylesheet>''' % X),
    ("ok", "sort-lang", '''<xsl:stylesheet %s><xsl:output method="text"/>
 <xsl:template match="/"><xsl:for-each select="//item"><xsl:sort select="." lang="sv" case-order="upper-first"/><xsl:value-of select="."/>,</xsl:for-each>|<xsl:for-each select="//item"><xsl:sort select="." lang="en" case-order="lower-first"/><xsl:value-of select="."/>,</xsl:for-each></xsl:template>
</xsl:stylesheet>''' % X),
    ("run", "error-in-sort-key-text", '''<xsl:stylesheet %s %s><xsl:output method="text"/>
 <xsl:template match="/"><xsl:for-each select="//item"><xsl:sort select="concat(@id, string(%s))"/><xsl:value-of select="@id"/>,</xsl:for-each></xsl:template>
</xsl:stylesheet>''' % (X, VX, G)),
    ("run", "error-in-sort-key-number", '''<xsl:stylesheet %s %s><xsl:output method="text"/>
 <xsl:template match="/"><xsl:apply-templates select="//item"><xsl:sort select="@w * number(%s)" data-type="number"/></xsl:apply-templates></xsl:template>
 <xsl:template match="item"><xsl:value-of select="@w"/>,</xsl:template>
</xsl:stylesheet>''' % (X, VX, G)),
    ("run", "error-in-sort-key-second", '''<xsl:stylesheet %s %s><xsl:output method="text"/>
 <xsl:template match="/"><xsl:for-each select="//item"><xsl:sort select="@g"/><xsl:sort select="@w * number(%s)" data-type="number" order="descending"/><xsl:value-of select="concat(@g,@w)"/>,</xsl:for-each></xsl:template>
</xsl:stylesheet>''' % (X, VX, G)),
    ("run", "error-in-sort-key-lang", '''<xsl:stylesheet %s %s><xsl:output method="text"/>
 <xsl:template match="/"><xsl:for-each select="//item"><xsl:sort select="concat(., string(%s))" lang="sv" case-order="upper-first"/><xsl:value-of select="."/>,</xsl:for-each></xsl:template>
</xsl:stylesheet>''' % (X, VX, G)),
    ("run", "error-in-number-count", '''<xsl:stylesheet %s %s><xsl:output method="text"/>
 <xsl:template match="/"><xsl:apply-templates select="//item"/></xsl:template>
 <xsl:template match="item"><xsl:number level="any" count="item[%s]"/>.<xsl:number level="multiple" count="*[%s]" format="1.1"/>;</xsl:template>
</xsl:stylesheet>''' % (X, VX, G, G)),
    ("run", "error-in-key-build", '''<xsl:stylesheet %s %s><xsl:output method="text"/>
 <xsl:key name="k2" match="item" use="concat(@g, string(%s))"/>
 <xsl:template match="/"><xsl:for-each select="//item[1]"><xsl:value-of select="count(key('k2', concat(@g, 'true')))"/></xsl:for-each>;<xsl:value-of select="count(key('k2', 'atrue'))"/></xsl:template>
</xsl:stylesheet>''' % (X, VX, G)),
    ("run", "error-in-format-number", '''<xsl:stylesheet %s %s><xsl:output method="text"/>
 <xsl:template match="/"><xsl:for-each select="//item"><xsl:value-of select="format-number(@w * 1234.5 * number(%s), '#,##0.00')"/>;</xsl:for-each></xsl:template>
</xsl:stylesheet>''' % (X, VX, G)),
    ("ok", "format-number-custom", '''<xsl:stylesheet %s><xsl:output method="text"/>
 <xsl:decimal-format decimal-separator="," grouping-separator="."/>
 <xsl:template match="/"><xsl:for-each select="//item"><xsl:value-of select="format-number(@id * 1234.5, '#.##0,00')"/>;</xsl:for-each></xsl:template>
</xsl:stylesheet>''' % X),
]

# ---- failures raised INSIDE lazily evaluated or stack-disciplined machinery; the SAME compiled stylesheet
# object is used again afterwards (the histories compile these sheets and run them on a failing and
# then on a quiet source): global variable / param evaluation (guard stack for circular definitions),
# nested global variables, template-param defaults and with-param inside nested call-template (element
# frames, params stack), apply-imports (current template / import stacks), attribute sets (recursion stack)
TERM = '<xsl:if test="@fail"><xsl:message terminate="yes">stop in lazy part</xsl:message></xsl:if>'
SHEETS += [
    ("run", "error-in-global-var-body", '''<xsl:stylesheet %s><xsl:output method="text"/>
 <xsl:variable name="gv"><xsl:for-each select="//item"><x><xsl:value-of select="@id"/></x>%s</xsl:for-each></xsl:variable>
 <xsl:variable name="gw" select="concat(string($gv), '!')"/>
 <xsl:template match="/">n=<xsl:value-of select="count(//item)"/>;<xsl:apply-templates select="*"/></xsl:template>
 <xsl:template match="*"><xsl:value-of select="$gw"/>;<xsl:value-of select="$gv"/></xsl:template>
</xsl:stylesheet>''' % (X, TERM)),
    ("run", "error-in-global-var-select", '''<xsl:stylesheet %s %s><xsl:output method="text"/>
 <xsl:variable name="gs" select="count(//item[%s])"/>
 <xsl:variable name="g2" select="$gs + count(//item)"/>
 <xsl:variable name="g3" select="concat($g2, '/', $gs)"/>
 <xsl:template match="/"><xsl:for-each select="//item[1]"><xsl:value-of select="$g3"/></xsl:for-each>;<xsl:value-of select="$g2"/></xsl:template>
</xsl:stylesheet>''' % (X, VX, G)),
    ("run", "error-in-global-param-default", '''<xsl:stylesheet %s %s><xsl:output method="text"/>
 <xsl:param name="gp" select="concat('d', count(//item[%s]))"/>
 <xsl:param name="q" select="concat($gp, '-q')"/>
 <xsl:template match="/">q=<xsl:value-of select="$q"/>;gp=<xsl:value-of select="$gp"/></xsl:template>
</xsl:stylesheet>''' % (X, VX, G)),
    ("run", "error-in-call-template-params", '''<xsl:stylesheet %s %s><xsl:output method="text"/>
 <xsl:template name="outer"><xsl:param name="n"/><xsl:param name="dflt" select="count($n/self::*[%s])"/>
  <xsl:call-template name="inner"><xsl:with-param name="v" select="concat($dflt, name($n))"/><xsl:with-param name="w"><xsl:for-each select="$n">%s<xsl:value-of select="@id"/></xsl:for-each></xsl:with-param></xsl:call-template></xsl:template>
 <xsl:template name="inner"><xsl:param name="v"/><xsl:param name="w"/><xsl:param name="z" select="string-length($w)"/>[<xsl:value-of select="concat($v, $w, $z)"/>]</xsl:template>
 <xsl:template match="/"><xsl:for-each select="//item"><xsl:call-template name="outer"><xsl:with-param name="n" select="."/></xsl:call-template></xsl:for-each></xsl:template>
</xsl:stylesheet>''' % (X, VX, G, TERM)),
    ("run", "error-in-apply-imports", '''<xsl:stylesheet %s><xsl:import href="imp.xsl"/><xsl:output method="text"/>
 <xsl:template match="/"><xsl:apply-templates select="//item" mode="m"/></xsl:template>
 <xsl:template match="item" mode="m">(<xsl:apply-imports/>)</xsl:template>
</xsl:stylesheet>''' % X),
    ("run", "error-in-attribute-set", '''<xsl:stylesheet %s %s><xsl:output method="xml" omit-xml-declaration="yes"/>
 <xsl:attribute-set name="inner"><xsl:attribute name="a"><xsl:value-of select="string(%s)"/></xsl:attribute></xsl:attribute-set>
 <xsl:attribute-set name="as" use-attribute-sets="inner"><xsl:attribute name="b"><xsl:value-of select="@id"/></xsl:attribute></xsl:attribute-set>
 <xsl:template match="/"><r><xsl:for-each select="//item"><e xsl:use-attribute-sets="as"/><xsl:element name="f" use-attribute-sets="as"/></xsl:for-each></r></xsl:template>
</xsl:stylesheet>''' % (X, VX, G)),
]
# ---- failures while a POOLED object holds partial content: the abort comes right after character data was
# written into a result tree fragment (pooled FormatterToSourceTree; depths 1-3, with-param bodies), into an
# attribute / comment / PI / message body (pooled FormatterToText + string), or in the middle of nested XPath
# string / node-set work (string and node-list caches).  On sources without fail="1" the same sheets build the
# same things and print their string values and copies, so they also serve as observers.
# K selects WHERE the failing item aborts (4 items -> 1, 5 items -> 2).
def term_if(cond):
    return '<xsl:if test="@fail and (%s)"><xsl:message terminate="yes">stop with partial content</xsl:message></xsl:if>' % cond


SHEETS += [
    ("run", "error-in-rtf-text", '''<xsl:stylesheet %s %s><xsl:output method="text"/>
 <xsl:variable name="K" select="count(//item) mod 3"/>
 <xsl:template name="show"><xsl:param name="p"/>{<xsl:value-of select="$p"/>}</xsl:template>
 <xsl:template match="/"><xsl:for-each select="//item">
  <xsl:variable name="v">LEFT1-<xsl:value-of select="@id"/>%s<xsl:if test="$K = 0"><xsl:value-of select="string(%s)"/></xsl:if></xsl:variable>[<xsl:value-of select="$v"/>]<xsl:copy-of select="$v"/>
  <xsl:call-template name="show"><xsl:with-param name="p">LEFTW-<xsl:value-of select="@g"/>%s</xsl:with-param></xsl:call-template>
 </xsl:for-each></xsl:template>
</xsl:stylesheet>''' % (X, VX, term_if("$K = 1"), G, term_if("$K = 2"))),
    ("run", "error-in-rtf-nested", '''<xsl:stylesheet %s><xsl:output method="xml" omit-xml-declaration="yes"/>
 <xsl:variable name="K" select="count(//item) mod 3"/>
 <xsl:template match="/"><r><xsl:for-each select="//item">
  <xsl:variable name="a">A<xsl:value-of select="@id"/>-<xsl:variable name="b">B<xsl:value-of select="@g"/>-<xsl:variable name="c">C<xsl:value-of select="@w"/>-%s</xsl:variable><xsl:value-of select="$c"/>|%s<e><xsl:copy-of select="$c"/></e>tail</xsl:variable><xsl:value-of select="$b"/>|<xsl:copy-of select="$b"/>end</xsl:variable>
  <i v="{$a}"><xsl:copy-of select="$a"/></i>
 </xsl:for-each></r></xsl:template>
</xsl:stylesheet>''' % (X, term_if("$K = 1"), term_if("$K = 2"))),
    ("ok", "rtf-observer", '''<xsl:stylesheet %s><xsl:output method="text"/>
 <xsl:template name="show"><xsl:param name="p"/>{<xsl:value-of select="$p"/>}</xsl:template>
 <xsl:template match="/"><xsl:variable name="w">items=<xsl:value-of select="count(//item)"/><xsl:variable name="x">in=<xsl:value-of select="name(/*)"/><xsl:variable name="y">deep</xsl:variable>+<xsl:value-of select="$y"/></xsl:variable>;<xsl:value-of select="$x"/></xsl:variable>[<xsl:value-of select="$w"/>]<xsl:copy-of select="$w"/>
  <xsl:call-template name="show"><xsl:with-param name="p">wp=<xsl:value-of select="count(//*)"/></xsl:with-param></xsl:call-template></xsl:template>
</xsl:stylesheet>''' % X),
    ("run", "error-in-attribute-body", '''<xsl:stylesheet %s><xsl:output method="xml" omit-xml-declaration="yes"/>
 <xsl:variable name="K" select="count(//item) mod 3"/>
 <xsl:template match="/"><r><xsl:for-each select="//item"><e>
  <xsl:attribute name="a">LEFTA-<xsl:value-of select="@id"/>%s</xsl:attribute>
  <xsl:comment>LEFTC-<xsl:value-of select="@g"/>%s</xsl:comment>
  <xsl:processing-instruction name="pi">LEFTP-<xsl:value-of select="@w"/>%s</xsl:processing-instruction>
  <xsl:message>LEFTM-<xsl:value-of select="@id"/></xsl:message>
 </e></xsl:for-each></r></xsl:template>
</xsl:stylesheet>''' % (X, term_if("$K = 1"), term_if("$K = 2"), term_if("$K = 0"))),
    ("run", "error-in-xpath-caches", '''<xsl:stylesheet %s %s><xsl:output method="text"/>
 <xsl:template match="/"><xsl:for-each select="//item"><xsl:value-of select="translate(concat('abc-', @id, '-', substring-before(concat(@g, ':', .), ':')), 'a', substring(string(%s), 1, 1))"/>;<xsl:value-of select="count((//item | //sec | /*)[%s][position() &lt; 4])"/>;<xsl:value-of select="normalize-space(concat(' x ', string((//item[%s])[last()]/@id), ' '))"/>,</xsl:for-each></xsl:template>
</xsl:stylesheet>''' % (X, VX, G, G, G)),
]

# an abort in the MIDDLE of xsl:number's backwards walk (CountersTable::countNode has collected nodes in its scratch list
# m_newFound when the count pattern raises): the nodes are numbered last-to-first and the node that makes the
# pattern fail comes EARLIER in the document than the node being numbered (sources "fail-first" below); seed C06_d
SHEETS += [
    ("run", "error-in-number-count-walk", '''<xsl:stylesheet %s %s><xsl:output method="text"/>
 <xsl:template match="/"><xsl:apply-templates select="//item"><xsl:sort select="position()" data-type="number" order="descending"/></xsl:apply-templates></xsl:template>
 <xsl:template match="item"><xsl:number level="any" count="item[@ok or %s]"/>.<xsl:number level="single" count="item[@ok or %s]"/>;</xsl:template>
</xsl:stylesheet>''' % (X, VX, G, G)),
]

# state kept by a facility that reset() does not own: the collation functor installed once per transformer caches one ICU
# collator per xsl:sort/@lang; a sort with case-order followed by a sort of the SAME lang without it must still use the
# default case ordering (seed C06_e).  Keys differing only in case: sources 6 (B / b), 7 (q / Q)
SHEETS += [
    ("ok", "sort-lang-upper", '''<xsl:stylesheet %s><xsl:output method="text"/>
 <xsl:template match="/"><xsl:for-each select="//item"><xsl:sort select="." lang="sv" case-order="upper-first"/><xsl:value-of select="."/>,</xsl:for-each></xsl:template>
</xsl:stylesheet>''' % X),
    ("ok", "sort-lang-plain", '''<xsl:stylesheet %s><xsl:output method="text"/>
 <xsl:template match="/"><xsl:for-each select="//item"><xsl:sort select="." lang="sv"/><xsl:value-of select="."/>,</xsl:for-each>|<xsl:for-each select="//item"><xsl:sort select="translate(., 'abcq', 'ABCQ')" lang="sv"/><xsl:sort select="." lang="sv"/><xsl:value-of select="."/>,</xsl:for-each></xsl:template>
</xsl:stylesheet>''' % X),
    ("ok", "sort-lang-lower", '''<xsl:stylesheet %s><xsl:output method="text"/>
 <xsl:template match="/"><xsl:for-each select="//item"><xsl:sort select="." lang="sv" case-order="lower-first"/><xsl:value-of select="."/>,</xsl:for-each></xsl:template>
</xsl:stylesheet>''' % X),
]

# an abort while an element INSIDE a result tree fragment is open and its start tag has been flushed (the pooled
# FormatterToSourceTree keeps a pointer to it; the next fragment built with the same formatter must not see it); seed C03_f
SHEETS += [
    ("run", "error-in-rtf-open-element", '''<xsl:stylesheet %s><xsl:output method="xml" omit-xml-declaration="yes"/>
 <xsl:variable name="K" select="count(//item) mod 3"/>
 <xsl:template match="/"><r><xsl:for-each select="//item">
  <xsl:variable name="a">lead<e id="{@id}">in-e<f>g</f>%s<xsl:variable name="b">b-lead<h>in-h%s</h></xsl:variable><xsl:copy-of select="$b"/>%s</e>tail</xsl:variable>
  <i><xsl:copy-of select="$a"/></i>
 </xsl:for-each></r></xsl:template>
</xsl:stylesheet>''' % (X, term_if("$K = 1"), term_if("$K = 2"), term_if("$K = 0"))),
    ("ok", "rtf-leading-content", '''<xsl:stylesheet %s><xsl:output method="xml" omit-xml-declaration="yes"/>
 <xsl:template match="/"><r><xsl:variable name="a">first<b>B<xsl:variable name="c">c-first<d>D</d>c-second</xsl:variable><xsl:copy-of select="$c"/>|<xsl:value-of select="$c"/></b>second<c n="{count(//item)}"/>third</xsl:variable>
  <xsl:copy-of select="$a"/>|<xsl:value-of select="$a"/></r></xsl:template>
</xsl:stylesheet>''' % X),
]

# state kept by the format-number functor installed once per transformer (ICU build: a cache of DecimalFormat objects keyed by
# the symbols of xsl:decimal-format): declarations that differ in exactly ONE symbol, used one after the other (seed C06_g)
def _df_sheet(attr, val):
    sym = {"NaN": "NaN", "infinity": "Infinity", "minus-sign": "-", "percent": "%%", "per-mille": "&#x2030;"}
    if attr:
        sym[attr] = val
    decl = " ".join('%s="%s"' % (k, v) for k, v in sorted(sym.items()))
    pc, pm = sym["percent"], sym["per-mille"]
    return ('''<xsl:stylesheet %s><xsl:output method="text" encoding="UTF-8"/><xsl:decimal-format name="f" %s/><xsl:decimal-format %s/>
 <xsl:template match="/"><xsl:for-each select="(//item)[position() &lt; 3]"><xsl:value-of select="format-number(number('x'), '#,##0.00', 'f')"/>;<xsl:value-of select="format-number(1 div 0, '#,##0.00', 'f')"/>;<xsl:value-of select="format-number(-1 div 0, '#,##0.00')"/>;<xsl:value-of select="format-number(-7 - position(), '#,##0.00', 'f')"/>;<xsl:value-of select="format-number(0.256, '#0.0%s', 'f')"/>;<xsl:value-of select="format-number(0.0256, '#0.0%s')"/>;<xsl:value-of select="format-number(number(@nope), '0')"/>|</xsl:for-each></xsl:template>
</xsl:stylesheet>''' % (X, decl, decl, pc, pm)).replace("%%", "%")


DF_VARIANTS = [("", ""), ("NaN", "n/a"), ("NaN", "-"), ("infinity", "inf"), ("minus-sign", "~"), ("percent", "!"), ("per-mille", "?")]
SHEETS += [("ok", "decimal-format-%d" % k, _df_sheet(a, v)) for k, (a, v) in enumerate(DF_VARIANTS)]
DF_SHEETS = [i for i, t in enumerate(SHEETS) if t[1].startswith("decimal-format-")]

LAZY_SHEETS = [i for i, t in enumerate(SHEETS) if t[1] in ("error-in-rtf-open-element",
    "error-in-global-var-body", "error-in-global-var-select", "error-in-global-param-default",
    "error-in-call-template-params", "error-in-apply-imports", "error-in-attribute-set", "error-in-key-build",
    "error-in-sort-key-text", "error-in-number-count",
    "error-in-rtf-text", "error-in-rtf-nested", "error-in-attribute-body", "error-in-xpath-caches")]

# which sheets use the same facility as an aborting sheet (a failure is followed by one of them)
FACILITY = {
    "sort": ["sort-text-foreach", "sort-number-apply", "sort-lang", "sort-lang-upper", "sort-lang-plain", "sort-lang-lower", "sort+modes", "error-in-sort-key-text", "error-in-sort-key-number", "error-in-sort-key-second", "rtf+nodeset"],
    "number": ["number", "error-in-number-count", "error-in-number-count-walk", "deep-no-boom"],
    "key": ["keys+modes", "document", "error-in-key-build", "deep-no-boom"],
    "format-number": ["format-number-custom", "error-in-format-number"] + ["decimal-format-%d" % k for k in range(7)],
    "rtf": ["rtf-observer", "rtf-leading-content", "error-in-rtf-open-element", "error-in-rtf-text", "error-in-rtf-nested", "rtf+nodeset", "deep-no-boom", "error-in-global-var-body"],
    "attribute-body": ["error-in-attribute-body", "attrsets+text", "deep-no-boom", "error-in-attribute-set", "rtf-observer"],
    "xpath-caches": ["error-in-xpath-caches", "vars+recursion", "sort+modes", "rtf-observer"],
}


def facility_of(tag):
    for f in ("sort", "number-count", "key", "format-number", "rtf", "attribute-body", "xpath-caches"):
        if f in tag:
            return "number" if f == "number-count" else f
    return None


SOURCES = [
    ("ok", '<doc><item id="1" g="a">one</item><item id="2" g="b" boom="1">two</item><item id="3" g="a">three</item></doc>'),
    ("ok", '<doc><sec><item id="5" g="x"><item id="6" g="x" boom="1"><item id="7" g="y"/></item></item><item id="8" g="y">t</item></sec><item id="9" g="x" boom="1"/></doc>'),
    ("ok", '<doc><item id="10" g="q">no boom here</item><other><item id="11" g="q"/></other></doc>'),
    ("ok", '<doc/>'),
    ("bad", '<doc><item></doc>'),
    ("bad", ''),
    # the LAST item makes the guarded expressions of the facility sheets fail, after the others were processed
    ("ok", '<doc><item id="3" g="b" w="10">c</item><item id="1" g="a" w="9">B</item><item id="2" g="b" w="100">a</item><item id="4" g="a" w="5" fail="1">b</item></doc>'),
    ("ok", '<doc><sec><item id="20" g="x" w="3">q</item><item id="7" g="y" w="20">Q</item></sec><item id="12" g="x" w="1">p</item><item id="9" g="y" w="11">r</item><item id="1" g="z" w="2" fail="1">s</item></doc>'),
    ("ok", '<doc><item id="1" g="a" w="100">a</item><item id="2" g="b" w="10">b</item><item id="3" g="a" w="9">C</item><item id="4" g="b" w="5">d</item></doc>'),
    # "fail-first": the failing node comes first / in the middle, the nodes after it are fine (some carry ok="1")
    ("ok", '<doc><item id="1" g="a" w="7" fail="1">a</item><item id="2" g="b" w="10" ok="1">b</item><item id="3" g="a" w="9" ok="1">C</item><item id="4" g="b" w="5" ok="1">d</item></doc>'),
    ("ok", '<doc><item id="5" g="x" w="3" ok="1">q</item><sec><item id="6" g="y" w="2" fail="1">r</item><item id="7" g="x" w="8" ok="1">s</item></sec><item id="8" g="y" w="1" ok="1">t</item><item id="9" g="x" w="4" ok="1">u</item></doc>'),
]
FAIL_SOURCES = [i for i, s_ in enumerate(SOURCES) if 'fail="1"' in s_[1]]

FILES = {"d2.xml": '<d><e k="1">one</e><e k="2">two</e><e k="1">uno</e></d>',
         "imp.xsl": '<xsl:stylesheet %s><xsl:template match="item" mode="m"><xsl:value-of select="@id"/>%s<xsl:apply-templates select="item" mode="m"/></xsl:template></xsl:stylesheet>' % (X, TERM)}

# parameter expressions known to harness/api.cpp (EXPRS[]); index 4 does not evaluate
EXPRS = ["'p0'", "2 + 3", "concat('a','b')", "string(1 div 0)", "unknownfn()", "'x' = 'x'", "/*", "count(//*)"]
BAD_EXPRS = {4}


def pool_lines():
    out = []
    for i, (_, _, s) in enumerate(SHEETS):
        out.append("S %d %s" % (i, s.encode("utf-8").hex()))
    for i, (_, s) in enumerate(SOURCES):
        out.append("D %d %s" % (i, s.encode("utf-8").hex()))
    for k, v in FILES.items():
        out.append("F %s %s" % (k, v.encode("utf-8").hex()))
    return out
