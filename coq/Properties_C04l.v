(* Properties_C04l.v — C04, part "legacy": the second XML serializer shipped in the library
   (xalanc/XMLSupport/FormatterToXML.cpp, model SerLegacyDefs.v, tables and variant flags regenerated
   into GenSerLegacy.v) against the model XML reader XmlParseDefs.v, and its agreement with the model
   of FormatterToXMLUnicode (SerEscDefs.v).
   g : lcfg = (m_maxCharacter, m_isXML1_1, lc_cdfix, lc_surfix); the theorems hold for EVERY g with
   lg_max_ok (lc_max g) unless a flag is named in the statement; lg_this_tree m v is the configuration
   with the flags found in the current source.  Strings are lists of 16-bit units (small) that XML
   can represent (wf_text: Chars of the version, surrogates in pairs). *)
From Coq Require Import NArith List Bool.
Require Import XV.GenSerLegacy XV.SerDefs XV.XmlParseDefs XV.XmlDocDefs XV.SerDocDefs XV.SerEscModel
               XV.SerLegacyDefs XV.SerLegacyModel XV.SerLegacyModel2 XV.SerLegacyCdata XV.SerLegacyAgree
               XV.SerLegacyMarkup XV.SerLegacyFails XV.SerLegacyRaw.
Import ListNotations.
Local Open Scope N_scope.

(* every value XalanTranscodingServices::getMaximumCharacterValue can return is covered *)
Theorem legacy_max_character_values_covered : forallb lg_max_ok lg_max_character_values = true.
Proof. exact max_values_ok. Qed.
Print Assumptions legacy_max_character_values_covered.

(* ---- round trips ------------------------------------------------------------------------------ *)
Theorem legacy_content_roundtrip : forall g s, lg_max_ok (lc_max g) = true ->
  wf_text (lc_v11 g) s = true -> small s = true ->
  exists bs, lg_write_content g s = Ok bs /\ parse_content (lc_v11 g) bs = Some s.
Proof. exact SerLegacyModel2.legacy_content_roundtrip. Qed.
Print Assumptions legacy_content_roundtrip.

Theorem legacy_attr_roundtrip : forall g s, lg_max_ok (lc_max g) = true ->
  wf_text (lc_v11 g) s = true -> small s = true ->
  exists bs, lg_write_attr g s = Ok bs /\ parse_attr (lc_v11 g) bs = Some s.
Proof. exact SerLegacyModel2.legacy_attr_roundtrip. Qed.
Print Assumptions legacy_attr_roundtrip.

(* CDATA: the full statement for the repaired variant ... *)
Theorem legacy_cdata_roundtrip : forall g s, lg_max_ok (lc_max g) = true -> lc_cdfix g = true ->
  wf_text (lc_v11 g) s = true -> small s = true ->
  exists bs, lg_write_cdata g s = Ok bs /\ parse_content (lc_v11 g) bs = Some s.
Proof. exact legacy_cdata_roundtrip_fixed. Qed.
Print Assumptions legacy_cdata_roundtrip.

(* ... the exact guard for the unrepaired one (no CR; version 1.1: no NEL, LSEP, control character) ... *)
Theorem legacy_cdata_roundtrip_partial : forall g s, lg_max_ok (lc_max g) = true ->
  wf_text (lc_v11 g) s = true -> small s = true ->
  forallb (fun c => negb (lg_cd_esc (lc_v11 g) c)) s = true ->
  exists bs, lg_write_cdata g s = Ok bs /\ parse_content (lc_v11 g) bs = Some s.
Proof. exact legacy_cdata_roundtrip_unfixed. Qed.
Print Assumptions legacy_cdata_roundtrip_partial.

(* ... the witness that the guard is needed there (K-new-7: CR read back as LF), and that the repaired
   variant reads the same string back ... *)
Theorem legacy_cdata_roundtrip_refuted :
  lg_write_cdata (mklcfg 65535 false false false) [120; 13; 121] = Ok (lg_cdata_open ++ [120; 13; 121] ++ lg_cdata_close) /\
  parse_content false (lg_cdata_open ++ [120; 13; 121] ++ lg_cdata_close) = Some [120; 10; 121] /\
  wf_text false [120; 13; 121] = true /\
  lg_cd_guard (mklcfg 65535 false false false) [120; 13; 121] = false /\
  (exists bs, lg_write_cdata (mklcfg 65535 false true false) [120; 13; 121] = Ok bs /\
              parse_content false bs = Some [120; 13; 121]).
Proof. exact SerLegacyAgree.legacy_cdata_roundtrip_refuted. Qed.
Print Assumptions legacy_cdata_roundtrip_refuted.

(* ... and the statement at the flags regenerated from the current source: lg_cd_guard is "true" when
   GenSerLegacy.legacy_cdata_cr_referenced, else the guard of the partial theorem *)
Theorem legacy_cdata_roundtrip_this_tree : forall maxc v11 s, lg_max_ok maxc = true ->
  wf_text v11 s = true -> small s = true -> lg_cd_guard (lg_this_tree maxc v11) s = true ->
  exists bs, lg_write_cdata (lg_this_tree maxc v11) s = Ok bs /\ parse_content v11 bs = Some s.
Proof. exact legacy_cdata_roundtrip_tree. Qed.
Print Assumptions legacy_cdata_roundtrip_this_tree.

Example this_tree_guard : forall maxc v11 s,
  lg_cd_guard (lg_this_tree maxc v11) s =
  legacy_cdata_cr_referenced || forallb (fun c => negb (lg_cd_esc v11 c)) s.
Proof. reflexivity. Qed.

Theorem legacy_content_roundtrip_this_tree : forall maxc v11 s, lg_max_ok maxc = true ->
  wf_text v11 s = true -> small s = true ->
  exists bs, lg_write_content (lg_this_tree maxc v11) s = Ok bs /\ parse_content v11 bs = Some s.
Proof. exact legacy_content_roundtrip_tree. Qed.
Print Assumptions legacy_content_roundtrip_this_tree.

Example legacy_roundtrip_hypotheses_satisfiable :
  wf_text false [60; 38; 62; 34; 39; 9; 10; 13; 233; 8364; 55357; 56832; 93; 93; 62; 133; 8232] = true /\
  wf_text true [1; 60; 133; 8232; 159; 55357; 56832] = true /\
  small [60; 8364; 55357; 56832] = true /\
  lg_max_ok 127 = true /\ lg_max_ok 255 = true /\ lg_max_ok 65535 = true /\
  lg_cd_guard (mklcfg 255 true false false) [97; 93; 93; 62; 8364; 55357; 56832; 10] = true.
Proof. repeat split; vm_compute; reflexivity. Qed.
Print Assumptions legacy_roundtrip_hypotheses_satisfiable.

Example legacy_cdata_instance :
  lg_write_cdata (mklcfg 255 true true true) [8364; 97; 13; 10; 93; 93; 62; 1; 55357; 56832]
  = Ok (charref 8364 ++ lg_cdata_open ++ [97] ++ lg_cdata_close ++ charref 13 ++ lg_cdata_open ++ [10] ++
        lg_cdata_split ++ lg_cdata_close ++ charref 1 ++ lg_cdata_open ++ lg_cdata_close ++ charref 128512).
Proof. vm_compute. reflexivity. Qed.

(* ---- the two serializers agree ------------------------------------------------------------------ *)
(* on every string XML can represent both succeed, and the reader gets the same text from both
   outputs (namely the string).  Where the bytes may differ: FormatterToXML opens the section again
   directly after a reference (FormatterToXMLUnicode: before the next literal), writes a supplementary
   character as a pair only when m_maxCharacter = 0xFFFF, and ends a line with m_newlineString *)
Theorem legacy_agrees_with_unicode : forall g s, lg_max_ok (lc_max g) = true ->
  wf_text (lc_v11 g) s = true -> small s = true ->
  exists a b, lg_write_content g s = Ok a /\ payload (write_content fam_utf16 (lc_v11 g) s) = Ok b /\
              parse_content (lc_v11 g) a = parse_content (lc_v11 g) b /\ parse_content (lc_v11 g) a = Some s.
Proof. exact legacy_agrees_with_unicode_content. Qed.
Print Assumptions legacy_agrees_with_unicode.

Theorem legacy_agrees_with_unicode_in_attributes : forall g s, lg_max_ok (lc_max g) = true ->
  wf_text (lc_v11 g) s = true -> small s = true ->
  exists a b, lg_write_attr g s = Ok a /\ payload (write_attr_string fam_utf16 (lc_v11 g) s) = Ok b /\
              parse_attr (lc_v11 g) a = parse_attr (lc_v11 g) b /\ parse_attr (lc_v11 g) a = Some s.
Proof. exact legacy_agrees_with_unicode_attr. Qed.
Print Assumptions legacy_agrees_with_unicode_in_attributes.

Theorem legacy_agrees_with_unicode_in_cdata : forall g s, lg_max_ok (lc_max g) = true ->
  wf_text (lc_v11 g) s = true -> small s = true -> lg_cd_guard g s = true ->
  exists a b, lg_write_cdata g s = Ok a /\ payload (write_cdata fam_utf16 (lc_v11 g) s) = Ok b /\
              parse_content (lc_v11 g) a = parse_content (lc_v11 g) b /\ parse_content (lc_v11 g) a = Some s.
Proof. exact legacy_agrees_with_unicode_cdata. Qed.
Print Assumptions legacy_agrees_with_unicode_in_cdata.

Theorem legacy_agrees_with_unicode_other_encodings : forall g rep s, lg_max_ok (lc_max g) = true ->
  (forall c, c < 128 -> rep c = true) -> wf_text (lc_v11 g) s = true -> small s = true ->
  exists a b, lg_write_content g s = Ok a /\ payload (write_content (fam_other rep) (lc_v11 g) s) = Ok b /\
              parse_content (lc_v11 g) a = parse_content (lc_v11 g) b.
Proof. exact legacy_agrees_with_unicode_any_encoding. Qed.
Print Assumptions legacy_agrees_with_unicode_other_encodings.

(* ---- the error side ------------------------------------------------------------------------------ *)
(* a control character XML 1.0 forbids, anywhere behind a representable prefix, in a text node
   (attr = false) or an attribute value (attr = true): an error, never output *)
Theorem legacy_forbidden_char_fails : forall g attr p c r, lg_max_ok (lc_max g) = true -> lc_v11 g = false ->
  wf_text false p = true -> small p = true -> ctl10 c = true ->
  lg_loop g attr (p ++ c :: r) = Thrown err_forbidden.
Proof. exact SerLegacyAgree.legacy_forbidden_char_fails. Qed.
Print Assumptions legacy_forbidden_char_fails.

Theorem legacy_fails_iff_unicode_fails : forall g p c r, lg_max_ok (lc_max g) = true -> lc_v11 g = false ->
  wf_text false p = true -> small p = true -> ctl10 c = true -> sur_paired (p ++ c :: r) = true ->
  lg_write_content g (p ++ c :: r) = Thrown err_forbidden /\
  payload (write_content fam_utf16 false (p ++ c :: r)) = Thrown err_forbidden.
Proof. exact legacy_fails_iff_unicode_fails_forbidden. Qed.
Print Assumptions legacy_fails_iff_unicode_fails.

(* an unpaired surrogate (K-new-4): with the repair an error wherever it stands ... *)
Theorem legacy_unpaired_surrogate_fails : forall g attr p t, lg_max_ok (lc_max g) = true ->
  lc_surfix g = true -> wf_text (lc_v11 g) p = true -> small p = true -> lone_head t = true ->
  lg_loop g attr (p ++ t) = Thrown err_surrogate.
Proof. exact SerLegacyAgree.legacy_unpaired_surrogate_fails. Qed.
Print Assumptions legacy_unpaired_surrogate_fails.

(* ... without it a lone low surrogate is written (raw, or as a reference to itself): not well-formed ... *)
Theorem legacy_unpaired_surrogate_fails_refuted :
  lg_write_content (mklcfg 65535 false false false) [97; 56832; 98] = Ok [97; 56832; 98] /\
  parse_content false [97; 56832; 98] = None /\
  lg_write_content (mklcfg 255 false false false) [97; 56832; 98] = Ok ([97] ++ charref 56832 ++ [98]) /\
  parse_content false ([97] ++ charref 56832 ++ [98]) = None.
Proof. exact SerLegacyAgree.legacy_unpaired_surrogate_fails_refuted. Qed.
Print Assumptions legacy_unpaired_surrogate_fails_refuted.

(* ... and only a lone high surrogate outside the encoding is detected *)
Theorem legacy_unpaired_surrogate_fails_partial : forall g attr p c r, lg_max_ok (lc_max g) = true ->
  wf_text (lc_v11 g) p = true -> small p = true -> x_high c = true -> (lc_max g <? c) = true ->
  match r with n :: _ => x_low n = false | [] => True end ->
  lg_loop g attr (p ++ c :: r) = Thrown err_surrogate.
Proof. exact legacy_unpaired_high_fails_partial. Qed.
Print Assumptions legacy_unpaired_surrogate_fails_partial.

Example legacy_error_hypotheses_satisfiable :
  ctl10 1 = true /\ ctl10 31 = true /\ ctl10 9 = false /\ lone_head [56832; 98] = true /\
  lone_head [55357; 98] = true /\ lone_head [55357] = true /\ lone_head [55357; 56832] = false /\
  sur_paired ([97; 55357; 56832] ++ 1 :: [98]) = true.
Proof. repeat split; vm_compute; reflexivity. Qed.
Print Assumptions legacy_error_hypotheses_satisfiable.

(* ---- comments, processing instructions, names (chk = GenSerLegacy.legacy_checks_comment_pi_names) ------ *)
(* a comment that C04's guard comment_ok accepts (Chars, paired surrogates, no character a parser
   would change, no "--", no trailing '-') and whose units are all in the encoding is written
   verbatim and the model tokenizer reads it back as that comment - in both variants *)
Theorem legacy_comment_roundtrip : forall g, lg_max_ok (lc_max g) = true ->
  forall chk s rest f, comment_ok (lc_v11 g) s = true -> forallb (rep_g g) s = true ->
  exists bs, lg_comment g chk s = Ok bs /\
             tokens (lc_v11 g) (S f) (bs ++ rest) = option_map (cons (PM s)) (tokens (lc_v11 g) f rest).
Proof. exact comment_roundtrip_any. Qed.
Print Assumptions legacy_comment_roundtrip.

Theorem legacy_pi_roundtrip : forall g, lg_max_ok (lc_max g) = true ->
  forall chk t d rest f, pi_ok (lc_v11 g) t d = true ->
  forallb (rep_g g) t = true -> forallb (rep_g g) d = true ->
  exists bs, lg_pi g chk t d = Ok bs /\
             tokens (lc_v11 g) (S f) (bs ++ rest) = option_map (cons (PP t d)) (tokens (lc_v11 g) f rest).
Proof. exact pi_roundtrip_any. Qed.
Print Assumptions legacy_pi_roundtrip.

Theorem legacy_comment_roundtrip_this_tree : forall maxc v11 s rest f, lg_max_ok maxc = true ->
  comment_ok v11 s = true -> forallb (rep_g (lg_this_tree maxc v11)) s = true ->
  exists bs, lg_comment (lg_this_tree maxc v11) lg_chk_this_tree s = Ok bs /\
             tokens v11 (S f) (bs ++ rest) = option_map (cons (PM s)) (tokens v11 f rest).
Proof. exact comment_roundtrip_tree. Qed.
Print Assumptions legacy_comment_roundtrip_this_tree.

Theorem legacy_pi_roundtrip_this_tree : forall maxc v11 t d rest f, lg_max_ok maxc = true ->
  pi_ok v11 t d = true -> forallb (rep_g (lg_this_tree maxc v11)) t = true ->
  forallb (rep_g (lg_this_tree maxc v11)) d = true ->
  exists bs, lg_pi (lg_this_tree maxc v11) lg_chk_this_tree t d = Ok bs /\
             tokens v11 (S f) (bs ++ rest) = option_map (cons (PP t d)) (tokens v11 f rest).
Proof. exact pi_roundtrip_tree. Qed.
Print Assumptions legacy_pi_roundtrip_this_tree.

(* with the repair (chk = true) the data of a comment / PI is written verbatim or not at all, and
   exactly when it has paired surrogates, every unit in the encoding, and no character that survives
   parsing only as a reference (the test equals FormatterToXMLUnicode's: ref_only_is_comment_error) *)
Theorem legacy_comment_ok_iff : forall g, lg_max_ok (lc_max g) = true -> forall s bs,
  lg_comment g true s = Ok bs <-> (markup_ok g s = true /\ bs = [60; 33; 45; 45] ++ s ++ [45; 45; 62]).
Proof. exact comment_iff. Qed.
Print Assumptions legacy_comment_ok_iff.

Theorem legacy_pi_ok_iff : forall g, lg_max_ok (lc_max g) = true -> forall t d bs,
  lg_pi g true t d = Ok bs <->
  (forallb (rep_g g) t = true /\ markup_ok g d = true /\ bs = [60; 63] ++ t ++ pi_sep d ++ d ++ [63; 62]).
Proof. exact pi_iff. Qed.
Print Assumptions legacy_pi_ok_iff.

Theorem legacy_reference_only_test_is_unicodes : forall v11 c, c <> 0 -> ref_only v11 c = p_comment_error v11 c.
Proof. exact ref_only_is_comment_error. Qed.
Print Assumptions legacy_reference_only_test_is_unicodes.

(* ... without it (K-new-8): a reference inside the comment / PI is read back as text, a CR as LF,
   a name unit outside the encoding becomes '?'; the repaired variant raises the exceptions instead *)
Theorem legacy_comment_roundtrip_refuted :
  lg_comment (mklcfg 255 false true true) false [97; 8364] = Ok ([60; 33; 45; 45; 97] ++ charref 8364 ++ [45; 45; 62]) /\
  tokens false 40 ([60; 33; 45; 45; 97] ++ charref 8364 ++ [45; 45; 62]) = Some [PM (97 :: charref 8364)] /\
  comment_ok false [97; 8364] = true /\
  lg_comment (mklcfg 255 false true true) true [97; 8364] = Thrown err_unrepresentable /\
  lg_comment (mklcfg 65535 false true true) false [120; 13; 121] = Ok [60; 33; 45; 45; 120; 13; 121; 45; 45; 62] /\
  tokens false 40 [60; 33; 45; 45; 120; 13; 121; 45; 45; 62] = Some [PM [120; 10; 121]] /\
  lg_comment (mklcfg 65535 false true true) true [120; 13; 121] = Thrown err_forbidden.
Proof. exact comment_roundtrip_refuted. Qed.
Print Assumptions legacy_comment_roundtrip_refuted.

Theorem legacy_pi_roundtrip_refuted :
  lg_pi (mklcfg 255 false true true) false [112] [97; 8364] = Ok ([60; 63; 112; 32; 97] ++ charref 8364 ++ [63; 62]) /\
  tokens false 40 ([60; 63; 112; 32; 97] ++ charref 8364 ++ [63; 62]) = Some [PP [112] (97 :: charref 8364)] /\
  lg_pi (mklcfg 255 false true true) true [112] [97; 8364] = Thrown err_unrepresentable /\
  lg_name_r (mklcfg 127 false true true) false [110; 233] = Ok [110; 63] /\
  lg_name_r (mklcfg 127 false true true) true [110; 233] = Thrown err_unrepresentable.
Proof. exact pi_roundtrip_refuted. Qed.
Print Assumptions legacy_pi_roundtrip_refuted.

(* agreement with FormatterToXMLUnicode in comments and PIs: what the legacy serializer writes, the
   UTF-16 writer of the other serializer writes unit for unit; and with m_maxCharacter = 0xFFFF the two
   succeed / fail together on ARBITRARY unit strings (no U+0000) *)
Theorem legacy_agrees_with_unicode_in_comments : forall g, lg_max_ok (lc_max g) = true -> forall s bs,
  ~ In 0 s -> lg_comment g true s = Ok bs -> payload (write_comment fam_utf16 (lc_v11 g) s) = Ok bs.
Proof. exact comment_legacy_ok_unicode_same. Qed.
Print Assumptions legacy_agrees_with_unicode_in_comments.

Theorem legacy_agrees_with_unicode_in_pis : forall g, lg_max_ok (lc_max g) = true -> forall t d bs,
  ~ In 0 d -> lg_pi g true t d = Ok bs -> payload (write_pi fam_utf16 (lc_v11 g) t d) = Ok bs.
Proof. exact pi_legacy_ok_unicode_same. Qed.
Print Assumptions legacy_agrees_with_unicode_in_pis.

Theorem legacy_comment_fails_iff_unicode_fails : forall g, lg_max_ok (lc_max g) = true -> forall s,
  65535 <= lc_max g -> small s = true -> ~ In 0 s ->
  ((exists bs, lg_comment g true s = Ok bs) <-> (exists bs, payload (write_comment fam_utf16 (lc_v11 g) s) = Ok bs)).
Proof. exact comment_fails_iff_unicode_fails. Qed.
Print Assumptions legacy_comment_fails_iff_unicode_fails.

Example legacy_comment_hypotheses_satisfiable :
  comment_ok false [97; 233; 10; 9; 45; 98] = true /\ forallb (rep_g (mklcfg 255 false true true)) [97; 233; 10; 9; 45; 98] = true /\
  pi_ok true [112; 105] [100; 61; 34; 233; 34] = true /\ markup_ok (mklcfg 65535 true true true) [97; 55357; 56832] = true /\
  markup_ok (mklcfg 255 true true true) [97; 133] = false.
Proof. repeat split; vm_compute; reflexivity. Qed.
Print Assumptions legacy_comment_hypotheses_satisfiable.

(* ---- fails iff fails, arbitrary strings ---------------------------------------------------------- *)
(* FormatterToXMLUnicode's UTF-16 writer writes a text node (attr = false) / attribute value (attr = true)
   exactly when the surrogates are paired and no character is forbidden ... *)
Theorem unicode_text_ok_iff : forall attr v11 n s, (length s <= n)%nat ->
  okres (payload (uw attr v11 s)) = u_ok v11 s.
Proof. exact unicode_ok_iff. Qed.
Print Assumptions unicode_text_ok_iff.

(* ... and so does the legacy serializer with the repair 11-K-new-4, for every m_maxCharacter: the two
   succeed and fail together on ARBITRARY strings of 16-bit units without U+0000 *)
Theorem legacy_fails_iff_unicode_fails_everywhere : forall g attr s, lg_max_ok (lc_max g) = true ->
  lc_surfix g = true -> small s = true -> ~ In 0 s ->
  okres (lg_loop g attr s) = okres (payload (uw attr (lc_v11 g) s)).
Proof. exact fails_iff_unicode_fails. Qed.
Print Assumptions legacy_fails_iff_unicode_fails_everywhere.

Theorem legacy_fails_iff_unicode_fails_everywhere_refuted :
  okres (lg_loop (mklcfg 65535 false true false) false [97; 56832]) = true /\
  okres (payload (uw false false [97; 56832])) = false.
Proof. exact fails_iff_unicode_fails_refuted. Qed.
Print Assumptions legacy_fails_iff_unicode_fails_everywhere_refuted.

Example legacy_fails_everywhere_instances :
  u_ok false [97; 65534; 55357; 56832] = true /\ u_ok false [97; 1] = false /\ u_ok true [97; 1] = true /\
  u_ok true [55357; 98] = false /\ l_ok false [97; 31] = false.
Proof. repeat split; vm_compute; reflexivity. Qed.

(* ---- the raw marker m_nextIsRaw -------------------------------------------------------------------- *)
(* lg_events threads the flag as FormatterToXML does (set by processingInstruction(s_piTarget, s_piData),
   cleared by the next characters() with text or the next cdata()); lg_pieces describes the same output
   without any flag: for every event list, an event is written raw iff it looks at the flag and a marker
   is pending before it, a marker writes nothing, and every other event is written by the marker-free
   function lg_event_out ... *)
Theorem raw_marker_affects_exactly_one_event : forall g chk suf pre st,
  lg_events g chk suf st (lg_pending pre) = lg_pieces g chk pre suf st.
Proof. exact events_are_pieces. Qed.
Print Assumptions raw_marker_affects_exactly_one_event.

Theorem raw_marker_affects_exactly_one_event_document : forall g chk es,
  lg_events g chk es [] false = lg_pieces g chk [] es [].
Proof. exact raw_marker_one_event. Qed.
Print Assumptions raw_marker_affects_exactly_one_event_document.

(* ... where "a marker is pending" means: among the events before, a marker PI is followed by no
   characters-with-text / cdata event *)
Theorem raw_marker_pending_iff : forall pre, lg_pending pre = true <->
  exists a m b, pre = a ++ m :: b /\ lg_is_marker m = true /\ forallb (fun e => negb (lg_consumes e)) b = true.
Proof. exact pending_iff. Qed.
Print Assumptions raw_marker_pending_iff.

(* a marker never leaks: behind the event that used it, and without any marker, the output is that of
   the marker-free serializer *)
Theorem raw_marker_does_not_leak : forall g chk pre e r st, lg_consumes e = true -> lg_is_marker e = false ->
  forallb (fun x => negb (lg_is_marker x)) r = true ->
  lg_pieces g chk (pre ++ [e]) r st = lg_events_plain g chk r st.
Proof. exact marker_does_not_leak. Qed.
Print Assumptions raw_marker_does_not_leak.

Theorem no_marker_is_plain : forall g chk es st, forallb (fun e => negb (lg_is_marker e)) es = true ->
  lg_events g chk es st false = lg_events_plain g chk es st.
Proof. exact no_marker_plain. Qed.
Print Assumptions no_marker_is_plain.

Example raw_marker_example :
  lg_events (mklcfg 65535 false true true) true
    [LStart [114] []; LPI lg_raw_target lg_raw_data; LCdata [60; 105; 47; 62]; LCdata [49; 60; 50]; LText [60; 38]; LEnd [114]] [] false
  = Ok ([60; 114; 62] ++ [60; 105; 47; 62] ++ lg_cdata_open ++ [49; 60; 50] ++ lg_cdata_close ++
        [38; 108; 116; 59; 38; 97; 109; 112; 59] ++ [60; 47; 114; 62]) /\
  lg_pending [LPI lg_raw_target lg_raw_data; LComment [103]; LText []] = true /\
  lg_pending [LPI lg_raw_target lg_raw_data; LCdata []] = false.
Proof. exact raw_marker_instance. Qed.
