(* extraction of the core2 interpreter (machine and reference semantics) for the correspondence run *)
Require Import ExtrOcamlBasic.
Require Import XV.XsltEventsDefs XV.XsltVarsDefs XV.XsltCoreDefs XV.XsltCore2Defs.
Extraction "extracted/xsltCore2_model.ml"
  BinNums.positive BinNums.N BinNums.Z
  machine_main2 sem_main2 result_of canon_list result_tree2.
