// C05 part "targets": the two tree-building result targets (FormatterToXercesDOM, FormatterToSourceTree) and the
// stream serializer driven event by event through the FormatterListener interface, against the rebuilt library.
//
// One case per line, tokens separated by ' ':
//   <id> <target> <mode> <resolver> <event> ...
//     target    x = FormatterToXercesDOM      s = FormatterToSourceTree
//               m = the stream serializer (XalanXMLSerializerFactory, UTF-8) whose bytes are parsed again by Xerces (SAX2)
//               i = FormatterToSourceTree, dump of the document-order indexes (XalanNode::getIndex) in tree order:
//                   (<index>:<attribute index>,...  children )   for an element,  <index> for any other node
//               q = FormatterToSourceTree over a document of a XalanSourceTreeParserLiaison, then the order probe (below) on the
//                   built tree (XalanSourceTreeWrapperParsedSource);   p = the stream serializer, its bytes parsed by
//                   XalanTransformer::parseSource, then the same probe.  Output: ok <hex bytes of the probe's text result>
//               Q / P = whole transformations: the script is serialized, an identity stylesheet (xsl:copy-of) transforms these bytes
//                   into a FormatterToSourceTree document (Q) or into a stream that is parsed again (P); then the probe on both
//                   probe = a stylesheet listing  //text()|//*|//comment()|//processing-instruction() ,  //*/node()  and, per
//                   element, (text()|*)[1]  (everything the library orders by document-order index)
//     mode      d = document mode  (x: FormatterToXercesDOM(doc, 0);  s: FormatterToSourceTree(mm, doc))
//               f = fragment mode  (x: FormatterToXercesDOM(doc, frag, 0);  s: FormatterToSourceTree(doc, frag, mm))
//     resolver  -  = no prefix resolver,  r|<prefix>|<uri>|...  = setPrefixResolver(a resolver with exactly these bindings)
//     events    O startDocument   Z endDocument   S|qname|an|av|...   E|qname   C|chars   R|charactersRaw   D|cdata
//               M|comment   P|target|data   I|ignorableWhitespace   N|entityReference   L|chars|n  characters(chars, n) with
//               n < length(chars): the buffer is longer than the length passed (outside the model; K-C05t-2 probe)
//     strings are "u:" + comma separated hex UTF-16 code units (common.hpp)
// Output:  <id> ok <node> ...   or   <id> err <exception class>   (events are fed until the first exception)
//     nodes, pre-order:  e|qname|ns|aq|ans|av|... children )     t|text node   c|cdata section
//                        m|comment   p|target|data   n|entity reference
#include "common.hpp"
#include <xercesc/framework/MemBufInputSource.hpp>
#include <xercesc/sax2/SAX2XMLReader.hpp>
#include <xercesc/sax2/XMLReaderFactory.hpp>
#include <xercesc/sax2/Attributes.hpp>
#include <xercesc/sax2/DefaultHandler.hpp>
#include <xercesc/sax/SAXParseException.hpp>
#include <xercesc/dom/DOM.hpp>
#include <xercesc/util/XMLUni.hpp>
#include <xercesc/util/XMLString.hpp>
#include <xalanc/XalanDOM/XalanNode.hpp>
#include <xalanc/XalanDOM/XalanNamedNodeMap.hpp>
#include <xalanc/XalanDOM/XalanDOMException.hpp>
#include <xercesc/sax/AttributeList.hpp>
#include <xalanc/PlatformSupport/PrefixResolver.hpp>
#include <xalanc/PlatformSupport/XalanStdOutputStream.hpp>
#include <xalanc/PlatformSupport/XalanOutputStreamPrintWriter.hpp>
#include <xalanc/PlatformSupport/XSLException.hpp>
#include <xalanc/XMLSupport/XalanXMLSerializerFactory.hpp>
#include <xalanc/XercesParserLiaison/FormatterToXercesDOM.hpp>
#include <xalanc/XercesParserLiaison/XercesDOMException.hpp>
#include <xalanc/XalanSourceTree/FormatterToSourceTree.hpp>
#include <xalanc/XalanSourceTree/XalanSourceTreeDocument.hpp>
#include <xalanc/XalanSourceTree/XalanSourceTreeDocumentFragment.hpp>
#include <xalanc/XalanSourceTree/XalanSourceTreeDOMSupport.hpp>
#include <xalanc/XalanSourceTree/XalanSourceTreeParserLiaison.hpp>
#include <xalanc/XalanTransformer/XalanSourceTreeWrapperParsedSource.hpp>
#include <xalanc/XalanTransformer/XalanCompiledStylesheet.hpp>
#include <xalanc/XalanTransformer/XalanParsedSource.hpp>
#include <xalanc/XSLT/XSLTInputSource.hpp>
#include <xalanc/XSLT/XSLTResultTarget.hpp>
#include <map>

using namespace verif;
using namespace xalanc;

struct Event { char kind; XalanDOMString a, b; size_t n; std::vector<std::pair<XalanDOMString, XalanDOMString> > attrs; };

static const XalanDOMChar s_cdataType[] = { 'C', 'D', 'A', 'T', 'A', 0 };

class MapResolver : public PrefixResolver
{
public:
    std::map<std::string, XalanDOMString> m_map;
    XalanDOMString m_uri;
    MapResolver() : m_uri(XalanMemMgrs::getDefaultXercesMemMgr()) {}
    virtual const XalanDOMString* getNamespaceForPrefix(const XalanDOMString& prefix) const
    {
        std::map<std::string, XalanDOMString>::const_iterator i = m_map.find(token_of_u16(prefix));
        return i == m_map.end() ? 0 : &i->second;
    }
    virtual const XalanDOMString& getURI() const { return m_uri; }
};

// a plain xercesc::AttributeList: unlike AttributeListImpl::addAttribute it keeps entries of the same name apart
class VecAttrs : public xercesc::AttributeList
{
public:
    const std::vector<std::pair<XalanDOMString, XalanDOMString> >& m_v;
    VecAttrs(const std::vector<std::pair<XalanDOMString, XalanDOMString> >& v) : m_v(v) {}
    virtual XMLSize_t getLength() const { return m_v.size(); }
    virtual const XMLCh* getName(const XMLSize_t i) const { return i < m_v.size() ? m_v[i].first.c_str() : 0; }
    virtual const XMLCh* getType(const XMLSize_t i) const { return i < m_v.size() ? s_cdataType : 0; }
    virtual const XMLCh* getValue(const XMLSize_t i) const { return i < m_v.size() ? m_v[i].second.c_str() : 0; }
    virtual const XMLCh* getType(const XMLCh* const name) const { return getValue(name) ? s_cdataType : 0; }
    virtual const XMLCh* getValue(const XMLCh* const name) const
    {
        for (size_t i = 0; i < m_v.size(); ++i) if (xercesc::XMLString::equals(m_v[i].first.c_str(), name)) return m_v[i].second.c_str();
        return 0;
    }
    virtual const XMLCh* getValue(const char* const) const { return 0; }
};

static std::vector<std::string> fields(const std::string& t)
{
    std::vector<std::string> out; size_t i = 0;
    for (;;) { size_t j = t.find('|', i); if (j == std::string::npos) { out.push_back(t.substr(i)); break; } out.push_back(t.substr(i, j - i)); i = j + 1; }
    return out;
}

static void feed(FormatterListener& fl, const std::vector<Event>& evs)
{
    for (size_t i = 0; i < evs.size(); ++i) {
        const Event& e = evs[i];
        switch (e.kind) {
        case 'O': fl.startDocument(); break;
        case 'Z': fl.endDocument(); break;
        case 'S': {
            VecAttrs al(e.attrs);
            fl.startElement(e.a.c_str(), al);
            break; }
        case 'E': fl.endElement(e.a.c_str()); break;
        case 'C': fl.characters(e.a.c_str(), e.a.length()); break;
        case 'L': fl.characters(e.a.c_str(), (FormatterListener::size_type) e.n); break;
        case 'R': fl.charactersRaw(e.a.c_str(), e.a.length()); break;
        case 'D': fl.cdata(e.a.c_str(), e.a.length()); break;
        case 'M': fl.comment(e.a.c_str()); break;
        case 'P': fl.processingInstruction(e.a.c_str(), e.b.c_str()); break;
        case 'I': fl.ignorableWhitespace(e.a.c_str(), e.a.length()); break;
        case 'N': fl.entityReference(e.a.c_str()); break;
        }
    }
}

static std::string xtok(const XMLCh* s) { return s ? token_of_u16(s, xercesc::XMLString::stringLen(s)) : std::string("u:"); }

static void dump_x(const xercesc::DOMNode* n, std::string& out)
{
    using namespace xercesc;
    for (const DOMNode* c = n->getFirstChild(); c != 0; c = c->getNextSibling()) {
        switch (c->getNodeType()) {
        case DOMNode::ELEMENT_NODE: {
            out += " e|" + xtok(c->getNodeName()) + "|" + xtok(c->getNamespaceURI());
            const DOMNamedNodeMap* am = c->getAttributes();
            for (XMLSize_t i = 0; am != 0 && i < am->getLength(); ++i) {
                const DOMNode* a = am->item(i);
                out += "|" + xtok(a->getNodeName()) + "|" + xtok(a->getNamespaceURI()) + "|" + xtok(a->getNodeValue());
            }
            dump_x(c, out);
            out += " )";
            break; }
        case DOMNode::TEXT_NODE: out += " t|" + xtok(c->getNodeValue()); break;
        case DOMNode::CDATA_SECTION_NODE: out += " c|" + xtok(c->getNodeValue()); break;
        case DOMNode::COMMENT_NODE: out += " m|" + xtok(c->getNodeValue()); break;
        case DOMNode::PROCESSING_INSTRUCTION_NODE: out += " p|" + xtok(c->getNodeName()) + "|" + xtok(c->getNodeValue()); break;
        case DOMNode::ENTITY_REFERENCE_NODE: out += " n|" + xtok(c->getNodeName()); break;
        default: out += " ?"; break;
        }
    }
}

static void dump_s(const XalanNode* n, std::string& out)
{
    for (const XalanNode* c = n->getFirstChild(); c != 0; c = c->getNextSibling()) {
        switch (c->getNodeType()) {
        case XalanNode::ELEMENT_NODE: {
            out += " e|" + token_of_u16(c->getNodeName()) + "|" + token_of_u16(c->getNamespaceURI());
            const XalanNamedNodeMap* am = c->getAttributes();
            for (XalanSize_t i = 0; am != 0 && i < am->getLength(); ++i) {
                const XalanNode* a = am->item(i);
                out += "|" + token_of_u16(a->getNodeName()) + "|" + token_of_u16(a->getNamespaceURI()) + "|" + token_of_u16(a->getNodeValue());
            }
            dump_s(c, out);
            out += " )";
            break; }
        case XalanNode::TEXT_NODE:
            out += " t|" + token_of_u16(c->getNodeValue());   // XalanSourceTreeTextIWS is only the white-space-only representation
            break;
        case XalanNode::CDATA_SECTION_NODE: out += " c|" + token_of_u16(c->getNodeValue()); break;
        case XalanNode::COMMENT_NODE: out += " m|" + token_of_u16(c->getNodeValue()); break;
        case XalanNode::PROCESSING_INSTRUCTION_NODE: out += " p|" + token_of_u16(c->getNodeName()) + "|" + token_of_u16(c->getNodeValue()); break;
        case XalanNode::ENTITY_REFERENCE_NODE: out += " n|" + token_of_u16(c->getNodeName()); break;
        default: out += " ?"; break;
        }
    }
}

static void dump_i(const XalanNode* n, std::string& out)
{
    char buf[32];
    for (const XalanNode* c = n->getFirstChild(); c != 0; c = c->getNextSibling()) {
        std::snprintf(buf, sizeof buf, "%lu", (unsigned long) c->getIndex());
        if (c->getNodeType() == XalanNode::ELEMENT_NODE) {
            out += std::string(" (") + buf + ":";
            const XalanNamedNodeMap* am = c->getAttributes();
            for (XalanSize_t i = 0; am != 0 && i < am->getLength(); ++i) {
                std::snprintf(buf, sizeof buf, i ? ",%lu" : "%lu", (unsigned long) am->item(i)->getIndex());
                out += buf;
            }
            dump_i(c, out);
            out += " )";
        } else
            out += std::string(" ") + buf;
    }
}

static const char* const PROBE =
    "<xsl:stylesheet version='1.0' xmlns:xsl='http://www.w3.org/1999/XSL/Transform'><xsl:output method='text' encoding='UTF-8'/>"
    "<xsl:template match='/'>"
    "<xsl:for-each select='//text()|//*|//comment()|//processing-instruction()'><xsl:call-template name='d'/></xsl:for-each><xsl:text>#</xsl:text>"
    "<xsl:for-each select='//*/node()'><xsl:call-template name='d'/></xsl:for-each><xsl:text>#</xsl:text>"
    "<xsl:for-each select='//*'><xsl:for-each select='(text()|*)[1]'><xsl:call-template name='d'/></xsl:for-each><xsl:text>;</xsl:text></xsl:for-each>"
    "</xsl:template>"
    "<xsl:template name='d'>[<xsl:value-of select='name()'/>=<xsl:choose><xsl:when test='self::*'>E</xsl:when>"
    "<xsl:otherwise><xsl:value-of select='.'/></xsl:otherwise></xsl:choose>]</xsl:template></xsl:stylesheet>";

static const char* const IDENT =
    "<xsl:stylesheet version='1.0' xmlns:xsl='http://www.w3.org/1999/XSL/Transform'><xsl:output method='xml' encoding='UTF-8'/>"
    "<xsl:template match='/'><xsl:copy-of select='node()'/></xsl:template></xsl:stylesheet>";

static XalanTransformer* g_t = 0;
static const XalanCompiledStylesheet* g_probe = 0;
static const XalanCompiledStylesheet* g_ident = 0;

static std::string hexbytes(const std::string& s)
{
    static const char* d = "0123456789abcdef";
    std::string r; r.reserve(s.size() * 2);
    for (size_t i = 0; i < s.size(); ++i) { unsigned char c = (unsigned char) s[i]; r += d[c >> 4]; r += d[c & 15]; }
    return r;
}

static bool probe_ready()
{
    if (g_t == 0) {
        g_t = new XalanTransformer;
        std::istringstream is(PROBE);
        if (g_t->compileStylesheet(XSLTInputSource(is), g_probe) != 0) g_probe = 0;
        std::istringstream is2(IDENT);
        if (g_t->compileStylesheet(XSLTInputSource(is2), g_ident) != 0) g_ident = 0;
    }
    return g_probe != 0 && g_ident != 0;
}

// the serialized bytes parsed again: the same node tokens (no namespace URIs: compared by qualified name)
class Collector : public xercesc::DefaultHandler
{
public:
    std::string    m_out;
    XalanDOMString m_text;
    std::string    m_error;
    void flushText() { if (!m_text.empty()) { m_out += " t|" + token_of_u16(m_text); m_text.clear(); } }
    virtual void startElement(const XMLCh* const, const XMLCh* const, const XMLCh* const qname, const xercesc::Attributes& attrs)
    {
        flushText();
        m_out += " e|" + xtok(qname) + "|u:";
        for (XMLSize_t i = 0; i < attrs.getLength(); ++i)
            m_out += "|" + xtok(attrs.getQName(i)) + "|u:|" + xtok(attrs.getValue(i));
    }
    virtual void endElement(const XMLCh* const, const XMLCh* const, const XMLCh* const) { flushText(); m_out += " )"; }
    virtual void characters(const XMLCh* const chars, const XMLSize_t length) { m_text.append(chars, (XalanDOMString::size_type) length); }
    virtual void ignorableWhitespace(const XMLCh* const chars, const XMLSize_t length) { m_text.append(chars, (XalanDOMString::size_type) length); }
    virtual void processingInstruction(const XMLCh* const target, const XMLCh* const data) { flushText(); m_out += " p|" + xtok(target) + "|" + xtok(data); }
    virtual void comment(const XMLCh* const chars, const XMLSize_t length) { flushText(); m_out += " m|" + token_of_u16(chars, length); }
    virtual void error(const xercesc::SAXParseException&) { m_error = "error"; }
    virtual void fatalError(const xercesc::SAXParseException& e) { m_error = "fatal"; throw e; }
};

static std::string reparse(const std::string& bytes)
{
    using namespace xercesc;
    Collector c;
    SAX2XMLReader* r = XMLReaderFactory::createXMLReader();
    std::string res;
    try {
        r->setFeature(XMLUni::fgSAX2CoreNameSpaces, false);
        r->setFeature(XMLUni::fgSAX2CoreNameSpacePrefixes, true);
        r->setFeature(XMLUni::fgSAX2CoreValidation, false);
        r->setFeature(XMLUni::fgXercesLoadExternalDTD, false);
        r->setContentHandler(&c);
        r->setLexicalHandler(&c);
        r->setErrorHandler(&c);
        MemBufInputSource src((const XMLByte*) bytes.data(), bytes.size(), "targets-stream");
        r->parse(src);
        c.flushText();
        res = c.m_error.empty() ? "ok" + c.m_out : "err parse-" + c.m_error;
    }
    catch (const SAXParseException&) { res = "err parse"; }
    catch (const SAXException&) { res = "err parse-SAXException"; }
    catch (const XMLException&) { res = "err parse-XMLException"; }
    catch (...) { res = "err parse-unknown"; }
    delete r;
    return res;
}

static std::string run_case(char target, char mode, MapResolver* res, const std::vector<Event>& evs)
{
    MemoryManager& mm = XalanMemMgrs::getDefaultXercesMemMgr();
    std::string out;
    if (target == 'x') {
        using namespace xercesc;
        static const XMLCh core[] = { 'C', 'o', 'r', 'e', 0 };
        DOMImplementation* impl = DOMImplementationRegistry::getDOMImplementation(core);
        DOMDocument* doc = impl->createDocument();
        std::string status = "ok";
        DOMNode* rootnode = doc;
        try {
            if (mode == 'f') {
                DOMDocumentFragment* frag = doc->createDocumentFragment();
                rootnode = frag;
                FormatterToXercesDOM fl(doc, frag, 0, mm);
                if (res) fl.setPrefixResolver(res);
                feed(fl, evs);
            } else {
                FormatterToXercesDOM fl(doc, 0, mm);
                if (res) fl.setPrefixResolver(res);
                feed(fl, evs);
            }
        }
        catch (const XercesDOMException&) { status = "err XercesDOMException"; }
        catch (const XalanDOMException&) { status = "err XalanDOMException"; }
        catch (const xercesc::DOMException&) { status = "err DOMException"; }
        catch (const XSLException&) { status = "err XSLException"; }
        catch (...) { status = "err unknown"; }
        if (status == "ok") dump_x(rootnode, out);
        doc->release();
        return status + out;
    }
    if (target == 's') {
        std::string status = "ok";
        XalanSourceTreeDocument* doc = XalanSourceTreeDocument::create(mm);
        const XalanNode* rootnode = doc;
        XalanSourceTreeDocumentFragment* frag = 0;
        try {
            if (mode == 'f') {
                frag = new XalanSourceTreeDocumentFragment(mm, *doc);
                rootnode = frag;
                FormatterToSourceTree fl(doc, frag, mm);
                if (res) fl.setPrefixResolver(res);
                feed(fl, evs);
            } else {
                FormatterToSourceTree fl(mm, doc);
                if (res) fl.setPrefixResolver(res);
                feed(fl, evs);
            }
        }
        catch (const XalanDOMException&) { status = "err XalanDOMException"; }
        catch (const XSLException&) { status = "err XSLException"; }
        catch (...) { status = "err unknown"; }
        if (status == "ok") dump_s(rootnode, out);
        delete frag;
        doc->~XalanSourceTreeDocument();
        mm.deallocate(doc);
        return status + out;
    }
    if (target == 'i' || target == 'q') {
        std::string status = "ok";
        XalanSourceTreeDOMSupport dom;
        XalanSourceTreeParserLiaison liaison(dom, mm);
        dom.setParserLiaison(&liaison);
        XalanSourceTreeDocument* doc = liaison.createXalanSourceTreeDocument();
        const XalanNode* rootnode = doc;
        XalanSourceTreeDocumentFragment* frag = 0;
        try {
            if (mode == 'f') {
                frag = new XalanSourceTreeDocumentFragment(mm, *doc);
                rootnode = frag;
                FormatterToSourceTree fl(doc, frag, mm);
                if (res) fl.setPrefixResolver(res);
                feed(fl, evs);
            } else {
                FormatterToSourceTree fl(mm, doc);
                if (res) fl.setPrefixResolver(res);
                feed(fl, evs);
            }
        }
        catch (const XalanDOMException&) { status = "err XalanDOMException"; }
        catch (const XSLException&) { status = "err XSLException"; }
        catch (...) { status = "err unknown"; }
        if (status == "ok" && target == 'i') dump_i(rootnode, out);
        if (status == "ok" && target == 'q') {
            if (!probe_ready()) status = "err probe-stylesheet";
            else {
                XalanSourceTreeWrapperParsedSource ps(doc, liaison, dom);
                std::ostringstream o2;
                if (g_t->transform(ps, g_probe, XSLTResultTarget(o2)) != 0) status = "err probe-transform";
                else out = " " + hexbytes(o2.str());
            }
        }
        delete frag;
        return status + out;
    }
    // the stream serializer, then Xerces
    std::ostringstream os;
    std::string status = "ok";
    try {
        XalanStdOutputStream stream(os, mm);
        XalanOutputStreamPrintWriter writer(stream);
        XalanDOMString encoding("UTF-8", mm), version("1.0", mm), empty(mm);
        FormatterListener* fl = XalanXMLSerializerFactory::create(mm, writer, version, false, 0, encoding, empty, empty, empty, true, empty);
        struct Del { FormatterListener* p; MemoryManager& m; ~Del() { if (p) { p->~FormatterListener(); m.deallocate(p); } } } del = { fl, mm };
        feed(*fl, evs);
        writer.flush();
        stream.flush();
    }
    catch (const xercesc::SAXException&) { status = "err SAXException"; }
    catch (const XSLException&) { status = "err XSLException"; }
    catch (...) { status = "err unknown"; }
    if (status != "ok") return status;
    if (target == 'Q') {
        if (!probe_ready()) return "err probe-stylesheet";
        std::istringstream is(os.str());
        XalanSourceTreeDOMSupport dom;
        XalanSourceTreeParserLiaison liaison(dom, mm);
        dom.setParserLiaison(&liaison);
        XalanSourceTreeDocument* doc = liaison.createXalanSourceTreeDocument();
        FormatterToSourceTree fl(mm, doc);
        if (g_t->transform(XSLTInputSource(is), g_ident, XSLTResultTarget(fl)) != 0) return "err stage1";
        XalanSourceTreeWrapperParsedSource ps(doc, liaison, dom);
        std::ostringstream o2;
        if (g_t->transform(ps, g_probe, XSLTResultTarget(o2)) != 0) return "err probe-transform";
        return "ok " + hexbytes(o2.str());
    }
    if (target == 'P') {
        if (!probe_ready()) return "err probe-stylesheet";
        std::istringstream is(os.str());
        std::ostringstream mid;
        if (g_t->transform(XSLTInputSource(is), g_ident, XSLTResultTarget(mid)) != 0) return "err stage1";
        std::istringstream is2(mid.str());
        const XalanParsedSource* ps = 0;
        if (g_t->parseSource(XSLTInputSource(is2), ps) != 0) return "err probe-parse";
        std::ostringstream o2;
        const int rc = g_t->transform(*ps, g_probe, XSLTResultTarget(o2));
        g_t->destroyParsedSource(ps);
        if (rc != 0) return "err probe-transform";
        return "ok " + hexbytes(o2.str());
    }
    if (target == 'p') {
        if (!probe_ready()) return "err probe-stylesheet";
        std::istringstream is(os.str());
        const XalanParsedSource* ps = 0;
        if (g_t->parseSource(XSLTInputSource(is), ps) != 0) return "err probe-parse";
        std::ostringstream o2;
        const int rc = g_t->transform(*ps, g_probe, XSLTResultTarget(o2));
        g_t->destroyParsedSource(ps);
        if (rc != 0) return "err probe-transform";
        return "ok " + hexbytes(o2.str());
    }
    return reparse(os.str());
}

int main(int argc, char** argv)
{
    Init init;
    std::istream* in = &std::cin;
    std::ifstream f;
    if (argc > 1) { f.open(argv[1]); in = &f; }
    std::string line;
    while (std::getline(*in, line)) {
        std::vector<std::string> t = split(line);
        if (t.size() < 4 || t[0][0] == '#') continue;
        MapResolver res; MapResolver* rp = 0;
        bool bad = false;
        if (t[3] != "-") {
            std::vector<std::string> fs = fields(t[3]);
            if (fs[0] != "r" || fs.size() % 2 != 1) bad = true;
            for (size_t k = 1; !bad && k + 1 < fs.size(); k += 2) res.m_map.insert(std::make_pair(fs[k], u16_of_token(fs[k + 1])));
            rp = &res;
        }
        std::vector<Event> evs;
        for (size_t i = 4; i < t.size() && !bad; ++i) {
            std::vector<std::string> fs = fields(t[i]);
            Event e; e.kind = fs[0].empty() ? '?' : fs[0][0]; e.n = 0;
            switch (e.kind) {
            case 'O': case 'Z': break;
            case 'S':
                if (fs.size() < 2 || fs.size() % 2 != 0) { bad = true; break; }
                e.a = u16_of_token(fs[1]);
                for (size_t k = 2; k + 1 < fs.size(); k += 2) e.attrs.push_back(std::make_pair(u16_of_token(fs[k]), u16_of_token(fs[k + 1])));
                break;
            case 'E': case 'C': case 'R': case 'D': case 'M': case 'I': case 'N':
                if (fs.size() != 2) { bad = true; break; }
                e.a = u16_of_token(fs[1]); break;
            case 'P':
                if (fs.size() != 3) { bad = true; break; }
                e.a = u16_of_token(fs[1]); e.b = u16_of_token(fs[2]); break;
            case 'L':
                if (fs.size() != 3) { bad = true; break; }
                e.a = u16_of_token(fs[1]); e.n = std::strtoul(fs[2].c_str(), 0, 10);
                if (e.n > e.a.length()) bad = true;
                break;
            default: bad = true;
            }
            if (!bad) evs.push_back(e);
        }
        if (bad || t[1].size() != 1 || t[2].size() != 1) { std::cout << t[0] << " badscript" << std::endl; continue; }
        std::cout << t[0] << " " << run_case(t[1][0], t[2][0], rp, evs) << std::endl;
    }
    return 0;
}
