(* NumModel.v — lemmas about the number-conversion model (NumDefs.v). *)
From Coq Require Import ZArith NArith List Bool Lia SpecFloat.
Require Import XV.GenNum XV.NumDefs.
Import ListNotations.
Local Open Scope Z_scope.

(** * Character classes *)

Lemma digit_not_dot c : is_digit c = true -> N.eqb c c_dot = false.
Proof. unfold is_digit, c_dot. rewrite andb_true_iff, !N.leb_le. intros [? ?]. apply N.eqb_neq. lia. Qed.
Lemma digit_not_minus c : is_digit c = true -> N.eqb c c_minus = false.
Proof. unfold is_digit, c_minus. rewrite andb_true_iff, !N.leb_le. intros [? ?]. apply N.eqb_neq. lia. Qed.
Lemma digit_not_ws c : is_digit c = true -> is_ws c = false.
Proof.
  unfold is_digit, is_ws. rewrite andb_true_iff, !N.leb_le. intros [? ?].
  rewrite !orb_false_iff, !N.eqb_neq. lia.
Qed.
Lemma ws_not_dot c : is_ws c = true -> N.eqb c c_dot = false.
Proof.
  unfold is_ws, c_dot. rewrite !orb_true_iff, !N.eqb_eq. intros H. apply N.eqb_neq. lia.
Qed.
Lemma ws_not_minus c : is_ws c = true -> N.eqb c c_minus = false.
Proof.
  unfold is_ws, c_minus. rewrite !orb_true_iff, !N.eqb_eq. intros H. apply N.eqb_neq. lia.
Qed.
Lemma ws_not_digit c : is_ws c = true -> is_digit c = false.
Proof. intros H. destruct (is_digit c) eqn:E; auto. apply digit_not_ws in E. congruence. Qed.
Lemma dot_not_ws c : N.eqb c c_dot = true -> is_ws c = false.
Proof. intros H. destruct (is_ws c) eqn:E; auto. apply ws_not_dot in E. congruence. Qed.
Lemma dot_not_digit c : N.eqb c c_dot = true -> is_digit c = false.
Proof. intros H. destruct (is_digit c) eqn:E; auto. apply digit_not_dot in E. congruence. Qed.
Lemma dot_not_minus c : N.eqb c c_dot = true -> N.eqb c c_minus = false.
Proof. rewrite N.eqb_eq. intros ->. reflexivity. Qed.
Lemma minus_not_ws c : N.eqb c c_minus = true -> is_ws c = false.
Proof. intros H. destruct (is_ws c) eqn:E; auto. apply ws_not_minus in E. congruence. Qed.
Lemma minus_not_digit c : N.eqb c c_minus = true -> is_digit c = false.
Proof. intros H. destruct (is_digit c) eqn:E; auto. apply digit_not_minus in E. congruence. Qed.

(** * doValidate accepts exactly the XPath Number lexical form *)

Definition nonempty (l : str) : bool := match l with [] => false | _ => true end.

(* Reference recogniser, written phase by phase from XPath 1.0 section 4.4 / production [30]:
   S? '-'? (Digits ('.' Digits?)? | '.' Digits) S?  *)
Definition ref_validate (s : str) : bool * bool :=
  let s := skip_ws s in
  let s := match s with c :: r => if N.eqb c c_minus then r else s | [] => s end in
  let '(ip, s) := take_digits s in
  match s with
  | c :: r =>
      if N.eqb c c_dot then
        let '(fp, t) := take_digits r in
        (forallb is_ws t && (nonempty ip || nonempty fp), true)
      else (forallb is_ws s && nonempty ip, false)
  | [] => (nonempty ip, false)
  end.

Definition st_set_err (st : vstate) :=
  {| v_err := true; v_dot := v_dot st; v_digit := v_digit st; v_minus := v_minus st; v_ws := v_ws st |}.

Lemma vrun_err : forall s st pw, v_err st = true -> vrun st pw s = st.
Proof.
  induction s as [|c r IH]; intros st pw H; cbn [vrun]; auto.
  unfold vstep. rewrite H. apply IH; auto.
Qed.

(* trailing white space phase *)
Lemma vrun_ws : forall s st, v_err st = false -> v_ws st = true ->
  let st' := vrun st true s in
  v_err st' = negb (forallb is_ws s) /\ v_digit st' = v_digit st /\ v_dot st' = v_dot st.
Proof.
  induction s as [|c r IH]; intros st He Hw; cbn [vrun forallb].
  - rewrite He. auto.
  - destruct (is_ws c) eqn:Ec.
    + assert (Hs : vstep st true c = st).
      { unfold vstep. rewrite He, (ws_not_dot _ Ec), (ws_not_minus _ Ec), (ws_not_digit _ Ec), Ec, Hw.
        cbn. destruct st; cbn in *; subst; reflexivity. }
      rewrite Hs. cbn. apply IH; auto.
    + assert (Hs : vstep st true c = st_set_err st).
      { unfold vstep, st_set_err. rewrite He, Hw, Ec.
        destruct (N.eqb c c_dot); [rewrite orb_true_r; reflexivity|].
        destruct (N.eqb c c_minus); [rewrite !orb_true_r; reflexivity|].
        destruct (is_digit c); reflexivity. }
      rewrite Hs, vrun_err by reflexivity. cbn. auto.
Qed.

(* a white-space character met outside the white-space phase starts it *)
Lemma vstep_enter_ws st pw c : v_err st = false -> v_ws st = false -> is_ws c = true ->
  let st' := vstep st pw c in
  v_err st' = false /\ v_ws st' = true /\ v_digit st' = v_digit st /\ v_dot st' = v_dot st.
Proof.
  intros He Hw Ec. unfold vstep.
  rewrite He, (ws_not_dot _ Ec), (ws_not_minus _ Ec), (ws_not_digit _ Ec), Ec, Hw. cbn. auto.
Qed.

(* fraction phase: after the decimal point *)
Lemma vrun_frac : forall s st pw, v_err st = false -> v_ws st = false -> v_dot st = true ->
  let '(fp, t) := take_digits s in
  let st' := vrun st pw s in
  v_err st' = negb (forallb is_ws t) /\ v_digit st' = (v_digit st || nonempty fp) /\ v_dot st' = true.
Proof.
  induction s as [|c r IH]; intros st pw He Hw Hd; cbn [take_digits vrun].
  - cbn. rewrite He, orb_false_r. auto.
  - destruct (is_digit c) eqn:Ec.
    + set (st1 := vstep st pw c).
      assert (H1 : v_err st1 = false /\ v_ws st1 = false /\ v_dot st1 = true /\ v_digit st1 = true).
      { unfold st1, vstep. rewrite He, (digit_not_dot _ Ec), (digit_not_minus _ Ec), Ec, Hw. cbn. auto. }
      destruct H1 as (A & B & C & D).
      specialize (IH st1 (is_ws c) A B C). destruct (take_digits r) as [fp t].
      destruct IH as (I1 & I2 & I3). rewrite I1, I2, I3, D. cbn. rewrite orb_true_r. auto.
    + cbn [forallb]. destruct (is_ws c) eqn:Ew.
      * destruct (vstep_enter_ws st pw c He Hw Ew) as (A & B & C & D).
        destruct (vrun_ws r _ A B) as (I1 & I2 & I3).
        rewrite I1, I2, I3, C, D, Hd. cbn. rewrite orb_false_r. auto.
      * assert (Hs : vstep st pw c = st_set_err st).
        { unfold vstep, st_set_err. rewrite He, Hd, Ec, Ew. cbn.
          destruct (N.eqb c c_dot); [reflexivity|]. destruct (N.eqb c c_minus); reflexivity. }
        rewrite Hs, vrun_err by reflexivity. cbn. rewrite Hd, orb_false_r. auto.
Qed.

(* integer phase: a '-' or a digit has been seen, no '.', no white space *)
Lemma vrun_int : forall s st pw, v_err st = false -> v_ws st = false -> v_dot st = false ->
  (v_minus st = true \/ v_digit st = true) ->
  let '(ip, t) := take_digits s in
  let st' := vrun st pw s in
  match t with
  | [] => v_err st' = false /\ v_digit st' = (v_digit st || nonempty ip) /\ v_dot st' = false
  | c :: r =>
      if N.eqb c c_dot then
        let '(fp, t2) := take_digits r in
        v_err st' = negb (forallb is_ws t2) /\ v_digit st' = (v_digit st || nonempty ip || nonempty fp) /\ v_dot st' = true
      else v_err st' = negb (forallb is_ws t) /\ v_digit st' = (v_digit st || nonempty ip) /\ v_dot st' = false
  end.
Proof.
  induction s as [|c r IH]; intros st pw He Hw Hd Hm; cbn [take_digits vrun].
  - rewrite He, Hd, orb_false_r. auto.
  - destruct (is_digit c) eqn:Ec.
    + set (st1 := vstep st pw c).
      assert (H1 : v_err st1 = false /\ v_ws st1 = false /\ v_dot st1 = false /\ v_digit st1 = true).
      { unfold st1, vstep. rewrite He, (digit_not_dot _ Ec), (digit_not_minus _ Ec), Ec, Hw. cbn. auto. }
      destruct H1 as (A & B & C & D).
      specialize (IH st1 (is_ws c) A B C (or_intror D)). destruct (take_digits r) as [ip t].
      destruct t as [|c2 r2].
      * destruct IH as (I1 & I2 & I3). rewrite I1, I2, I3, D. cbn. rewrite orb_true_r. auto.
      * destruct (N.eqb c2 c_dot).
        -- destruct (take_digits r2) as [fp t2]. destruct IH as (I1 & I2 & I3).
           rewrite I1, I2, I3, D. cbn. rewrite orb_true_r. auto.
        -- destruct IH as (I1 & I2 & I3). rewrite I1, I2, I3, D. cbn. rewrite orb_true_r. auto.
    + cbn [nonempty]. rewrite orb_false_r. destruct (N.eqb c c_dot) eqn:Edot.
      * set (st1 := vstep st pw c).
        assert (H1 : v_err st1 = false /\ v_ws st1 = false /\ v_dot st1 = true /\ v_digit st1 = v_digit st).
        { unfold st1, vstep. rewrite He, Edot, Hd, Hw. cbn. auto. }
        destruct H1 as (A & B & C & D).
        pose proof (vrun_frac r st1 (is_ws c) A B C) as HF.
        destruct (take_digits r) as [fp t2]. destruct HF as (I1 & I2 & I3).
        rewrite I1, I2, I3, D. auto.
      * cbn [forallb]. destruct (is_ws c) eqn:Ew.
        -- destruct (vstep_enter_ws st pw c He Hw Ew) as (A & B & C & D).
           destruct (vrun_ws r _ A B) as (I1 & I2 & I3).
           rewrite I1, I2, I3, C, D, Hd. cbn. auto.
        -- assert (Hs : vstep st pw c = st_set_err st).
           { unfold vstep, st_set_err. rewrite He, Edot, Ec, Ew.
             destruct (N.eqb c c_minus); [|reflexivity].
             destruct Hm as [Hm|Hm]; rewrite Hm; rewrite ?orb_true_r; reflexivity. }
           rewrite Hs, vrun_err by reflexivity. cbn. rewrite Hd. auto.
Qed.

Lemma skip_ws_head s : match skip_ws s with c :: _ => is_ws c = false | [] => True end.
Proof.
  induction s as [|c r IH]; cbn; auto. destruct (is_ws c) eqn:E; auto.
Qed.

Lemma take_digits_nil_head c r : is_digit c = false -> take_digits (c :: r) = ([], c :: r).
Proof. intros H. cbn. rewrite H. reflexivity. Qed.

Theorem do_validate_eq_ref : forall s,
  fst (do_validate s) = fst (ref_validate s) /\
  (fst (do_validate s) = true -> snd (do_validate s) = snd (ref_validate s)).
Proof.
  intros s. unfold do_validate, ref_validate.
  pose proof (skip_ws_head s) as Hh. destruct (skip_ws s) as [|c r].
  - cbn. auto.
  - cbn [vrun fst snd].
    destruct (N.eqb c c_minus) eqn:Em.
    + (* leading '-' *)
      set (st1 := vstep v_init false c).
      assert (H1 : v_err st1 = false /\ v_ws st1 = false /\ v_dot st1 = false /\ v_minus st1 = true /\ v_digit st1 = false).
      { unfold st1, vstep. cbn. rewrite Em.
        destruct (N.eqb c c_dot) eqn:Ed; [apply dot_not_minus in Ed; congruence|]. cbn. auto. }
      destruct H1 as (A & B & C & D & E).
      pose proof (vrun_int r st1 (is_ws c) A B C (or_introl D)) as HI.
      destruct (take_digits r) as [ip t]. destruct t as [|c2 r2].
      * destruct HI as (I1 & I2 & I3). rewrite I1, I2, I3, E. cbn. auto.
      * destruct (N.eqb c2 c_dot).
        -- destruct (take_digits r2) as [fp t2]. destruct HI as (I1 & I2 & I3).
           rewrite I1, I2, I3, E. cbn. rewrite negb_involutive. auto.
        -- destruct HI as (I1 & I2 & I3). rewrite I1, I2, I3, E. cbn. rewrite negb_involutive. auto.
    + destruct (is_digit c) eqn:Ec.
      * (* leading digit *)
        set (st1 := vstep v_init false c).
        assert (H1 : v_err st1 = false /\ v_ws st1 = false /\ v_dot st1 = false /\ v_digit st1 = true).
        { unfold st1, vstep. cbn. rewrite (digit_not_dot _ Ec), Em, Ec. cbn. auto. }
        destruct H1 as (A & B & C & D).
        pose proof (vrun_int r st1 (is_ws c) A B C (or_intror D)) as HI.
        cbn [take_digits]. rewrite Ec.
        destruct (take_digits r) as [ip t]. destruct t as [|c2 r2].
        -- destruct HI as (I1 & I2 & I3). rewrite I1, I2, I3, D. cbn. auto.
        -- destruct (N.eqb c2 c_dot).
           ++ destruct (take_digits r2) as [fp t2]. destruct HI as (I1 & I2 & I3).
              rewrite I1, I2, I3, D. cbn. rewrite negb_involutive, andb_true_r. auto.
           ++ destruct HI as (I1 & I2 & I3). rewrite I1, I2, I3, D. cbn.
              rewrite negb_involutive, andb_true_r. auto.
      * rewrite (take_digits_nil_head _ _ Ec).
        destruct (N.eqb c c_dot) eqn:Ed.
        -- (* leading '.' *)
           set (st1 := vstep v_init false c).
           assert (H1 : v_err st1 = false /\ v_ws st1 = false /\ v_dot st1 = true /\ v_digit st1 = false).
           { unfold st1, vstep. cbn. rewrite Ed. cbn. auto. }
           destruct H1 as (A & B & C & D).
           pose proof (vrun_frac r st1 (is_ws c) A B C) as HF.
           destruct (take_digits r) as [fp t2]. destruct HF as (I1 & I2 & I3).
           rewrite I1, I2, I3, D. cbn. rewrite negb_involutive. auto.
        -- (* anything else is an error *)
           assert (Hs : vstep v_init false c = st_set_err v_init).
           { unfold vstep, st_set_err. cbn. rewrite Ed, Em, Ec, Hh. reflexivity. }
           rewrite Hs, vrun_err by reflexivity. cbn. rewrite Hh. cbn. auto.
Qed.

(** every string that is not a Number is converted to NaN *)
Theorem invalid_is_nan : forall s, fst (ref_validate (c_str s)) = false -> string_to_number s = S754_nan.
Proof.
  intros s H. unfold string_to_number.
  destruct (c_str s) as [|c r] eqn:E; auto.
  destruct (do_validate_eq_ref (c :: r)) as [H1 _]. rewrite H in H1.
  destruct (do_validate (c :: r)) as [ok dot]. cbn in H1. subst ok. reflexivity.
Qed.

(** * sprintf output always fits the buffer *)

Lemma digits_fuel_length : forall fuel n acc k,
  0 <= n < 10 ^ Z.of_nat k -> (1 <= k)%nat ->
  (length (digits_fuel fuel n acc) <= length acc + k)%nat.
Proof.
  induction fuel as [|f IH]; intros n acc k Hn Hk; cbn [digits_fuel]; [lia|].
  destruct (n / 10 =? 0) eqn:E.
  - cbn [length]. lia.
  - apply Z.eqb_neq in E.
    assert (Hk2 : (2 <= k)%nat).
    { destruct k as [|[|k]]; try lia. exfalso. apply E. apply Z.div_small. cbn in Hn. lia. }
    specialize (IH (n / 10) ((Z.to_N (n mod 10) + 48)%N :: acc) (k - 1)%nat).
    cbn [length] in IH.
    assert (H10 : 10 ^ Z.of_nat k = 10 * 10 ^ Z.of_nat (k - 1)).
    { replace (Z.of_nat k) with (Z.succ (Z.of_nat (k - 1))) by lia. rewrite Z.pow_succ_r by lia. reflexivity. }
    assert (0 <= n / 10 < 10 ^ Z.of_nat (k - 1)).
    { split; [apply Z.div_pos; lia|]. apply Z.div_lt_upper_bound; lia. }
    lia.
Qed.

Lemma digits_of_length n k : 0 <= n < 10 ^ Z.of_nat k -> (1 <= k)%nat -> (length (digits_of n) <= k)%nat.
Proof. intros. unfold digits_of. pose proof (digits_fuel_length (S (Z.to_nat (Z.log2 n))) n [] k). cbn [length] in *. lia. Qed.

Lemma zeros_length n : length (zeros n) = n.
Proof. induction n; cbn; auto. Qed.

Lemma fixed_point_length neg p n :
  length (fixed_point neg p n) = ((if neg then 1 else 0) + Nat.max (length (digits_of n)) (S p) + 1)%nat.
Proof.
  unfold fixed_point.
  set (ds := zeros (S p - length (digits_of n)) ++ digits_of n).
  assert (Hl : length ds = Nat.max (length (digits_of n)) (S p)).
  { unfold ds. rewrite app_length, zeros_length. lia. }
  rewrite !app_length, firstn_length, skipn_length. cbn [length]. destruct neg; cbn [length]; lia.
Qed.

Lemma round_half_even_div_le num den : 0 <= num -> 0 < den -> 0 <= round_half_even_div num den <= num / den + 1.
Proof.
  intros Hn Hd. unfold round_half_even_div.
  assert (0 <= num / den) by (apply Z.div_pos; lia).
  destruct (2 * (num mod den) ?= den); [destruct (Z.even (num / den))|..]; lia.
Qed.

Lemma pow10_ge_pow2_3 : forall k, 0 <= k -> 2 ^ (3 * k) <= 10 ^ k.
Proof.
  intros k Hk. rewrite Z.pow_mul_r by lia. change (2 ^ 3) with 8.
  apply Z.pow_le_mono_l. lia.
Qed.

(* every valid finite double is below 2^1024 < 10^309 *)
Lemma scaled_bound p m e : 0 <= p ->
  bounded prec emax m e = true -> 0 <= scaled p m e < 10 ^ (309 + p).
Proof.
  intros Hp Hb. unfold bounded, canonical_mantissa, fexp, emin, prec, emax in Hb.
  apply andb_true_iff in Hb. destruct Hb as [Hc He].
  apply Zeq_bool_eq in Hc. apply Zle_bool_imp_le in He.
  assert (Hm : Zpos m < 2 ^ Zpos (digits2_pos m)).
  { clear. induction m as [m IH|m IH|]; cbn [digits2_pos]; rewrite ?Pos2Z.inj_succ, ?Z.pow_succ_r by lia; try lia; try reflexivity. }
  assert (Hdig : Zpos (digits2_pos m) + e <= 1024) by lia.
  assert (H1024 : 2 ^ 1024 < 10 ^ 309) by (vm_compute; reflexivity).
  assert (Hpp : 0 < 10 ^ p) by (apply Z.pow_pos_nonneg; lia).
  unfold scaled. destruct (0 <=? e) eqn:Ee.
  - apply Z.leb_le in Ee.
    assert (Zpos m * 2 ^ e < 2 ^ 1024).
    { apply Z.lt_le_trans with (2 ^ Zpos (digits2_pos m) * 2 ^ e).
      - apply Z.mul_lt_mono_pos_r; [apply Z.pow_pos_nonneg; lia|exact Hm].
      - rewrite <- Z.pow_add_r by lia. apply Z.pow_le_mono_r; lia. }
    rewrite Z.pow_add_r by lia.
    assert (0 < 2 ^ e) by (apply Z.pow_pos_nonneg; lia).
    split; [nia|]. nia.
  - apply Z.leb_gt in Ee.
    assert (Hden : 0 < 2 ^ (- e)) by (apply Z.pow_pos_nonneg; lia).
    pose proof (round_half_even_div_le (Zpos m * 10 ^ p) (2 ^ (- e)) ltac:(nia) Hden) as [Hlo Hhi].
    split; [exact Hlo|].
    assert (Zpos m * 10 ^ p / 2 ^ (- e) <= Zpos m * 10 ^ p).
    { apply Z.div_le_upper_bound; [lia|]. nia. }
    assert (Zpos m < 2 ^ 1024).
    { apply Z.lt_le_trans with (2 ^ Zpos (digits2_pos m)); [exact Hm|]. apply Z.pow_le_mono_r; lia. }
    rewrite Z.pow_add_r by lia. nia.
Qed.

Lemma printf_length_bound p x :
  valid_binary prec emax x = true ->
  (printf_bytes p x <= 312 + p)%nat.
Proof.
  intros Hv. unfold printf_bytes, printf_f.
  destruct x as [s| s| |s m e]; cbn [length]; try lia.
  - rewrite fixed_point_length. change (digits_of 0) with [c_0]. cbn [length]. destruct s; lia.
  - rewrite fixed_point_length. cbn [valid_binary] in Hv.
    pose proof (scaled_bound (Z.of_nat p) m e ltac:(lia) Hv) as Hs.
    assert (length (digits_of (scaled (Z.of_nat p) m e)) <= 309 + p)%nat.
    { apply digits_of_length; [|lia]. replace (Z.of_nat (309 + p)) with (309 + Z.of_nat p) by lia. exact Hs. }
    destruct s; lia.
Qed.

Lemma precisions_le_35 : Forall (fun p => (p <= 35)%nat) printf_precisions.
Proof. unfold printf_precisions. repeat constructor. Qed.

Theorem printf_fits_lemma : forall x p,
  valid_binary prec emax x = true -> In p printf_precisions ->
  (printf_bytes p x <= printf_buffer_bytes)%nat.
Proof.
  intros x p Hv Hin.
  pose proof (proj1 (Forall_forall _ _) precisions_le_35 p Hin) as Hp. cbv beta in Hp.
  pose proof (printf_length_bound p x Hv).
  assert (312 + 35 <= printf_buffer_bytes)%nat by (unfold printf_buffer_bytes; lia).
  lia.
Qed.

(* the "%.*f" loop of DoubleToCharacters never goes beyond MAX_FRACTION_DIGITS *)
Lemma frexp_exponent_ge x : valid_binary prec emax x = true -> -1073 <= frexp_exponent x.
Proof.
  destruct x as [s|s| |s m e]; cbn [frexp_exponent]; try lia.
  cbn [valid_binary]. unfold bounded, canonical_mantissa, fexp, emin, prec, emax.
  rewrite andb_true_iff. intros [Hc _]. apply Zeq_bool_eq in Hc. lia.
Qed.

Lemma ext_start_bounds x : valid_binary prec emax x = true ->
  (printf_last_table_precision < ext_start x <= printf_max_precision)%nat.
Proof.
  intros Hv. pose proof (frexp_exponent_ge x Hv) as He. unfold ext_start.
  unfold printf_last_table_precision, printf_start_num, printf_start_den, printf_max_precision.
  assert (Z.quot ((- frexp_exponent x - 1) * 3) 10 <= Z.quot (1072 * 3) 10)
    by (apply Z.quot_le_mono; lia).
  change (Z.quot (1072 * 3) 10) with 321 in H. lia.
Qed.

Lemma ext_precisions_bounds x p : valid_binary prec emax x = true -> In p (ext_precisions x) ->
  (printf_last_table_precision < p <= printf_max_precision)%nat.
Proof.
  intros Hv Hin. pose proof (ext_start_bounds x Hv) as Hs. unfold ext_precisions in Hin.
  cbn [In] in Hin. destruct Hin as [<-|Hin]; [exact Hs|].
  apply in_seq in Hin. lia.
Qed.

Theorem printf_fits_ext_lemma : forall x p,
  valid_binary prec emax x = true -> In p printf_precisions \/ In p (ext_precisions x) ->
  (printf_bytes p x <= printf_buffer_bytes)%nat.
Proof.
  intros x p Hv [Hin|Hin]; [apply printf_fits_lemma; assumption|].
  pose proof (ext_precisions_bounds x p Hv Hin) as Hp.
  pose proof (printf_length_bound p x Hv).
  unfold printf_buffer_bytes, printf_max_precision in *. lia.
Qed.

(* the bound of printf_length_bound is attained: -DBL_MAX at the table's last precision needs 347 bytes
   (and 312 + 1074 = 1386 = the whole buffer at MAX_FRACTION_DIGITS, a precision the loop only reaches
   for values below 2^-64, which need 1 + 1 + 1 + 1074 + 1 bytes) *)
Example printf_fits_tight :
  printf_bytes 35 (of_bits 0xFFEFFFFFFFFFFFFF) = 347%nat /\
  valid_binary prec emax (of_bits 0xFFEFFFFFFFFFFFFF) = true.
Proof. vm_compute. auto. Qed.

(* the smallest subnormal: the extended loop starts at precision 322 and ends at 324 *)
Example ext_loop_min_subnormal :
  ext_start (of_bits 1) = 322%nat /\ length (double_to_characters (of_bits 1)) = 326%nat /\
  printf_bytes 1074 (of_bits 0x8000000000000001) = 1078%nat.
Proof. vm_compute. auto. Qed.

(** * floor, ceiling, round against their definitions on the rational value *)

(* the value of a finite double with a negative exponent is  sm / 2^(-e) *)
Definition signed (s : bool) (m : positive) : Z := if s then Z.neg m else Z.pos m.

Lemma neg_div m d : 0 < d -> (- m) / d = - ((m + d - 1) / d).
Proof.
  intros Hd. symmetry. apply Z.div_unique with (r := (d - 1) - (m + d - 1) mod d).
  - left. pose proof (Z.mod_pos_bound (m + d - 1) d Hd). lia.
  - pose proof (Z.div_mod (m + d - 1) d ltac:(lia)). nia.
Qed.

Lemma floor_Z_spec s m e : e < 0 -> floor_Z s m e = signed s m / 2 ^ (- e).
Proof.
  intros He. unfold floor_Z, signed.
  assert (Hd : 0 < 2 ^ (- e)) by (apply Z.pow_pos_nonneg; lia).
  destruct s; [|reflexivity].
  change (Z.neg m) with (- Z.pos m). rewrite neg_div by exact Hd. reflexivity.
Qed.

Lemma ceil_Z_spec s m e : e < 0 -> ceil_Z s m e = - ((- signed s m) / 2 ^ (- e)).
Proof.
  intros He. unfold ceil_Z, signed.
  assert (Hd : 0 < 2 ^ (- e)) by (apply Z.pow_pos_nonneg; lia).
  destruct s.
  - change (- Z.neg m) with (Z.pos m). reflexivity.
  - rewrite neg_div by exact Hd. lia.
Qed.

(* XPath round: the integer closest to x, the one closer to +infinity on a tie = floor(x + 1/2) *)
Definition round_Z_spec (sm d : Z) : Z := (2 * sm + d) / (2 * d).

Lemma round_step_spec sm d : 0 < d ->
  (if d <=? 2 * (sm - (sm / d) * d) then sm / d + 1 else sm / d) = round_Z_spec sm d.
Proof.
  intros Hd. unfold round_Z_spec.
  pose proof (Z.div_mod sm d ltac:(lia)) as Hdm.
  pose proof (Z.mod_pos_bound sm d Hd) as Hr.
  destruct (d <=? 2 * (sm - sm / d * d)) eqn:E.
  - apply Z.leb_le in E.
    apply Z.div_unique with (r := 2 * (sm mod d) - d); [left; lia|nia].
  - apply Z.leb_gt in E.
    apply Z.div_unique with (r := 2 * (sm mod d) + d); [left; lia|nia].
Qed.

Theorem d_floor_spec s m e : e < 0 ->
  d_floor (S754_finite s m e) = of_Z s (signed s m / 2 ^ (- e)).
Proof.
  intros He. unfold d_floor. destruct (0 <=? e) eqn:E; [apply Z.leb_le in E; lia|].
  rewrite floor_Z_spec by lia. reflexivity.
Qed.

Theorem d_ceiling_spec s m e : e < 0 ->
  d_ceiling (S754_finite s m e) = of_Z s (- ((- signed s m) / 2 ^ (- e))).
Proof.
  intros He. unfold d_ceiling. destruct (0 <=? e) eqn:E; [apply Z.leb_le in E; lia|].
  rewrite ceil_Z_spec by lia. reflexivity.
Qed.

Theorem d_round_spec s m e : e < 0 ->
  d_round (S754_finite s m e) = of_Z s (round_Z_spec (signed s m) (2 ^ (- e))).
Proof.
  intros He. unfold d_round. destruct (0 <=? e) eqn:E; [apply Z.leb_le in E; lia|].
  rewrite floor_Z_spec by lia.
  assert (Hd : 0 < 2 ^ (- e)) by (apply Z.pow_pos_nonneg; lia).
  fold (signed s m). rewrite round_step_spec by exact Hd. reflexivity.
Qed.

(* integral values, zeros, infinities and NaN are fixed points of all three *)
Theorem rounding_fixed_points x :
  (match x with S754_finite _ _ e => 0 <= e | _ => True end) ->
  d_floor x = x /\ d_ceiling x = x /\ d_round x = x.
Proof.
  destruct x as [s|s| |s m e]; cbn; auto. intros H. apply Z.leb_le in H. rewrite H. auto.
Qed.

(* of_Z gives a zero of the argument's sign: round(-0.2) = -0, round(0.2) = +0 *)
Lemma of_Z_zero s : of_Z s 0 = S754_zero s.
Proof. reflexivity. Qed.

(** * every 64-bit pattern denotes a valid double: the hypothesis of [printf_fits_lemma] is met by all inputs *)

Lemma digits2_pos_bounds m : 2 ^ (Zpos (digits2_pos m) - 1) <= Zpos m < 2 ^ Zpos (digits2_pos m).
Proof.
  induction m as [m IH|m IH|]; cbn [digits2_pos]; [| |cbn; lia].
  - rewrite Pos2Z.inj_succ. replace (Z.succ (Zpos (digits2_pos m)) - 1) with (Z.succ (Zpos (digits2_pos m) - 1)) by lia.
    rewrite !Z.pow_succ_r by lia. lia.
  - rewrite Pos2Z.inj_succ. replace (Z.succ (Zpos (digits2_pos m)) - 1) with (Z.succ (Zpos (digits2_pos m) - 1)) by lia.
    rewrite !Z.pow_succ_r by lia. lia.
Qed.

Lemma digits2_pos_unique m d : 1 <= d -> 2 ^ (d - 1) <= Zpos m < 2 ^ d -> Zpos (digits2_pos m) = d.
Proof.
  intros Hd [Hlo Hhi]. pose proof (digits2_pos_bounds m) as [Blo Bhi].
  destruct (Z.lt_trichotomy (Zpos (digits2_pos m)) d) as [H|[H|H]]; [|exact H|].
  - exfalso. assert (2 ^ Zpos (digits2_pos m) <= 2 ^ (d - 1)) by (apply Z.pow_le_mono_r; lia). lia.
  - exfalso. assert (2 ^ d <= 2 ^ (Zpos (digits2_pos m) - 1)) by (apply Z.pow_le_mono_r; lia). lia.
Qed.

Theorem of_bits_valid b : valid_binary prec emax (of_bits b) = true.
Proof.
  unfold of_bits.
  assert (Hm : 0 <= b mod 2 ^ 52 < 2 ^ 52) by (apply Z.mod_pos_bound; reflexivity).
  assert (He : 0 <= (b / 2 ^ 52) mod 2048 < 2048) by (apply Z.mod_pos_bound; reflexivity).
  set (mant := b mod 2 ^ 52) in *. set (ex := (b / 2 ^ 52) mod 2048) in *. clearbody mant ex.
  destruct (ex =? 2047) eqn:E1; [destruct (mant =? 0); reflexivity|].
  apply Z.eqb_neq in E1.
  destruct (ex =? 0) eqn:E0.
  - destruct mant as [|p|p]; try reflexivity.
    cbn [valid_binary]. unfold bounded, canonical_mantissa, fexp, emin, prec, emax.
    pose proof (digits2_pos_bounds p) as [Blo Bhi].
    assert (Zpos (digits2_pos p) <= 52).
    { destruct (Z_le_gt_dec (Zpos (digits2_pos p)) 52) as [H|H]; [exact H|exfalso].
      assert (2 ^ 52 <= 2 ^ (Zpos (digits2_pos p) - 1)) by (apply Z.pow_le_mono_r; lia). lia. }
    apply andb_true_iff; split; [apply Zeq_is_eq_bool; lia|apply Zle_imp_le_bool; lia].
  - apply Z.eqb_neq in E0.
    destruct (mant + 2 ^ 52) as [|p|p] eqn:Ep; try reflexivity.
    cbn [valid_binary]. unfold bounded, canonical_mantissa, fexp, emin, prec, emax.
    assert (Hd : Zpos (digits2_pos p) = 53).
    { apply digits2_pos_unique; [lia|]. change (2 ^ (53 - 1)) with (2 ^ 52). change (2 ^ 53) with (2 ^ 52 + 2 ^ 52). lia. }
    rewrite Hd.
    apply andb_true_iff; split; [apply Zeq_is_eq_bool; lia|apply Zle_imp_le_bool; lia].
Qed.
