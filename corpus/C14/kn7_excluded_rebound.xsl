# KN7 (apply to <doc/>)
<xsl:stylesheet version="1.0" xmlns:xsl="http://www.w3.org/1999/XSL/Transform" xmlns:p="u4" exclude-result-prefixes="p"><xsl:template match="/"><e xmlns:p="u5"><xsl:attribute name="p:a">u6</xsl:attribute></e></xsl:template></xsl:stylesheet>
