(* Properties_C08.v — C08: output options change only the lexical form, never the content.
   Model: OutoptDefs.v (indent automaton of FormatterToXMLUnicode + XalanIndentWriter as coded, token-level
   reader, text method, option selection, HTML table look-ups); facts regenerated from /repo: GenOutopt.v. *)
From Coq Require Import NArith ZArith List Bool Lia.
Require Import XV.SerDefs XV.GenOutopt XV.OutoptDefs XV.OutoptModel.
Import ListNotations.
Local Open Scope N_scope.

(* ---- tie: the automaton that is modelled is the one in the source ------------------------------------- *)
(* the order of indent-writer calls and markup writes in every method of FormatterToXMLUnicode that consults the
   indent writer, as regenerated from /repo, is the order the model's [step] implements *)
Theorem automaton_as_modelled :
  ops_startElement = m_startElement /\ ops_endElement = m_endElement /\ ops_endDocument = m_endDocument /\
  ops_comment = m_comment /\ ops_writeProcessingInstruction = m_writeProcessingInstruction /\
  ops_writeCharacters = m_writeCharacters /\ ops_writeCDATA = m_writeCDATA cdata_sets_prevtext /\
  ops_writeParentTagEnd = m_writeParentTagEnd /\ ops_charactersRaw = m_charactersRaw cdata_sets_prevtext /\
  should_indent_is_not_preserve_and_not_prevtext = true /\ dummy_indent_writer_is_empty = true /\
  newline_units = [10] /\ indent_space_unit = 32.
Proof. repeat split; reflexivity. Qed.
Print Assumptions automaton_as_modelled.

(* ---- (1) indent adds only white space between tags ---------------------------------------------------- *)
(* the automaton's own rule: nothing is written while m_ispreserve or m_isprevtext *)
Theorem indent_silent_while_preserve_or_prevtext : forall ind st,
  presv st = true \/ prevt st = true -> indent_toks ind st = [].
Proof. exact indent_silent. Qed.
Print Assumptions indent_silent_while_preserve_or_prevtext.

(* without the indent tokens the token stream is the one of the non-indenting serializer: every tag, attribute,
   text, CDATA section, comment and PI is written identically, in the same order, for every indent amount *)
Theorem indent_changes_no_other_token : forall fx n evs dt,
  filter not_ws (run_events fx (Some n) evs (ist0, [], dt)) = run_events fx None evs (ist0, [], dt).
Proof. intros. apply run_strip. Qed.
Print Assumptions indent_changes_no_other_token.

(* History (finding K-C08-1, repaired in /repo): for the writeCDATA that did not call setPrevText(true)
   ([run_events false]) the full statement was FALSE: cdata() sets m_ispreserve but not m_isprevtext and
   startElement clears m_ispreserve before it indents, so a start tag after a CDATA section is indented and the
   white space becomes part of the text node: <a><![CDATA[x]]><b/></a> with indent amount 2 reads back with the
   text node "x\n  ". *)
Theorem indent_adds_only_ws_before_fix_witness :
  tparse (run_events false None cdata_witness (ist0, [], false)) = [PS [97] []; PT [120]; PS [98] []; PE [98]; PE [97]] /\
  tparse (run_events false (Some 2) cdata_witness (ist0, [], false)) =
    [PS [97] []; PT [120; 10; 32; 32]; PS [98] []; PE [98]; PT [10]; PE [97]; PT [10]] /\
  ~ ws_ins (tparse (run_events false None cdata_witness (ist0, [], false)))
           (tparse (run_events false (Some 2) cdata_witness (ist0, [], false))).
Proof. exact (conj (proj1 cdata_witness_parse) (conj (proj2 cdata_witness_parse) cdata_witness_not_ws_ins)). Qed.
Print Assumptions indent_adds_only_ws_before_fix_witness.

(* with the exact guard (no start tag directly after character data written by cdata() unless characters() also
   ran since the last tag) — for EVERY event script (balanced or not), EVERY indent amount, with or without DOCTYPE:
   the parsed result with indenting is the parsed result without, plus new white-space-only text nodes; every
   existing node (text nodes and attribute values included) is kept unchanged and in order, and no two text nodes
   are adjacent in the result, i.e. no white space was added next to existing text *)
Theorem indent_adds_only_ws_partial : forall fx n evs dt,
  ind_guard fx false false evs = true ->
  ws_ins (tparse (run_events fx None evs (ist0, [], dt))) (tparse (run_events fx (Some n) evs (ist0, [], dt))) /\
  no_adjacent_text (tparse (run_events fx (Some n) evs (ist0, [], dt))) = true.
Proof. exact indent_adds_only_ws_guarded. Qed.
Print Assumptions indent_adds_only_ws_partial.

(* the model /repo currently has (cdata_sets_prevtext is regenerated from FormatterToXMLUnicode::writeCDATA) *)
Theorem indent_adds_only_ws_as_coded : forall c evs,
  ind_guard cdata_sets_prevtext false false evs = true ->
  ws_ins (tparse (doc_tokens (mkxcfg (x_enc c) (x_v11 c) (x_encname c) None (x_decl c) (x_standalone c) (x_dtsys c) (x_dtpub c)) evs))
         (tparse (doc_tokens c evs)).
Proof.
  intros c evs G. unfold doc_tokens. cbn [x_indent need_doctype x_dtsys].
  destruct (x_indent c) as [n|].
  - apply (proj1 (indent_adds_only_ws_guarded _ n evs _ G)).
  - apply ws_ins_refl.
Qed.
Print Assumptions indent_adds_only_ws_as_coded.

(* FULL statement for the repaired writeCDATA (setPrevText(true) added, proposed patch of finding K-C08-1): no guard.
   When the patch is applied GenOutopt.cdata_sets_prevtext becomes true and doc_tokens is this automaton *)
Theorem indent_adds_only_ws_repaired : forall n evs dt,
  ws_ins (tparse (run_events true None evs (ist0, [], dt))) (tparse (run_events true (Some n) evs (ist0, [], dt))) /\
  no_adjacent_text (tparse (run_events true (Some n) evs (ist0, [], dt))) = true.
Proof. intros n evs dt. apply indent_adds_only_ws_guarded. apply ind_guard_repaired. discriminate. Qed.
Print Assumptions indent_adds_only_ws_repaired.

(* /repo has the repaired writeCDATA / charactersRaw (regenerated on every run; this fails to check otherwise) *)
Theorem writeCDATA_is_repaired : cdata_sets_prevtext = true.
Proof. reflexivity. Qed.
Print Assumptions writeCDATA_is_repaired.

(* indent_adds_only_ws — the FULL statement about the serializer as coded: for EVERY event script, EVERY configuration
   (encoding, version, indent amount, declaration, standalone, DOCTYPE): the parsed result is the parsed result of the
   same configuration without indenting plus new white-space-only text nodes; every other node (text nodes, attribute
   lists) unchanged and in order; no two text nodes adjacent, so nothing was added next to existing text *)
Theorem indent_adds_only_ws : forall c evs,
  ws_ins (tparse (doc_tokens (mkxcfg (x_enc c) (x_v11 c) (x_encname c) None (x_decl c) (x_standalone c) (x_dtsys c) (x_dtpub c)) evs))
         (tparse (doc_tokens c evs)) /\
  no_adjacent_text (tparse (doc_tokens c evs)) = true.
Proof.
  intros c evs. split.
  - apply indent_adds_only_ws_as_coded. rewrite writeCDATA_is_repaired. apply ind_guard_repaired. discriminate.
  - unfold tparse. apply coalesce_no_adjacent.
Qed.
Print Assumptions indent_adds_only_ws.

(* before coalescing: every inserted white-space node has markup (or the document boundary) on both sides *)
Theorem indent_ws_only_between_markup : forall fx n evs dt,
  ind_guard fx false false evs = true ->
  iso_ins false (flat_map flat_tok (run_events fx None evs (ist0, [], dt)))
                (flat_map flat_tok (run_events fx (Some n) evs (ist0, [], dt))).
Proof. intros fx n evs dt G. eapply run_iso; [apply Inv0 | exact G]. Qed.
Print Assumptions indent_ws_only_between_markup.

(* the reader's coalescing turns isolated insertions into the relation of the property, for any two lists *)
Theorem coalescing_preserves_isolated_insertions : forall l0 l1,
  iso_ins false l0 l1 -> ws_ins (coalesce l0) (coalesce l1) /\ no_adjacent_text (coalesce l1) = true.
Proof. intros l0 l1 H. split; [apply coalesce_iso; exact H | apply coalesce_no_adjacent]. Qed.
Print Assumptions coalescing_preserves_isolated_insertions.

(* the hypotheses are satisfiable and the conclusion is not vacuous: mixed content, text followed by elements,
   comment and PI next to text, depth 3 *)
Example indent_guard_instance :
  let evs := [EStart [97] [([107], [118])]; EText [120]; EStart [98] []; EEnd [98]; EStart [99] [];
              EStart [100] []; EStart [101] []; EEnd [101]; EEnd [100]; EComment [109]; EText [116]; EPI [112] [113];
              EEnd [99]; EEnd [97]] in
  ind_guard false false false evs = true /\
  tparse (run_events false (Some 1) evs (ist0, [], false)) =
    [PS [97] [([107], [118])]; PT [120]; PS [98] []; PE [98]; PT [10; 32]; PS [99] []; PT [10; 32; 32]; PS [100] [];
     PT [10; 32; 32; 32]; PS [101] []; PE [101]; PT [10; 32; 32]; PE [100]; PT [10; 32; 32]; PC [109]; PT [116];
     PP [112] [113]; PE [99]; PT [10]; PE [97]; PT [10]].
Proof. split; vm_compute; reflexivity. Qed.

(* ---- (2) the text method ------------------------------------------------------------------------------ *)
(* what FormatterToText writes is the string-value of the result tree (all text nodes in document order,
   CDATA-section elements included, nothing for comments, PIs, tags and attributes): for every balanced script *)
Theorem text_method_concat : forall evs, balanced 0 evs = true ->
  ser_text_units evs = flat_map string_value (build evs [] []).
Proof. exact text_units_are_string_value. Qed.
Print Assumptions text_method_concat.

(* History (finding K18, repaired in /repo): the FormatterToText that did not check representability ([ser_text])
   wrote the substitution byte: ISO-8859-1 and the euro sign *)
Theorem text_method_encoding_before_fix_witness :
  ser_text EncLatin1 [EText [8364]] = [26] /\ encode_spec EncLatin1 (ser_text_units [EText [8364]]) = None.
Proof. split; vm_compute; reflexivity. Qed.
Print Assumptions text_method_encoding_before_fix_witness.

Theorem text_method_encoding_partial : forall k evs, k <> EncUtf8 ->
  forallb (representable k) (ser_text_units evs) = true ->
  encode_spec k (ser_text_units evs) = Some (ser_text k evs).
Proof.
  intros k evs Hk H. unfold encode_spec, ser_text. rewrite H.
  rewrite stream_encode_representable; auto.
Qed.
Print Assumptions text_method_encoding_partial.

(* FULL statement for the repaired FormatterToText (proposed patch of K18): the units when every one is representable,
   an error otherwise *)
Theorem text_method_encoding_repaired : forall k evs, k <> EncUtf8 ->
  ser_text_checked true k evs = encode_spec k (ser_text_units evs).
Proof.
  intros k evs Hk. unfold ser_text_checked, encode_spec, ser_text. cbn [andb].
  destruct (forallb (representable k) (ser_text_units evs)) eqn:E; cbn [negb]; auto.
  rewrite stream_encode_representable; auto.
Qed.
Print Assumptions text_method_encoding_repaired.

(* text_method_encoding — the FULL statement about FormatterToText as coded (/repo has the repaired characters():
   regenerated on every run): the units of the text when the encoding can represent every one of them, an error
   (None) otherwise; never a substitution character *)
Theorem text_method_checks_representability_now : text_method_checks_representability = true.
Proof. reflexivity. Qed.
Print Assumptions text_method_checks_representability_now.

Theorem text_method_encoding : forall k evs, k <> EncUtf8 ->
  ser_text_as_coded k evs = encode_spec k (ser_text_units evs).
Proof.
  intros k evs Hk. unfold ser_text_as_coded. rewrite text_method_checks_representability_now.
  apply text_method_encoding_repaired. exact Hk.
Qed.
Print Assumptions text_method_encoding.

(* both halves together: the output of method="text" is the string-value of the result tree in the requested encoding *)
Theorem text_method : forall k evs, k <> EncUtf8 -> balanced 0 evs = true ->
  ser_text_as_coded k evs = encode_spec k (flat_map string_value (build evs [] [])).
Proof.
  intros k evs Hk B. rewrite <- text_method_concat by exact B. apply text_method_encoding. exact Hk.
Qed.
Print Assumptions text_method.

Example text_method_instance :
  balanced 0 [EStart [97] []; EText [120]; EComment [99]; ECdata [60]; EStart [98] []; EText [121]; EEnd [98]; EEnd [97]] = true /\
  ser_text EncLatin1 [EStart [97] []; EText [120]; EComment [99]; ECdata [60]; EStart [98] []; EText [121]; EEnd [98]; EEnd [97]] = [120; 60; 121].
Proof. split; vm_compute; reflexivity. Qed.

(* ---- (3) option selection ----------------------------------------------------------------------------- *)
(* method and encoding: the value in force after all xsl:output elements (imported ones first) is the last one
   specified, for every list of xsl:output elements *)
Theorem option_selection_method : forall outs, r_method (process_outputs outs) = spec_method outs.
Proof. exact process_outputs_method. Qed.
Print Assumptions option_selection_method.

Theorem option_selection_encoding : forall outs, r_encoding (process_outputs outs) = spec_encoding outs.
Proof. exact process_outputs_encoding. Qed.
Print Assumptions option_selection_encoding.

(* cdata-section-elements — FULL statement: r_cdata (process_outputs outs) = spec_cdata outs (the union of all
   lists).  FALSE of the model and of the code: processOutputSpec records the names only while the method read so
   far is none/xml, so an xsl:output that follows method="html" (e.g. in an imported stylesheet) and names the
   elements before it switches back to xml loses them.  (Lexical only: no C08 failure.) *)
Theorem option_selection_cdata_refuted :
  let outs := [[AMethod MHtml]; [ACdataElems [[97]]; AMethod MXml]] in
  spec_method outs = MXml /\ spec_cdata outs = [[97]] /\ r_cdata (process_outputs outs) = [].
Proof. repeat split; vm_compute; reflexivity. Qed.
Print Assumptions option_selection_cdata_refuted.

Theorem option_selection_cdata_partial : forall outs, forallb (forallb attr_xmlish) outs = true ->
  r_cdata (process_outputs outs) = spec_cdata outs.
Proof. exact process_outputs_cdata. Qed.
Print Assumptions option_selection_cdata_partial.

(* indent — FULL statement: doIndent = spec_indent outs when the API gives no amount.  FALSE: xalan:indent-amount
   (or setIndent(n), n >= 0, incl. 0: `indentAmount > -1`) turns indenting on against an explicit indent="no";
   and html's implicit "yes" survives a later method="xml" *)
Theorem option_selection_indent_refuted :
  fst (fst (select_coded (process_outputs [[AIndent false; AIndentAmount 2]]) (mkapi (-1) []))) = true /\
  spec_indent [[AIndent false; AIndentAmount 2]] = false /\
  fst (fst (select_coded (process_outputs [[AMethod MHtml]; [AMethod MXml]]) (mkapi (-1) []))) = true /\
  spec_indent [[AMethod MHtml]; [AMethod MXml]] = false.
Proof. repeat split; vm_compute; reflexivity. Qed.
Print Assumptions option_selection_indent_refuted.

Theorem option_selection_indent_partial : forall outs a,
  forallb (forallb attr_xmlish) outs = true -> forallb (forallb attr_no_amount) outs = true -> (a_indent a < 0)%Z ->
  fst (fst (select_coded (process_outputs outs) a)) = spec_indent outs.
Proof. exact select_indent_partial. Qed.
Print Assumptions option_selection_indent_partial.

(* XalanTransformer::setIndent(n), n >= 0 ("the number of spaces to indent"), switches indenting on with exactly
   that amount, 0 included: this is the `indentAmount > -1` test regenerated from setupFormatterListener *)
Theorem option_selection_api_indent : forall r a, (0 <= a_indent a)%Z ->
  fst (fst (select_coded r a)) = true /\ snd (fst (select_coded r a)) = Z.to_N (a_indent a).
Proof. exact api_indent_forces_indenting. Qed.
Print Assumptions option_selection_api_indent.

Example option_selection_instance :
  forallb (forallb attr_xmlish) [[AMethod MXml; AIndent true]; [ACdataElems [[97]]; AEncoding [85]]] = true /\
  select_coded (process_outputs [[AMethod MXml; AIndent true]; [ACdataElems [[97]]; AEncoding [85]]]) (mkapi (-1) [])
  = (true, default_indent_amount_xml, [85]).
Proof. split; vm_compute; reflexivity. Qed.

(* ---- (5) html_void_raw over the regenerated XalanHTMLElementsProperties table (partial: table level) ------ *)
(* the void elements of HTML 4.01 are exactly the entries flagged EMPTY; script and style are exactly the entries
   flagged RAW; look-ups ignore case; an element the table does not know is neither *)
Definition html4_void : list (list N) :=
  [[65;82;69;65]; [66;65;83;69]; [66;65;83;69;70;79;78;84]; [66;82]; [67;79;76]; [70;82;65;77;69]; [72;82]; [73;77;71];
   [73;78;80;85;84]; [73;83;73;78;68;69;88]; [76;73;78;75]; [77;69;84;65]; [80;65;82;65;77]].
Definition html4_raw : list (list N) := [[83;67;82;73;80;84]; [83;84;89;76;69]].

Theorem html_void_elements_are_html4 :
  forallb (fun e => Bool.eqb (negb (N.land (snd (fst e)) flag_EMPTY =? 0)) (existsb (list_eqb (fst (fst e))) html4_void)) html_elements = true /\
  forallb (fun n => html_is flag_EMPTY n) html4_void = true.
Proof. split; vm_compute; reflexivity. Qed.
Print Assumptions html_void_elements_are_html4.

Theorem html_raw_elements_are_script_style :
  forallb (fun e => Bool.eqb (negb (N.land (snd (fst e)) flag_RAW =? 0)) (existsb (list_eqb (fst (fst e))) html4_raw)) html_elements = true /\
  forallb (fun n => html_is flag_RAW n) html4_raw = true.
Proof. split; vm_compute; reflexivity. Qed.
Print Assumptions html_raw_elements_are_script_style.

Theorem html_lookup_ignores_ascii_case : forall flag name,
  html_is flag (map upper name) = html_is flag name.
Proof.
  intros flag name. unfold html_is, html_find.
  assert (U : forall c, upper (upper c) = upper c).
  { intros c. unfold upper. destruct ((97 <=? c) && (c <=? 122)) eqn:E.
    - apply andb_true_iff in E. destruct E as [E1 E2]. apply N.leb_le in E1. apply N.leb_le in E2.
      destruct ((97 <=? c - 32) && (c - 32 <=? 122)) eqn:F; auto.
      apply andb_true_iff in F. destruct F as [F1 _]. apply N.leb_le in F1. lia.
    - rewrite E. reflexivity. }
  rewrite map_map. rewrite (map_ext _ _ U). reflexivity.
Qed.
Print Assumptions html_lookup_ignores_ascii_case.

Example html_table_instance :
  html_is flag_EMPTY [98; 114] = true /\ html_is flag_EMPTY [66; 82] = true /\ html_is flag_EMPTY [112] = false /\
  html_is flag_RAW [115; 99; 114; 105; 112; 116] = true /\ html_is flag_EMPTY [102; 111; 111] = false /\
  html_attr_is aflag_ATTREMPTY [105; 110; 112; 117; 116] [99; 104; 101; 99; 107; 101; 100] = true /\
  html_attr_is aflag_ATTRURL [97] [104; 114; 101; 102] = true.
Proof. repeat split; vm_compute; reflexivity. Qed.
