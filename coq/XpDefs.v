(* XpDefs.v — executable model of Xalan-C's XPath interpreter (XPath.cpp, XObject.cpp,
   Function*.cpp, DoubleSupport.cpp) over the node table of DomDefs.v, as coded: axis walks by
   structural navigation, reverse axes collected nearest-first, predicates by null-then-compact
   with the numeric-literal shortcut, step results merged in document order, the comparison
   decision tree of XObject, the function library on UTF-16 code units.
   Definitions only. *)
From Coq Require Import ZArith NArith List Bool Arith SpecFloat.
Require Import XV.GenNum XV.NumDefs XV.XpAst XV.DomDefs.
Import ListNotations.

(** * values and results *)
Inductive value := VBool (b : bool) | VNum (x : dbl) | VStr (s : str) | VNodes (l : list nat).

Inductive err := EFuel | EType | EUnknownFunction | EUnknownVariable | EArgs | EUnknownAxis.
Inductive res (A : Type) := Ok (a : A) | Err (e : err).
Arguments Ok {A} a. Arguments Err {A} e.

Definition bind {A B} (r : res A) (f : A -> res B) : res B :=
  match r with Ok a => f a | Err e => Err e end.
Notation "'do' x <- r ; k" := (bind r (fun x => k)) (at level 200, x pattern, r at level 100, k at level 200).

Record ctx := mkCtx {
  cx_doc : doc;
  cx_node : nat;
  cx_list : list nat;                      (* context node list: position() / last() *)
  cx_vars : list (str * str * value);      (* (namespace URI, local name) -> value *)
  cx_strip : doc -> nat -> bool            (* xsl:strip-space hook *)
}.

Definition with_node (c : ctx) (n : nat) (l : list nat) : ctx :=
  mkCtx (cx_doc c) n l (cx_vars c) (cx_strip c).

(** * doubles (DoubleSupport.cpp) *)
Definition d_zero := S754_zero false.
Definition d_one : dbl := S754_finite false 4503599627370496 (-52).
Definition d_nan : dbl := S754_nan.

Definition d_add (x y : dbl) : dbl := SFadd prec emax x y.
Definition d_sub (x y : dbl) : dbl := SFsub prec emax x y.
Definition d_mul (x y : dbl) : dbl := SFmul prec emax x y.
Definition d_neg (x : dbl) : dbl := SFopp x.

Definition d_is_zero (x : dbl) := match x with S754_zero _ => true | _ => false end.
Definition d_sign (x : dbl) : bool :=
  match x with S754_zero s | S754_infinity s | S754_finite s _ _ => s | S754_nan => false end.

(* DoubleSupport::divide, with its explicit treatment of a zero divisor *)
Definition d_div (x y : dbl) : dbl :=
  if d_is_nan x then x else if d_is_nan y then y
  else if negb (d_is_zero y) then SFdiv prec emax x y
  else if d_is_zero x then d_nan
  else if Bool.eqb (SFltb d_zero x) (match y with S754_zero false => true | _ => false end)
       then S754_infinity false else S754_infinity true.

(* std::fmod: exact truncating remainder, sign of the dividend *)
Definition d_fmod (x y : dbl) : dbl :=
  match x, y with
  | S754_nan, _ | _, S754_nan => d_nan
  | S754_infinity _, _ => d_nan
  | _, S754_zero _ => d_nan
  | S754_zero _, _ => x
  | _, S754_infinity _ => x
  | S754_finite sx mx ex, S754_finite _ my ey =>
      let e := Z.min ex ey in
      let X := (Zpos mx * 2 ^ (ex - e))%Z in
      let Y := (Zpos my * 2 ^ (ey - e))%Z in
      let R := (X mod Y)%Z in
      match R with
      | Z0 => S754_zero sx
      | Zpos r => binary_round prec emax sx r e
      | Zneg _ => d_nan
      end
  end.

Definition d_mod (x y : dbl) : dbl :=
  if d_is_nan x then x else if d_is_nan y then y
  else if d_is_zero y then d_nan else d_fmod x y.

Definition d_eq (x y : dbl) : bool := SFeqb x y.
Definition d_lt (x y : dbl) : bool := SFltb x y.
Definition d_le (x y : dbl) : bool := SFleb x y.

Definition d_of_nat (n : nat) : dbl := long_to_double (Z.of_nat n).

(* the integer a double denotes, when it is one in [1, bound] *)
Definition d_index (x : dbl) (bound : nat) : option nat :=
  match x with
  | S754_finite false m e =>
      if (0 <=? e)%Z then
        let v := (Zpos m * 2 ^ e)%Z in
        if (v <=? Z.of_nat bound)%Z then Some (Z.to_nat v) else None
      else if ((Zpos m) mod 2 ^ (- e) =? 0)%Z then
        let v := (Zpos m / 2 ^ (- e))%Z in
        if (1 <=? v)%Z && (v <=? Z.of_nat bound)%Z then Some (Z.to_nat v) else None
      else None
  | _ => None
  end.

(** * conversions (XObject::boolean / number / string) *)
Definition s_true : str := [116; 114; 117; 101]%N.
Definition s_false : str := [102; 97; 108; 115; 101]%N.

Definition node_string (c : ctx) (n : nat) : str := string_value (cx_strip c) (cx_doc c) n.

Definition to_string (c : ctx) (v : value) : str :=
  match v with
  | VBool b => if b then s_true else s_false
  | VNum x => number_to_string x
  | VStr s => s
  | VNodes [] => []
  | VNodes (n :: _) => node_string c n
  end.

Definition to_number (c : ctx) (v : value) : dbl :=
  match v with
  | VBool b => if b then d_one else d_zero
  | VNum x => x
  | VStr s => string_to_number s
  | VNodes _ => string_to_number (to_string c v)
  end.

Definition to_boolean (v : value) : bool :=
  match v with
  | VBool b => b
  | VNum x => negb (d_is_nan x || d_is_zero x)
  | VStr s => match s with [] => false | _ => true end
  | VNodes l => match l with [] => false | _ => true end
  end.

(** * comparisons: the decision tree of XObject::equals ... greaterThanOrEquals *)
Inductive cmpop := CEq | CNe | CLt | CLe | CGt | CGe.

Definition cmp_num (op : cmpop) (x y : dbl) : bool :=
  match op with
  | CEq => d_eq x y
  | CNe => negb (d_eq x y)
  | CLt => d_lt x y
  | CLe => d_le x y
  | CGt => d_lt y x
  | CGe => d_le y x
  end.

(* the *DOMString comparators: equality on strings, the relational ones on numbers *)
Definition cmp_str (op : cmpop) (a b : str) : bool :=
  match op with
  | CEq => str_eqb a b
  | CNe => negb (str_eqb a b)
  | _ => cmp_num op (string_to_number a) (string_to_number b)
  end.

Definition swap_op (op : cmpop) : cmpop :=
  match op with CLt => CGt | CLe => CGe | CGt => CLt | CGe => CLe | o => o end.

(* compareNodeSets: lhs is a node-set *)
Definition cmp_nodeset (c : ctx) (op : cmpop) (l : list nat) (rhs : value) : bool :=
  match rhs with
  | VNodes r =>
      existsb (fun a => let sa := node_string c a in
                        existsb (fun b => cmp_str op sa (node_string c b)) r) l
  | VBool _ =>
      cmp_num op (if to_boolean (VNodes l) then d_one else d_zero) (to_number c rhs)
  | VNum y => existsb (fun a => cmp_num op (string_to_number (node_string c a)) y) l
  | VStr s =>
      match op with
      | CEq | CNe => existsb (fun a => cmp_str op (node_string c a) s) l
      | _ => existsb (fun a => cmp_num op (string_to_number (node_string c a)) (string_to_number s)) l
      end
  end.

Definition is_nodes (v : value) := match v with VNodes _ => true | _ => false end.
Definition is_bool (v : value) := match v with VBool _ => true | _ => false end.
Definition is_num (v : value) := match v with VNum _ => true | _ => false end.

Definition compare (c : ctx) (op : cmpop) (a b : value) : bool :=
  match a, b with
  | VNodes l, _ => cmp_nodeset c op l b
  | _, VNodes r => cmp_nodeset c (swap_op op) r a
  | _, _ =>
      match op with
      | CEq | CNe =>
          if is_bool a || is_bool b then
            let r := Bool.eqb (to_boolean a) (to_boolean b) in
            match op with CEq => r | _ => negb r end
          else if is_num a || is_num b then cmp_num op (to_number c a) (to_number c b)
          else cmp_str op (to_string c a) (to_string c b)
      | _ => cmp_num op (to_number c a) (to_number c b)
      end
  end.

(** * document order merge (MutableNodeRefList::addNodesInDocOrder seen abstractly; C12 proves the
      list implementation equal to this) *)
Fixpoint insert_sorted (n : nat) (l : list nat) : list nat :=
  match l with
  | [] => [n]
  | a :: r => if Nat.ltb n a then n :: l else if Nat.eqb n a then l else a :: insert_sorted n r
  end.

Definition merge_doc_order (acc l : list nat) : list nat := fold_left (fun a n => insert_sorted n a) l acc.

(** * node tests (XPath::NodeTester) *)
Definition test_node (c : ctx) (ax : axis) (t : ntest) (n : nat) : bool :=
  let nd := get (cx_doc c) n in
  let k := n_kind nd in
  match t with
  | TComment => nkind_eqb k KComment
  | TText => nkind_eqb k KText && negb (cx_strip c (cx_doc c) n)
  | TPi None => nkind_eqb k KPi
  | TPi (Some tg) => nkind_eqb k KPi && str_eqb (n_qname nd) tg
  | TNode =>
      match ax with
      | AxAttribute => nkind_eqb k KAttr        (* testAttributeTotallyWild: no namespace declarations *)
      | _ => negb (nkind_eqb k KText) || negb (cx_strip c (cx_doc c) n)
      end
  | TRoot => nkind_eqb k KDoc
  | TName ns local =>
      let local_or_name := match n_local nd with [] => n_qname nd | l => l end in
      match ax with
      | AxAttribute =>
          nkind_eqb k KAttr &&
          match ns, local with
          | NsEmpty, None => true                                        (* totally wild *)
          | NsEmpty, Some l => (match n_uri nd with [] => true | _ => false end) && str_eqb local_or_name l
          | NsUri u, None => str_eqb (n_uri nd) u
          | NsUri u, Some l => str_eqb local_or_name l && str_eqb (n_uri nd) u
          | NsAny, None => str_eqb (n_uri nd) []      (* unreachable from the compiler *)
          | NsAny, Some l => str_eqb local_or_name l
          end
      | AxNamespace =>
          nkind_eqb k KNsDecl &&
          match ns, local with
          | NsEmpty, None => true
          | _, Some l => str_eqb (n_local nd) l
          | _, None => true
          end
      | _ =>
          nkind_eqb k KElem &&
          match ns, local with
          | NsEmpty, None => true
          | NsEmpty, Some l => (match n_uri nd with [] => true | _ => false end) && str_eqb local_or_name l
          | NsUri u, None => str_eqb (n_uri nd) u
          | NsUri u, Some l => str_eqb local_or_name l && str_eqb (n_uri nd) u
          | NsAny, None => str_eqb (n_uri nd) []
          | NsAny, Some l => str_eqb local_or_name l
          end
      end
  end.

(** * axis walks, as coded (fuel = number of nodes + 1 bounds every walk) *)
Section Axes.
  Variable d : doc.
  Let fuel0 := S (length d).

  Fixpoint ancestors_from (fuel : nat) (n : option nat) : list nat :=   (* n, parent(n), ... *)
    match fuel, n with
    | S f, Some i => i :: ancestors_from f (parent_of d i)
    | _, _ => []
    end.

  (* findDescendants: pre-order walk below [top] using first child / next sibling / parent *)
  Fixpoint next_preorder_up (fuel : nat) (top : nat) (pos : nat) : option nat :=
    (* no first child: next sibling, else climb; stop at top *)
    match fuel with
    | O => None
    | S f =>
        if Nat.eqb pos top then None else
        match next_sibling d pos with
        | Some s => Some s
        | None =>
            match parent_of d pos with
            | Some p => if Nat.eqb p top then None else next_preorder_up f top p
            | None => None
            end
        end
    end.

  Fixpoint descend (fuel : nat) (top : nat) (pos : nat) : list nat :=   (* pos and what follows inside top *)
    match fuel with
    | O => []
    | S f =>
        pos ::
        match first_child d pos with
        | Some ch => descend f top ch
        | None =>
            match next_preorder_up fuel0 top pos with
            | Some nx => descend f top nx
            | None => []
            end
        end
    end.

  Definition descendants_or_self (n : nat) : list nat := descend fuel0 n n.

  Fixpoint siblings_after (fuel : nat) (n : option nat) : list nat :=
    match fuel, n with
    | S f, Some i => i :: siblings_after f (next_sibling d i)
    | _, _ => []
    end.
  Fixpoint siblings_before (fuel : nat) (n : option nat) : list nat :=   (* nearest first *)
    match fuel, n with
    | S f, Some i => i :: siblings_before f (prev_sibling d i)
    | _, _ => []
    end.

  (* findFollowing: after the context (for an attribute: from the parent's first child), each
     following subtree in document order *)
  Fixpoint following_up (fuel : nat) (pos : nat) : option nat :=
    match fuel with
    | O => None
    | S f =>
        let nx := if is_attr_kind (n_kind (get d pos))
                  then match parent_of d pos with Some p => first_child d p | None => None end
                  else next_sibling d pos in
        match nx with
        | Some s => Some s
        | None =>
            match parent_of d pos with
            | Some p => if nkind_eqb (n_kind (get d p)) KDoc then None else following_up f p
            | None => None
            end
        end
    end.

  Fixpoint following_walk (fuel : nat) (pos : option nat) : list nat :=
    match fuel, pos with
    | S f, Some p =>
        p :: following_walk f (match first_child d p with
                               | Some ch => Some ch
                               | None => following_up fuel0 p
                               end)
    | _, _ => []
    end.

  Definition following (n : nat) : list nat := following_walk fuel0 (following_up fuel0 n).

  (* findPreceeding: document-order walk from the top node to the context, skipping ancestors;
     the result is then reversed *)
  Definition preceding (n : nat) : list nat :=
    let anc := ancestors_from fuel0 (parent_of d n) in
    let stop := if is_attr_kind (n_kind (get d n))
                then match parent_of d n with Some p => Some p | None => None end else None in
    (* nodes visited before reaching the context, in document order *)
    let walk :=
      (fix go (fuel : nat) (pos : option nat) : list nat :=
         match fuel, pos with
         | S f, Some p =>
             if Nat.eqb p n then [] else
             p :: (if match stop with Some sp => Nat.eqb p sp | None => false end then []
                   else go f (match first_child d p with
                              | Some ch => Some ch
                              | None => next_preorder_up fuel0 0 p
                              end))
         | _, _ => []
         end) fuel0 (Some 0) in
    rev (filter (fun p => negb (existsb (Nat.eqb p) anc)) walk).

  (* findNamespace: from the element up to (not including) the document, attributes last to
     first, namespace declarations only, first declaration of a name wins, xmlns="" and later
     default declarations dropped; the list is reversed at the end *)
  Definition namespaces (c : ctx) (t : ntest) (n : nat) : list nat :=
    if negb (nkind_eqb (n_kind (get d n)) KElem) then [] else
    let elems := filter (fun a => negb (nkind_eqb (n_kind (get d a)) KDoc)) (ancestors_from fuel0 (Some n)) in
    let step (acc : list nat * bool) (a : nat) : list nat * bool :=
      let (found, defaultSeen) := acc in
      let nd := get d a in
      if nkind_eqb (n_kind nd) KNsDecl && test_node c AxNamespace t a then
        let is_default := str_eqb (n_qname nd) s_xmlns in
        let dup := (if is_default then defaultSeen || (match n_value nd with [] => true | _ => false end) else false)
                   || existsb (fun b => str_eqb (n_qname (get d b)) (n_qname nd)) found in
        (if dup then found else found ++ [a], defaultSeen || is_default)
      else acc in
    let (found, _) := fold_left (fun acc e => fold_left step (rev (n_attrs (get d e))) acc) elems ([], false) in
    rev found.
End Axes.

(* nodes on an axis from n, in the order the implementation stores them (reverse axes nearest
   first), node test applied; [true] when the list is in reverse document order *)
Definition axis_nodes (c : ctx) (ax : axis) (t : ntest) (n : nat) : res (list nat * bool) :=
  let d := cx_doc c in
  let f := filter (test_node c ax t) in
  let fuel0 := S (length d) in
  match ax with
  | AxRoot => Ok ([0], false)
  | AxParent => Ok (f (match parent_of d n with Some p => [p] | None => [] end), false)
  | AxSelf => Ok (f [n], false)
  | AxAncestor => Ok (f (ancestors_from d fuel0 (parent_of d n)), true)
  | AxAncestorOrSelf => Ok (f (ancestors_from d fuel0 (Some n)), true)
  | AxAttribute =>
      Ok (if nkind_eqb (n_kind (get d n)) KElem then f (n_attrs (get d n)) else [], false)
  | AxChild => Ok (f (siblings_after d fuel0 (first_child d n)), false)
  | AxDescendant => Ok (f (tl (descendants_or_self d n)), false)
  | AxDescendantOrSelf => Ok (f (descendants_or_self d n), false)
  | AxFollowing => Ok (f (following d n), false)
  | AxFollowingSibling => Ok (f (siblings_after d fuel0 (next_sibling d n)), false)
  | AxPreceding => Ok (f (preceding d n), true)
  | AxPrecedingSibling => Ok (f (siblings_before d fuel0 (prev_sibling d n)), true)
  | AxNamespace => Ok (namespaces d c t n, false)
  end.

(** * string functions on UTF-16 code units *)
Fixpoint index_of_sub (s p : str) : option nat :=     (* first index where p occurs in s *)
  if starts_with s p then Some 0 else
  match s with
  | [] => None
  | _ :: r => match index_of_sub r p with Some i => Some (S i) | None => None end
  end.

Fixpoint index_of_char (s : str) (ch : N) : option nat :=
  match s with
  | [] => None
  | x :: r => if N.eqb x ch then Some 0 else match index_of_char r ch with Some i => Some (S i) | None => None end
  end.

Definition f_translate (s from to : str) : str :=
  flat_map (fun ch =>
    match index_of_char from ch with
    | None => [ch]
    | Some i => match nth_error to i with Some r => [r] | None => [] end
    end) s.

(* FunctionNormalizeSpace::normalize: state machine eSpace / eNonSpace / eSpaceAppended *)
Fixpoint normalize_go (s : str) (after_nonspace : bool) : str :=
  match s with
  | [] => []
  | ch :: r =>
      if is_ws_char ch then (if after_nonspace then 32%N :: normalize_go r false else normalize_go r false)
      else ch :: normalize_go r true
  end.
Definition f_normalize_space (s : str) : str :=
  let r := normalize_go s false in
  match rev r with
  | ch :: t => if N.eqb ch 32 then rev t else r
  | [] => []
  end.

(* substring(): getStartIndex / getSubstringLength on the rounded arguments *)
Definition d_to_nat_trunc (x : dbl) : nat :=          (* size_type(x) for finite x >= 0 *)
  match x with
  | S754_finite false m e => if (0 <=? e)%Z then Z.to_nat (Zpos m * 2 ^ e) else Z.to_nat (Zpos m / 2 ^ (- e))
  | _ => 0
  end.

Definition f_substring (s : str) (a2 : dbl) (a3 : option dbl) : str :=
  let len := length s in
  if Nat.eqb len 0 then [] else
  let second := d_round a2 in
  let start :=
    match second with
    | S754_nan | S754_infinity false => len
    | _ => if d_le second d_one then 0
           else let r := d_sub second d_one in
                if d_le (d_of_nat len) r then len else d_to_nat_trunc r
    end in
  if Nat.leb len start then [] else
  let maxlen := len - start in
  let sublen :=
    match a3 with
    | None => maxlen
    | Some third =>
        match third with
        | S754_nan | S754_infinity true => 0
        | S754_infinity false => (match second with S754_infinity true => 0 | _ => maxlen end)
        | _ =>
            let total := d_add (d_round third) second in
            if d_le total (d_of_nat (S start)) then 0
            else let sl := d_sub total (d_of_nat (S start)) in
                 if d_lt (d_of_nat maxlen) sl then maxlen else d_to_nat_trunc sl
        end
    end in
  firstn sublen (skipn start s).

Definition fn_is (name : str) (l : list N) : bool := str_eqb name l.

(* lang(): xml:lang of the nearest ancestor-or-self element carrying one *)
Definition s_xml_lang : str := [120;109;108;58;108;97;110;103]%N.
Definition to_lower (c : N) : N := if (N.leb 65 c && N.leb c 90) then (c + 32)%N else c.
Definition f_lang (c : ctx) (arg : str) : bool :=
  let d := cx_doc c in
  let chain := ancestors_from d (S (length d)) (Some (cx_node c)) in
  let find_lang :=
    fold_left (fun (acc : option str) (e : nat) =>
      match acc with
      | Some _ => acc
      | None =>
          match filter (fun a => str_eqb (n_qname (get d a)) s_xml_lang) (n_attrs (get d e)) with
          | a :: _ => Some (n_value (get d a))
          | [] => None
          end
      end) chain None in
  match find_lang with
  | None => false
  | Some v =>
      let v := map to_lower v in
      let a := map to_lower arg in
      starts_with v a && (Nat.eqb (length v) (length a) || match nth_error v (length a) with Some 45%N => true | _ => false end)
  end.

(** * the interpreter *)
Definition sum_nodes (c : ctx) (l : list nat) : dbl :=
  fold_left (fun acc n => d_add acc (string_to_number (node_string c n))) l d_zero.

Definition name_of (c : ctx) (n : nat) : str :=            (* DOMServices::getNameOfNode *)
  let nd := get (cx_doc c) n in
  match n_kind nd with
  | KElem | KAttr | KPi => n_qname nd
  | KNsDecl => if str_eqb (n_qname nd) s_xmlns then [] else n_local nd
  | _ => []
  end.

Definition local_name_of (c : ctx) (n : nat) : str :=      (* XPath::functionLocalName *)
  let nd := get (cx_doc c) n in
  let ln := match n_local nd with [] => n_qname nd | l => l end in
  match n_kind nd with
  | KElem | KPi => ln
  | KAttr | KNsDecl => if str_eqb ln s_xmlns then [] else ln
  | _ => []
  end.

Definition ns_uri_of (c : ctx) (n : nat) : str :=          (* FunctionNamespaceURI *)
  let nd := get (cx_doc c) n in
  match n_kind nd with
  | KElem | KAttr => n_uri nd
  | _ => []
  end.

Fixpoint lookup_var (vars : list (str * str * value)) (ns local : str) : option value :=
  match vars with
  | [] => None
  | (u, l, v) :: r => if str_eqb u ns && str_eqb l local then Some v else lookup_var r ns local
  end.

Definition as_nodes (v : value) : res (list nat) :=
  match v with VNodes l => Ok l | _ => Err EType end.

Definition position_of (c : ctx) : nat :=                  (* indexOf + 1, 0 when absent *)
  (fix go (l : list nat) (i : nat) : nat :=
     match l with [] => 0 | a :: r => if Nat.eqb a (cx_node c) then S i else go r (S i) end) (cx_list c) 0.

(* predicates and steps, parameterised by the evaluator used for predicate expressions
   (the interpreter passes itself at smaller fuel) *)
Section Steps.
  Variable ev : ctx -> expr -> res value.

  (* which nodes of [l] survive one general predicate (XPath::predicates): [go rest i] looks at the
     nodes from position i+1 on; a number result is a position test, anything else is converted
     to boolean *)
  Fixpoint pred_filter (c : ctx) (l : list nat) (pe : expr) (rest : list nat) (i : nat) : res (list nat) :=
    match rest with
    | [] => Ok []
    | n :: r =>
        do v <- ev (with_node c n l) pe;
        let keep :=
          negb (match v with VNum x => negb (d_eq (d_of_nat (S i)) x) | _ => false end)
          && to_boolean v in
        do r' <- pred_filter c l pe r (S i);
        Ok (if keep then n :: r' else r')
    end.

  (* one predicate applied to the list [l]; a number literal is answered by indexing *)
  Definition apply_pred (c : ctx) (l : list nat) (p : bool * expr) : res (list nat) :=
    match l with
    | [] => Ok []
    | _ =>
      match snd p with
      | ENumLit t =>
          match d_index (string_to_number t) (length l) with
          | Some k => Ok (match nth_error l (k - 1) with Some n => [n] | None => [] end)
          | None => Ok []
          end
      | pe => pred_filter c l pe l 0
      end
    end.

  Definition apply_preds (c : ctx) (l : list nat) (ps : list (bool * expr)) : res (list nat) :=
    fold_left (fun acc p => do l' <- acc; apply_pred c l' p) ps (Ok l).

  (* XPath::step for the remaining steps from each node of [sub] (already filtered) *)
  Fixpoint steps_from (c : ctx) (sfuel : nat) (sub : list nat) (reverse : bool) (rest : list step) {struct sfuel} : res (list nat) :=
    match sfuel with
    | O => Err EFuel
    | S sf =>
      match rest with
      | [] => Ok (if reverse then rev sub else sub)
      | (ax, t, ps) :: rest' =>
          fold_left (fun acc n =>
            do q <- acc;
            do an <- axis_nodes c ax t n;
            let (l0, rv) := an in
            do l1 <- apply_preds c l0 ps;
            do r <- steps_from c sf l1 rv rest';
            Ok (merge_doc_order q r)) sub (Ok [])
      end
    end.
End Steps.

(* the core function library (FunctionXXX::execute), parameterised by the evaluator of argument
   expressions *)
Section Funcs.
  Variable ev : ctx -> expr -> res value.

  Definition ev_num (c : ctx) (x : expr) : res dbl :=        (* getNumericOperand / executeMore(double&) *)
    match x with
    | ENumLit t => Ok (string_to_number t)
    | _ => do v <- ev c x; Ok (to_number c v)
    end.
  Definition ev_bool (c : ctx) (x : expr) : res bool := do v <- ev c x; Ok (to_boolean v).

  Definition call_function (c : ctx) (name : str) (args : list expr) : res value :=
      let str_arg (x : expr) : res str := do v <- ev c x; Ok (to_string c v) in
      let nodes_arg (x : expr) : res (list nat) := do v <- ev c x; as_nodes v in
      let ctx_or_first (k : ctx -> nat -> str) : res value :=
        match args with
        | [] => Ok (VStr (k c (cx_node c)))
        | [a] => do l <- nodes_arg a; Ok (VStr (match l with [] => [] | n :: _ => k c n end))
        | _ => Err EArgs
        end in
      if fn_is name [112;111;115;105;116;105;111;110]%N then                     (* position *)
        match args with [] => Ok (VNum (d_of_nat (position_of c))) | _ => Err EArgs end
      else if fn_is name [108;97;115;116]%N then                                 (* last *)
        match args with [] => Ok (VNum (d_of_nat (length (cx_list c)))) | _ => Err EArgs end
      else if fn_is name [99;111;117;110;116]%N then                             (* count *)
        match args with [a] => do l <- nodes_arg a; Ok (VNum (d_of_nat (length l))) | _ => Err EArgs end
      else if fn_is name [110;111;116]%N then                                    (* not *)
        match args with [a] => do b <- ev_bool c a; Ok (VBool (negb b)) | _ => Err EArgs end
      else if fn_is name [116;114;117;101]%N then
        match args with [] => Ok (VBool true) | _ => Err EArgs end
      else if fn_is name [102;97;108;115;101]%N then
        match args with [] => Ok (VBool false) | _ => Err EArgs end
      else if fn_is name [98;111;111;108;101;97;110]%N then                      (* boolean *)
        match args with [a] => do b <- ev_bool c a; Ok (VBool b) | _ => Err EArgs end
      else if fn_is name [110;97;109;101]%N then ctx_or_first name_of          (* name *)
      else if fn_is name [108;111;99;97;108;45;110;97;109;101]%N then ctx_or_first local_name_of
      else if fn_is name [110;97;109;101;115;112;97;99;101;45;117;114;105]%N then ctx_or_first ns_uri_of
      else if fn_is name [110;117;109;98;101;114]%N then                         (* number *)
        match args with
        | [] => Ok (VNum (string_to_number (node_string c (cx_node c))))
        | [a] => do x <- ev_num c a; Ok (VNum x)
        | _ => Err EArgs
        end
      else if fn_is name [102;108;111;111;114]%N then
        match args with [a] => do x <- ev_num c a; Ok (VNum (d_floor x)) | _ => Err EArgs end
      else if fn_is name [99;101;105;108;105;110;103]%N then
        match args with [a] => do x <- ev_num c a; Ok (VNum (d_ceiling x)) | _ => Err EArgs end
      else if fn_is name [114;111;117;110;100]%N then
        match args with [a] => do x <- ev_num c a; Ok (VNum (d_round x)) | _ => Err EArgs end
      else if fn_is name [115;116;114;105;110;103]%N then                        (* string *)
        match args with
        | [] => Ok (VStr (node_string c (cx_node c)))
        | [a] => do s <- str_arg a; Ok (VStr s)
        | _ => Err EArgs
        end
      else if fn_is name [115;117;109]%N then                                    (* sum *)
        match args with [a] => do l <- nodes_arg a; Ok (VNum (sum_nodes c l)) | _ => Err EArgs end
      else if fn_is name [115;116;114;105;110;103;45;108;101;110;103;116;104]%N then   (* string-length *)
        match args with
        | [] => Ok (VNum (d_of_nat (length (node_string c (cx_node c)))))
        | [a] => do s <- str_arg a; Ok (VNum (d_of_nat (length s)))
        | _ => Err EArgs
        end
      else if fn_is name [99;111;110;99;97;116]%N then                           (* concat *)
        match args with
        | _ :: _ :: _ =>
            do ss <- fold_left (fun acc x => do q <- acc; do s <- str_arg x; Ok (q ++ s)) args (Ok []);
            Ok (VStr ss)
        | _ => Err EArgs
        end
      else if fn_is name [99;111;110;116;97;105;110;115]%N then                  (* contains *)
        match args with
        | [a; b] => do s <- str_arg a; do p <- str_arg b;
                    Ok (VBool (match index_of_sub s p with Some _ => true | None => false end))
        | _ => Err EArgs
        end
      else if fn_is name [115;116;97;114;116;115;45;119;105;116;104]%N then      (* starts-with *)
        match args with
        | [a; b] => do s <- str_arg a; do p <- str_arg b; Ok (VBool (starts_with s p))
        | _ => Err EArgs
        end
      else if fn_is name [115;117;98;115;116;114;105;110;103;45;98;101;102;111;114;101]%N then   (* substring-before *)
        match args with
        | [a; b] => do s <- str_arg a; do p <- str_arg b;
                    Ok (VStr (match s, p with
                              | [], _ | _, [] => []
                              | _, _ => match index_of_sub s p with Some i => firstn i s | None => [] end
                              end))
        | _ => Err EArgs
        end
      else if fn_is name [115;117;98;115;116;114;105;110;103;45;97;102;116;101;114]%N then       (* substring-after *)
        match args with
        | [a; b] => do s <- str_arg a; do p <- str_arg b;
                    Ok (VStr (match s, p with
                              | [], _ => []
                              | _, [] => s
                              | _, _ => match index_of_sub s p with Some i => skipn (i + length p) s | None => [] end
                              end))
        | _ => Err EArgs
        end
      else if fn_is name [115;117;98;115;116;114;105;110;103]%N then             (* substring *)
        match args with
        | [a; b] => do s <- str_arg a; do v2 <- ev c b; Ok (VStr (f_substring s (to_number c v2) None))
        | [a; b; d3] => do s <- str_arg a; do v2 <- ev c b; do v3 <- ev c d3;
                        Ok (VStr (f_substring s (to_number c v2) (Some (to_number c v3))))
        | _ => Err EArgs
        end
      else if fn_is name [116;114;97;110;115;108;97;116;101]%N then              (* translate *)
        match args with
        | [a; b; d3] => do s <- str_arg a; do x <- str_arg b; do y <- str_arg d3; Ok (VStr (f_translate s x y))
        | _ => Err EArgs
        end
      else if fn_is name [110;111;114;109;97;108;105;122;101;45;115;112;97;99;101]%N then       (* normalize-space *)
        match args with
        | [] => Ok (VStr (f_normalize_space (node_string c (cx_node c))))
        | [a] => do s <- str_arg a; Ok (VStr (f_normalize_space s))
        | _ => Err EArgs
        end
      else if fn_is name [108;97;110;103]%N then                                 (* lang *)
        match args with [a] => do s <- str_arg a; Ok (VBool (f_lang c s)) | _ => Err EArgs end
      else Err EUnknownFunction.
End Funcs.

Section Eval.
  Fixpoint eval (fuel : nat) (c : ctx) (e : expr) {struct fuel} : res value :=
    match fuel with
    | O => Err EFuel
    | S f =>
      let num := ev_num (eval f) c in
      let boolean := ev_bool (eval f) c in
      let arith (op : dbl -> dbl -> dbl) (a b : expr) : res value :=
        do x <- num a; do y <- num b; Ok (VNum (op x y)) in
      let cmp (op : cmpop) (a b : expr) : res value :=
        do x <- eval f c a; do y <- eval f c b; Ok (VBool (compare c op x y)) in
      let apply_preds := apply_preds (eval f) c in
      let steps_from := steps_from (eval f) c in
      match e with
      | EOr a b => do x <- boolean a; if x then Ok (VBool true) else do y <- boolean b; Ok (VBool y)
      | EAnd a b => do x <- boolean a; if x then do y <- boolean b; Ok (VBool y) else Ok (VBool false)
      | ENe a b => cmp CNe a b | EEq a b => cmp CEq a b
      | ELte a b => cmp CLe a b | ELt a b => cmp CLt a b
      | EGte a b => cmp CGe a b | EGt a b => cmp CGt a b
      | EPlus a b => arith d_add a b | EMinus a b => arith d_sub a b
      | EMult a b => arith d_mul a b | EDiv a b => arith d_div a b | EMod a b => arith d_mod a b
      | ENeg a => do x <- num a; Ok (VNum (if d_is_nan x then d_nan else d_neg x))
      | EUnion l =>
          do r <- fold_left (fun acc x => do q <- acc; do v <- eval f c x; do ns <- as_nodes v; Ok (merge_doc_order q ns)) l (Ok []);
          Ok (VNodes r)
      | ELiteral s => Ok (VStr s)
      | EVar ns local =>
          match lookup_var (cx_vars c) ns local with Some v => Ok v | None => Err EUnknownVariable end
      | EGroup x => eval f c x
      | ENumLit t => Ok (VNum (string_to_number t))
      | EExtFunc _ _ _ => Err EUnknownFunction
      | EPath None _ steps =>
          do r <- steps_from (S (length steps)) [cx_node c] false steps; Ok (VNodes r)
      | EPath (Some h) hps steps =>
          match h with
          | EVar _ _ | EFunc _ _ | EExtFunc _ _ _ | EGroup _ =>
              do v <- eval f c h;
              do ns <- as_nodes v;
              do l1 <- apply_preds (merge_doc_order [] ns) hps;
              do r <- steps_from (S (length steps)) l1 false steps;
              Ok (VNodes r)
          | _ => Err EUnknownAxis
          end
      | EFunc name args => call_function (eval f) c name args
      end
    end.
End Eval.

(* fuel that always suffices: every recursive call of [eval] is on a strict sub-expression *)
Definition eval_top (c : ctx) (e : expr) : res value := eval (S (expr_size e)) c e.
