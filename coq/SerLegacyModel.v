(* SerLegacyModel.v — C04, part "legacy": what the legacy serializer (SerLegacyDefs.v) writes for a text
   node / an attribute value is read back by the model XML reader (XmlParseDefs.v) as the original
   string.  Lemmas only.  The generated tables are consumed through finite sweeps (vm_compute over
   the 256 table entries x the 130 values of m_maxCharacter between 127 and 256 x both versions x
   both variants), lifted with forallb_forall: a changed table entry or flag re-checks, and breaks
   the proof when the new code is wrong. *)
From Coq Require Import NArith List Bool Lia ZifyBool ZifyNat ZifyN.
Require Import XV.GenSerLegacy XV.SerDefs XV.XmlParseDefs XV.SerEscModel XV.SerLegacyDefs.
Import ListNotations.
Local Open Scope N_scope.

(* m_maxCharacter: at least ASCII (every value of getMaximumCharacterValue), and not inside the
   surrogate range *)
Definition lg_max_ok (maxc : N) : bool := (127 <=? maxc) && ((maxc <? 55296) || (65535 <=? maxc)).

Lemma max_values_ok : forallb lg_max_ok lg_max_character_values = true.
Proof. vm_compute. reflexivity. Qed.

Lemma lg_high_x : forall c, lg_high c = x_high c.
Proof. intros c. unfold lg_high, x_high, x_in. lia. Qed.
Lemma lg_low_x : forall c, lg_low c = x_low c.
Proof. intros c. unfold lg_low, x_low, x_in. lia. Qed.
Lemma lg_sur_x : forall c, lg_sur c = x_high c || x_low c.
Proof. intros c. unfold lg_sur, x_high, x_low, x_in. lia. Qed.

Lemma lg_decode_pair : forall hi lo, x_high hi = true -> x_low lo = true -> lg_decode hi lo = decode_pair hi lo.
Proof.
  intros hi lo Hh Hl. destruct (decode_pair_spec hi lo Hh Hl) as [E _]. rewrite E.
  unfold lg_decode. unfold x_high, x_low, x_in in *. lia.
Qed.

(* ---- one non-surrogate character -------------------------------------------------------------- *)
Definition lg_step (g : lcfg) (attr : bool) (c : N) : res (list N) :=
  if lg_special g attr c then fst (lg_default_escape g attr c []) else Ok (lg_put g c).

Lemma escape_no_high : forall g attr c r, lg_high c = false ->
  lg_default_escape g attr c r = (fst (lg_default_escape g attr c []), false).
Proof.
  intros g attr c r H. unfold lg_default_escape. rewrite H.
  destruct (lg_default_entity attr c); [reflexivity|].
  destruct (lc_surfix g && lg_low c); [reflexivity|].
  destruct ((lc_max g <? c) || (lc_v11 g && (c =? lg_lsep))); [reflexivity|].
  destruct ((c <? lg_specials_size) && lg_attr_map c); [|reflexivity].
  destruct ((c <? lg_control_below) && negb (lc_v11 g) && negb (lmem c lg_control_allowed_1_0)); reflexivity.
Qed.

Lemma lg_loop_cons : forall g attr c r, lg_high c = false ->
  lg_loop g attr (c :: r) =
  match lg_step g attr c with Ok e => lg_lift e (lg_loop g attr r) | Oob => Oob | Thrown k => Thrown k end.
Proof.
  intros g attr c r H. cbn [lg_loop]. unfold lg_step. destruct (lg_special g attr c); [|reflexivity].
  rewrite (escape_no_high g attr c r H). destruct (fst (lg_default_escape g attr c [])); reflexivity.
Qed.

Definition lit_of (attr : bool) : bool -> N -> bool := if attr then lit_attr else lit_content.

Definition chk_step (attr v11 sf : bool) (maxc c : N) : bool :=
  if xml_char v11 c && negb (x_high c) && negb (x_low c) then
    match lg_step (mklcfg maxc v11 false sf) attr c with
    | Ok e => shape (lit_of attr) v11 c e
    | _ => false
    end
  else true.

Definition chk_row (attr v11 sf : bool) (maxc : N) : bool := forallb (chk_step attr v11 sf maxc) (upto 255).

Definition maxes : list N := map (fun k => 127 + k) (upto 129).   (* 127 .. 256 *)

Lemma sweep_steps : forall attr v11 sf, forallb (chk_row attr v11 sf) maxes = true.
Proof. intros [|] [|] [|]; vm_compute; reflexivity. Qed.

Lemma maxes_in : forall m, 127 <= m -> m <= 256 -> In m maxes.
Proof.
  intros m H1 H2. unfold maxes. apply in_map_iff. exists (m - 127). split; [lia|]. apply upto_in. lia.
Qed.

(* the flag lc_cdfix does not occur in the text / attribute path *)
Lemma lg_step_cdfix : forall maxc v11 cf sf attr c,
  lg_step (mklcfg maxc v11 cf sf) attr c = lg_step (mklcfg maxc v11 false sf) attr c.
Proof. reflexivity. Qed.

(* below SPECIALSSIZE every m_maxCharacter >= 256 behaves like 256 *)
Lemma lg_step_bigmax : forall maxc v11 sf attr c, c < 256 -> 256 <= maxc ->
  lg_step (mklcfg maxc v11 false sf) attr c = lg_step (mklcfg 256 v11 false sf) attr c.
Proof.
  intros maxc v11 sf attr c Hc Hm.
  assert (E1 : (maxc <? c) = false) by lia. assert (E2 : (256 <? c) = false) by lia.
  assert (E3 : (maxc <=? c) = false) by lia. assert (E4 : (256 <=? c) = false) by lia.
  unfold lg_step, lg_special, lg_default_escape, lg_put, lg_chars_map. cbn [lc_max lc_v11 lc_surfix lc_cdfix].
  rewrite E1, E2, E3, E4. reflexivity.
Qed.

Lemma assoc_none : forall c l, forallb (fun kv => fst kv <? 256) l = true -> 256 <= c -> lg_assoc c l = None.
Proof.
  induction l as [|[k v] l IH]; intros H Hc; [reflexivity|]. cbn [forallb fst] in H.
  apply andb_true_iff in H. destruct H as [H1 H2]. cbn [lg_assoc].
  destruct (k =? c) eqn:E; [lia|]. apply IH; assumption.
Qed.

Lemma step_shape : forall g attr c, lg_max_ok (lc_max g) = true ->
  xml_char (lc_v11 g) c = true -> x_high c = false -> x_low c = false -> c < 65536 ->
  exists e, lg_step g attr c = Ok e /\ shape (lit_of attr) (lc_v11 g) c e = true.
Proof.
  intros [maxc v11 cf sf] attr c Hm Hx Hh Hl Hs. cbn [lc_max lc_v11] in *. rewrite lg_step_cdfix.
  unfold lg_max_ok in Hm.
  destruct (c <? 256) eqn:Ec.
  - (* a table entry: by the sweep *)
    assert (G : forall m, 127 <= m -> m <= 256 ->
                exists e, lg_step (mklcfg m v11 false sf) attr c = Ok e /\ shape (lit_of attr) v11 c e = true).
    { intros m H1 H2. pose proof (sweep_steps attr v11 sf) as S. rewrite forallb_forall in S.
      specialize (S m (maxes_in m H1 H2)). unfold chk_row in S.
      pose proof (sweep _ _ S c ltac:(lia)) as T. unfold chk_step in T. rewrite Hx, Hh, Hl in T. cbn [negb andb] in T.
      destruct (lg_step (mklcfg m v11 false sf) attr c) as [e| |k]; try discriminate. exists e. split; [reflexivity|exact T]. }
    destruct (maxc <=? 256) eqn:E256.
    + apply G; lia.
    + rewrite lg_step_bigmax by lia. apply G; lia.
  - (* above the tables *)
    assert (Ea : lg_default_entity attr c = None).
    { unfold lg_default_entity. destruct (c =? 10) eqn:E10; [lia|]. rewrite andb_false_r.
      apply assoc_none; [reflexivity|lia]. }
    assert (Hnl : (c =? 10) = false) by lia.
    unfold lg_step, lg_special, lg_default_escape. cbn [lc_max lc_v11 lc_surfix lc_cdfix].
    rewrite Ea, lg_high_x, Hh, lg_low_x, Hl, lg_sur_x, Hh, Hl.
    change lg_specials_size with 256. rewrite Ec. cbn [andb orb]. rewrite !andb_false_r. cbn [orb].
    change lg_lsep with 8232.
    assert (Href : shape (lit_of attr) v11 c (charref c) = true).
    { unfold shape. rewrite Hx.
      assert (L : leqb (charref c) (charref c) = true).
      { clear. induction (charref c) as [|x l IH]; [reflexivity|]. cbn [leqb]. rewrite N.eqb_refl, IH. reflexivity. }
      rewrite L. assert (H : (c <? 65536) = true) by lia. rewrite H. cbn. rewrite !orb_true_r. reflexivity. }
    destruct (maxc <? c) eqn:E1; cbn [orb fst].
    { eexists. split; [reflexivity|exact Href]. }
    destruct (v11 && (c =? 8232)) eqn:E2; cbn [orb fst].
    { eexists. split; [reflexivity|exact Href]. }
    unfold lg_put. cbn [lc_max]. rewrite E1.
    eexists. split; [reflexivity|]. unfold shape. cbn [leqb]. rewrite N.eqb_refl. cbn [andb].
    assert (Lc : lit_content v11 c = true).
    { unfold lit_content, okunit, literal_ok, restricted_char, x_in. rewrite Hx, Hh, Hl.
      unfold xml_char, x_in in Hx. destruct v11; lia. }
    assert (La : lit_of attr v11 c = true).
    { destruct attr; cbn [lit_of]; [|exact Lc]. unfold lit_attr. rewrite Lc. lia. }
    rewrite La. reflexivity.
Qed.

