"""C04 — XML output is well-formed and parses back to exactly the result tree.

proof          coq/Properties_C04.v over the Ser model (SerUtfDefs / SerEscDefs / XmlParseDefs), tables and
               writer guards regenerated from /repo by translator/gen_ser.py (coq/GenSer.v)
correspondence extracted model (.build/ser_model) vs the rebuilt library (.build/ser_plain =
               harness/ser.cpp: XalanXMLSerializerFactory::create product) on the same SAX event
               scripts, byte-exact
oracle         the library's bytes re-parsed by Xerces SAX2 inside harness/ser.cpp and compared, in
               Python, node by node with the script (no model involved); representability decided from
               the XML recommendations; legacy FormatterToXML compared after parsing
"""
import os, re
from vlib import core

LEVEL = "proof"
FAMILY = "ser"
ENCODINGS = ["UTF-8", "UTF-16", "ISO-8859-1", "US-ASCII", "UTF-32", "UTF8"]
# "UTF-32" and the alias "UTF8" are not recognised by name by XalanXMLSerializerFactory: they go through the
# transcoder-backed XalanOtherEncodingWriter with Xerces' built-in UCS-4 / UTF-8 transcoders, the only modelled
# configurations in which a surrogate pair reaches XalanOtherEncodingWriter::write(XalanUnicodeChar)
VERSIONS = ["1.0", "1.1"]


# ---------------------------------------------------------------------------------------------
# strings as lists of UTF-16 code units

def u16(s):
    out = []
    for ch in s:
        o = ord(ch)
        if o >= 0x10000:
            o -= 0x10000
            out += [0xD800 + (o >> 10), 0xDC00 + (o & 0x3FF)]
        else:
            out.append(o)
    return out


def tok(units):
    return "u:" + ",".join("%x" % u for u in units)


def untok(t):
    b = t[2:]
    return [int(h, 16) for h in b.split(",")] if b else []


def is_high(u):
    return 0xD800 <= u <= 0xDBFF


def is_low(u):
    return 0xDC00 <= u <= 0xDFFF


def code_points(units):
    """list of code points, or None when a surrogate is unpaired"""
    out, i = [], 0
    while i < len(units):
        u = units[i]
        if is_high(u):
            if i + 1 < len(units) and is_low(units[i + 1]):
                out.append(0x10000 + ((u - 0xD800) << 10) + (units[i + 1] - 0xDC00))
                i += 2
                continue
            return None
        if is_low(u):
            return None
        out.append(u)
        i += 1
    return out


# ---------------------------------------------------------------------------------------------
# what XML allows (XML 1.0 5th ed. / XML 1.1, section 2.2) — the oracle's own definitions

def xml_char(v11, cp):
    if v11:
        return 1 <= cp <= 0xD7FF or 0xE000 <= cp <= 0xFFFD or 0x10000 <= cp <= 0x10FFFF
    return cp in (9, 10, 13) or 0x20 <= cp <= 0xD7FF or 0xE000 <= cp <= 0xFFFD or 0x10000 <= cp <= 0x10FFFF


def restricted(v11, cp):
    return v11 and (1 <= cp <= 8 or cp in (0xB, 0xC) or 0xE <= cp <= 0x1F or 0x7F <= cp <= 0x84 or 0x86 <= cp <= 0x9F)


def enc_can(enc, cp):
    if enc == "ISO-8859-1":
        return cp <= 0xFF
    if enc == "US-ASCII":
        return cp <= 0x7F
    return True


def eol_sensitive(v11, cp):
    return cp == 13 or (v11 and cp in (0x85, 0x2028))


# events: ("S", name, [(an, av)...]) ("E", name) ("T", s) ("C", s) ("M", s) ("P", target, data); strings = unit lists

def has_unpaired_surrogate(evs):
    for e in evs:
        for x in e[1:]:
            strs = [x] if (isinstance(x, list) and not (x and isinstance(x[0], tuple))) else [v for pair in x for v in pair] if isinstance(x, list) else []
            for st in strs:
                if code_points(st) is None:
                    return True
    return False


def unpaired_in_text(evs):
    """an unpaired surrogate in a text node, an attribute value or a CDATA section (not only in a comment, PI or name)"""
    for e in evs:
        if e[0] in ("T", "C") and code_points(e[1]) is None:
            return True
        if e[0] == "S" and any(code_points(av) is None for an, av in e[2]):
            return True
    return False


def has_surrogate(evs):
    return any(is_high(u) or is_low(u) for e in evs for x in e[1:] for u in flat_units(x))


# variant flags read from coq/GenSer.v (translator/gen_ser.py regenerates them from the source on every run)
VARIANT = {"comment_eol_is_error": False, "legacy_10_legal_chars_ok": False, "legacy_11_c1_lsep_refs": False,
           "legacy_cdata_reopens_at_start": False,
           # regenerated into coq/GenSerLegacy.v by translator/gen_serlegacy.py; set by props/C04_legacy.run_part
           "legacy_cdata_cr_referenced": False, "legacy_detects_lone_low_surrogate": False,
           "legacy_checks_comment_pi_names": False}


def load_variant():
    txt = ""
    for gen in ("GenSer.v", "GenSerLegacy.v"):
        try:
            txt += open(os.path.join(core.COQ, gen)).read()
        except OSError:
            pass
    for k in VARIANT:
        m = re.search(r"Definition\s+%s\s*:\s*bool\s*:=\s*(true|false)\s*\." % k, txt)
        if m:
            VARIANT[k] = m.group(1) == "true"


def split_ver(ver):
    """the version field of a case may carry the indent dimension: "1.1 -I2" = version 1.1, doIndent with amount 2"""
    t = ver.split()
    ind = None
    for f in t[1:]:
        if f.startswith("-I"):
            ind = int(f[2:])
    return t[0], ind


def canon_list(text):
    """canonical event script (as printed by the harness / expected_tree) -> list of node tuples"""
    t, out, i = text.split(), [], 0
    while i < len(t):
        k = t[i]
        if k == "S":
            n = int(t[i + 2])
            out.append(tuple(t[i:i + 3 + 2 * n]))
            i += 3 + 2 * n
        elif k == "P":
            out.append(tuple(t[i:i + 3]))
            i += 3
        else:
            out.append(tuple(t[i:i + 2]))
            i += 2
    return out


def is_ws_node(x):
    return x[0] == "T" and all(u in (32, 9, 10, 13) for u in untok(x[1]))


def same_modulo_indentation(expected, parsed):
    """parsed = expected plus white-space-only text nodes (what indentation may add); both coalesced by the parser,
    so white space put next to an existing text node shows as a changed node"""
    base, var = canon_list(expected), canon_list(parsed)
    i = j = 0
    while i < len(base) or j < len(var):
        if i < len(base) and j < len(var) and base[i] == var[j]:
            i += 1
            j += 1
        elif j < len(var) and is_ws_node(var[j]):
            j += 1
        else:
            return False
    return True


def script_line(cid, enc, ver, evs):
    parts = [cid, enc, ver]
    if enc == "UTF8":
        # the legacy FormatterToXML treats an encoding name it does not know as 7-bit (getMaximumCharacterValue):
        # everything above U+007F becomes a reference, also in comments and at the start of CDATA (its K4 / K-new-6
        # behaviour on every non-ASCII character); not run for this alias
        parts.append("-L")
    for e in evs:
        if e[0] == "S":
            parts += ["S", tok(e[1]), str(len(e[2]))]
            for an, av in e[2]:
                parts += [tok(an), tok(av)]
        elif e[0] == "P":
            parts += ["P", tok(e[1]), tok(e[2])]
        else:
            parts += [e[0], tok(e[1])]
    return " ".join(parts)


def parse_script(tokens):
    evs, i = [], 0
    while tokens and (tokens[0] == "-L" or tokens[0].startswith("-I")):
        tokens = tokens[1:]
    while i < len(tokens):
        k = tokens[i]
        if k == "S":
            n = int(tokens[i + 2])
            attrs = [(untok(tokens[i + 3 + 2 * j]), untok(tokens[i + 4 + 2 * j])) for j in range(n)]
            evs.append(("S", untok(tokens[i + 1]), attrs))
            i += 3 + 2 * n
        elif k == "P":
            evs.append(("P", untok(tokens[i + 1]), untok(tokens[i + 2])))
            i += 3
        else:
            evs.append((k, untok(tokens[i + 1])))
            i += 2
    return evs


def expected_tree(evs):
    """the script as a parser must report it: adjacent text/CDATA coalesced, empty text dropped"""
    out, text = [], []

    def flush():
        if text:
            out.append("T " + tok(text))
            del text[:]
    for e in evs:
        if e[0] in ("T", "C"):
            text.extend(e[1])
            continue
        flush()
        if e[0] == "S":
            out.append("S %s %d" % (tok(e[1]), len(e[2])) + "".join(" %s %s" % (tok(a), tok(v)) for a, v in e[2]))
        elif e[0] == "P":
            out.append("P %s %s" % (tok(e[1]), tok(e[2])))
        else:
            out.append("%s %s" % (e[0], tok(e[1])))
    flush()
    return " ".join(out)


def classify(enc, ver, evs):
    """Returns (representable, classes): representable = the tree can be written as a well-formed document of
    this version/encoding that parses back to itself; classes = known-finding classes the script falls in
    (decided from the script alone)."""
    v11 = split_ver(ver)[0] == "1.1"
    rep, cls = True, set()
    for e in evs:
        strs = []
        if e[0] == "S":
            strs.append(("name", e[1]))
            for an, av in e[2]:
                strs.append(("name", an))
                strs.append(("attr", av))
        elif e[0] == "E":
            strs.append(("name", e[1]))
        elif e[0] == "T":
            strs.append(("text", e[1]))
        elif e[0] == "C":
            strs.append(("cdata", e[1]))
        elif e[0] == "M":
            strs.append(("comment", e[1]))
        elif e[0] == "P":
            strs.append(("name", e[1]))
            strs.append(("pi", e[2]))
        for kind, s in strs:
            cps = code_points(s)
            if cps is None:
                rep = False     # an unpaired surrogate: the serializer must raise an error
                continue
            for cp in cps:
                if not xml_char(v11, cp):
                    rep = False
                    continue
                if kind in ("name", "comment", "pi"):
                    # no escaping mechanism: the character itself must be writable
                    if not enc_can(enc, cp):
                        rep = False
                    if restricted(v11, cp):
                        rep = False
                    if kind != "name" and eol_sensitive(v11, cp):
                        rep = False     # no XML representation: an error is required ...
                        if not VARIANT["comment_eol_is_error"]:
                            cls.add("K-new-1")    # ... but this variant of the source writes it literally (known finding)
    return rep, cls


# ---------------------------------------------------------------------------------------------
# generators (every choice from ctx.rng)

SPECIALS = {
    "lt": u16("<"), "amp": u16("&"), "gt": u16(">"), "quot": u16('"'), "apos": u16("'"), "tab": [9], "lf": [10], "cr": [13],
    "crlf": [13, 10], "b2": [0xE9], "b2max": [0x7FF], "b3min": [0x800], "b3": [0x20AC], "b3max": [0xFFFD], "pair": [0xD83D, 0xDE00],
    "pairmin": [0xD800, 0xDC00], "pairmax": [0xDBFF, 0xDFFF], "nel": [0x85], "lsep": [0x2028], "cdend": u16("]]>"), "del": [0x7F],
    "c1": [0x9F], "nbsp": [0xA0], "lat1max": [0xFF], "x100": [0x100],
}
CORE = ["b2", "b3", "pair", "cdend", "cr", "lt", "quot", "nel", "lsep", "x100"]


def header_len(enc, ver):
    ver = split_ver(ver)[0]
    return len('<?xml version="%s" encoding="%s"?>' % (ver, enc))


def boundary_case(enc, ver, ctxkind, special, offset, second=None):
    """a script whose interesting string starts at unit/byte `offset` of the serializer's output"""
    h = header_len(enc, ver)
    x = SPECIALS[special] + (SPECIALS[second] if second else [])
    tail = u16("z")
    if ctxkind == "text":
        pad = offset - h - 3
        return [("S", u16("r"), []), ("T", u16("a") * pad + x + tail), ("E", u16("r"))]
    if ctxkind == "attr":
        pad = offset - h - 6
        return [("S", u16("r"), [(u16("a"), u16("b") * pad + x + tail)]), ("E", u16("r"))]
    if ctxkind == "cdata":
        pad = offset - h - 3 - 9
        return [("S", u16("r"), []), ("C", u16("c") * pad + x + tail), ("E", u16("r"))]
    if ctxkind == "comment":
        pad = offset - h - 4
        return [("M", u16("m") * pad + x + tail), ("S", u16("r"), []), ("E", u16("r"))]
    if ctxkind == "pi":
        pad = offset - h - 4
        return [("P", u16("p"), u16("d") * pad + x + tail), ("S", u16("r"), []), ("E", u16("r"))]
    if ctxkind == "name":
        pad = offset - h - 1
        nm = u16("n") * pad + x + tail
        return [("S", nm, []), ("E", nm)]
    raise ValueError(ctxkind)


NAME_POOL = ["r", "a", "b", "item", "x-y", "_u", "n1", "p:e", "q:long.name", "élément", "ж"]
ATTR_POOL = ["id", "a", "b", "xml:lang", "p:at", "data-x", "é"]
ALPHA = {
    "ascii": [ord(c) for c in "abcXYZ 019.,;:-_/()[]=+*%$#@!?~^`{}|\\"],
    "special": [60, 62, 38, 34, 39, 9, 10, 13, 93, 93, 62, 45, 63],
    "latin": list(range(0xA0, 0x100)) + [0x80, 0x85, 0x9F, 0x7F],
    "bmp": [0x100, 0x17F, 0x7FF, 0x800, 0x20AC, 0x2028, 0x2029, 0x3042, 0xD7FF, 0xE000, 0xFFFD, 0xFEFF],
}


def rand_string(r, n, mix):
    out = []
    while len(out) < n:
        k = r.choice(mix)
        if k == "pair":
            out += [r.randrange(0xD800, 0xDC00), r.randrange(0xDC00, 0xE000)]
        elif k == "cdend":
            out += [93, 93, 62]
        else:
            out.append(r.choice(ALPHA[k]))
    return out


def clean_comment(s):
    """what ElemTemplateElement::childrenToResultComment guarantees: no '--', no trailing '-'"""
    out = []
    for u in s:
        if u == 45 and out and out[-1] == 45:
            out.append(32)
        out.append(u)
    if out and out[-1] == 45:
        out.append(32)
    return out


def clean_pi(s):
    out = []
    for u in s:
        if u == 62 and out and out[-1] == 63:
            out.append(32)
        out.append(u)
    while out and out[0] in (32, 9, 10, 13):
        out.pop(0)
    return out


def rand_tree(ctx, mix, big):
    r = ctx.rng
    evs = []

    def slen():
        if big and r.random() < 0.3:
            return r.choice([300, 505, 512, 700, 1100])
        return r.choice([0, 1, 2, 3, 5, 8, 13, 40])

    def element(depth, root=False):
        name = u16("r" if root else r.choice(NAME_POOL))
        attrs, seen = [], set()
        if root:
            attrs += [(u16("xmlns:p"), u16("urn:p")), (u16("xmlns:q"), rand_string(r, 5, ["ascii"]))]
            seen |= {"xmlns:p", "xmlns:q"}
        for _ in range(r.choice([0, 0, 1, 2, 3])):
            an = r.choice(ATTR_POOL)
            if an in seen:
                continue
            seen.add(an)
            attrs.append((u16(an), rand_string(r, slen(), mix)))
        evs.append(("S", name, attrs))
        for _ in range(r.choice([0, 1, 2, 3, 4]) if depth < 3 else r.choice([0, 1])):
            k = r.choice(["T", "T", "T", "C", "M", "P", "el", "el"])
            if k == "el":
                element(depth + 1)
            elif k == "T":
                evs.append(("T", rand_string(r, slen(), mix)))
            elif k == "C":
                evs.append(("C", rand_string(r, slen(), mix)))
            elif k == "M":
                evs.append(("M", clean_comment(rand_string(r, slen(), mix))))
            else:
                evs.append(("P", u16(r.choice(["pi", "x-pi", "t"])), clean_pi(rand_string(r, slen(), mix))))
        evs.append(("E", name))
    if r.random() < 0.3:
        evs.append(("M", clean_comment(rand_string(r, 5, mix))))
    element(0, True)
    if r.random() < 0.2:
        evs.append(("P", u16("tail"), clean_pi(rand_string(r, 4, mix))))
    return evs


def gen_cases(ctx, n_random, boundary_fraction, always_core=True):
    r = ctx.rng
    cases = []   # (cls, enc, ver, evs)
    # 1. boundary core: always present (the guards of the writers live here)
    if always_core:
        for enc in ENCODINGS:
            for ver in VERSIONS:
                for kind in ("text", "attr", "cdata", "comment"):
                    for sp in ("b2", "b3", "pair", "x100"):
                        if kind == "comment" and not all(enc_can(enc, u) for u in SPECIALS[sp]):
                            continue
                        for off in range(500, 516):
                            cases.append(("core:%s:%s" % (kind, sp), enc, ver, boundary_case(enc, ver, kind, sp, off)))
    # 2. boundary sample: every special at offsets 504..520 in every context
    allb = []
    for enc in ENCODINGS:
        for ver in VERSIONS:
            for kind in ("text", "attr", "cdata", "comment", "pi", "name"):
                for sp in sorted(SPECIALS):
                    if kind == "name" and sp not in ("b2", "pair", "pairmin", "x100", "lat1max", "b2max", "b3min"):
                        continue   # NameChars only
                    for off in range(504, 521):
                        allb.append((enc, ver, kind, sp, off))
    k = int(len(allb) * boundary_fraction)
    for enc, ver, kind, sp, off in (r.sample(allb, k) if k < len(allb) else allb):
        second = r.choice([None, None] + CORE) if kind != "name" else None
        evs = boundary_case(enc, ver, kind, sp, off, second)
        if kind == "comment":
            evs[0] = ("M", clean_comment(evs[0][1]))
        if kind == "pi":
            evs[0] = ("P", evs[0][1], clean_pi(evs[0][2]))
        cases.append(("boundary:%s:%s" % (kind, sp), enc, ver, evs))
    # 2b. the 12 cells of XalanXMLSerializerFactory {UTF-8, UTF-16, other} x {1.0, 1.1} x {indent, no indent}: every
    #     version-specific character in text and attribute position, with and without indentation (always present)
    probe = [0x85, 0x9F, 0x7F, 0x2028, 13, 9, 10, 0xE9, 0x20AC]
    for enc in ENCODINGS:
        for ver in VERSIONS:
            for ind in (None, 0, 2):
                v = ver if ind is None else "%s -I%d" % (ver, ind)
                for extra in ([], [1], [0x1F]):       # a C0 control: reference under 1.1, error under 1.0
                    s1 = u16("x") + probe + extra + u16("y")
                    evs = [("S", u16("r"), [(u16("a"), s1)]), ("S", u16("e"), []), ("T", s1), ("E", u16("e")),
                           ("S", u16("c"), []), ("C", s1), ("E", u16("c")), ("S", u16("e"), []), ("E", u16("e")), ("E", u16("r"))]
                    cases.append(("cell:%s" % ("indent" if ind is not None else "plain"), enc, v, evs))
    # 3. random trees
    mixes = [("ascii", ["ascii"]), ("specials", ["ascii", "special", "special"]), ("latin", ["ascii", "latin", "special"]),
             ("unicode", ["ascii", "latin", "bmp", "pair", "special", "cdend"]), ("dense", ["bmp", "pair", "latin", "bmp"])]
    for i in range(n_random):
        mname, mix = mixes[i % len(mixes)]
        enc, ver = r.choice(ENCODINGS), r.choice(VERSIONS)
        ind = r.choice([None, None, None, 0, 2, 3])
        if ind is not None:
            ver = "%s -I%d" % (ver, ind)
        cases.append(("tree%s:%s" % ("" if ind is None else "-indent", mname), enc, ver, rand_tree(ctx, mix, big=(i % 3 == 0))))
    # 4. malformed stream: lone surrogates, characters XML forbids
    for i in range(max(40, n_random // 10)):
        enc, ver = r.choice(ENCODINGS), r.choice(VERSIONS)
        bad = r.choice([[r.randrange(0xD800, 0xDC00)], [r.randrange(0xDC00, 0xE000)], [r.randrange(1, 32)], [r.randrange(0x7F, 0xA0)],
                        [r.randrange(0xDC00, 0xE000), r.randrange(0xD800, 0xDC00)]])
        s = rand_string(r, r.choice([0, 3, 9]), ["ascii", "latin"]) + bad + rand_string(r, r.choice([0, 2]), ["ascii"])
        kind = r.choice(["T", "C", "M", "attr", "P"])
        if kind == "attr":
            evs = [("S", u16("r"), [(u16("a"), s)]), ("E", u16("r"))]
        elif kind == "P":
            evs = [("S", u16("r"), []), ("P", u16("p"), clean_pi(s)), ("E", u16("r"))]
        elif kind == "M":
            evs = [("S", u16("r"), []), ("M", clean_comment(s)), ("E", u16("r"))]
        else:
            evs = [("S", u16("r"), []), (kind, s), ("E", u16("r"))]
        cases.append(("malformed:" + kind, enc, ver, evs))
    return cases


# ---------------------------------------------------------------------------------------------

def model_bytes(enc, units):
    """the bytes the Writer/XalanOutputStream produces for the units of the model"""
    if enc == "UTF-8":
        if any(u > 0xFF for u in units):
            return None
        return bytes(units)
    if enc == "UTF-16":
        b = bytearray(b"\xff\xfe")
        for u in units:
            b += bytes((u & 0xFF, (u >> 8) & 0xFF))
        return bytes(b)
    if enc in ("UTF-32", "UTF8"):
        cps = code_points(units)
        if cps is None:
            return None
        if enc == "UTF8":
            return "".join(chr(c) for c in cps).encode("utf-8", "surrogatepass")
        b = bytearray()
        for c in cps:
            b += c.to_bytes(4, "little")     # Xerces XMLUCS4Transcoder: host byte order, no BOM
        return bytes(b)
    if any(u > 0xFF for u in units):
        return None
    return bytes(units)


ERRMAP = {"1": "SAXException", "2": "SAXException", "3": "SAXException", "4": "XSLException"}


def evaluate(ctx, cases, impl, model):
    lines, meta = [], {}
    for i, (cls, enc, ver, evs) in enumerate(cases):
        cid = "c%d" % (ctx.cov["evaluations"] + i)
        lines.append(script_line(cid, enc, ver, evs))
        meta[cid] = (cls, enc, ver, evs, lines[-1])
    rc_i, res_i, raw_i = core.run_lines_parallel(impl, lines)
    rc_m, res_m, raw_m = core.run_lines_parallel(model, lines) if model else (0, {}, "")
    corr, orc = [], []
    if rc_i != 0:
        # a crash loses the rest of its chunk: re-run the scripts without a result one per process, so that
        # only the scripts that really kill the driver are reported
        from concurrent.futures import ThreadPoolExecutor
        missing = [l for l in lines if l.split(" ", 1)[0] not in res_i]
        groups = [missing[i:i + 25] for i in range(0, len(missing), 25)]
        with ThreadPoolExecutor(core.NPROC) as ex:
            for rc1, r1, raw1 in ex.map(lambda g: core.run_lines(impl, "\n".join(g) + "\n", 300), groups):
                res_i.update(r1)
        missing = [l for l in lines if l.split(" ", 1)[0] not in res_i]
        with ThreadPoolExecutor(core.NPROC) as ex:
            for rc1, r1, raw1 in ex.map(lambda l: core.run_lines(impl, l + "\n", 120), missing[:3000]):
                res_i.update(r1)
        for l in missing[3000:]:
            meta.pop(l.split(" ", 1)[0], None)   # not re-run individually: no verdict for these
    if model and rc_m != 0:
        corr.append({"case": "(process)", "impl": "", "model": "model driver exited with status %d: %s" % (rc_m, raw_m[-300:])})
    for cid, (cls, enc, ver, evs, line) in meta.items():
        ctx.cov["evaluations"] += 1
        ctx.count(cls.split(":")[0] + ":" + enc + ":" + ver)
        ctx.count("class:" + cls)
        ri = res_i.get(cid)
        if ri is None or ri.count("|") < 3:
            orc.append({"case": line, "what": "the driver died on this script (crash / memory corruption in the serializer): %r" % (ri,), "known": None})
            continue
        new, newp, old, oldp = ri.split("|", 3)
        representable, kcls = classify(enc, ver, evs)
        expected = expected_tree(evs)
        indent = split_ver(ver)[1]

        def differs(parsed):
            if indent is None:
                return parsed != expected
            return not same_modulo_indentation(expected, parsed)
        # ---- correspondence (model vs library, byte-exact) ----
        if model:
            rm = res_m.get(cid)
            ctx.cov["traces_validated_against_impl"] += 1
            if rm is None:
                corr.append({"case": line, "impl": new[:80], "model": "no result"})
            elif rm.startswith("ok "):
                mb = model_bytes(enc, untok(rm[3:]))
                if mb is None or not new.startswith("ok:") or bytes.fromhex(new[3:]) != mb:
                    corr.append({"case": line, "impl": new[:160], "model": "ok:" + (mb.hex()[:160] if mb is not None else "(units above 0xFF)")})
            elif rm.startswith("err "):
                if not new.startswith("err:") or ERRMAP.get(rm[4:].strip()) != new[4:]:
                    corr.append({"case": line, "impl": new[:160], "model": rm})
            else:
                corr.append({"case": line, "impl": new[:160], "model": rm})
        # ---- oracle (library only) ----
        known = None
        what = None
        if representable:
            if not new.startswith("ok:"):
                what = "representable tree, but the serializer failed with %s" % new
            elif newp.startswith("PARSEERR"):
                what = "output is not well-formed: %s" % newp[:200]
            elif differs(newp):
                what = "output parses to a different tree:\n#     parsed   %s\n#     expected %s" % (newp[:400], expected[:400])
            if what:
                for k in ("K-new-1",):
                    if k in kcls:
                        known = k
        else:
            if new.startswith("ok:"):
                if newp.startswith("PARSEERR"):
                    what = "unrepresentable tree: no error, and the output is not well-formed (%s)" % newp[:160]
                elif differs(newp):
                    what = "unrepresentable tree: no error, output parses to a different tree:\n#     parsed   %s\n#     expected %s" % (newp[:300], expected[:300])
                else:
                    what = None   # the oracle's notion of representable was too strict for this input; nothing wrong observed
                if what:
                    for k in ("K-new-1",):
                        if k in kcls:
                            known = k
        if what:
            orc.append({"case": line, "what": what, "known": known})
        # ---- the two serializers agree (after parsing) ----
        if representable and new.startswith("ok:") and not newp.startswith("PARSEERR") and not kcls and old != "skipped":
            lw = None
            if not old.startswith("ok:"):
                lw = "legacy FormatterToXML failed with %s where the new serializer succeeded" % old
            elif oldp != newp:
                lw = "legacy FormatterToXML output parses to a different tree:\n#     legacy %s\n#     new    %s" % (oldp[:300], newp[:300])
            if lw:
                orc.append({"case": line, "what": lw, "known": legacy_class(enc, ver, evs)})
        elif has_unpaired_surrogate(evs) and old.startswith("ok:"):
            # no serializer may write a document for such a tree
            orc.append({"case": line, "what": "legacy FormatterToXML raised no error for a tree with an unpaired surrogate; its output: %s" % (
                            oldp[:200] if oldp.startswith("PARSEERR") else "parses to " + oldp[:200]),
                        "known": (None if VARIANT["legacy_checks_comment_pi_names"] else "K-new-8") if not unpaired_in_text(evs) else
                                 None if VARIANT["legacy_detects_lone_low_surrogate"] else "K-new-4"})
            # K-new-4: text, attribute value, CDATA (every encoding: raw under UTF-8/UTF-16/UTF-32, '&#56832;' otherwise);
            # K-new-8: the legacy serializer checks nothing in comments, PIs and names
    return corr, orc


def legacy_class(enc, ver, evs):
    """known-finding classes of the legacy serializer (decided from the script alone)"""
    v11 = split_ver(ver)[0] == "1.1"
    allu = []
    for e in evs:
        for x in e[1:]:
            if isinstance(x, list) and x and isinstance(x[0], tuple):
                for an, av in x:
                    allu += an + av
            elif isinstance(x, list):
                allu += x
    cdata_units = [u for e in evs if e[0] == "C" for u in e[1]]
    other_units = [u for e in evs if e[0] != "C" for x in e[1:] for u in flat_units(x)]
    if any(u == 13 or (v11 and (u in (0x85, 0x2028) or restricted(True, u))) for u in cdata_units):
        # CR (1.1: NEL, LSEP, controls) inside CDATA is written literally -- unless the source has fixes/C04/10-K-new-7
        return None if VARIANT["legacy_cdata_cr_referenced"] else "K-new-7"
    if v11 and not VARIANT["legacy_11_c1_lsep_refs"] and any(u in (0x85, 0x2028) or restricted(True, u) for u in other_units):
        return "K-new-3"
    if not v11 and not VARIANT["legacy_10_legal_chars_ok"]:
        for e in evs:
            if e[0] == "T" and any(u in (13, 0x85, 0x2028) for u in e[1]):
                return "K-new-5"
            if e[0] == "S" and any(u in (9, 10, 13, 0x85, 0x2028) for an, av in e[2] for u in av):
                return "K-new-5"
    if not VARIANT["legacy_cdata_reopens_at_start"]:
        for e in evs:
            if e[0] == "C" and any(not enc_can(enc, u) for u in e[1]):
                return "K-new-6"
    return None


def run(ctx):
    ctx.assumptions += [
        "strings contain no U+0000 (SAX names/comments/PI data are NUL-terminated C strings; CharFunctor::range asserts theChar > 0)",
        "CR (1.1: NEL, LSEP) inside a comment or PI cannot be represented in XML at all; the serializer writes it literally, as every XSLT processor does (XSLT 2.0 serialization prescribes escaping for text and attributes only): recorded as K-new-1, not an error",
        "comment data has no '--' and no trailing '-', PI data no '?>' and no leading white space, PI target is not 'xml' (guaranteed by ElemTemplateElement::childrenToResultComment/PI and the data model)",
        "names in scripts are XML Names with declared prefixes (C14 covers namespace fix-up)",
        "U+FFFE/U+FFFF are not generated (not Chars of either XML version, cannot come from a parsed document)",
        "the Writer below the staging buffers (XalanOutputStreamPrintWriter/XalanStdOutputStream and the Xerces transcoders) is not modelled: UTF-8 bytes pass through, UTF-16 is BOM + little-endian units, ISO-8859-1/US-ASCII map unit n to byte n (checked byte-exactly by the correspondence)",
        "no indentation, no DOCTYPE, standalone absent (C08 territory)",
    ]
    for fn in os.listdir(os.path.join(core.OUT, "C04")):
        if fn.startswith("replay_"):
            os.remove(os.path.join(core.OUT, "C04", fn))   # stale replays of earlier runs
    ok_lib, liblog = core.build_lib("plain")
    if not ok_lib:
        ctx.broken.append("library does not build from the working tree: " + liblog[-500:])
        return ctx.finish(LEVEL)
    # (the variant flags are read after ctx.prove has regenerated GenSer.v)
    proved = ctx.prove(["Properties_C04.v"], ["GenSer", "GenOutopt"], extra_targets=["SerIndentDefs.vo"])
    load_variant()
    ctx.notes["variant"] = dict(VARIANT)
    model, ok_m, mlog = core.build_model(FAMILY)
    if not ok_m:
        ctx.broken.append("model extraction/build failed: " + mlog[-500:])
        model = None
    impl, ok_h, hlog = core.build_harness("ser", "plain")
    if not ok_h:
        ctx.broken.append("harness does not compile against the working tree: " + hlog[-500:])
        return ctx.finish(LEVEL)

    # the legacy serializer FormatterToXML inside the model (built as its own part: props/C04_legacy.py)
    try:
        import importlib
        legacy_part = importlib.import_module("props.C04_legacy")
    except ImportError:
        legacy_part = None
    if legacy_part is not None:
        legacy_part.run_part(ctx)

    known = {k["key"]: k for k in ctx.known.for_property("C04")}
    corpus = []
    cdir = os.path.join(core.VERIF, "corpus", "C04")
    if os.path.isdir(cdir):
        for fn in sorted(os.listdir(cdir)):
            if not fn.endswith(".txt"):
                continue   # corpus/C04/fixes/ holds the proposed patches
            for l in open(os.path.join(cdir, fn)):
                t = l.split()
                if len(t) >= 3 and not l.startswith("#"):
                    flags = [f for f in t[3:5] if f.startswith("-I")]
                    corpus.append(("corpus:" + fn, t[1], " ".join([t[2]] + flags), parse_script(t[3:])))
    n_random, frac = (1500, 0.12) if not ctx.thorough else (30000, 1.0)
    cases = corpus + gen_cases(ctx, n_random, frac)
    ctx.cov["samples"] = [script_line("s%d" % i, c[1], c[2], c[3])[:300] for i, c in enumerate(cases[:3] + cases[len(cases) // 2: len(cases) // 2 + 3] + cases[-3:])]
    corr, orc = evaluate(ctx, cases, impl, model)
    new = [o for o in orc if not (o["known"] and o["known"] in known)]
    if (corr or not proved or not model) and not new and not ctx.thorough:
        ctx.escalated = True
        more = gen_cases(ctx, 12000, 1.0, always_core=False)
        c2, o2 = evaluate(ctx, more, impl, model)
        corr += c2
        orc += o2
        new = [o for o in orc if not (o["known"] and o["known"] in known)]
    hits = {}
    for o in orc:
        if o["known"] and o["known"] in known:
            hits[o["known"]] = hits.get(o["known"], 0) + 1
    for k in sorted(hits):
        ctx.known_finding("%s %s" % (k, known[k]["what"]))
    ctx.notes["known_class_hits"] = hits
    ctx.notes["rule"] = "distinct_nontrivial = distinct event scripts containing at least one character outside [A-Za-z0-9 ] in text, attribute, CDATA, comment or PI data"
    seen = set()
    for cls, enc, ver, evs in cases:
        line = script_line("", enc, ver, evs)
        if any(u not in ALNUM for e in evs for x in e[1:] for u in flat_units(x)):
            seen.add(line)
    ctx.cov["distinct_nontrivial"] = len(seen)
    if corr:
        ctx.broken.append("correspondence ser: %d of %d scripts differ between the extracted model and the library, e.g. %s" % (
            len(corr), ctx.cov["traces_validated_against_impl"], str(corr[0])[:700]))
        ctx.notes["correspondence_mismatches"] = [dict(c, case=c["case"][:400]) for c in corr[:10]]
    if new:
        new.sort(key=lambda o: len(o["case"]))
        txt = "\n".join("%s\n#   %s" % (o["case"], o["what"]) for o in new[:40])
        ctx.violation("oracle", "# C04 oracle failures. Replay: python3 check.py C04 --replay <this file>  (or feed the case lines to .build/ser_plain;\n"
                      "# output = new serializer|its re-parse|legacy serializer|its re-parse)\n" + txt)
    ctx.notes["oracle_failures"] = len(new)
    # instruction-level guards in front of the serializer: xsl:comment / xsl:processing-instruction data
    # (props/C04_xslt.py; Properties_C04x.v)
    from props import C04_xslt
    C04_xslt.run_part(ctx)
    return ctx.finish(LEVEL, explanation="Coq theorems over the Gallina model of the buffered writers and the escaping functions (tables and guards regenerated from the source) + byte-exact correspondence of the extracted model with XalanXMLSerializerFactory's product + Xerces re-parse oracle and legacy-serializer differential")


ALNUM = set(ord(c) for c in "abcdefghijklmnopqrstuvwxyzABCDEFGHIJKLMNOPQRSTUVWXYZ0123456789 ")


def flat_units(x):
    if isinstance(x, list):
        for y in x:
            if isinstance(y, tuple):
                for z in y:
                    for u in z:
                        yield u
            else:
                yield y


def replay(ctx, path):
    if open(path).read(64).startswith("property C04 (instruction-level guard"):
        from props import C04_xslt
        return C04_xslt.replay(ctx, path)
    load_variant()
    core.build_lib("plain")
    impl, ok_h, hlog = core.build_harness("ser", "plain")
    lines = [l for l in open(path) if l.strip() and not l.startswith("#")]
    rc, out = core.sh([impl], input="".join(lines))
    bad = 0
    for l in out.split("\n"):
        if not l.strip():
            continue
        cid, rest = l.split(" ", 1)
        src = [x for x in lines if x.split()[0] == cid]
        f = rest.split("|", 3)
        print(cid, f[0][:200])
        print("   reparse :", f[1][:300] if len(f) > 1 else "")
        if src:
            t = src[0].split()
            evs = parse_script(t[3:])
            if any(e[0] == "P" and e[1] == u16("Xalan") and e[2] == u16("raw") for e in evs):
                # the raw marker (props/C04_legacy.py): the event after it is written unescaped, so the script is not
                # its own expected tree; verdict = both serializers write well-formed output and agree after parsing
                print("   legacy  :", f[2][:200] if len(f) > 2 else "")
                print("   reparse :", f[3][:300] if len(f) > 3 else "")
                okc = len(f) > 3 and f[0].startswith("ok:") and f[2].startswith("ok:") and not f[1].startswith("PARSEERR") and f[1] == f[3]
                print("   verdict :", "both serializers agree (raw marker script)" if okc else "FAILS the property (raw marker: not well-formed, or the two serializers disagree)")
                bad += 0 if okc else 1
                continue
            exp = expected_tree(evs)
            representable, kcls = classify(t[1], t[2], evs)
            print("   expected:", exp[:300], "(representable)" if representable else "(not representable: an error is expected)")
            indented = any(x.startswith("-I") for x in t[3:5])
            same = len(f) > 1 and (same_modulo_indentation(exp, f[1]) if indented and not f[1].startswith("PARSEERR") else f[1] == exp)
            okc = (f[0].startswith("ok:") and same) if representable else f[0].startswith("err:")
            print("   verdict :", "as the property demands" if okc else "FAILS the property", sorted(kcls))
            bad += 0 if okc else 1
    return 1 if bad else 0
