(* NumFlocq.v — ties the stdlib SpecFloat rounding used by NumDefs.v to Flocq's
   mode_NE rounding and derives the three facts about [nearest_double] /
   [long_to_double] from Flocq's correctness theorems. *)
From Coq Require Import ZArith Lia Reals SpecFloat.
From Flocq Require Import Core IEEE754.BinarySingleNaN.
From Coq Require Import Lra.
Require Import XV.GenNum XV.NumDefs.
Local Open Scope Z_scope.

(** * Step 1: the stdlib rounding is Flocq's [mode_NE] rounding *)

Lemma choice_mode_NE : forall s m l,
  choice_mode mode_NE s m l = round_nearest_even m l.
Proof.
  intros s m l. unfold choice_mode, round_nearest_even.
  destruct l as [|[| |]]; simpl; try reflexivity.
  destruct (Z.even m); reflexivity.
Qed.

Lemma binary_round_aux_equiv : forall p em sx mx ex lx,
  SpecFloat.binary_round_aux p em sx mx ex lx
  = BinarySingleNaN.binary_round_aux p em mode_NE sx mx ex lx.
Proof.
  intros p em sx mx ex lx.
  unfold SpecFloat.binary_round_aux, BinarySingleNaN.binary_round_aux.
  destruct (shr_fexp p em mx ex lx) as [mrs' e'].
  rewrite choice_mode_NE.
  destruct (shr_fexp p em _ e' loc_Exact) as [mrs'' e''].
  destruct (shr_m mrs''); reflexivity.
Qed.

Lemma binary_round_equiv : forall p em sx mx ex,
  SpecFloat.binary_round p em sx mx ex
  = BinarySingleNaN.binary_round p em mode_NE sx mx ex.
Proof.
  intros p em sx mx ex.
  unfold SpecFloat.binary_round, BinarySingleNaN.binary_round, shl_align_fexp.
  destruct (shl_align mx ex _) as [mz ez].
  apply binary_round_aux_equiv.
Qed.

(** * Step 2: format instances *)

Global Instance prec_gt_0_dbl : Prec_gt_0 prec.
Proof. reflexivity. Qed.

Global Instance prec_lt_emax_dbl : Prec_lt_emax prec emax.
Proof. reflexivity. Qed.

Notation dfexp := (SpecFloat.fexp prec emax).
Notation rnd x := (round radix2 dfexp ZnearestE x).

(* what the Flocq correctness theorems say about a result [z] that is the
   round-to-nearest-even of the real [x] with sign [s] *)
Definition rounds_to (s : bool) (x : R) (z : spec_float) : Prop :=
  valid_binary prec emax z = true /\
  if Rlt_bool (Rabs (rnd x)) (bpow radix2 emax) then
    SF2R radix2 z = rnd x /\ is_finite_SF z = true /\ sign_SF z = s
  else z = binary_overflow prec emax mode_NE s.

(** uniqueness of valid finite spec_floats given value and sign *)
Lemma valid_finite_unique : forall z1 z2,
  valid_binary prec emax z1 = true -> valid_binary prec emax z2 = true ->
  is_finite_SF z1 = true -> is_finite_SF z2 = true ->
  SF2R radix2 z1 = SF2R radix2 z2 -> sign_SF z1 = sign_SF z2 ->
  z1 = z2.
Proof.
  intros z1 z2 V1 V2 F1 F2 HR HS.
  rewrite <- (B2SF_SF2B prec emax z1 V1), <- (B2SF_SF2B prec emax z2 V2).
  f_equal.
  apply B2R_Bsign_inj.
  - now rewrite is_finite_SF2B.
  - now rewrite is_finite_SF2B.
  - now rewrite !B2R_SF2B.
  - now rewrite !Bsign_SF2B.
Qed.

Lemma rounds_to_unique : forall s x z1 z2,
  rounds_to s x z1 -> rounds_to s x z2 -> z1 = z2.
Proof.
  intros s x z1 z2 [V1 H1] [V2 H2].
  destruct (Rlt_bool (Rabs (rnd x)) (bpow radix2 emax)).
  - destruct H1 as (R1 & F1 & S1), H2 as (R2 & F2 & S2).
    apply valid_finite_unique; congruence.
  - congruence.
Qed.

(** * Step 3: [nearest_double] is the correctly rounded quotient *)

Lemma nearest_double_spec : forall s num den,
  0 < num -> 0 < den ->
  rounds_to s (IZR (cond_Zopp s num) / IZR den)%R (nearest_double s num den).
Proof.
  intros s num den Hn Hd.
  destruct num as [|n|n]; try lia.
  destruct den as [|d|d]; try lia.
  unfold nearest_double.
  change (Z.pos n =? 0) with false. cbv iota.
  generalize (Bdiv_correct_aux prec emax _ _ mode_NE s n 0 false d 0).
  cbv zeta.
  rewrite Bool.xorb_false_r.
  unfold F2R; simpl Fnum; simpl Fexp. simpl bpow. rewrite !Rmult_1_r.
  destruct (SFdiv_core_binary prec emax (Z.pos n) 0 (Z.pos d) 0) as [[q e] l].
  rewrite binary_round_aux_equiv.
  intros H; exact H.
Qed.

Lemma nearest_double_ext : forall s n1 d1 n2 d2,
  0 <= n1 -> 0 < d1 -> 0 <= n2 -> 0 < d2 -> n1 * d2 = n2 * d1 ->
  nearest_double s n1 d1 = nearest_double s n2 d2.
Proof.
  intros s n1 d1 n2 d2 Hn1 Hd1 Hn2 Hd2 E.
  destruct (Z.eq_dec n1 0) as [Z1|NZ1].
  - assert (n2 = 0) by nia. subst. reflexivity.
  - assert (0 < n1) by lia.
    assert (0 < n2) by nia.
    apply (rounds_to_unique s (IZR (cond_Zopp s n1) / IZR d1)%R).
    + now apply nearest_double_spec.
    + replace (IZR (cond_Zopp s n1) / IZR d1)%R with (IZR (cond_Zopp s n2) / IZR d2)%R.
      now apply nearest_double_spec.
      assert (IZR d1 <> 0%R) by (apply IZR_neq; lia).
      assert (IZR d2 <> 0%R) by (apply IZR_neq; lia).
      apply (f_equal IZR) in E. rewrite !mult_IZR in E.
      rewrite !IZR_cond_Zopp.
      destruct s; simpl; field_simplify_eq; auto; lra.
Qed.


(** * Step 4: a representable quotient is returned unchanged *)

Lemma nearest_double_exact : forall s m e num den,
  SpecFloat.valid_binary prec emax (S754_finite s m e) = true -> 0 < den ->
  (if 0 <=? e then num = Zpos m * 2 ^ e * den else num * 2 ^ (- e) = Zpos m * den) ->
  nearest_double s num den = S754_finite s m e.
Proof.
  intros s m e num den V Hd Hnum.
  assert (Hden : IZR den <> 0%R) by (apply IZR_neq; lia).
  assert (Hn : 0 < num /\
               (IZR num / IZR den = IZR (Zpos m) * bpow radix2 e)%R).
  { destruct (0 <=? e) eqn:He.
    - apply Z.leb_le in He.
      assert (0 < 2 ^ e) by (apply Z.pow_pos_nonneg; lia).
      split; [nia|].
      subst num. rewrite !mult_IZR.
      change 2 with (radix_val radix2). rewrite IZR_Zpower by exact He.
      field; exact Hden.
    - apply Z.leb_gt in He.
      assert (0 < 2 ^ (- e)) by (apply Z.pow_pos_nonneg; lia).
      split; [nia|].
      apply (f_equal IZR) in Hnum. rewrite !mult_IZR in Hnum.
      change 2 with (radix_val radix2) in Hnum.
      rewrite IZR_Zpower in Hnum by lia.
      rewrite bpow_opp in Hnum.
      assert (bpow radix2 e <> 0%R) by (apply Rgt_not_eq, bpow_gt_0).
      apply (Rmult_eq_reg_r (/ bpow radix2 e)); [|now apply Rinv_neq_0_compat].
      rewrite Rmult_assoc, Rinv_r, Rmult_1_r by assumption.
      unfold Rdiv. rewrite Rmult_assoc, (Rmult_comm (/ IZR den)), <- Rmult_assoc, Hnum.
      field; exact Hden. }
  destruct Hn as [Hn Hq].
  set (x := (IZR (cond_Zopp s num) / IZR den)%R).
  assert (Hx : x = B2R (B754_finite s m e V)).
  { unfold x, B2R. rewrite F2R_cond_Zopp, IZR_cond_Zopp.
    unfold F2R; simpl Fnum; simpl Fexp. rewrite <- Hq.
    destruct s; simpl; field; exact Hden. }
  apply (rounds_to_unique s x).
  - now apply nearest_double_spec.
  - split; [exact V|].
    rewrite Hx.
    rewrite round_generic by
      (auto with typeclass_instances; apply generic_format_B2R).
    rewrite Rlt_bool_true by apply abs_B2R_lt_emax.
    simpl. auto.
Qed.


(** * Step 5: converting a long is rounding p / 1 *)

Lemma long_to_double_nearest : forall s p,
  SpecFloat.binary_round prec emax s p 0 = nearest_double s (Zpos p) 1.
Proof.
  intros s p.
  apply (rounds_to_unique s (IZR (cond_Zopp s (Zpos p)) / IZR 1)%R).
  - rewrite binary_round_equiv.
    generalize (binary_round_correct prec emax _ _ mode_NE s p 0).
    cbv zeta. unfold rounds_to, F2R; simpl Fnum; simpl Fexp; simpl bpow.
    unfold Rdiv. rewrite Rinv_1.
    intros H; exact H.
  - apply nearest_double_spec; lia.
Qed.

