(* C01 core2, deliverable (c): attribute sets - packaged statements for Properties_C01core4.v *)
From Coq Require Import List NArith Bool Arith Lia.
Require Import XV.XsltEventsDefs XV.XsltEventsModel XV.XsltVarsDefs XV.XsltVarsModel XV.XsltCoreDefs XV.XsltCoreModel XV.XsltCoreSim.
Require Import XV.XsltCore2Defs XV.XsltCore2Model XV.XsltCore2Sim XV.XsltCore2Pkg XV.XsltCore3Defs XV.XsltCore3Model XV.XsltCore3Pkg.
Import ListNotations.

(* what an attribute set contributes is attributes only *)
Lemma set_items_are_attributes_pkg : forall g m f tm wp c use en sa,
  sem_seq2 (Sem2 g m f tm wp c) (use_sets use) en = Some sa -> exists A, sa = attr_items A.
Proof.
  intros g m f tm wp c use en sa H.
  assert (X : forallb is_gattr sa = true).
  { unfold Sem2 in H. eapply sets_attr_only; [apply use_sets_like|exact H]. }
  clear H. induction sa as [|i r IH]. exists []. reflexivity.
  simpl in X. apply andb_true_iff in X. destruct X as [X1 X2]. destruct i; try discriminate.
  destruct (IH X2) as [A HA]. exists ((n, v) :: A). simpl. rewrite HA. reflexivity.
Qed.

(* a literal result element that uses attribute sets: the machine issues the start tag, then - each in its turn, none of its
   events after the element's own - the attributes of the sets, THEN the element's own attributes, then the content, then
   the end tag; every stack is as it was *)
Lemma lre_with_sets_pkg : forall fxc m, mech2_ok m -> forall f n use atts body tm wp nd l md en sa pre its,
  nonempty n = true ->
  sem_seq2 (Sem2 false m f tm wp (cxof nd l md)) (use_sets use) en = Some sa ->
  ev_atts (m2c_string m) (slk en) (cxof nd l md) atts = Some pre ->
  sem_seq2 (Sem2 false m f tm wp (cxof nd l md)) body en = Some its ->
  forall stk nodes cnl cur modes ifs pvs store o F R benv wpb,
    GoodR F R -> Fr true F benv wpb -> Res store benv en -> tflag o = mflag true tm ->
  exists k store',
    Run2_ true fxc m k (KStart (JLreU n use atts body)) (mkM2 stk nodes (l :: cnl) (nd :: cur) (md :: modes) ifs pvs (VS F R) store o)
    = Run2 KNext (mkM2 stk nodes (l :: cnl) (nd :: cur) (md :: modes) ifs pvs (VS F R) store'
                       (emit2 (IStart n :: ops_of sa ++ map (fun p => IAttr (fst p) (snd p)) pre ++ ops_of its ++ [IEnd n]) o))
    /\ (exists ext, store' = store ++ ext).
Proof.
  intros fxc m Hm f n use atts body tm wp nd l md en sa pre its Hn Hsa Hp Hb stk nodes cnl cur modes ifs pvs store o F R benv wpb HG HF HR Hfl.
  assert (Hs : Sem2 false m (S f) tm wp (cxof nd l md) (JLreU n use atts body) en = Some (en, [GElem n [] (sa ++ attr_items pre ++ its)])).
  { unfold Sem2. cbn [sem2]. rewrite Hn. unfold Sem2 in Hsa, Hb. rewrite Hsa. rewrite Hp. rewrite Hb. reflexivity. }
  destruct (instr2_pkg fxc m Hm (S f) _ _ _ _ _ _ _ _ _ Hs stk nodes cnl cur modes ifs pvs store o F R benv wpb HG HF HR Hfl)
    as [k [store' [V [newb [Hrun [_ [_ [_ [Hext Hnil]]]]]]]]].
  rewrite (Hnil eq_refl) in Hrun. exists k, store'. split; [|exact Hext].
  rewrite Hrun. f_equal. f_equal. unfold ops_of. cbn [flat_map ops_of_item map app]. rewrite app_nil_r.
  rewrite !flat_map_app. change (flat_map ops_of_item (attr_items pre)) with (ops_of (attr_items pre)). rewrite ops_of_attr_items.
  rewrite <- !app_assoc. reflexivity.
Qed.

(* 7.1.4 at the level of the result tree: the attributes of the element are those of the sets followed by its own, a later one
   of the same name replacing the value of an earlier one (and keeping its place) *)
Lemma attr_prefix_fold : forall strict L a ch, spec_fold strict (attr_items L) (true, a, ch) = (true, fold_left (fun a p => add_attr (fst p) (snd p) a) L a, ch).
Proof. induction L as [|[n v] L IH]; intros a ch. reflexivity. unfold spec_fold in *. simpl. apply IH. Qed.

Lemma set_then_own_attributes_last_wins_pkg : forall strict A pre o,
  spec_fold strict (attr_items A ++ attr_items pre ++ o) (true, [], []) = spec_fold strict o (true, dedup_last_keep_pos (A ++ pre), []).
Proof.
  intros. unfold spec_fold. rewrite !fold_left_app.
  pose proof (attr_prefix_fold strict A [] []) as X1. unfold spec_fold in X1.
  pose proof (attr_prefix_fold strict pre (fold_left (fun a p => add_attr (fst p) (snd p) a) A []) []) as X2. unfold spec_fold in X2.
  f_equal. eapply eq_trans. { apply (f_equal (fold_left (fun a j => spec_item strict j a) (attr_items pre))). exact X1. }
  eapply eq_trans. { exact X2. }
  rewrite <- fold_left_app. rewrite duplicate_attribute_last_wins_thm. reflexivity.
Qed.
