"""C04, part "xslt": instruction-level guards in front of the serializer.

The serializers write comment and PI data verbatim (no escaping exists there); that this data never holds
"--", a trailing '-' or "?>" is established one layer up, by ElemComment::endElement / ElemPI::endElement.
  proof:  coq/Properties_C04x.v (FixupDefs/FixupModel/FixupSer): for EVERY string the two loops deliver
          representable data, by inserting spaces only, touching exactly the data that needs it; the result
          meets the hyphen / '?>' conjuncts of SerDocDefs.comment_ok / pi_ok (the guards of serialize_parse).
  tie:    correspondence - the extracted loops vs the data of the comment / PI in the library's output, for
          generated xsl:comment / xsl:processing-instruction bodies (exhaustive over {'-','a',' '}^<=6 and
          {'?','>','a',' '}^<=5 in the thorough tier, a stratified sample in the quick tier), three encodings.
  oracle: independent of the model: the output must be well-formed (expat), the comment / PI read back must
          be the body with spaces inserted (a subsequence check), must not contain "--" / end in '-' / contain
          "?>", and must equal the body when the body was fine."""
import itertools, xml.parsers.expat
from vlib import core, xsltrun

ENCODINGS = ["UTF-8", "UTF-16", "ISO-8859-1"]


def tok(s):
    return "u:" + ",".join("%x" % ord(c) for c in s)


def untok(t):
    body = t[2:]
    return "".join(chr(int(h, 16)) for h in body.split(",")) if body else ""


def sheet(kind, body, enc):
    esc = body.replace("&", "&amp;").replace("<", "&lt;").replace(">", "&gt;")
    inner = ('<xsl:comment><xsl:value-of select="$b"/></xsl:comment>' if kind == "c"
             else '<xsl:processing-instruction name="t"><xsl:value-of select="$b"/></xsl:processing-instruction>')
    return ('<xsl:stylesheet version="1.0" xmlns:xsl="http://www.w3.org/1999/XSL/Transform">'
            '<xsl:output method="xml" encoding="%s"/><xsl:variable name="b"><xsl:text>%s</xsl:text></xsl:variable>'
            '<xsl:template match="/"><r>x%sy</r></xsl:template></xsl:stylesheet>' % (enc, esc, inner))


def parse_back(data):
    """-> (comments, pis) or raises expat.ExpatError"""
    cs, ps = [], []
    p = xml.parsers.expat.ParserCreate()
    p.CommentHandler = lambda d: cs.append(d)
    p.ProcessingInstructionHandler = lambda t, d: ps.append((t, d))
    p.Parse(data, True)
    return cs, ps


def is_space_insertion(orig, got):
    """got = orig with spaces inserted"""
    i = 0
    for ch in got:
        if i < len(orig) and ch == orig[i]:
            i += 1
        elif ch != " ":
            return False
    return i == len(orig)


def bodies(ctx):
    r = ctx.rng
    cs = ["".join(t) for n in range(0, 7) for t in itertools.product("-a ", repeat=n)]
    ps = ["".join(t) for n in range(0, 6) for t in itertools.product("?>a ", repeat=n)]
    # PI data: leading white space is dropped by the parser when reading back (not part of the data); keep bodies
    # that do not start with a space so that the oracle can compare the data as a whole
    ps = [p for p in ps if not p.startswith(" ")]
    extra_c = ["see section 4-", "-----", "a--b", "well-known", "--", "-", "x -- y --- z-", "<!-- nested -->", "-€-", "é--é-"]
    extra_p = ["?>", "a?>b", "??>>", "?>?>", "x?", ">?", "a ?> b ?>", "é?>é"]
    if not ctx.thorough:
        cs = r.sample(cs, 260)
        ps = r.sample(ps, 200)
    return [("c", b) for b in extra_c + cs] + [("p", b) for b in extra_p + ps]


def run_part(ctx):
    ctx.prove(["Properties_C04x.v"], [])
    model, ok_m, mlog = core.build_model("fixup")
    if not ok_m:
        ctx.broken.append("fixup model does not build: " + mlog[-400:])
    exe, ok_h, hlog = xsltrun.build()
    if not ok_h:
        ctx.broken.append("xslt driver does not compile against the working tree: " + hlog[-400:])
        return
    cases, meta = [], {}
    for k, (kind, body) in enumerate(bodies(ctx)):
        for enc in (ENCODINGS if (ctx.thorough or k % 3 == 0) else [ENCODINGS[k % 3]]):
            if enc == "ISO-8859-1" and any(ord(ch) > 255 for ch in body):
                continue        # not representable: a reported error, which is what C04 asks for (checked by C04 proper)
            cid = "fx%d_%s" % (k, enc)
            cases.append({"id": cid, "sheet": sheet(kind, body, enc), "source": "<d/>"})
            meta[cid] = (kind, body, enc)
    res = xsltrun.run(cases, exe=exe)
    want = {}
    if ok_m:
        lines = ["%s %s %s" % (cid, kind, tok(body)) for cid, (kind, body, enc) in meta.items()]
        rc, mres, raw = core.run_lines_parallel(model, lines)
        want = {cid: untok(v.strip()) for cid, v in mres.items()}
    n_diff, n_bad, first_diff = 0, 0, None
    for cid, (kind, body, enc) in meta.items():
        ctx.cov["evaluations"] += 1
        ctx.count("xslt-guard:%s:%s" % ("comment" if kind == "c" else "pi", "needs-fixup" if (("--" in body or body.endswith("-")) if kind == "c" else "?>" in body) else "fine"))
        r = res.get(cid, ("crash",))
        what = None
        got = None
        if r[0] != "ok":
            what = "transformation did not succeed: %r" % (r[:3],)
        else:
            try:
                cs, ps = parse_back(r[1])
            except xml.parsers.expat.ExpatError as e:
                what = "output is not well-formed XML: %s" % e
            else:
                if kind == "c":
                    if len(cs) != 1:
                        what = "expected one comment, read back %d" % len(cs)
                    else:
                        got = cs[0]
                        if "--" in got or got.endswith("-"):
                            what = "comment data read back holds '--' or ends in '-': %r" % got
                else:
                    if len(ps) != 1 or ps[0][0] != "t":
                        what = "expected one processing instruction 't', read back %r" % (ps,)
                    else:
                        got = ps[0][1]
                        if "?>" in got:
                            what = "PI data read back holds '?>': %r" % got
                if what is None and not is_space_insertion(body, got):
                    what = "data read back is not the body with spaces inserted: body %r, read %r" % (body, got)
                if what is None and got != body and not (("--" in body or body.endswith("-")) if kind == "c" else "?>" in body):
                    what = "representable data was changed: body %r, read %r" % (body, got)
        if what is not None:
            n_bad += 1
            if n_bad <= 3:
                ctx.violation("xsltguard", "property C04 (instruction-level guard in front of the serializer)\n%s, encoding %s, body %r\n%s\nstylesheet:\n%s\nsource: <d/>\n"
                              % ("xsl:comment" if kind == "c" else "xsl:processing-instruction", enc, body, what, sheet(kind, body, enc)))
        if ok_m and got is not None and cid in want and want[cid] != got:
            n_diff += 1
            first_diff = first_diff or (kind, body, enc, want[cid], got)
        elif got is not None:
            ctx.cov["traces_validated_against_impl"] += 1
    if n_diff:
        ctx.broken.append("correspondence fixup: %d of %d cases differ between the extracted ElemComment/ElemPI loops and the library, e.g. %r"
                          % (n_diff, len(meta), first_diff))
    ctx.notes["xslt_guard_cases"] = len(meta)


def replay(ctx, path):
    """replay file written by run_part: re-run the stylesheet and show what the property demands"""
    txt = open(path).read()
    kind = "c" if "xsl:comment" in txt.split("\n")[1] else "p"
    sh = txt.split("stylesheet:\n", 1)[1].split("\nsource:", 1)[0]
    core.build_lib("plain")
    r = xsltrun.run([{"id": "r", "sheet": sh, "source": "<d/>"}])["r"]
    print("library:", r[0], (r[1][:300] if r[0] == "ok" else r[1:3]))
    if r[0] != "ok":
        print("FAILS the property: the transformation did not succeed")
        return 1
    try:
        cs, ps = parse_back(r[1])
    except xml.parsers.expat.ExpatError as e:
        print("FAILS the property: the output is not well-formed XML (%s)" % e)
        return 1
    data = (cs[0] if cs else None) if kind == "c" else (ps[0][1] if ps else None)
    bad = data is None or (("--" in data or data.endswith("-")) if kind == "c" else "?>" in data)
    print("read back:", repr(data), "-> FAILS the property" if bad else "-> as the property demands")
    return 1 if bad else 0
