(* FormsId.v - C05: the native builder's element-by-ID table holds, for every value, the first element in
   document order that carries an attribute declared ID with that value; with unique IDs it is exactly the
   list of the ID attributes (= DOMDocument::getElementById of a Xerces DOM). *)
From Coq Require Import NArith List Bool Lia.
Import ListNotations.
Require Import XV.GenForms XV.FormsDefs XV.FormsIdDefs.

Lemma str_eqb_refl : forall a, str_eqb a a = true.
Proof. induction a as [|x a IH]; [reflexivity|]. cbn [str_eqb]. rewrite N.eqb_refl, IH. reflexivity. Qed.

Lemma str_eqb_true : forall a b, str_eqb a b = true -> a = b.
Proof.
  induction a as [|x a IH]; destruct b as [|y b]; cbn [str_eqb]; intro H; try discriminate; [reflexivity|].
  apply andb_prop in H; destruct H as [H1 H2]. apply N.eqb_eq in H1. rewrite (IH _ H2), H1. reflexivity.
Qed.

(** * the table does not disturb the tree *)
Lemma run_ids_erase : forall evs st t st' t', run_ids st t evs = Some (st', t') -> run st (map erase evs) = Some st'.
Proof.
  induction evs as [|e r IH]; intros st t st' t' H; cbn [run_ids map run] in *.
  - inversion H; reflexivity.
  - destruct (step st (erase e)) as [st1|]; [|discriminate]. eapply IH; exact H.
Qed.

Lemma build_ids_tree : forall evs d t, build_ids evs = Some (d, t) -> build_sax (map erase evs) = Some d.
Proof.
  intros evs d t H. unfold build_ids in H. destruct (run_ids h_init [] evs) as [[st t0]|] eqn:E; [|discriminate].
  unfold build_sax. rewrite (run_ids_erase _ _ _ _ _ E). destruct (is_nil (h_stack st) && is_nil (h_buf st)); [|discriminate].
  inversion H; reflexivity.
Qed.

(** * insert-if-absent *)
Lemma lookup_app : forall t p v, id_lookup (t ++ [p]) v =
  match id_lookup t v with Some i => Some i | None => if str_eqb (fst p) v then Some (snd p) else None end.
Proof.
  induction t as [|[k i] t IH]; intros [pk pi] v; cbn [app id_lookup fst snd].
  - reflexivity.
  - destruct (str_eqb k v); [reflexivity | apply IH].
Qed.

Lemma lookup_insert : forall t p v, id_lookup (id_insert t p) v =
  match id_lookup t v with Some i => Some i | None => if str_eqb (fst p) v then Some (snd p) else None end.
Proof.
  intros t p v. unfold id_insert. destruct (id_lookup t (fst p)) as [j|] eqn:E.
  - destruct (id_lookup t v) eqn:Ev; [reflexivity|].
    destruct (str_eqb (fst p) v) eqn:Es; [|reflexivity]. apply str_eqb_true in Es. subst v. congruence.
  - apply lookup_app.
Qed.

(* the first registration for a value stays *)
Lemma lookup_fold : forall ps t v, id_lookup (fold_left id_insert ps t) v =
  match id_lookup t v with Some i => Some i | None => id_lookup ps v end.
Proof.
  induction ps as [|[k i] r IH]; intros t v; cbn [fold_left id_lookup].
  - destruct (id_lookup t v); reflexivity.
  - rewrite IH, lookup_insert. cbn [fst snd]. destruct (id_lookup t v); [reflexivity|]. destruct (str_eqb k v); reflexivity.
Qed.

Lemma lookup_none : forall t k, ~ In k (map fst t) -> id_lookup t k = None.
Proof.
  induction t as [|[k0 i] t IH]; intros k H; cbn [id_lookup]; [reflexivity|].
  destruct (str_eqb k0 k) eqn:E.
  - apply str_eqb_true in E. subst. exfalso. apply H. left. reflexivity.
  - apply IH. intro Hin. apply H. right. exact Hin.
Qed.

Lemma fold_unique : forall ps t, NoDup (map fst (t ++ ps)) -> fold_left id_insert ps t = t ++ ps.
Proof.
  induction ps as [|p r IH]; intros t H; cbn [fold_left].
  - rewrite app_nil_r. reflexivity.
  - assert (Hn : id_lookup t (fst p) = None).
    { apply lookup_none. rewrite map_app in H. cbn [map] in H. apply NoDup_remove_2 in H. intro Hin. apply H. apply in_or_app. left. exact Hin. }
    unfold id_insert at 2. rewrite Hn. rewrite IH; rewrite <- app_assoc; [reflexivity | exact H].
Qed.

Lemma fold_subset : forall ps t p, In p (fold_left id_insert ps t) -> In p t \/ In p ps.
Proof.
  induction ps as [|q r IH]; intros t p H; cbn [fold_left] in H; [left; exact H|].
  destruct (IH _ _ H) as [H1 | H1]; [|right; right; exact H1].
  unfold id_insert in H1. destruct (id_lookup t (fst q)); [left; exact H1|].
  apply in_app_or in H1. destruct H1 as [H1 | [H1 | []]]; [left; exact H1 | right; left; exact H1].
Qed.

(** * the table of a run = insert-if-absent over the ID attributes in document order *)
Lemma run_ids_table : forall evs st t st' t', run_ids st t evs = Some (st', t') ->
  t' = fold_left id_insert (all_id_pairs st evs) t.
Proof.
  induction evs as [|e r IH]; intros st t st' t' H; cbn [run_ids all_id_pairs] in *.
  - inversion H; reflexivity.
  - destruct (step st (erase e)) as [st1|]; [|discriminate]. rewrite fold_left_app.
    rewrite (IH _ _ _ _ H). destruct e as [q a | e0]; [|reflexivity].
    unfold id_pairs_of, is_id_type, id_type_exact. reflexivity.
Qed.

Lemma table_is_first : forall evs d t v, build_ids evs = Some (d, t) -> id_lookup t v = id_lookup (all_id_pairs h_init evs) v.
Proof.
  intros evs d t v H. unfold build_ids in H. destruct (run_ids h_init [] evs) as [[st t0]|] eqn:E; [|discriminate].
  destruct (is_nil (h_stack st) && is_nil (h_buf st)); [|discriminate]. inversion H; subst.
  rewrite (run_ids_table _ _ _ _ _ E), lookup_fold. reflexivity.
Qed.

Lemma table_unique : forall evs d t, build_ids evs = Some (d, t) -> unique_ids (all_id_pairs h_init evs) ->
  t = all_id_pairs h_init evs.
Proof.
  intros evs d t H Hu. unfold build_ids in H. destruct (run_ids h_init [] evs) as [[st t0]|] eqn:E; [|discriminate].
  destruct (is_nil (h_stack st) && is_nil (h_buf st)); [|discriminate]. inversion H; subst.
  rewrite (run_ids_table _ _ _ _ _ E). apply (fold_unique _ []). exact Hu.
Qed.

Lemma table_only_ids : forall evs d t p, build_ids evs = Some (d, t) -> In p t -> In p (all_id_pairs h_init evs).
Proof.
  intros evs d t p H Hin. unfold build_ids in H. destruct (run_ids h_init [] evs) as [[st t0]|] eqn:E; [|discriminate].
  destruct (is_nil (h_stack st) && is_nil (h_buf st)); [|discriminate]. inversion H; subst.
  rewrite (run_ids_table _ _ _ _ _ E) in Hin. destruct (fold_subset _ _ _ Hin) as [[] | H1]. exact H1.
Qed.
