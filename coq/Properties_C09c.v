(* Properties_C09c.v — C09 part "compile": obligations about the match-pattern compiler model (PatcDefs.v), the
   node-test / score model (PatcScoreDefs.v) and their composition with the matcher theorems of Properties_C09.v.
   Only statements, `exact`, Print Assumptions and Examples. *)
From Coq Require Import List NArith Bool Arith.
Import ListNotations.
Require Import XV.XpAst XV.GenXpc XV.GenPatc XV.XpcLexDefs XV.XpcParseDefs XV.PatcDefs XV.PatcScoreDefs.
Require Import XV.XpcPrintDefs XV.PatcPrintDefs XV.PatcSemDefs.
Require Import XV.PatcModel XV.PatcScoreModel XV.PatcPrintModel XV.PatcExprModel XV.PatcSemModel XV.PatcShapeModel XV.PatcRefuseModel.
Require XV.PatDefs XV.PatModel XV.TmplDefs XV.TmplShape.
Require Import XV.PatcTmplModel.

(** The pattern compiler never runs out of fuel: every token list / string is compiled or refused. *)
Theorem pattern_parse_fuel_sufficient : forall fl pf ns ts, pparse fl pf ns ts <> Fuel.
Proof. exact pparse_fuel_sufficient_m. Qed.
Print Assumptions pattern_parse_fuel_sufficient.

Theorem pattern_compile_total : forall fl pf ns s, pcompile fl pf ns s <> Fuel.
Proof. exact pcompile_total_m. Qed.
Print Assumptions pattern_compile_total.

(** Round trip: for every canonical compiled pattern (any head, any number of steps of the three step codes, predicates,
    unions; prefix-free) within the nesting limit, compiling its printed tokens returns the pattern: in particular the
    step code is eMATCH_ANY_ANCESTOR exactly where '//' follows a child step, and the PREDICATE_WITH_POSITION flags are
    those of the expression compiler. *)
Theorem pattern_parse_print : forall fl pf ns P, pcanon P = true -> dep_pattern P <= gen_xpc_max_nesting ->
  pparse fl pf ns (ppr P) = Ok P.
Proof. exact pattern_parse_print_m. Qed.
Print Assumptions pattern_parse_print.

(** The same tokens, compiled by the EXPRESSION compiler (XpcParseDefs.parse, C02c), give the expression the pattern
    abbreviates: root step for '/', descendant-or-self::node() for '//', child / attribute steps with the same node tests
    and predicates, the id()/key() call as filter-expression head, eOP_UNION over the alternatives. *)
Theorem pattern_as_expression : forall fl ns P, pcanon P = true -> S (dep_pattern P) <= gen_xpc_max_nesting ->
  parse fl ns (ppr P) = Ok (expr_of P).
Proof. exact pattern_as_expression_m. Qed.
Print Assumptions pattern_as_expression.

(** C09 end to end at token level.  For every canonical pattern P: its tokens compile as a pattern to P and as an
    expression to expr_of P, and for every interpretation of node tests / predicates / id-key node-sets (predicates whose
    compile-time flag is unset do not depend on position), every well-formed document and every node: the matcher run on
    the op codes the pattern compiler wrote says "match" iff some ancestor-or-self context makes the compiled expression
    select the node.  Uses Properties_C09.match_iff_select as a lemma. *)
Theorem compiled_pattern_matches_iff_expression_selects :
  forall fl pf ns P, pcanon P = true -> S (dep_pattern P) <= gen_xpc_max_nesting ->
  pparse fl pf ns (ppr P) = Ok P /\ parse fl ns (ppr P) = Ok (expr_of P) /\
  forall I D n, interp_ok I -> PatDefs.wf_doc D = true -> n < length D ->
    (pattern_matches I D P n = true <-> expr_selects I D (expr_of P) n).
Proof. exact compose_m. Qed.
Print Assumptions compiled_pattern_matches_iff_expression_selects.

(** the op codes the compiler wrote are the ones the matcher model of the main part derives from the surface path *)
Theorem compiled_op_codes_agree : forall I D a, canon_lp a = true ->
  PatDefs.compile D (path_of_lp I a) = compiled_of I D a.
Proof. exact compile_agree. Qed.
Print Assumptions compiled_op_codes_agree.

(** EVERY accepted token list: the compiled pattern has the shape the matcher expects (head codes in front,
    eMATCH_ANY_ANCESTOR_WITH_FUNCTION_CALL only behind the function, the three step codes, eMATCH_ANY_ANCESTOR never
    last), or is an empty alternative (K-patc-empty-alt). *)
Theorem compiled_pattern_well_shaped : forall fl pf ns ts P, pparse fl pf ns ts = Ok P ->
  Forall (fun a => a = [] \/ shape_lp a = true) P.
Proof. exact compiled_shape_m. Qed.
Print Assumptions compiled_pattern_well_shaped.

(** ... and therefore, for every accepted token list without an empty alternative, the matcher run on the op codes
    says "match" iff the path read back from the op codes selects the node from some ancestor-or-self context. *)
Theorem accepted_pattern_matches_iff_selects : forall fl pf ns ts P, pparse fl pf ns ts = Ok P -> no_empty_alt P = true ->
  forall I D n, interp_ok I -> PatDefs.wf_doc D = true -> n < length D ->
    (pattern_matches I D P n = true <-> PatDefs.selects D (map (path_of_lp I) P) n).
Proof. exact accepted_pattern_matches_iff_selects_m. Qed.
Print Assumptions accepted_pattern_matches_iff_selects.

(** What is refused (first step of the pattern): axes other than child / attribute, variable references, function calls
    other than id( / key( . *)
Theorem pattern_refuses_other_axis : forall fl pf ns name r,
  N.eqb (tokc [name]) ch_at = false -> N.eqb (tokc [name]) ch_solidus = false -> N.eqb (tokc [name]) ch_bar = false ->
  str_eqb name kw_child = false -> str_eqb name kw_attribute = false ->
  pparse fl pf ns (name :: gen_xpc_kw_axis_sep :: r) = Err.
Proof. exact refuses_other_axis_m. Qed.
Print Assumptions pattern_refuses_other_axis.
Theorem pattern_refuses_variable : forall fl pf ns r, ns [ch_dollar] = None -> pparse fl pf ns ([ch_dollar] :: r) = Err.
Proof. exact refuses_variable_m. Qed.
Print Assumptions pattern_refuses_variable.
Theorem pattern_refuses_function_call : forall fl pf ns name r,
  N.eqb (tokc [name]) ch_at = false -> N.eqb (tokc [name]) ch_solidus = false -> N.eqb (tokc [name]) ch_bar = false ->
  str_eqb name kw_id = false -> str_eqb name kw_key = false -> ntype_of_name name = None ->
  pparse fl pf ns (name :: [ch_lparen] :: r) = Err.
Proof. exact refuses_function_call_m. Qed.
Print Assumptions pattern_refuses_function_call.
Example refuses_descendant_axis : pparse flags_here pflags_here (fun _ => None) [[100%N; 101%N; 115%N; 99%N; 101%N; 110%N; 100%N; 97%N; 110%N; 116%N]; gen_xpc_kw_axis_sep; [97%N]] = Err.
Proof. vm_compute. reflexivity. Qed.

(* the hypotheses are satisfiable: a canonical pattern with every head and step kind,  id('x')//child::a[last()]/attribute::b | / | //child::*//child::text() *)
Definition ex_a : str := [97%N].
Definition ex_last : expr := EFunc [108%N; 97%N; 115%N; 116%N] [].
Definition ex_pattern : pattern :=
  [ [head_fn (EFunc kw_id [ELiteral [120%N]]); head_anyf; (PkImmediateAncestor, TName NsEmpty (Some ex_a), [(true, ex_last)]);
     (PkAttribute, TName NsEmpty (Some [98%N]), [])];
    [head_root];
    [head_anyp; (PkAnyAncestor, TName NsEmpty None, []); (PkImmediateAncestor, TText, [])] ].
Example ex_pattern_canon : pcanon ex_pattern = true /\ S (dep_pattern ex_pattern) <= gen_xpc_max_nesting.
Proof. split; [vm_compute; reflexivity|apply Nat.leb_le; vm_compute; reflexivity]. Qed.
Example ex_pattern_compiles : pparse flags_here pflags_here (fun _ => None) (ppr ex_pattern) = Ok ex_pattern.
Proof. vm_compute. reflexivity. Qed.
Definition ex_interp : interp :=
  mkI (fun _ => PatDefs.TWild) (fun p => PatDefs.mkP (fst p) false (fun _ _ _ => PatDefs.PB true)) (fun _ _ => true).
Example ex_interp_ok : interp_ok ex_interp.
Proof. intros p Hf n i s i' s'. reflexivity. Qed.

(** What the UNREPAIRED compiler accepts although it is not a Pattern (XSLT 1.0 section 5.2): witnesses of the four recorded
    leniencies (K-patc-empty-alt, K-patc-idkey-args, K-patc-triple-slash, K-patc-idkey-no-slash); with the three functions
    in the repaired shape (fixes/C09c/01_pattern_grammar.patch) the same token lists are refused, and no compiled pattern
    has an empty alternative whatever the input. *)
Definition tk (l : list N) : tok := l.
Definition t_bar := tk [124%N]. Definition t_sl := tk [47%N]. Definition t_lp := tk [40%N]. Definition t_rp := tk [41%N].
Definition t_a := tk [97%N]. Definition t_id := tk [105%N; 100%N]. Definition t_eq := tk [61%N].
Definition t_litx := tk [39%N; 120%N; 39%N].
Theorem pattern_alternatives_nonempty_refuted :
  exists ts P, pparse flags_here pflags_before (fun _ => None) ts = Ok P /\ no_empty_alt P = false.
Proof. exists [t_bar; t_a], [[]; [(PkImmediateAncestor, TName NsEmpty (Some [97%N]), [])]]. split; vm_compute; reflexivity. Qed.
Theorem pattern_alternatives_nonempty_partial : forall fl pf ns ts P,
  px_lpp pf = true -> pparse fl pf ns ts = Ok P -> no_empty_alt P = true.
Proof. exact alternatives_nonempty_fixed_m. Qed.
Print Assumptions pattern_alternatives_nonempty_partial.
Theorem idkey_arguments_are_literals_refuted :
  exists ts f, pparse flags_here pflags_before (fun _ => None) ts = Ok [[head_fn f]] /\
    (match f with EFunc _ [ELiteral _] => false | _ => true end) = true.
Proof.
  exists [t_id; t_lp; t_litx; t_eq; t_litx; t_rp], (EFunc [105%N; 100%N] [EEq (ELiteral [120%N]) (ELiteral [120%N])]).
  split; vm_compute; reflexivity.
Qed.
Theorem triple_slash_refused_refuted :
  exists P, pparse flags_here pflags_before (fun _ => None) [t_sl; t_sl; t_sl; t_a] = Ok P.
Proof. eexists. vm_compute. reflexivity. Qed.
Theorem idkey_head_needs_slash_refuted :
  exists P, pparse flags_here pflags_before (fun _ => None) [t_id; t_lp; t_litx; t_rp; t_a] = Ok P.
Proof. eexists. vm_compute. reflexivity. Qed.
Example leniencies_refused_when_repaired :
  pparse flags_here pflags_fixed (fun _ => None) [t_bar; t_a] = Err /\
  pparse flags_here pflags_fixed (fun _ => None) [t_a; t_bar] = Err /\
  pparse flags_here pflags_fixed (fun _ => None) [t_id; t_lp; t_litx; t_eq; t_litx; t_rp] = Err /\
  pparse flags_here pflags_fixed (fun _ => None) [t_id; t_lp; t_rp] = Err /\
  pparse flags_here pflags_fixed (fun _ => None) [t_sl; t_sl; t_sl; t_a] = Err /\
  pparse flags_here pflags_fixed (fun _ => None) [t_id; t_lp; t_litx; t_rp; t_a] = Err /\
  pparse flags_here pflags_fixed (fun _ => None) (ppr ex_pattern) = Ok ex_pattern.
Proof. repeat split; vm_compute; reflexivity. Qed.

(** Scores.  A node test of a compiled step (never eNODETYPE_ROOT) scores eMatchScoreNone exactly when the test function
    the NodeTester constructor picks refuses the node. *)
Theorem score_none_iff_no_match : forall t attr x, step_test t = true ->
  (node_test_score t attr x = ScNone <-> tester_accepts (pick_tester t attr) x = false).
Proof. exact score_none_iff_no_match_m. Qed.
Print Assumptions score_none_iff_no_match.

(** The class of a match depends only on the shape of the test (QName / NCName:* / other node tests): what XSLT 5.5
    default priorities are computed from. *)
Theorem score_class_by_test_shape : forall t attr x, step_test t = true ->
  node_test_score t attr x <> ScNone -> node_test_score t attr x = test_class t.
Proof. exact score_class_by_test_shape_m. Qed.
Print Assumptions score_class_by_test_shape.

(** A name test with a local part matches exactly the nodes of the principal node type whose expanded name equals the
    expanded name of the test (prefix replaced by its URI at compile time; no prefix = null namespace). *)
Theorem name_test_matches_iff_expanded_names_equal : forall t attr x u l,
  test_expanded_name t = Some (u, l) ->
  (node_test_score t attr x <> ScNone <-> principal attr (xkind x) = true /\ xns x = u /\ xlocal x = l).
Proof. exact name_test_matches_iff_expanded_names_equal_m. Qed.
Print Assumptions name_test_matches_iff_expanded_names_equal.

(** Run time = compile time: for a one-step alternative without predicates the score of a matching node is the class
    getTargetData reports for the alternative. *)
Theorem single_step_score_is_target_class : forall k t x sc, step_test t = true ->
  (k = PkAttribute \/ k = PkImmediateAncestor) ->
  single_step_score (k, t, []) x = Some sc -> sc <> ScNone -> sc = target_class [(k, t, [])].
Proof. exact single_step_score_is_target_class_m. Qed.
Print Assumptions single_step_score_is_target_class.

(** C10 link: the class of a compiled alternative is the score C10's template model derives for its shape from the same
    getTargetData (GenTmpl) — whose value Properties_C10.default_priority_correct proves to be the default priority of
    XSLT 1.0 section 5.5. *)
Theorem target_class_is_template_score : forall a sh, shape_lp a = true -> tshape_of a = Some sh ->
  tmpl_score (target_class a) = snd (TmplShape.target_data sh).
Proof. exact target_class_is_tmpl_score_m. Qed.
Print Assumptions target_class_is_template_score.

Example score_qname : node_test_score (TName (NsUri [117%N]) (Some [97%N])) false (mkX NkElem [117%N] [97%N]) = ScQName.
Proof. reflexivity. Qed.
Example score_nswild : node_test_score (TName (NsUri [117%N]) None) true (mkX NkAttr [117%N] [97%N]) = ScNSWild.
Proof. reflexivity. Qed.
Example score_other_ns : node_test_score (TName NsEmpty (Some [97%N])) false (mkX NkElem [117%N] [97%N]) = ScNone.
Proof. reflexivity. Qed.
