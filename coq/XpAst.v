(* XpAst.v — abstract syntax of compiled XPath expressions and XSLT match patterns, shaped like
   the op-code map XPathProcessorImpl produces (XPathExpression.hpp eOpCodes):
   n-ary union, LOCATIONPATH wrappers around filter expressions, PREDICATE_WITH_POSITION flag,
   MATCH_* step kinds for patterns.  Shared by the compiler model (XpLex/XpParse), the
   interpreter model (XpEval), the specification (XpSpec) and the pattern matcher (Pattern). *)
From Coq Require Import NArith List.
Import ListNotations.

Definition str := list N.          (* UTF-16 code units *)

(* eFROM_* op codes *)
Inductive axis :=
  | AxAncestor | AxAncestorOrSelf | AxAttribute | AxChild | AxDescendant | AxDescendantOrSelf
  | AxFollowing | AxFollowingSibling | AxParent | AxPreceding | AxPrecedingSibling | AxSelf
  | AxNamespace
  | AxRoot.                         (* eFROM_ROOT: the leading '/' of an absolute path *)

(* first component of an eNODENAME test: eEMPTY (no prefix), eELEMWILDCARD ("*:" is not XPath 1.0
   but the op map can hold it), or the namespace URI the prefix was replaced by at compile time *)
Inductive nsq := NsEmpty | NsAny | NsUri (uri : str).

(* node tests *)
Inductive ntest :=
  | TComment                         (* eNODETYPE_COMMENT *)
  | TText                            (* eNODETYPE_TEXT *)
  | TPi (target : option str)        (* eNODETYPE_PI, optional literal *)
  | TNode                            (* eNODETYPE_NODE *)
  | TName (ns : nsq) (local : option str)   (* eNODENAME ns (name | eELEMWILDCARD); None = '*' *)
  | TRoot.                           (* eNODETYPE_ROOT *)

Inductive expr :=
  | EOr (a b : expr) | EAnd (a b : expr)
  | ENe (a b : expr) | EEq (a b : expr)
  | ELte (a b : expr) | ELt (a b : expr) | EGte (a b : expr) | EGt (a b : expr)
  | EPlus (a b : expr) | EMinus (a b : expr)
  | EMult (a b : expr) | EDiv (a b : expr) | EMod (a b : expr)
  | ENeg (a : expr)
  | EUnion (l : list expr)           (* eOP_UNION, n-ary, in source order *)
  | ELiteral (s : str)               (* eOP_LITERAL: the string without its quotes *)
  | EVar (ns local : str)            (* eOP_VARIABLE: namespace URI ("" if none) and local name *)
  | EGroup (e : expr)                (* eOP_GROUP: parenthesised expression *)
  | ENumLit (tok : str)              (* eOP_NUMBERLIT: the token text; value = toDouble(tok) *)
  | EFunc (name : str) (args : list expr)            (* eOP_FUNCTION_* and eOP_FUNCTION id *)
  | EExtFunc (ns name : str) (args : list expr)      (* eOP_EXTFUNCTION *)
  | EPath (head : option expr) (hpreds : list (bool * expr)) (steps : list (axis * ntest * list (bool * expr))).
      (* eOP_LOCATIONPATH: an optional filter-expression head (primary expression) with its own
         predicates, then location steps; each predicate carries the PREDICATE_WITH_POSITION flag *)

Definition pred := (bool * expr)%type.
Definition step := (axis * ntest * list pred)%type.

(* match patterns: eOP_MATCHPATTERN holding one eOP_LOCATIONPATHPATTERN per union alternative *)
Inductive pstep_kind :=
  | PkRoot                           (* eFROM_ROOT *)
  | PkAttribute                      (* eMATCH_ATTRIBUTE *)
  | PkImmediateAncestor              (* eMATCH_IMMEDIATE_ANCESTOR: step reached through '/' (or first) *)
  | PkAnyAncestor                    (* eMATCH_ANY_ANCESTOR: step reached through '//' *)
  | PkAnyAncestorWithPredicate       (* eMATCH_ANY_ANCESTOR_WITH_PREDICATE *)
  | PkAnyAncestorWithFunctionCall    (* eMATCH_ANY_ANCESTOR_WITH_FUNCTION_CALL *)
  | PkFunction (f : expr).           (* id()/key() head: eOP_FUNCTION in step position *)

Definition pstep := (pstep_kind * ntest * list pred)%type.

(* one alternative: steps in source (left-to-right) order *)
Definition lpattern := list pstep.
Definition pattern := list lpattern.

(* size measure for well-founded recursion / induction over the nested lists *)
Fixpoint expr_size (e : expr) : nat :=
  let preds_size := fix ps (l : list (bool * expr)) : nat :=
    match l with [] => 0 | (_, p) :: r => S (expr_size p + ps r) end in
  match e with
  | EOr a b | EAnd a b | ENe a b | EEq a b | ELte a b | ELt a b | EGte a b | EGt a b
  | EPlus a b | EMinus a b | EMult a b | EDiv a b | EMod a b => S (expr_size a + expr_size b)
  | ENeg a | EGroup a => S (expr_size a)
  | EUnion l | EFunc _ l | EExtFunc _ _ l =>
      S ((fix ls (l : list expr) : nat := match l with [] => 0 | x :: r => S (expr_size x + ls r) end) l)
  | ELiteral _ | EVar _ _ | ENumLit _ => 1
  | EPath h hp st =>
      S ((match h with Some x => expr_size x | None => 0 end) + preds_size hp +
         (fix ss (l : list (axis * ntest * list (bool * expr))) : nat :=
            match l with [] => 0 | (_, _, ps) :: r => S (preds_size ps + ss r) end) st)
  end.
