(* XpCpTrModel.v -- translate() over characters (XpCpDefs.v cp_translate) = the translate of the
   unit model applied to the code points, and encode / decode. *)
From Coq Require Import ZArith NArith Lia List Bool Arith SpecFloat ZifyBool ZifyNat ZifyN.
Require Import XV.GenNum XV.NumDefs XV.XpAst XV.DomDefs XV.XpDefs XV.XpCpDefs XV.XpCpModel.
Import ListNotations.

Ltac Zify.zify_post_hook ::= Z.to_euclidean_division_equations.

(** * encode after decode *)
Lemma encode1_group_value : forall g, valid_group g = true -> encode1 (group_value g) = g.
Proof.
  intros g V. destruct g as [|h [|l [|x r]]]; try discriminate.
  - cbn [valid_group group_value] in *. unfold encode1, is_u16 in *. rewrite V. reflexivity.
  - cbn [valid_group group_value] in *. unfold encode1, pair_value, is_pair, is_high, is_low in *.
    destruct (N.ltb_spec (65536 + (h - 55296) * 1024 + (l - 56320)) 65536); [lia|].
    f_equal; [|f_equal]; lia.
Qed.

Lemma group_value_inj : forall a b, valid_group a = true -> valid_group b = true ->
  group_value a = group_value b -> a = b.
Proof.
  intros a b Va Vb E. rewrite <- (encode1_group_value a Va), <- (encode1_group_value b Vb), E. reflexivity.
Qed.

Lemma group_eqb_spec : forall a b, group_eqb a b = true <-> a = b.
Proof.
  induction a as [|x a IH]; intros [|y b]; cbn [group_eqb]; split; intros H; try discriminate; try reflexivity.
  - apply andb_true_iff in H. destruct H as [H1 H2]. apply N.eqb_eq in H1. apply IH in H2. congruence.
  - injection H as -> ->. rewrite N.eqb_refl. apply IH. reflexivity.
Qed.

Lemma group_eqb_value : forall a b, valid_group a = true -> valid_group b = true ->
  group_eqb a b = N.eqb (group_value a) (group_value b).
Proof.
  intros a b Va Vb. destruct (group_eqb a b) eqn:E.
  - apply group_eqb_spec in E. subst. symmetry. apply N.eqb_refl.
  - symmetry. apply N.eqb_neq. intros Q. apply group_value_inj in Q; try assumption.
    subst. assert (group_eqb b b = true) by (apply group_eqb_spec; reflexivity). congruence.
Qed.

Lemma encode_map_group_value : forall gs, forallb valid_group gs = true ->
  encode (map group_value gs) = concat gs.
Proof.
  induction gs as [|g gs IH]; intros V; [reflexivity|].
  cbn [forallb] in V. apply andb_true_iff in V. destruct V as [V1 V2].
  cbn [map encode flat_map concat]. rewrite encode1_group_value by exact V1. f_equal. apply IH. exact V2.
Qed.

Theorem encode_decode : forall s, forallb is_u16 s = true -> encode (decode s) = s.
Proof.
  intros s U. rewrite decode_chars, encode_map_group_value by (apply chars_valid; exact U).
  apply concat_chars.
Qed.

(** * translate() *)
Lemma index_of_group_value : forall fs g, forallb valid_group fs = true -> valid_group g = true ->
  index_of_group fs g = index_of_char (map group_value fs) (group_value g).
Proof.
  induction fs as [|x fs IH]; intros g Vf Vg; [reflexivity|].
  cbn [forallb] in Vf. apply andb_true_iff in Vf. destruct Vf as [V1 V2].
  cbn [index_of_group map index_of_char]. rewrite (group_eqb_value x g V1 Vg), (IH g V2 Vg). reflexivity.
Qed.

Lemma nth_error_forallb : forall A (f : A -> bool) l k x, forallb f l = true -> nth_error l k = Some x -> f x = true.
Proof.
  intros A f l k x F H. rewrite forallb_forall in F. apply F. eapply nth_error_In. exact H.
Qed.

Lemma cp_translate_chars_encode : forall s from to,
  forallb is_u16 s = true -> forallb is_u16 from = true -> forallb is_u16 to = true ->
  cp_translate_chars s from to = encode (f_translate (decode s) (decode from) (decode to)).
Proof.
  intros s from to Us Uf Ut. unfold cp_translate_chars, f_translate.
  rewrite (decode_chars s), (decode_chars from), (decode_chars to).
  assert (Vs := chars_valid s Us). assert (Vf := chars_valid from Uf). assert (Vt := chars_valid to Ut).
  induction (chars s) as [|g cs IH]; [reflexivity|].
  cbn [forallb] in Vs. apply andb_true_iff in Vs. destruct Vs as [Vg Vs].
  cbn [map flat_map]. unfold encode in *. rewrite flat_map_app. rewrite <- (IH Vs). f_equal.
  rewrite <- (index_of_group_value (chars from) g Vf Vg).
  destruct (index_of_group (chars from) g) as [k|].
  - rewrite nth_error_map. destruct (nth_error (chars to) k) as [r|] eqn:En; cbn [option_map flat_map].
    + rewrite app_nil_r. symmetry. apply encode1_group_value. eapply nth_error_forallb; eassumption.
    + reflexivity.
  - cbn [flat_map]. rewrite app_nil_r. symmetry. apply encode1_group_value. exact Vg.
Qed.

Lemma f_translate_forallb : forall (P : N -> bool) s from to,
  forallb P s = true -> forallb P to = true -> forallb P (f_translate s from to) = true.
Proof.
  intros P s from to Hs Ht. unfold f_translate. induction s as [|c s IH]; [reflexivity|].
  cbn [forallb] in Hs. apply andb_true_iff in Hs. destruct Hs as [Hc Hs].
  cbn [flat_map]. rewrite forallb_app, (IH Hs), andb_true_r.
  destruct (index_of_char from c) as [i|].
  - destruct (nth_error to i) as [r|] eqn:En; [|reflexivity]. cbn [forallb]. rewrite andb_true_r.
    eapply nth_error_forallb; eassumption.
  - cbn [forallb]. rewrite Hc. reflexivity.
Qed.

Lemma encode_u16 : forall l, forallb is_u16 l = true -> encode l = l.
Proof.
  induction l as [|c l IH]; intros U; [reflexivity|].
  cbn [forallb] in U. apply andb_true_iff in U. destruct U as [U1 U2].
  cbn [encode flat_map]. unfold encode1. unfold is_u16 in U1. rewrite U1. cbn [app]. f_equal. apply IH. exact U2.
Qed.

(* translate of this tree = the translate of the Recommendation on the characters, for ALL
   strings of 16-bit units (ill-formed ones included) *)
Theorem cp_translate_encode : forall s from to,
  forallb is_u16 s = true -> forallb is_u16 from = true -> forallb is_u16 to = true ->
  cp_translate s from to = encode (f_translate (decode s) (decode from) (decode to)).
Proof.
  intros s from to Us Uf Ut. unfold cp_translate.
  destruct (no_pairs s && no_pairs from && no_pairs to) eqn:E.
  - unfold no_pairs in E.
    rewrite !no_pairs_decode by lia. symmetry. apply encode_u16. apply f_translate_forallb; assumption.
  - apply cp_translate_chars_encode; assumption.
Qed.

(* the fast path is only a short cut *)
Theorem cp_translate_no_pairs : forall s from to,
  forallb is_u16 s = true -> forallb is_u16 from = true -> forallb is_u16 to = true ->
  count_pairs s = 0 -> count_pairs from = 0 -> count_pairs to = 0 ->
  cp_translate_chars s from to = f_translate s from to /\ cp_translate s from to = f_translate s from to.
Proof.
  intros s from to Us Uf Ut Cs Cf Ct. split.
  - rewrite cp_translate_chars_encode by assumption. rewrite !no_pairs_decode by assumption.
    apply encode_u16. apply f_translate_forallb; assumption.
  - unfold cp_translate, no_pairs. rewrite Cs, Cf, Ct. reflexivity.
Qed.

(** * decode after encode: scalar values *)
Definition is_scalar (c : N) : bool := (c <? 1114112)%N && negb (is_surrogate c).

Lemma decode_encode : forall l, forallb is_scalar l = true -> decode (encode l) = l.
Proof.
  induction l as [|c l IH]; intros S; [reflexivity|].
  cbn [forallb] in S. apply andb_true_iff in S. destruct S as [Sc Sl].
  cbn [encode flat_map]. fold (encode l). unfold encode1.
  destruct (N.ltb_spec c 65536) as [Lt|Ge].
  - cbn [app]. rewrite decode_single; [rewrite (IH Sl); reflexivity|].
    cbn [starts_pair]. destruct (encode l); [reflexivity|].
    unfold is_scalar, is_surrogate, is_pair, is_high, is_low in *. lia.
  - cbn [app]. unfold is_scalar in Sc.
    rewrite decode_pair; [rewrite (IH Sl); f_equal; unfold pair_value; lia|].
    unfold is_pair, is_high, is_low. lia.
Qed.

Lemma decode_scalar : forall s, forallb is_u16 s = true -> well_formed s = true -> forallb is_scalar (decode s) = true.
Proof.
  induction s as [|h l r E IHs|h r E IHs] using cp_ind; intros U W.
  - reflexivity.
  - rewrite decode_pair by assumption. rewrite well_formed_pair in W by assumption.
    cbn [forallb] in U. apply andb_true_iff in U. destruct U as [Uh U].
    apply andb_true_iff in U. destruct U as [Ul U].
    cbn [forallb]. rewrite (IHs U W), andb_true_r.
    unfold is_scalar, is_surrogate, pair_value, is_pair, is_high, is_low, is_u16 in *. lia.
  - rewrite decode_single by assumption. rewrite well_formed_single in W by assumption.
    cbn [forallb] in U. apply andb_true_iff in U. destruct U as [Uh U].
    apply andb_true_iff in W. destruct W as [Wh W].
    cbn [forallb]. rewrite (IHs U W), andb_true_r.
    unfold is_scalar, is_u16 in *. rewrite Wh. lia.
Qed.

(* on well-formed UTF-16 the code points of the result are the Recommendation's translate *)
Theorem cp_translate_decode : forall s from to,
  forallb is_u16 s = true -> forallb is_u16 from = true -> forallb is_u16 to = true ->
  well_formed s = true -> well_formed to = true ->
  decode (cp_translate s from to) = f_translate (decode s) (decode from) (decode to).
Proof.
  intros s from to Us Uf Ut Ws Wt. rewrite cp_translate_encode by assumption.
  apply decode_encode. apply f_translate_forallb; apply decode_scalar; assumption.
Qed.

Lemma encode_well_formed : forall l, forallb is_scalar l = true -> well_formed (encode l) = true.
Proof.
  induction l as [|c l IH]; intros S; [reflexivity|].
  cbn [forallb] in S. apply andb_true_iff in S. destruct S as [Sc Sl].
  cbn [encode flat_map]. fold (encode l). unfold encode1.
  destruct (N.ltb_spec c 65536) as [Lt|Ge].
  - cbn [app]. rewrite well_formed_single; [rewrite (IH Sl), andb_true_r; unfold is_scalar in Sc; apply andb_true_iff in Sc; tauto|].
    cbn [starts_pair]. destruct (encode l); [reflexivity|].
    unfold is_scalar, is_surrogate, is_pair, is_high, is_low in *. lia.
  - cbn [app]. unfold is_scalar in Sc.
    rewrite well_formed_pair; [exact (IH Sl)|]. unfold is_pair, is_high, is_low. lia.
Qed.

Theorem cp_translate_well_formed : forall s from to,
  forallb is_u16 s = true -> forallb is_u16 from = true -> forallb is_u16 to = true ->
  well_formed s = true -> well_formed to = true ->
  well_formed (cp_translate s from to) = true.
Proof.
  intros s from to Us Uf Ut Ws Wt. rewrite cp_translate_encode by assumption.
  apply encode_well_formed. apply f_translate_forallb; apply decode_scalar; assumption.
Qed.
