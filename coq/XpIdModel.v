(* XpIdModel.v — lemmas about the id() mechanism model XpIdDefs.v *)
From Coq Require Import NArith List Bool Arith Lia Sorted.
Require Import XV.XpAst XV.DomDefs XV.XpDefs XV.XpModel XV.GenXpId XV.XpIdDefs.
Import ListNotations.

(** * strings *)
Lemma sid_eqb_refl a : str_eqb a a = true.
Proof. induction a as [|x a IH]; cbn; [reflexivity|]. rewrite N.eqb_refl, IH. reflexivity. Qed.

Lemma sid_eqb_eq a b : str_eqb a b = true -> a = b.
Proof.
  revert b; induction a as [|x a IH]; destruct b as [|y b]; cbn; try discriminate; [reflexivity|].
  intros H. apply andb_true_iff in H. destruct H as [H1 H2].
  apply N.eqb_eq in H1. subst y. rewrite (IH _ H2). reflexivity.
Qed.

Lemma sid_eqb_iff a b : str_eqb a b = true <-> a = b.
Proof. split; [apply sid_eqb_eq|intros ->; apply sid_eqb_refl]. Qed.

Lemma sid_eqb_neq a b : str_eqb a b = false <-> a <> b.
Proof.
  split.
  - intros H E. subst b. rewrite sid_eqb_refl in H. discriminate.
  - intros H. destruct (str_eqb a b) eqn:E; [|reflexivity]. apply sid_eqb_eq in E. contradiction.
Qed.

(** * the type test: consumes the generated facts *)
(* the test of XalanSourceTreeDocument::createAttributes accepts exactly the type string "ID" *)
Lemma is_id_type_exact t : is_id_type t = true <-> t = s_ID.
Proof. unfold is_id_type. change gen_id_type_terminated with true. cbv iota. change gen_id_type_chars with s_ID. apply sid_eqb_iff. Qed.

(** * the table *)
Fixpoint assoc_first (l : list (str * nat)) (k : str) : option nat :=
  match l with
  | [] => None
  | (q, e) :: r => if str_eqb k q then Some e else assoc_first r k
  end.

Lemma tbl_find_assoc t k : tbl_find t k = assoc_first t k.
Proof. induction t as [|[q e] r IH]; cbn; [reflexivity|]. rewrite IH. reflexivity. Qed.

Lemma assoc_first_app a b k :
  assoc_first (a ++ b) k = match assoc_first a k with Some x => Some x | None => assoc_first b k end.
Proof. induction a as [|[q e] r IH]; cbn; [reflexivity|]. destruct (str_eqb k q); [reflexivity|apply IH]. Qed.

(* insert() keeps the element of a key that is already there *)
Lemma tbl_find_insert t k' e' k :
  tbl_find (tbl_insert t k' e') k =
  match tbl_find t k with Some x => Some x | None => if str_eqb k k' then Some e' else None end.
Proof.
  unfold tbl_insert. change gen_id_insert_keeps_first with true. cbv iota.
  destruct (tbl_find t k') eqn:F.
  - destruct (tbl_find t k) eqn:G; [reflexivity|].
    destruct (str_eqb k k') eqn:E; [|reflexivity].
    apply sid_eqb_eq in E. subst k'. rewrite F in G. discriminate.
  - rewrite !tbl_find_assoc, assoc_first_app. rewrite <- !tbl_find_assoc.
    destruct (tbl_find t k); [reflexivity|]. cbn. reflexivity.
Qed.

Lemma tbl_find_fold evs : forall t k,
  tbl_find (fold_left (fun t kv => tbl_insert t (fst kv) (snd kv)) evs t) k =
  match tbl_find t k with Some x => Some x | None => assoc_first evs k end.
Proof.
  induction evs as [|[q e] r IH]; intros t k; cbn [fold_left fst snd assoc_first].
  - destruct (tbl_find t k); reflexivity.
  - rewrite IH, tbl_find_insert. destruct (tbl_find t k); [reflexivity|].
    destruct (str_eqb k q); reflexivity.
Qed.

Lemma build_table_first d ty k : tbl_find (build_table d ty) k = assoc_first (id_events d ty) k.
Proof. unfold build_table. rewrite tbl_find_fold. reflexivity. Qed.

(* first match in a concatenation of per-index event lists whose entries carry their index *)
Section FirstSeq.
  Variable f : nat -> list (str * nat).
  Variable k : str.
  Hypothesis own : forall i x, assoc_first (f i) k = Some x -> x = i.

  Lemma first_seq_sound : forall len start e,
    assoc_first (flat_map f (seq start len)) k = Some e ->
    start <= e < start + len /\ assoc_first (f e) k = Some e /\
    forall j, start <= j < e -> assoc_first (f j) k = None.
  Proof.
    induction len as [|len IH]; intros start e H; cbn in H; [discriminate|].
    rewrite assoc_first_app in H. destruct (assoc_first (f start) k) eqn:F.
    - inversion H; subst n. pose proof (own _ _ F) as ->.
      split; [lia|]. split; [exact F|]. intros j Hj. lia.
    - apply IH in H. destruct H as (H1 & H2 & H3).
      split; [lia|]. split; [exact H2|].
      intros j Hj. destruct (Nat.eq_dec j start) as [->|N]; [exact F|]. apply H3. lia.
  Qed.

  Lemma first_seq_complete : forall len start e,
    start <= e < start + len -> assoc_first (f e) k = Some e ->
    (forall j, start <= j < e -> assoc_first (f j) k = None) ->
    assoc_first (flat_map f (seq start len)) k = Some e.
  Proof.
    induction len as [|len IH]; intros start e H1 H2 H3; [lia|].
    cbn. rewrite assoc_first_app. destruct (Nat.eq_dec e start) as [->|N].
    - rewrite H2. reflexivity.
    - rewrite (H3 start) by lia. apply IH; [lia|exact H2|]. intros j Hj. apply H3. lia.
  Qed.
End FirstSeq.

Lemma assoc_first_map_some (g : nat -> str) e l k x :
  assoc_first (map (fun a => (g a, e)) l) k = Some x -> x = e /\ exists a, In a l /\ g a = k.
Proof.
  induction l as [|a r IH]; cbn; [discriminate|].
  destruct (str_eqb k (g a)) eqn:E.
  - intros H; inversion H; subst. apply sid_eqb_eq in E. split; [reflexivity|]. exists a. split; [left; reflexivity|symmetry; exact E].
  - intros H. destruct (IH H) as (H1 & a' & H2 & H3). split; [exact H1|]. exists a'. split; [right; exact H2|exact H3].
Qed.

Lemma assoc_first_map_none (g : nat -> str) e l k :
  assoc_first (map (fun a => (g a, e)) l) k = None <-> forall a, In a l -> g a <> k.
Proof.
  induction l as [|a r IH]; cbn.
  - split; [intros _ a []|reflexivity].
  - destruct (str_eqb k (g a)) eqn:E.
    + split; [discriminate|]. intros H. apply sid_eqb_eq in E. exfalso. apply (H a); [left; reflexivity|symmetry; exact E].
    + rewrite IH. apply sid_eqb_neq in E. split.
      * intros H a' [<-|Ha]; [intros X; apply E; symmetry; exact X|apply H; exact Ha].
      * intros H a' Ha. apply H. right; exact Ha.
Qed.

(* the registrations of element e mention value v exactly when e has v as an ID *)
Lemma elem_events_has_id d ty e v :
  (exists x, assoc_first (elem_events d ty e) v = Some x) <-> has_id d ty e v.
Proof.
  unfold elem_events, has_id. destruct (n_kind (get d e)) eqn:K; cbn [nkind_eqb];
    try (split; [intros [x H]; cbn in H; discriminate | intros [H _]; discriminate]).
  split.
  - intros [x H]. apply assoc_first_map_some in H. destruct H as (_ & a & Ha & Hv).
    apply filter_In in Ha. destruct Ha as [Ha Ht]. apply is_id_type_exact in Ht.
    split; [reflexivity|]. exists a. auto.
  - intros (_ & a & Ha & Ht & Hv).
    destruct (assoc_first (map (fun a0 => (n_value (get d a0), e)) (filter (fun a0 => is_id_type (ty a0)) (n_attrs (get d e)))) v) eqn:F.
    + exists n. reflexivity.
    + exfalso. rewrite assoc_first_map_none in F. apply (F a); [|exact Hv].
      apply filter_In. split; [exact Ha|]. apply is_id_type_exact. exact Ht.
Qed.

Lemma elem_events_own d ty v i x : assoc_first (elem_events d ty i) v = Some x -> x = i.
Proof.
  unfold elem_events. destruct (nkind_eqb (n_kind (get d i)) KElem); [|cbn; discriminate].
  intros H. apply assoc_first_map_some in H. tauto.
Qed.

Lemma elem_events_none d ty e v : assoc_first (elem_events d ty e) v = None <-> ~ has_id d ty e v.
Proof.
  rewrite <- elem_events_has_id. split.
  - intros H [x Hx]. rewrite H in Hx. discriminate.
  - intros H. destruct (assoc_first (elem_events d ty e) v) eqn:F; [|reflexivity]. exfalso. apply H. exists n. reflexivity.
Qed.

Lemma has_id_in_table d ty e v : has_id d ty e v -> e < length d.
Proof.
  intros [K _]. destruct (Nat.lt_ge_cases e (length d)) as [H|H]; [exact H|].
  unfold get in K. rewrite nth_overflow in K by exact H. cbn in K. discriminate.
Qed.

(* (a) the table maps a value to the FIRST element in document order that has it as an ID *)
Theorem table_finds_first d ty v e :
  tbl_find (build_table d ty) v = Some e <-> unique_id d ty e v.
Proof.
  rewrite build_table_first. unfold id_events, unique_id. split.
  - intros H. apply (first_seq_sound _ _ (elem_events_own d ty v)) in H.
    destruct H as (_ & H2 & H3). split.
    + apply elem_events_has_id. exists e. exact H2.
    + intros e' He'. apply elem_events_none. apply H3. lia.
  - intros [H1 H2]. apply first_seq_complete.
    + pose proof (has_id_in_table _ _ _ _ H1). lia.
    + apply elem_events_has_id in H1. destruct H1 as [x Hx]. rewrite Hx. f_equal. eapply elem_events_own. exact Hx.
    + intros j Hj. apply elem_events_none. apply H2. lia.
Qed.

Theorem table_none d ty v :
  tbl_find (build_table d ty) v = None <-> forall e, ~ has_id d ty e v.
Proof.
  split.
  - intros H e He.
    (* take the least such element *)
    assert (L : exists m, unique_id d ty m v).
    { revert He. induction e as [e IH] using lt_wf_ind. intros He.
      destruct (tbl_find (build_table d ty) v) eqn:F; [discriminate|].
      (* decide whether an earlier one exists using the table-free first_seq machinery *)
      destruct (assoc_first (id_events d ty) v) eqn:G.
      - rewrite build_table_first in F. rewrite F in G. discriminate.
      - exfalso. clear IH. unfold id_events in G.
        assert (C : forall len start, assoc_first (flat_map (elem_events d ty) (seq start len)) v = None ->
                     forall j, start <= j < start + len -> assoc_first (elem_events d ty j) v = None).
        { induction len as [|len IHl]; intros start HN j Hj; [lia|].
          cbn in HN. rewrite assoc_first_app in HN. destruct (assoc_first (elem_events d ty start) v) eqn:S0; [discriminate|].
          destruct (Nat.eq_dec j start) as [->|N]; [exact S0|]. apply (IHl (S start) HN). lia. }
        pose proof (C _ _ G e) as X. pose proof (has_id_in_table _ _ _ _ He).
        apply elem_events_none in X; [contradiction|lia]. }
    destruct L as [m Hm]. apply table_finds_first in Hm. rewrite H in Hm. discriminate.
  - intros H. destruct (tbl_find (build_table d ty) v) eqn:F; [|reflexivity].
    apply table_finds_first in F. destruct F as [F _]. exfalso. exact (H _ F).
Qed.

(* never an element that carries the value only in attributes that are not of type ID *)
Corollary table_only_id_typed d ty v e :
  tbl_find (build_table d ty) v = Some e ->
  exists a, In a (n_attrs (get d e)) /\ ty a = s_ID /\ n_value (get d a) = v.
Proof. intros H. apply table_finds_first in H. destruct H as [[_ H] _]. exact H. Qed.

(** * FunctionID *)
Lemma lookup_add_In tbl acc t x :
  In x (lookup_add tbl acc t) <-> In x acc \/ tbl_find tbl t = Some x.
Proof.
  unfold lookup_add. destruct (tbl_find tbl t) eqn:F.
  - rewrite insert_sorted_In. split; [intros [->|H]; auto|intros [H|H]; [auto|inversion H; auto]].
  - split; [auto|intros [H|H]; [exact H|discriminate]].
Qed.

Lemma id_tokens_fold_In tbl toks : forall acc x,
  In x (fold_left (lookup_add tbl) toks acc) <-> In x acc \/ exists t, In t toks /\ tbl_find tbl t = Some x.
Proof.
  induction toks as [|t r IH]; intros acc x; cbn [fold_left].
  - split; [auto|intros [H|[t [[] _]]]; exact H].
  - rewrite IH, lookup_add_In. split.
    + intros [[H|H]|[t' [H1 H2]]]; [auto| right; exists t; split; [left; reflexivity|exact H] | right; exists t'; split; [right; exact H1|exact H2]].
    + intros [H|[t' [[<-|H1] H2]]]; [auto|auto|right; exists t'; auto].
Qed.

Lemma id_tokens_In tbl toks x : In x (id_tokens tbl toks) <-> exists t, In t toks /\ tbl_find tbl t = Some x.
Proof. unfold id_tokens. rewrite id_tokens_fold_In. split; [intros [[]|H]; exact H|auto]. Qed.

Lemma id_tokens_fold_ordered tbl toks : forall acc, ordered acc -> ordered (fold_left (lookup_add tbl) toks acc).
Proof.
  induction toks as [|t r IH]; intros acc H; cbn [fold_left]; [exact H|].
  apply IH. unfold lookup_add. destruct (tbl_find tbl t); [apply insert_sorted_ordered; exact H|exact H].
Qed.

Lemma id_tokens_ordered tbl toks : ordered (id_tokens tbl toks).
Proof. apply id_tokens_fold_ordered, ordered_nil. Qed.

(* (b) the result depends only on the SET of tokens: order and multiplicity are irrelevant *)
Theorem id_tokens_set tbl toks toks' :
  (forall t, In t toks <-> In t toks') -> id_tokens tbl toks = id_tokens tbl toks'.
Proof.
  intros H. apply ordered_ext; try apply id_tokens_ordered.
  intros x. rewrite !id_tokens_In. split; intros [t [H1 H2]]; exists t; (split; [apply H; exact H1|exact H2]).
Qed.

(* the empty-string and single-token short cuts of FunctionID::execute change nothing *)
Lemma id_of_string_tokens tbl s : id_of_string tbl s = id_tokens tbl (tokens s).
Proof.
  unfold id_of_string. destruct s as [|c r]; [reflexivity|].
  destruct (tokens (c :: r)) as [|t [|t' l]]; [reflexivity| |reflexivity].
  unfold id_tokens. cbn. unfold lookup_add. destruct (tbl_find tbl t); reflexivity.
Qed.

Lemma id_of_string_In tbl s x : In x (id_of_string tbl s) <-> exists t, In t (tokens s) /\ tbl_find tbl t = Some x.
Proof. rewrite id_of_string_tokens. apply id_tokens_In. Qed.

Lemma id_of_string_ordered tbl s : ordered (id_of_string tbl s).
Proof. rewrite id_of_string_tokens. apply id_tokens_ordered. Qed.

(** * the tokenizer *)
(* the delimiter set of the source is exactly XML white space: consumes the generated list *)
Lemma is_delim_ws c : is_delim c = is_ws_char c.
Proof.
  unfold is_delim, is_ws_char. change gen_idfn_delims with [32%N; 9%N; 10%N; 13%N]. cbn [existsb].
  rewrite orb_false_r, !orb_assoc. reflexivity.
Qed.

Lemma tokenize_app_delim a : forall cur c b, is_delim c = true ->
  tokenize (a ++ c :: b) cur = tokenize a cur ++ tokenize b [].
Proof.
  induction a as [|x a IH]; intros cur c b Hc.
  - cbn [app tokenize]. rewrite Hc. destruct cur; reflexivity.
  - cbn [app tokenize]. destruct (is_delim x).
    + destruct cur; rewrite IH by exact Hc; reflexivity.
    + apply IH. exact Hc.
Qed.

Lemma nodeset_separator_is_delim : is_delim gen_idfn_nodeset_separator = true.
Proof. reflexivity. Qed.

Lemma tokens_nodes_string d l :
  tokens (nodes_string d l) = flat_map (fun n => tokens (string_value (fun _ _ => false) d n)) l.
Proof.
  unfold tokens, nodes_string. induction l as [|n r IH]; [reflexivity|].
  cbn [flat_map]. rewrite <- app_assoc. cbn [app].
  rewrite tokenize_app_delim by apply nodeset_separator_is_delim. rewrite IH. reflexivity.
Qed.

(* (c) id(node-set) is the union over the nodes of id(string-value) *)
Theorem id_of_nodes_union d tbl l x :
  In x (id_of_nodes d tbl l) <-> exists n, In n l /\ In x (id_of_string tbl (string_value (fun _ _ => false) d n)).
Proof.
  unfold id_of_nodes. rewrite id_of_string_In, tokens_nodes_string. split.
  - intros [t [H1 H2]]. apply in_flat_map in H1. destruct H1 as [n [Hn Ht]].
    exists n. split; [exact Hn|]. apply id_of_string_In. exists t. auto.
  - intros [n [Hn Hx]]. apply id_of_string_In in Hx. destruct Hx as [t [H1 H2]].
    exists t. split; [|exact H2]. apply in_flat_map. exists n. auto.
Qed.

Lemma id_of_nodes_ordered d tbl l : ordered (id_of_nodes d tbl l).
Proof. apply id_of_string_ordered. Qed.

(** * the tokenizer against the declarative notion of a whitespace-separated token *)
Definition delimfree (a : str) : Prop := forall c, In c a -> is_delim c = false.
Definition bnd_post (b : str) : Prop := b = [] \/ exists c q, b = c :: q /\ is_delim c = true.
Definition bnd_pre (pre : str) : Prop := exists p c, pre = p ++ [c] /\ is_delim c = true.

Lemma rev_cons_nonempty (x : N) cur : rev (x :: cur) <> [].
Proof. intros E. apply (f_equal (@length N)) in E. rewrite rev_length in E. cbn in E. discriminate. Qed.

Lemma tokenize_sound s : forall cur t, In t (tokenize s cur) ->
  (exists a b, s = a ++ b /\ t = rev cur ++ a /\ delimfree a /\ t <> [] /\ bnd_post b) \/
  (exists pre a post, s = pre ++ a ++ post /\ t = a /\ t <> [] /\ delimfree a /\ bnd_pre pre /\ bnd_post post).
Proof.
  induction s as [|c r IH]; intros cur t H.
  - cbn in H. destruct cur as [|x cur]; [destruct H|]. destruct H as [<-|[]].
    left. exists [], []. split; [reflexivity|]. split; [symmetry; apply app_nil_r|].
    split; [intros ? []|]. split; [apply rev_cons_nonempty|left; reflexivity].
  - cbn [tokenize] in H. destruct (is_delim c) eqn:D.
    + assert (R : In t (tokenize r []) ->
        exists pre a post, c :: r = pre ++ a ++ post /\ t = a /\ t <> [] /\ delimfree a /\ bnd_pre pre /\ bnd_post post).
      { intros H'. apply IH in H'. destruct H' as [(a & b & E & Et & Ha & Hn & Hb)|(pre & a & post & E & Et & Hn & Ha & Hp & Hb)].
        - cbn in Et. exists [c], a, b. subst r t. repeat split; auto. exists [], c. auto.
        - exists (c :: pre), a, post. subst r. repeat split; auto.
          destruct Hp as (p & c' & -> & Hc'). exists (c :: p), c'. auto. }
      destruct cur as [|x cur].
      * right. apply R. exact H.
      * destruct H as [<-|H]; [|right; apply R; exact H].
        left. exists [], (c :: r). split; [reflexivity|]. split; [symmetry; apply app_nil_r|].
        split; [intros ? []|]. split; [apply rev_cons_nonempty|right; exists c, r; auto].
    + apply IH in H. destruct H as [(a & b & E & Et & Ha & Hn & Hb)|(pre & a & post & E & Et & Hn & Ha & Hp & Hb)].
      * left. exists (c :: a), b. subst r. cbn [rev] in Et. rewrite <- app_assoc in Et. cbn [app] in Et.
        repeat split; auto. intros c' [<-|Hc']; [exact D|apply Ha; exact Hc'].
      * right. exists (c :: pre), a, post. subst r. repeat split; auto.
        destruct Hp as (p & c' & -> & Hc'). exists (c :: p), c'. auto.
Qed.

Lemma tokenize_complete_cur a : forall cur b, delimfree a -> bnd_post b -> rev cur ++ a <> [] ->
  In (rev cur ++ a) (tokenize (a ++ b) cur).
Proof.
  induction a as [|x a IH]; intros cur b Ha Hb Hn.
  - rewrite app_nil_r in *. cbn [app]. destruct cur as [|y cur]; [exfalso; apply Hn; reflexivity|].
    destruct Hb as [->|(c & q & -> & Hc)]; cbn [tokenize]; [left; reflexivity|].
    rewrite Hc. left; reflexivity.
  - cbn [app tokenize]. rewrite (Ha x) by (left; reflexivity).
    replace (rev cur ++ x :: a) with (rev (x :: cur) ++ a) by (cbn [rev]; rewrite <- app_assoc; reflexivity).
    apply IH; [intros c Hc; apply Ha; right; exact Hc|exact Hb|].
    cbn [rev]. rewrite <- app_assoc. cbn [app]. intros E. apply (f_equal (@length N)) in E. rewrite app_length in E. cbn in E. lia.
Qed.

Lemma tokenize_complete_later pre a post cur :
  bnd_pre pre -> a <> [] -> delimfree a -> bnd_post post -> In a (tokenize (pre ++ a ++ post) cur).
Proof.
  intros (p & c & -> & Hc) Hn Ha Hb. rewrite <- app_assoc. cbn [app].
  rewrite tokenize_app_delim by exact Hc. apply in_or_app. right.
  apply (tokenize_complete_cur a [] post Ha Hb). exact Hn.
Qed.

Lemma delimfree_ws a : delimfree a <-> ws_free a.
Proof. unfold delimfree, ws_free. split; intros H c Hc; [rewrite <- is_delim_ws|rewrite is_delim_ws]; apply H; exact Hc. Qed.

(* the tokens FunctionID looks up are exactly the whitespace-separated tokens of the argument string *)
Theorem tokens_are_ws_tokens s t : In t (tokens s) <-> token_of s t.
Proof.
  unfold tokens, token_of. split.
  - intros H. apply tokenize_sound in H.
    destruct H as [(a & b & E & Et & Ha & Hn & Hb)|(pre & a & post & E & Et & Hn & Ha & Hp & Hb)].
    + cbn in Et. subst t. split; [exact Hn|]. split; [apply delimfree_ws; exact Ha|].
      exists [], b. split; [exact E|]. split; [left; reflexivity|].
      destruct Hb as [->|(c & q & -> & Hc)]; [left; reflexivity|right; exists c, q; rewrite <- is_delim_ws; auto].
    + subst t. split; [exact Hn|]. split; [apply delimfree_ws; exact Ha|].
      exists pre, post. split; [exact E|]. split.
      * right. destruct Hp as (p & c & -> & Hc). exists p, c. rewrite <- is_delim_ws. auto.
      * destruct Hb as [->|(c & q & -> & Hc)]; [left; reflexivity|right; exists c, q; rewrite <- is_delim_ws; auto].
  - intros (Hn & Hw & pre & post & E & Hp & Hb). subst s.
    assert (Hb' : bnd_post post).
    { destruct Hb as [->|(c & q & -> & Hc)]; [left; reflexivity|right; exists c, q; rewrite is_delim_ws; auto]. }
    apply delimfree_ws in Hw.
    destruct Hp as [->|(p & c & -> & Hc)].
    + cbn [app]. apply (tokenize_complete_cur t [] post Hw Hb'). exact Hn.
    + apply tokenize_complete_later; auto. exists p, c. rewrite is_delim_ws. auto.
Qed.

(** * (d) the model against sections 4.1 / 5.2.1 *)
Theorem fn_id_string_spec d ty s x :
  In x (fn_id d ty (IdStr s)) <-> spec_id_string d ty s x.
Proof.
  cbn [fn_id]. rewrite id_of_string_In. unfold spec_id_string. split; intros [t [H1 H2]]; exists t.
  - split; [apply tokens_are_ws_tokens; exact H1|apply table_finds_first; exact H2].
  - split; [apply tokens_are_ws_tokens; exact H1|apply table_finds_first; exact H2].
Qed.

Theorem fn_id_nodes_spec d ty l x :
  In x (fn_id d ty (IdNodes l)) <-> spec_id_nodes d ty l x.
Proof.
  cbn [fn_id]. rewrite id_of_nodes_union. unfold spec_id_nodes. split; intros [n [H1 H2]]; exists n; (split; [exact H1|]).
  - apply (fn_id_string_spec d ty). exact H2.
  - apply (fn_id_string_spec d ty) in H2. exact H2.
Qed.

Lemma fn_id_ordered d ty a : ordered (fn_id d ty a).
Proof. destruct a; cbn [fn_id]; [apply id_of_string_ordered|apply id_of_nodes_ordered]. Qed.

(* the result is THE document-ordered duplicate-free list of the selected elements *)
Theorem fn_id_unique_result d ty a r :
  ordered r -> (forall x, In x r <-> In x (fn_id d ty a)) -> r = fn_id d ty a.
Proof. intros H1 H2. apply ordered_ext; [exact H1|apply fn_id_ordered|exact H2]. Qed.

(* under "ID values are unique" the first-wins rule is invisible: x is selected iff it HAS one of the tokens as ID *)
Lemma unique_id_has_id d ty : ids_unique d ty -> forall e v, unique_id d ty e v <-> has_id d ty e v.
Proof.
  intros U e v. split; [intros [H _]; exact H|]. intros H. split; [exact H|].
  intros e' Hlt H'. pose proof (U _ _ _ H H'). lia.
Qed.

Theorem fn_id_string_valid_documents d ty s x : ids_unique d ty ->
  (In x (fn_id d ty (IdStr s)) <-> exists t, token_of s t /\ has_id d ty x t).
Proof.
  intros U. rewrite fn_id_string_spec. unfold spec_id_string.
  split; intros [t [H1 H2]]; exists t; (split; [exact H1|]); [apply (unique_id_has_id d ty U) in H2|apply (unique_id_has_id d ty U)]; exact H2.
Qed.

(* an element whose only attributes with value v are NOT of type ID is never selected for the token v
   (what the IDREF / IDREFS prefix defect broke) *)
Theorem referrers_are_not_selected d ty s x :
  In x (fn_id d ty (IdStr s)) -> exists t a, token_of s t /\ In a (n_attrs (get d x)) /\ ty a = s_ID /\ n_value (get d a) = t.
Proof.
  intros H. apply fn_id_string_spec in H. destruct H as (t & Ht & (_ & a & Ha) & _). exists t, a. tauto.
Qed.
