(* Properties_C02.v — property theorems for C02 (XPath evaluation), over the interpreter model
   XpDefs.v that the correspondence check ties to XPath.cpp / XObject.cpp / Function*.cpp.
   Only statements, each closed by `exact` of a lemma of XpModel.v, and Print Assumptions. *)
From Coq Require Import ZArith NArith List Bool Arith SpecFloat.
Require Import XV.GenNum XV.NumDefs XV.XpAst XV.DomDefs XV.XpDefs XV.XpModel XV.DomModel XV.DomDescModel.
Import ListNotations.

(* Every node-set value the interpreter delivers - for every expression, document, context and
   fuel - is in document order and duplicate-free (given that node-set variables are). *)
Theorem nodeset_results_ordered : forall fuel c e r,
  vars_ordered c -> eval fuel c e = Ok (VNodes r) -> ordered r.
Proof. exact eval_nodes_ordered. Qed.
Print Assumptions nodeset_results_ordered.

(* The node table of every document the generators (and the correspondence) can build is
   well-formed: child lists are duplicate-free, inside the table and agree with the parent links. *)
Theorem built_documents_wellformed : forall top, wf (build_doc top).
Proof. exact build_doc_wf. Qed.
Print Assumptions built_documents_wellformed.

(* On a well-formed table the structural walks the interpreter uses (first child / next sibling /
   previous sibling, as XPath::findChildren / findFollowingSiblings / findPreceedingSiblings do)
   enumerate exactly the child axis, the following-sibling axis and the preceding-sibling axis
   (nearest first), for every node and any sufficient fuel. *)
Theorem child_axis_walk : forall d, wf d -> forall p fuel, length (n_children (get d p)) <= fuel ->
  siblings_after d fuel (first_child d p) = n_children (get d p).
Proof. exact child_walk. Qed.
Print Assumptions child_axis_walk.

Theorem following_sibling_axis_walk : forall d, wf d -> forall p pre x post fuel,
  n_children (get d p) = pre ++ x :: post -> length post <= fuel ->
  siblings_after d fuel (next_sibling d x) = post.
Proof. exact following_sibling_walk. Qed.
Print Assumptions following_sibling_axis_walk.

Theorem preceding_sibling_axis_walk : forall d, wf d -> forall p pre x post fuel,
  n_children (get d p) = pre ++ x :: post -> length pre <= fuel ->
  siblings_before d fuel (prev_sibling d x) = rev pre.
Proof. exact preceding_sibling_walk. Qed.
Print Assumptions preceding_sibling_axis_walk.

(* with the fuel the interpreter actually passes (number of nodes + 1) *)
Theorem child_axis_on_every_built_document : forall top p,
  let d := build_doc top in
  siblings_after d (S (length d)) (first_child d p) = n_children (get d p).
Proof. exact child_axis_on_built_documents. Qed.
Print Assumptions child_axis_on_every_built_document.

(* The descendant walk (XPath::findDescendants: first child, else next sibling, else climb to the
   nearest ancestor below the start node that has a next sibling) lists exactly the pre-order
   sequence of the subtree - subtree n = n :: concat (map subtree (children n)) - for any fuel that
   covers the subtree; parents have smaller ids in every built document; and with the fuel the
   interpreter passes, descendant-or-self on every built document is that duplicate-free list. *)
Theorem subtree_is_the_preorder_recursion : forall d, wf d ->
  (forall x p, parent_of d x = Some p -> p < x) -> forall n, n < length d ->
  subtree d n = n :: flat_map (subtree d) (n_children (get d n)).
Proof. exact subtree_unfold. Qed.
Print Assumptions subtree_is_the_preorder_recursion.

Theorem descendant_walk_is_preorder : forall d, wf d ->
  (forall x p, parent_of d x = Some p -> p < x) -> forall n fuel,
  n < length d -> length (subtree d n) <= fuel -> descend d fuel n n = subtree d n.
Proof. exact descend_is_preorder. Qed.
Print Assumptions descendant_walk_is_preorder.

Theorem built_documents_number_parents_first : forall top x p,
  parent_of (build_doc top) x = Some p -> p < x.
Proof. exact build_doc_parent_lt. Qed.
Print Assumptions built_documents_number_parents_first.

Theorem descendant_axis_on_every_built_document : forall top n,
  let d := build_doc top in
  n < length d -> descendants_or_self d n = subtree d n /\ NoDup (subtree d n).
Proof. exact descendants_on_built_documents. Qed.
Print Assumptions descendant_axis_on_every_built_document.

(* the value of a union is the sorted duplicate-free list of the operands' nodes: membership, and
   the laws that follow *)
Theorem union_membership : forall a b x, In x (union_of a b) <-> In x a \/ In x b.
Proof. exact union_of_In. Qed.
Print Assumptions union_membership.

Theorem union_commutative : forall a b, union_of a b = union_of b a.
Proof. exact union_of_comm. Qed.
Print Assumptions union_commutative.

Theorem union_associative : forall a b c, union_of (union_of a b) c = union_of a (union_of b c).
Proof. exact union_of_assoc. Qed.
Print Assumptions union_associative.

Theorem union_idempotent : forall a, union_of a a = merge_doc_order [] a.
Proof. exact union_of_idem. Qed.
Print Assumptions union_idempotent.

(* predicates only remove nodes and keep their order, whatever the predicate expressions are and
   whichever path (number-literal shortcut or general filter) is taken *)
Theorem predicates_only_filter : forall ev c ps l r, apply_preds ev c l ps = Ok r -> sublist r l.
Proof. exact apply_preds_sublist. Qed.
Print Assumptions predicates_only_filter.

(* the comparison decision tree (XObject::equals ... greaterThanOrEquals, compareNodeSets) decides
   exactly the rules of XPath 1.0 section 3.4, for every operator and every pair of types *)
Theorem comparison_follows_section_3_4 : forall c op a b, compare c op a b = true <-> cmp_rule c op a b.
Proof. exact compare_rule. Qed.
Print Assumptions comparison_follows_section_3_4.

Theorem number_equality_symmetric : forall x y, d_eq x y = d_eq y x.
Proof. exact d_eq_sym. Qed.
Print Assumptions number_equality_symmetric.

(* string functions *)
Theorem starts_with_correct : forall s p, starts_with s p = true <-> exists r, s = p ++ r.
Proof. exact starts_with_spec. Qed.
Print Assumptions starts_with_correct.

Theorem contains_correct : forall s p, contains s p = true <-> exists a b, s = a ++ p ++ b.
Proof. exact contains_spec. Qed.
Print Assumptions contains_correct.

(* substring-before / substring-after: the string splits around the FIRST occurrence *)
Theorem first_occurrence : forall s p i, index_of_sub s p = Some i ->
  exists a b, s = a ++ p ++ b /\ length a = i /\ forall j, j < i -> starts_with (skipn j s) p = false.
Proof. exact index_of_sub_some. Qed.
Print Assumptions first_occurrence.

Theorem substring_before_after_split : forall s p i, index_of_sub s p = Some i ->
  s = firstn i s ++ p ++ skipn (i + length p) s.
Proof. exact before_after_spec. Qed.
Print Assumptions substring_before_after_split.

Theorem no_occurrence : forall s p, index_of_sub s p = None -> forall a b, s <> a ++ p ++ b.
Proof. exact index_of_sub_none. Qed.
Print Assumptions no_occurrence.

Theorem translate_first_position_decides : forall from ch i, index_of_char from ch = Some i ->
  nth_error from i = Some ch /\ forall j, j < i -> nth_error from j <> Some ch.
Proof. exact index_of_char_first. Qed.
Print Assumptions translate_first_position_decides.

Theorem translate_leaves_other_characters : forall s from to,
  (forall ch, In ch s -> ~ In ch from) -> f_translate s from to = s.
Proof. exact translate_untouched. Qed.
Print Assumptions translate_leaves_other_characters.

Theorem normalize_space_keeps_text : forall s, non_ws (f_normalize_space s) = non_ws s.
Proof. exact f_normalize_space_non_ws. Qed.
Print Assumptions normalize_space_keeps_text.

(* boolean connectives *)
Theorem or_is_disjunction : forall f c a b x y, eval f c a = Ok x -> eval f c b = Ok y ->
  eval (S f) c (EOr a b) = Ok (VBool (to_boolean x || to_boolean y)).
Proof. exact eval_or. Qed.
Print Assumptions or_is_disjunction.

Theorem and_is_conjunction : forall f c a b x y, eval f c a = Ok x -> eval f c b = Ok y ->
  eval (S f) c (EAnd a b) = Ok (VBool (to_boolean x && to_boolean y)).
Proof. exact eval_and. Qed.
Print Assumptions and_is_conjunction.

Theorem core_functions_return_scalars : forall ev c name args v,
  call_function ev c name args = Ok v -> is_nodes v = false.
Proof. exact call_function_scalar. Qed.
Print Assumptions core_functions_return_scalars.

(** non-vacuity: a concrete document, a context satisfying the hypotheses, expressions that take the
    interesting branches *)
Definition ex_doc : doc :=
  build_doc [TElem [97]%N [([120]%N, [49]%N)] [TElem [98]%N [] [TTextN [50]%N]; TElem [98]%N [] [TTextN [49]%N]; TCommentN [99]%N]].
Definition ex_ctx : ctx := mkCtx ex_doc 1 [1] [([], [118]%N, VNodes [4; 6])] (fun _ _ => false).

Example ex_vars_ordered : vars_ordered ex_ctx.
Proof.
  intros ns l v H. unfold ex_ctx in H. cbn [cx_vars lookup_var] in H.
  destruct (str_eqb [] ns && str_eqb [118%N] l); [|discriminate].
  inversion H; subst. repeat constructor.
Qed.

(* $v | b | /   evaluates to a node-set with the document node first *)
Example ex_union_value :
  eval_top ex_ctx (EUnion [EVar [] [118]%N; EPath None [] [(AxChild, TName NsEmpty (Some [98]%N), [])]; EPath None [] [(AxRoot, TRoot, [])]])
  = Ok (VNodes [0; 4; 6]).
Proof. vm_compute. reflexivity. Qed.

(* b[. = 1] : node-set against number *)
Example ex_predicate_compare :
  eval_top ex_ctx (EPath None [] [(AxChild, TName NsEmpty (Some [98]%N),
     [(false, EEq (EPath None [] [(AxSelf, TNode, [])]) (ENumLit [49]%N))])]) = Ok (VNodes [6]).
Proof. vm_compute. reflexivity. Qed.

Example ex_compare_nodes_number : cmp_rule ex_ctx CEq (VNodes [4; 6]) (VNum d_one).
Proof. apply compare_rule. vm_compute. reflexivity. Qed.
