(* Properties_C02.v — property theorems for C02 (XPath evaluation), over the interpreter model
   XpDefs.v that the correspondence check ties to XPath.cpp / XObject.cpp / Function*.cpp.
   Only statements, each closed by `exact` of a lemma of XpModel.v, and Print Assumptions. *)
From Coq Require Import ZArith NArith List Bool Arith SpecFloat.
Require Import XV.GenNum XV.NumDefs XV.XpAst XV.DomDefs XV.XpDefs XV.XpModel XV.DomModel XV.DomDescModel.
Import ListNotations.

(* Every node-set value the interpreter delivers - for every expression, document, context and
   fuel - is in document order and duplicate-free (given that node-set variables are). *)
Theorem nodeset_results_ordered : forall fuel c e r,
  vars_ordered c -> eval fuel c e = Ok (VNodes r) -> ordered r.
Proof. exact eval_nodes_ordered. Qed.
Print Assumptions nodeset_results_ordered.

(* The node table of every document the generators (and the correspondence) can build is
   well-formed: child lists are duplicate-free, inside the table and agree with the parent links. *)
Theorem built_documents_wellformed : forall top, wf (build_doc top).
Proof. exact build_doc_wf. Qed.
Print Assumptions built_documents_wellformed.

(* On a well-formed table the structural walks the interpreter uses (first child / next sibling /
   previous sibling, as XPath::findChildren / findFollowingSiblings / findPreceedingSiblings do)
   enumerate exactly the child axis, the following-sibling axis and the preceding-sibling axis
   (nearest first), for every node and any sufficient fuel. *)
Theorem child_axis_walk : forall d, wf d -> forall p fuel, length (n_children (get d p)) <= fuel ->
  siblings_after d fuel (first_child d p) = n_children (get d p).
Proof. exact child_walk. Qed.
Print Assumptions child_axis_walk.

Theorem following_sibling_axis_walk : forall d, wf d -> forall p pre x post fuel,
  n_children (get d p) = pre ++ x :: post -> length post <= fuel ->
  siblings_after d fuel (next_sibling d x) = post.
Proof. exact following_sibling_walk. Qed.
Print Assumptions following_sibling_axis_walk.

Theorem preceding_sibling_axis_walk : forall d, wf d -> forall p pre x post fuel,
  n_children (get d p) = pre ++ x :: post -> length pre <= fuel ->
  siblings_before d fuel (prev_sibling d x) = rev pre.
Proof. exact preceding_sibling_walk. Qed.
Print Assumptions preceding_sibling_axis_walk.

(* with the fuel the interpreter actually passes (number of nodes + 1) *)
Theorem child_axis_on_every_built_document : forall top p,
  let d := build_doc top in
  siblings_after d (S (length d)) (first_child d p) = n_children (get d p).
Proof. exact child_axis_on_built_documents. Qed.
Print Assumptions child_axis_on_every_built_document.

(* The descendant walk (XPath::findDescendants: first child, else next sibling, else climb to the
   nearest ancestor below the start node that has a next sibling) lists exactly the pre-order
   sequence of the subtree - subtree n = n :: concat (map subtree (children n)) - for any fuel that
   covers the subtree; parents have smaller ids in every built document; and with the fuel the
   interpreter passes, descendant-or-self on every built document is that duplicate-free list. *)
Theorem subtree_is_the_preorder_recursion : forall d, wf d ->
  (forall x p, parent_of d x = Some p -> p < x) -> forall n, n < length d ->
  subtree d n = n :: flat_map (subtree d) (n_children (get d n)).
Proof. exact subtree_unfold. Qed.
Print Assumptions subtree_is_the_preorder_recursion.

Theorem descendant_walk_is_preorder : forall d, wf d ->
  (forall x p, parent_of d x = Some p -> p < x) -> forall n fuel,
  n < length d -> length (subtree d n) <= fuel -> descend d fuel n n = subtree d n.
Proof. exact descend_is_preorder. Qed.
Print Assumptions descendant_walk_is_preorder.

Theorem built_documents_number_parents_first : forall top x p,
  parent_of (build_doc top) x = Some p -> p < x.
Proof. exact build_doc_parent_lt. Qed.
Print Assumptions built_documents_number_parents_first.

Theorem descendant_axis_on_every_built_document : forall top n,
  let d := build_doc top in
  n < length d -> descendants_or_self d n = subtree d n /\ NoDup (subtree d n).
Proof. exact descendants_on_built_documents. Qed.
Print Assumptions descendant_axis_on_every_built_document.

(* the value of a union is the sorted duplicate-free list of the operands' nodes: membership, and
   the laws that follow *)
Theorem union_membership : forall a b x, In x (union_of a b) <-> In x a \/ In x b.
Proof. exact union_of_In. Qed.
Print Assumptions union_membership.

Theorem union_commutative : forall a b, union_of a b = union_of b a.
Proof. exact union_of_comm. Qed.
Print Assumptions union_commutative.

Theorem union_associative : forall a b c, union_of (union_of a b) c = union_of a (union_of b c).
Proof. exact union_of_assoc. Qed.
Print Assumptions union_associative.

Theorem union_idempotent : forall a, union_of a a = merge_doc_order [] a.
Proof. exact union_of_idem. Qed.
Print Assumptions union_idempotent.

(* predicates only remove nodes and keep their order, whatever the predicate expressions are and
   whichever path (number-literal shortcut or general filter) is taken *)
Theorem predicates_only_filter : forall ev c ps l r, apply_preds ev c l ps = Ok r -> sublist r l.
Proof. exact apply_preds_sublist. Qed.
Print Assumptions predicates_only_filter.

(* the comparison decision tree (XObject::equals ... greaterThanOrEquals, compareNodeSets) decides
   exactly the rules of XPath 1.0 section 3.4, for every operator and every pair of types *)
Theorem comparison_follows_section_3_4 : forall c op a b, compare c op a b = true <-> cmp_rule c op a b.
Proof. exact compare_rule. Qed.
Print Assumptions comparison_follows_section_3_4.

Theorem number_equality_symmetric : forall x y, d_eq x y = d_eq y x.
Proof. exact d_eq_sym. Qed.
Print Assumptions number_equality_symmetric.

(* string functions *)
Theorem starts_with_correct : forall s p, starts_with s p = true <-> exists r, s = p ++ r.
Proof. exact starts_with_spec. Qed.
Print Assumptions starts_with_correct.

Theorem contains_correct : forall s p, contains s p = true <-> exists a b, s = a ++ p ++ b.
Proof. exact contains_spec. Qed.
Print Assumptions contains_correct.

(* substring-before / substring-after: the string splits around the FIRST occurrence *)
Theorem first_occurrence : forall s p i, index_of_sub s p = Some i ->
  exists a b, s = a ++ p ++ b /\ length a = i /\ forall j, j < i -> starts_with (skipn j s) p = false.
Proof. exact index_of_sub_some. Qed.
Print Assumptions first_occurrence.

Theorem substring_before_after_split : forall s p i, index_of_sub s p = Some i ->
  s = firstn i s ++ p ++ skipn (i + length p) s.
Proof. exact before_after_spec. Qed.
Print Assumptions substring_before_after_split.

Theorem no_occurrence : forall s p, index_of_sub s p = None -> forall a b, s <> a ++ p ++ b.
Proof. exact index_of_sub_none. Qed.
Print Assumptions no_occurrence.

Theorem translate_first_position_decides : forall from ch i, index_of_char from ch = Some i ->
  nth_error from i = Some ch /\ forall j, j < i -> nth_error from j <> Some ch.
Proof. exact index_of_char_first. Qed.
Print Assumptions translate_first_position_decides.

Theorem translate_leaves_other_characters : forall s from to,
  (forall ch, In ch s -> ~ In ch from) -> f_translate s from to = s.
Proof. exact translate_untouched. Qed.
Print Assumptions translate_leaves_other_characters.

Theorem normalize_space_keeps_text : forall s, non_ws (f_normalize_space s) = non_ws s.
Proof. exact f_normalize_space_non_ws. Qed.
Print Assumptions normalize_space_keeps_text.

(* boolean connectives *)
Theorem or_is_disjunction : forall f c a b x y, eval f c a = Ok x -> eval f c b = Ok y ->
  eval (S f) c (EOr a b) = Ok (VBool (to_boolean x || to_boolean y)).
Proof. exact eval_or. Qed.
Print Assumptions or_is_disjunction.

Theorem and_is_conjunction : forall f c a b x y, eval f c a = Ok x -> eval f c b = Ok y ->
  eval (S f) c (EAnd a b) = Ok (VBool (to_boolean x && to_boolean y)).
Proof. exact eval_and. Qed.
Print Assumptions and_is_conjunction.

Theorem core_functions_return_scalars : forall ev c name args v,
  call_function ev c name args = Ok v -> is_nodes v = false.
Proof. exact call_function_scalar. Qed.
Print Assumptions core_functions_return_scalars.

(** non-vacuity: a concrete document, a context satisfying the hypotheses, expressions that take the
    interesting branches *)
Definition ex_doc : doc :=
  build_doc [TElem [97]%N [([120]%N, [49]%N)] [TElem [98]%N [] [TTextN [50]%N]; TElem [98]%N [] [TTextN [49]%N]; TCommentN [99]%N]].
Definition ex_ctx : ctx := mkCtx ex_doc 1 [1] [([], [118]%N, VNodes [4; 6])] (fun _ _ => false).

Example ex_vars_ordered : vars_ordered ex_ctx.
Proof.
  intros ns l v H. unfold ex_ctx in H. cbn [cx_vars lookup_var] in H.
  destruct (str_eqb [] ns && str_eqb [118%N] l); [|discriminate].
  inversion H; subst. repeat constructor.
Qed.

(* $v | b | /   evaluates to a node-set with the document node first *)
Example ex_union_value :
  eval_top ex_ctx (EUnion [EVar [] [118]%N; EPath None [] [(AxChild, TName NsEmpty (Some [98]%N), [])]; EPath None [] [(AxRoot, TRoot, [])]])
  = Ok (VNodes [0; 4; 6]).
Proof. vm_compute. reflexivity. Qed.

(* b[. = 1] : node-set against number *)
Example ex_predicate_compare :
  eval_top ex_ctx (EPath None [] [(AxChild, TName NsEmpty (Some [98]%N),
     [(false, EEq (EPath None [] [(AxSelf, TNode, [])]) (ENumLit [49]%N))])]) = Ok (VNodes [6]).
Proof. vm_compute. reflexivity. Qed.

Example ex_compare_nodes_number : cmp_rule ex_ctx CEq (VNodes [4; 6]) (VNum d_one).
Proof. apply compare_rule. vm_compute. reflexivity. Qed.

(* ---------------------------------------------------------------------------------------------------------
   The core function id() (XPath 1.0 sections 4.1 and 5.2.1): the element-by-ID table that
   XalanSourceTreeDocument::createAttributes fills during the SAX2 walk, XalanSourceTreeDocument::getElementById
   and FunctionID::execute (model: XpIdDefs.v).  The attribute type test, insert-vs-overwrite, the delimiter
   set and the node-set separator are read from /repo on every run (GenXpId.v, translator/gen_xpid.py) and the
   lemmas below compute with them: a prefix test instead of the whole-string comparison with "ID", operator[]
   instead of insert(), or another delimiter set make these proofs fail. *)
Require Import XV.GenXpId XV.XpIdDefs XV.XpIdModel.

(* The type test accepts exactly the type string "ID" - not "IDREF", "IDREFS", nor anything else. *)
Theorem id_type_test_is_exact : forall t, is_id_type t = true <-> t = s_ID.
Proof. exact is_id_type_exact. Qed.
Print Assumptions id_type_test_is_exact.

(* (a) For every document and every assignment of declared types: the table built by the walk maps a value to
   the FIRST element in document order carrying an attribute of declared type ID with that value ... *)
Theorem id_table_maps_value_to_first_element : forall d ty v e,
  tbl_find (build_table d ty) v = Some e <-> unique_id d ty e v.
Proof. exact table_finds_first. Qed.
Print Assumptions id_table_maps_value_to_first_element.

(* ... has no entry exactly when no element has the value as an ID ... *)
Theorem id_table_misses_only_absent_values : forall d ty v,
  tbl_find (build_table d ty) v = None <-> forall e, ~ has_id d ty e v.
Proof. exact table_none. Qed.
Print Assumptions id_table_misses_only_absent_values.

(* ... and never maps to an element that carries the value only in attributes of another type (IDREF,
   IDREFS, CDATA, ...). *)
Theorem id_table_ignores_non_id_attributes : forall d ty v e,
  tbl_find (build_table d ty) v = Some e ->
  exists a, In a (n_attrs (get d e)) /\ ty a = s_ID /\ n_value (get d a) = v.
Proof. exact table_only_id_typed. Qed.
Print Assumptions id_table_ignores_non_id_attributes.

(* (b) id() of a token list is the document-ordered duplicate-free union of the per-token look-ups; it
   depends only on the SET of tokens (order and multiplicity of the tokens are irrelevant); the empty-string
   and single-token short cuts of FunctionID::execute change nothing. *)
Theorem id_of_tokens_membership : forall tbl toks x,
  In x (id_tokens tbl toks) <-> exists t, In t toks /\ tbl_find tbl t = Some x.
Proof. exact id_tokens_In. Qed.
Print Assumptions id_of_tokens_membership.

Theorem id_of_tokens_in_document_order : forall tbl toks, ordered (id_tokens tbl toks).
Proof. exact id_tokens_ordered. Qed.
Print Assumptions id_of_tokens_in_document_order.

Theorem id_independent_of_token_order_and_multiplicity : forall tbl toks toks',
  (forall t, In t toks <-> In t toks') -> id_tokens tbl toks = id_tokens tbl toks'.
Proof. exact id_tokens_set. Qed.
Print Assumptions id_independent_of_token_order_and_multiplicity.

Theorem id_short_cuts_are_the_general_loop : forall tbl s, id_of_string tbl s = id_tokens tbl (tokens s).
Proof. exact id_of_string_tokens. Qed.
Print Assumptions id_short_cuts_are_the_general_loop.

(* The pieces FunctionID looks up are exactly the whitespace-separated tokens of the argument string
   (maximal non-empty pieces free of #x20 #x9 #xA #xD), for every string. *)
Theorem id_tokens_are_whitespace_separated_tokens : forall s t, In t (tokens s) <-> token_of s t.
Proof. exact tokens_are_ws_tokens. Qed.
Print Assumptions id_tokens_are_whitespace_separated_tokens.

(* (c) id(node-set) is the union over the nodes of id(string-value of the node). *)
Theorem id_of_node_set_is_union_over_nodes : forall d tbl l x,
  In x (id_of_nodes d tbl l) <-> exists n, In n l /\ In x (id_of_string tbl (string_value (fun _ _ => false) d n)).
Proof. exact id_of_nodes_union. Qed.
Print Assumptions id_of_node_set_is_union_over_nodes.

(* (d) The model selects exactly what sections 4.1 / 5.2.1 define - for EVERY document, also invalid ones
   with duplicate IDs (the second element in document order is treated as having no unique ID) ... *)
Theorem id_of_string_follows_section_4_1 : forall d ty s x,
  In x (fn_id d ty (IdStr s)) <-> spec_id_string d ty s x.
Proof. exact fn_id_string_spec. Qed.
Print Assumptions id_of_string_follows_section_4_1.

Theorem id_of_node_set_follows_section_4_1 : forall d ty l x,
  In x (fn_id d ty (IdNodes l)) <-> spec_id_nodes d ty l x.
Proof. exact fn_id_nodes_spec. Qed.
Print Assumptions id_of_node_set_follows_section_4_1.

(* ... the result being THE document-ordered duplicate-free list with these members ... *)
Theorem id_result_is_the_ordered_set : forall d ty a r,
  ordered r -> (forall x, In x r <-> In x (fn_id d ty a)) -> r = fn_id d ty a.
Proof. exact fn_id_unique_result. Qed.
Print Assumptions id_result_is_the_ordered_set.

(* ... and under "ID values are unique" (valid documents) an element is selected iff one of the tokens is
   its ID. *)
Theorem id_on_documents_with_unique_ids : forall d ty s x, ids_unique d ty ->
  (In x (fn_id d ty (IdStr s)) <-> exists t, token_of s t /\ has_id d ty x t).
Proof. exact fn_id_string_valid_documents. Qed.
Print Assumptions id_on_documents_with_unique_ids.

(* An element that only REFERS to a value (IDREF / IDREFS / CDATA attribute) is never selected for it. *)
Theorem id_never_selects_a_mere_referrer : forall d ty s x,
  In x (fn_id d ty (IdStr s)) ->
  exists t a, token_of s t /\ In a (n_attrs (get d x)) /\ ty a = s_ID /\ n_value (get d a) = t.
Proof. exact referrers_are_not_selected. Qed.
Print Assumptions id_never_selects_a_mere_referrer.

(* Non-vacuity: <a><r ref="s1" refs="s2 s1"/><s id="s1"/><s id="s2"/><s id="s1"/></a> with ref : IDREF, refs : IDREFS,
   id : ID - a forward reference and a duplicate ID.  Nodes: 0 document, 1 a, 2 xmlns:xml, 3 r, 4 ref, 5 refs,
   6 s, 7 id, 8 s, 9 id, 10 s, 11 id. *)
Definition ex_id_doc : doc :=
  build_doc [TElem [97]%N []
    [TElem [114]%N [([114;101;102]%N, [115;49]%N); ([114;101;102;115]%N, [115;50;32;115;49]%N)] [];
     TElem [115]%N [([105;100]%N, [115;49]%N)] [];
     TElem [115]%N [([105;100]%N, [115;50]%N)] [];
     TElem [115]%N [([105;100]%N, [115;49]%N)] []]].
Definition ex_id_types : atype_fn := fun a =>
  if Nat.eqb a 4 then [73;68;82;69;70]%N                       (* IDREF *)
  else if Nat.eqb a 5 then [73;68;82;69;70;83]%N               (* IDREFS *)
  else if Nat.eqb a 7 || Nat.eqb a 9 || Nat.eqb a 11 then s_ID
  else [67;68;65;84;65]%N.                                      (* CDATA *)

Example ex_id_forward_reference : fn_id ex_id_doc ex_id_types (IdStr [115;49]%N) = [6].
Proof. vm_compute. reflexivity. Qed.

Example ex_id_argument_order_irrelevant :
  fn_id ex_id_doc ex_id_types (IdStr [32;115;50;9;115;49;10;115;50]%N) = [6; 8].       (* " s2<TAB>s1<LF>s2" *)
Proof. vm_compute. reflexivity. Qed.

Example ex_id_of_node_set : fn_id ex_id_doc ex_id_types (IdNodes [4; 5]) = [6; 8].
Proof. vm_compute. reflexivity. Qed.

Example ex_id_unique_id_satisfiable : unique_id ex_id_doc ex_id_types 6 [115;49]%N.
Proof. apply table_finds_first. vm_compute. reflexivity. Qed.

(* the hypothesis of id_on_documents_with_unique_ids is satisfiable (the same document without the last <s>) *)
Definition ex_id_doc_valid : doc :=
  build_doc [TElem [97]%N []
    [TElem [114]%N [([114;101;102]%N, [115;49]%N); ([114;101;102;115]%N, [115;50;32;115;49]%N)] [];
     TElem [115]%N [([105;100]%N, [115;49]%N)] [];
     TElem [115]%N [([105;100]%N, [115;50]%N)] []]].

Example ex_ids_unique_satisfiable : ids_unique ex_id_doc_valid ex_id_types.
Proof.
  assert (K : forall e v, has_id ex_id_doc_valid ex_id_types e v ->
                (e = 6 /\ v = [115;49]%N) \/ (e = 8 /\ v = [115;50]%N)).
  { intros e v (K & a & Ha & Ht & Hv).
    do 10 (destruct e as [|e]; [cbn in K; try discriminate K; cbn in Ha;
             repeat (destruct Ha as [<-|Ha]; [cbn in Ht; try discriminate Ht; cbn in Hv; subst v; auto|]); destruct Ha |]).
    unfold get, ex_id_doc_valid in K. cbn in K. destruct e; discriminate K. }
  intros e e' v H H'. apply K in H. apply K in H'.
  destruct H as [[-> ->]|[-> ->]], H' as [[-> E]|[-> E]]; try reflexivity; discriminate E.
Qed.
