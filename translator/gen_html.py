"""C08 part "html" — facts of FormatterToHTML consumed by coq/HtmlDefs.v / Html*Model.v / Properties_C08h.v (GenHtml.v):
  * s_entities (character -> entity name; `#if 0` regions dropped), in source order (the binary search needs it sorted:
    the theorems consume `html_entities_sorted` through a vm_compute over the regenerated list);
  * the character maps built by FormatterToXML::initAttrCharsMap / FormatterToHTML::initAttrCharsMap / initCharsMap
    (which units are 'S'), as data: default special list, the ranges, the units reset to 0;
  * the constants of writeCharacters / writeAttrString / writeAttrURI / processAttribute / startElement / endElement /
    processingInstruction / comment / accumDefaultEntity / accumContentAsChar / accumNameAsChar / charactersRaw that the
    model's case splits are written over, each pinned by a normalised-text anchor (a change of the statement fails closed);
  * s_metaString, the DOCTYPE strings, the raw-text PI target/data.
The element/attribute property table is GenOutopt.html_elements (translator/gen_outopt.py)."""
import re
import srcfacts
from srcfacts import AnchorError, need, read, strip_comments, function_body, HEADER


def _sq(s):
    return re.sub(r"\s+", "", strip_comments(s))


def _unicode_consts():
    t = strip_comments(read("PlatformSupport/XalanUnicode.hpp"))
    env = {}
    for m in re.finditer(r"static\s+const\s+XalanDOMChar\s+(\w+)\s*=\s*(0x[0-9A-Fa-f]+|\d+)\s*;", t):
        env[m.group(1)] = int(m.group(2), 0)
    if "charLetter_A" not in env:
        raise AnchorError("XalanUnicode.hpp: character constants not recognised")
    return env


def _units(txt, env, what):
    out = []
    for e in [x.strip() for x in txt.split(",") if x.strip()]:
        mm = re.fullmatch(r"XalanUnicode::(\w+)", e)
        if mm:
            if mm.group(1) not in env:
                raise AnchorError("%s: unknown character constant %s" % (what, e))
            out.append(env[mm.group(1)])
        elif re.fullmatch(r"0x[0-9A-Fa-f]+|\d+", e):
            out.append(int(e, 0))
        else:
            raise AnchorError("%s: unexpected unit %s" % (what, e))
    return out


def _drop_if0(s):
    out, depth0, lines = [], 0, s.split("\n")
    for l in lines:
        t = l.strip()
        if re.match(r"#\s*if\s+0\b", t):
            depth0 += 1
            continue
        if depth0 and re.match(r"#\s*if", t):
            depth0 += 1
            continue
        if depth0 and re.match(r"#\s*endif", t):
            depth0 -= 1
            continue
        if depth0 and re.match(r"#\s*(else|elif)", t):
            raise AnchorError("#else inside an #if 0 region of FormatterToHTML.cpp")
        if not depth0:
            out.append(l)
    return "\n".join(out)


def _array(src, name, env):
    m = need(r"%s\s*\[\s*\]\s*=\s*\{(.*?)\}\s*;" % re.escape(name), src, name)
    u = _units(m.group(1), env, name)
    if not u or u[-1] != 0:
        raise AnchorError("%s: not 0-terminated" % name)
    return u[:-1]


def nl(xs):
    return "[" + "; ".join(str(x) for x in xs) + "]"


def gen_html():
    env = _unicode_consts()
    facts = {}
    raw = read("XMLSupport/FormatterToHTML.cpp")
    src = strip_comments(_drop_if0(raw))
    xsrc = strip_comments(read("XMLSupport/FormatterToXML.cpp"))
    hdr = strip_comments(read("XMLSupport/FormatterToXML.hpp"))
    hhdr = strip_comments(read("XMLSupport/FormatterToHTML.hpp"))
    out = HEADER + "From Coq Require Import NArith List.\nImport ListNotations.\nOpen Scope N_scope.\n"

    # ---- entity table
    m = need(r"FormatterToHTML::s_entities\s*\[\s*\]\s*=\s*\{(.*?)\n\}\s*;", src, "s_entities")
    ents = []
    for em in re.finditer(r"\{\s*(\d+|0x[0-9A-Fa-f]+)\s*,\s*(\d+)\s*,\s*\{([^{}]*)\}\s*\}", m.group(1)):
        ch, ln, body = int(em.group(1), 0), int(em.group(2)), _units(em.group(3), env, "s_entities")
        if not body or body[-1] != 0 or len(body) - 1 != ln:
            raise AnchorError("s_entities: entry %d has length field %d but %d units" % (ch, ln, len(body) - 1))
        ents.append((ch, body[:-1]))
    rest = re.sub(r"\{\s*(\d+|0x[0-9A-Fa-f]+)\s*,\s*(\d+)\s*,\s*\{([^{}]*)\}\s*\}", "", m.group(1))
    if re.sub(r"[\s,]", "", rest):
        raise AnchorError("s_entities: unparsed text " + re.sub(r"\s+", " ", rest)[:60])
    if len(ents) < 90:
        raise AnchorError("s_entities: only %d entries" % len(ents))
    facts["entities"] = len(ents)
    out += "(* FormatterToHTML::s_entities: (character, entity name) in source order *)\n"
    out += "Definition html_entities : list (N * list N) := [\n" + ";\n".join("  (%d, %s)" % (c, nl(n)) for c, n in ents) + "].\n"
    need(re.escape("if(ch<theCurrent->m_char){theLast=theCurrent-1;}elseif(ch>theCurrent->m_char){theFirst=theCurrent+1;}else{") + ".*?" +
         re.escape("copyEntityIntoBuffer(theCurrent->m_string,theCurrent->m_length);returntrue;}"), _sq(function_body(src, r"FormatterToHTML::accumDefaultEntity\s*\(", "accumDefaultEntity")),
         "accumDefaultEntity: binary search over s_entities")
    ade = _sq(function_body(src, r"FormatterToHTML::accumDefaultEntity\s*\(", "accumDefaultEntity"))
    need(re.escape("if(FormatterToXML::accumDefaultEntity(ch,escLF)==true){returntrue;}else{"), ade, "accumDefaultEntity: the XML entities first")
    xade = _sq(function_body(xsrc, r"FormatterToXML::accumDefaultEntity\s*\(", "FormatterToXML::accumDefaultEntity"))
    order = re.findall(r"XalanUnicode::char(\w+)==ch", xade)
    if order != ["LF", "LessThanSign", "GreaterThanSign", "Ampersand", "QuoteMark", "Apostrophe"]:
        raise AnchorError("FormatterToXML::accumDefaultEntity: cases are %s" % order)
    need(re.escape("if(escLF==false&&XalanUnicode::charLF==ch){outputLineSep();}"), xade, "accumDefaultEntity: LF only when escLF is false")
    # every branch writes '&' letters ';' through accumContent
    xml_ents = []
    for cname, letters in re.findall(r"elseif\(XalanUnicode::char(\w+)==ch\)\{((?:accumContent\(XalanUnicode::char\w+\);)+)\}", xade):
        us = [env[x] for x in re.findall(r"accumContent\(XalanUnicode::(char\w+)\)", letters)]
        if us[0] != 38 or us[-1] != 59:
            raise AnchorError("accumDefaultEntity: branch %s does not write &...;" % cname)
        xml_ents.append((env["char" + cname], us[1:-1]))
    if [c for c, _ in xml_ents] != [60, 62, 38, 34, 39]:
        raise AnchorError("accumDefaultEntity: entity branches " + str(xml_ents))
    out += "(* FormatterToXML::accumDefaultEntity: (character, name written between '&' and ';') in test order *)\n"
    out += "Definition xml_entities : list (N * list N) := [" + "; ".join("(%d, %s)" % (c, nl(n)) for c, n in xml_ents) + "].\n"

    # ---- character maps
    m = need(r"enum\s+eDummyTwo\s*\{\s*SPECIALSSIZE\s*=\s*(\d+)\s*\}", hdr, "SPECIALSSIZE")
    out += "Definition specials_size : N := %s.\n" % m.group(1)
    m = need(r"theDefaultAttrSpecialChars\s*\[\s*\]\s*=\s*\{(.*?)\}\s*;", xsrc, "theDefaultAttrSpecialChars")
    dflt = _units(m.group(1), env, "theDefaultAttrSpecialChars")
    if dflt[-1] != 0:
        raise AnchorError("theDefaultAttrSpecialChars not terminated")
    out += "Definition attr_special_default : list N := %s.\n" % nl(dflt[:-1])
    xa = _sq(function_body(xsrc, r"FormatterToXML::initAttrCharsMap\s*\(", "FormatterToXML::initAttrCharsMap"))
    need(re.escape("std::memset(m_attrCharsMap,0,sizeof(m_attrCharsMap));"), xa, "XML initAttrCharsMap: cleared")
    need(re.escape("m_attrCharsMap[m_attrSpecialChars[i]]='S';"), xa, "XML initAttrCharsMap: the special list")
    need(re.escape("m_attrCharsMap[XalanUnicode::charHTab]='S';m_attrCharsMap[XalanUnicode::charLF]='S';m_attrCharsMap[XalanUnicode::charCR]='S';"), xa, "XML initAttrCharsMap: TAB LF CR")
    m1 = need(r"for\(size_ti=(\d+);i<(0x[0-9A-Fa-f]+|\d+);i\+\+\)\{m_attrCharsMap\[i\]='S';\}", xa, "XML initAttrCharsMap: controls")
    m2 = need(r"for\(size_tj=(0x[0-9A-Fa-f]+|\d+);j<=(0x[0-9A-Fa-f]+|\d+);j\+\+\)\{m_attrCharsMap\[j\]='S';\}", xa, "XML initAttrCharsMap: DEL..C1")
    out += "Definition attr_ctl_from : N := %d.\nDefinition attr_ctl_below : N := %d.\nDefinition attr_c1_from : N := %d.\nDefinition attr_c1_to : N := %d.\n" % (
        int(m1.group(1), 0), int(m1.group(2), 0), int(m2.group(1), 0), int(m2.group(2), 0))
    ha = _sq(function_body(src, r"FormatterToHTML::initAttrCharsMap\s*\(", "FormatterToHTML::initAttrCharsMap"))
    m = need(r"^\{FormatterToXML::initAttrCharsMap\(\);m_attrCharsMap\[XalanUnicode::charLF\]='S';((?:m_attrCharsMap\[XalanUnicode::char\w+\]=0;)+)"
             r"for\(size_typei=(\d+);i<SPECIALSSIZE;i\+\+\)\{m_attrCharsMap\[i\]='S';\}\}$", ha, "HTML initAttrCharsMap")
    unset = [env[x] for x in re.findall(r"XalanUnicode::(char\w+)", m.group(1))]
    out += "Definition attr_unset : list N := %s.\nDefinition attr_high_from : N := %s.\n" % (nl(unset), m.group(2))
    hc = _sq(function_body(src, r"FormatterToHTML::initCharsMap\s*\(", "FormatterToHTML::initCharsMap"))
    m = need(r"^\{initAttrCharsMap\(\);usingstd::memset;memset\(m_charsMap,0,sizeof\(m_charsMap\)\);((?:m_charsMap\[XalanUnicode::char\w+\]='S';)+)"
             r"memset\(m_charsMap,'S',(\d+)\);((?:m_charsMap\[0x[0-9A-Fa-f]+\]='S';)+)for\(inti=(\d+);i<SPECIALSSIZE;\+\+i\)\{m_charsMap\[i\]='S';\}"
             r"for\(intj=m_maxCharacter;j<SPECIALSSIZE;\+\+j\)\{m_charsMap\[j\]='S';\}\}$", hc, "HTML initCharsMap")
    tset = [env[x] for x in re.findall(r"XalanUnicode::(char\w+)", m.group(1))] + [int(x, 16) for x in re.findall(r"\[(0x[0-9A-Fa-f]+)\]", m.group(3))]
    # memset(m_charsMap, 'S', n) fills n BYTES; m_charsMap is an array of XalanDOMChar (2 bytes): n/2 units become 0x5353,
    # which is not 'S' for the tests `m_charsMap[ch] != 'S'` - the statement marks no unit at all
    need(r"XalanDOMCharm_charsMap\[SPECIALSSIZE\];", _sq(hdr), "m_charsMap is an array of XalanDOMChar")
    need(r"typedefXMLChXalanDOMChar;", _sq(read("Include/PlatformDefinitions.hpp.in")), "XalanDOMChar is XMLCh (16 bits)")
    out += "Definition text_special_list : list N := %s.\nDefinition text_low_memset_bytes : N := %s.\nDefinition dom_char_bytes : N := 2.\nDefinition text_high_from : N := %s.\n" % (nl(tset), m.group(2), m.group(4))
    need(re.escape("initCharsMap();"), _sq(function_body(src, r"FormatterToHTML::FormatterToHTML\s*\(", "FormatterToHTML constructor")), "constructor builds the HTML maps")
    need(r"FormatterToHTML::FormatterToHTML\(.*?\):FormatterToXML\(writer,s_emptyString,doIndent,indent,encoding,mediaType,doctypeSystem,doctypePublic,false,s_emptyString,OUTPUT_METHOD_HTML,true,theManager\)", _sq(src),
         "FormatterToHTML constructs its base with OUTPUT_METHOD_HTML (getOutputFormat() decides what accumName does above m_maxCharacter)")

    # ---- writeCharacters
    wc = _sq(function_body(src, r"FormatterToHTML::writeCharacters\s*\(\s*const\s+XalanDOMChar\s*\*", "writeCharacters"))
    need(re.escape("if(ch<SPECIALSSIZE&&m_charsMap[ch]!='S'){++i;}elseif(XalanUnicode::charLF==ch){accumContent(theString,firstIndex,i-firstIndex);outputLineSep();++i;firstIndex=i;}"), wc,
         "writeCharacters: plain units and LF")
    need(re.escape("if(accumDefaultEntity(ch,true)==false){if(0xd800<=ch&&ch<0xdc00){"), wc, "writeCharacters: entity, then surrogate")
    need(re.escape("next=((ch-0xd800)<<10)+next-0xdc00+0x00010000;writeNumberedEntityReference(next);}"), wc, "writeCharacters: pair -> one reference")
    m = need(r"elseif\(ch>=(0x[0-9A-Fa-f]+)u?&&ch<=m_maxCharacter\)\{accumContent\(ch\);\}else\{writeNumberedEntityReference\(ch\);\}", wc, "writeCharacters: literal range")
    out += "Definition text_literal_from : N := %d.\n" % int(m.group(1), 16)
    # ---- writeAttrString
    wa = _sq(function_body(src, r"FormatterToHTML::writeAttrString\s*\(", "writeAttrString"))
    need(re.escape("if(ch<SPECIALSSIZE&&m_attrCharsMap[ch]!='S'){++i;}elseif(XalanUnicode::charAmpersand==ch&&i+1<theStringLength&&XalanUnicode::charLeftCurlyBracket==theString[i+1]){++i;}"), wa,
         "writeAttrString: plain units and &{")
    need(re.escape("if(accumDefaultEntity(ch,true)==false){if(0xd800<=ch&&ch<0xdc00){"), wa, "writeAttrString: entity, then surrogate")
    pair_ok = "((XalanUnicodeChar(ch)-0xd800u)<<10)+next-0xdc00u+0x00010000u;writeNumberedEntityReference(theCodePoint);}else{writeNumberedEntityReference(ch);}" in wa
    out += "Definition attr_pair_is_one_reference : bool := %s.\n" % ("true" if pair_ok else "false")
    facts["attr_pair_is_one_reference"] = pair_ok
    if not pair_ok:
        need(re.escape("writeNumberedEntityReference("), wa, "writeAttrString: numbered references")
    # ---- writeNumberedEntityReference, accumContent / accumName for narrow encodings
    need(re.escape("accumContent(XalanUnicode::charAmpersand);accumContent(XalanUnicode::charNumberSign);accumContent(NumberToDOMString(theNumber,m_stringBuffer));m_stringBuffer.clear();accumContent(XalanUnicode::charSemicolon);"),
         _sq(function_body(xsrc, r"FormatterToXML::writeNumberedEntityReference\s*\(", "writeNumberedEntityReference")), "&#decimal;")
    need(re.escape("if(ch>m_maxCharacter){writeNumberedEntityReference(ch);}else{m_charBuf[m_pos++]=ch;}"), _sq(function_body(xsrc, r"FormatterToXML::accumContentAsChar\s*\(", "accumContentAsChar")),
         "accumContentAsChar: reference above m_maxCharacter")
    # (the xml output method raises an error there since b24ee0f; for every other output format the substitute is written)
    m = need(r"if\(ch>m_maxCharacter\)\{(?:if\(getOutputFormat\(\)==OUTPUT_METHOD_XML\)\{throwUnrepresentableCharacterException\(ch\);\})?m_charBuf\[m_pos\+\+\]=XalanUnicode::(char\w+);\}else\{m_charBuf\[m_pos\+\+\]=ch;\}",
             _sq(function_body(xsrc, r"FormatterToXML::accumNameAsChar\s*\(", "accumNameAsChar")), "accumNameAsChar: substitute above m_maxCharacter (html output format)")
    out += "Definition name_substitute : N := %d.\n" % env[m.group(1)]
    ctor = _sq(function_body(xsrc, r"FormatterToXML::FormatterToXML\s*\(", "FormatterToXML constructor"))
    need(re.escape("m_accumNameCharFunction=&FormatterToXML::accumNameAsChar;m_accumContentCharFunction=&FormatterToXML::accumContentAsChar;"), ctor, "narrow encodings use the ...AsChar functions")
    need(re.escape("m_accumNameCharFunction=&FormatterToXML::accumCharUTF;m_accumContentCharFunction=&FormatterToXML::accumCharUTF;"), ctor, "UTF encodings write units as they are")
    # ---- processAttribute
    pa = _sq(function_body(src, r"FormatterToHTML::processAttribute\s*\(", "processAttribute"))
    need(re.escape("accumContent(XalanUnicode::charSpace);") + ".*?" +
         re.escape("if((valueLength==0||equalsIgnoreCaseASCII(name,nameLength,value,valueLength))&&elemProperties.isAttribute(name,XalanHTMLElementsProperties::ATTREMPTY)==true){accumName(name);}"
                   "else{accumName(name,0,nameLength);accumContent(XalanUnicode::charEqualsSign);accumContent(XalanUnicode::charQuoteMark);"
                   "if(elemProperties.isAttribute(name,XalanHTMLElementsProperties::ATTRURL)==true){writeAttrURI(value,valueLength);}else{writeAttrString(value,valueLength);}"
                   "accumContent(XalanUnicode::charQuoteMark);}"), pa, "processAttribute")
    # ---- writeAttrURI
    wu = _sq(function_body(src, r"FormatterToHTML::writeAttrURI\s*\(", "writeAttrURI"))
    m = need(r"if\(ch<(\d+)\|\|ch>(\d+)\)\{if\(m_escapeURLs==true\)\{if\(ch==XalanUnicode::charSpace\)\{accumContent\(ch\);\}elseif\(ch<=0x7F\)\{accumHexNumber\(ch\);\}elseif\(ch<=0x7FF\)\{", wu,
             "writeAttrURI: which units are escaped")
    out += "Definition uri_plain_from : N := %s.\nDefinition uri_plain_to : N := %s.\n" % (m.group(1), m.group(2))
    need(re.escape("consthighByte=XalanDOMChar((ch>>6)|0xC0);constXalanDOMCharlowByte=XalanDOMChar((ch&0x3F)|0x80);accumHexNumber(highByte);accumHexNumber(lowByte);}".replace("consthighByte", "constXalanDOMCharhighByte")), wu,
         "writeAttrURI: two-byte form")
    need(re.escape("elseif(isUTF16Surrogate(ch)==true)"), wu, "writeAttrURI: surrogate test is isUTF16Surrogate")
    need(re.escape("constXalanDOMCharhighSurrogate=XalanDOMChar(ch&0x03FF);constXalanDOMCharwwww=XalanDOMChar((highSurrogate&0x03C0)>>6);constXalanDOMCharuuuuu=XalanDOMChar(wwww+1);"
                   "constXalanDOMCharzzzz=XalanDOMChar((highSurrogate&0x003C)>>2);constXalanDOMChartemp=XalanDOMChar(((highSurrogate&0x0003)<<4)&0x30);constXalanDOMCharnextChar=theString[++i];"
                   "constXalanDOMCharlowSurrogate=XalanDOMChar(nextChar&0x03FF);constXalanDOMCharyyyyyy=XalanDOMChar(temp|((lowSurrogate&0x03C0)>>6));constXalanDOMCharxxxxxx=XalanDOMChar(lowSurrogate&0x003F);"
                   "constXalanDOMCharbyte1=XalanDOMChar(0xF0|(uuuuu>>2));constXalanDOMCharbyte2=XalanDOMChar(0x80|(((uuuuu&0x03)<<4)&0x30)|zzzz);constXalanDOMCharbyte3=XalanDOMChar(0x80|yyyyyy);"
                   "constXalanDOMCharbyte4=XalanDOMChar(0x80|xxxxxx);accumHexNumber(byte1);accumHexNumber(byte2);accumHexNumber(byte3);accumHexNumber(byte4);}"), wu, "writeAttrURI: four-byte form")
    need(re.escape("else{constXalanDOMCharhighByte=XalanDOMChar((ch>>12)|0xE0);constXalanDOMCharmiddleByte=XalanDOMChar(((ch&0x0FC0)>>6)|0x80);constXalanDOMCharlowByte=XalanDOMChar((ch&0x3F)|0x80);"
                   "accumHexNumber(highByte);accumHexNumber(middleByte);accumHexNumber(lowByte);}}"), wu, "writeAttrURI: three-byte form")
    need(re.escape("elseif(ch<m_maxCharacter){accumContent(ch);}"), wu, "writeAttrURI (no escaping): literal strictly below m_maxCharacter")
    uri_pair = "elseif(0xd800u<=ch&&ch<0xdc00u&&i+1<theStringLength&&0xdc00u<=theString[i+1]&&theString[i+1]<0xe000u){constXalanUnicodeChartheCodePoint=((XalanUnicodeChar(ch)-0xd800u)<<10)+theString[i+1]-0xdc00u+0x00010000u;++i;writeNumberedEntityReference(theCodePoint);}else{writeNumberedEntityReference(ch);}}" in wu
    out += "Definition uri_noescape_pair_is_one_reference : bool := %s.\n" % ("true" if uri_pair else "false")
    need(re.escape("elseif(ch==XalanUnicode::charQuoteMark){if(m_escapeURLs==true){accumContent(XalanUnicode::charPercentSign);accumContent(XalanUnicode::charDigit_2);accumContent(XalanUnicode::charDigit_2);}"
                   "else{accumDefaultEntity(ch,true);}}elseif(ch==XalanUnicode::charAmpersand){accumDefaultEntity(ch,true);}else{accumContent(ch);}"), wu, "writeAttrURI: quote and ampersand")
    hx = _sq(function_body(src, r"FormatterToHTML::accumHexNumber\s*\(", "accumHexNumber"))
    need(re.escape("accumContent(XalanUnicode::charPercentSign);") + ".*?" + re.escape("NumberToHexDOMString(theChar,m_stringBuffer);if(m_stringBuffer.length()==1){accumContent(XalanUnicode::charDigit_0);}accumContent(m_stringBuffer);"), hx,
         "accumHexNumber: % and two hex digits")
    # ---- namespace bookkeeping and the shared scratch string m_stringBuffer
    need(re.escape("boolpopHasNamespace(){returnm_prefixResolver==0?false:doPopHasNamespace();}boolpushHasNamespace(constXalanDOMChar*theElementName){returnm_prefixResolver==0?false:doPushHasNamespace(theElementName);}"),
         _sq(hhdr), "pushHasNamespace / popHasNamespace: false without a prefix resolver")
    dp = _sq(function_body(src, r"FormatterToHTML::doPushHasNamespace\s*\(", "doPushHasNamespace"))
    need("^" + re.escape("{assert(m_prefixResolver!=0);boolfHasNamespace=false;constsize_typetheLength=length(theElementName);constsize_typetheColonIndex=indexOf(theElementName,XalanUnicode::charColon);"
                         "constXalanDOMString*thePrefix=&s_emptyString;if(theColonIndex<theLength){substring(theElementName,m_stringBuffer,0,theColonIndex);thePrefix=&m_stringBuffer;}assert(thePrefix!=0);"
                         "constXalanDOMString*consttheNamespace=m_prefixResolver->getNamespaceForPrefix(*thePrefix);if(theNamespace!=0&&theNamespace->length()!=0){fHasNamespace=true;}"
                         "m_stringBuffer.clear();m_hasNamespaceStack.push_back(fHasNamespace);returnfHasNamespace;}") + "$", dp,
         "doPushHasNamespace: the prefix goes through m_stringBuffer, which is cleared before the function returns")
    out += "Definition push_has_namespace_clears_buffer : bool := true.    (* doPushHasNamespace ends with m_stringBuffer.clear() *)\n"
    need("^" + re.escape("{assert(m_prefixResolver!=0);assert(m_hasNamespaceStack.empty()==false);constbooltheValue=m_hasNamespaceStack.back();m_hasNamespaceStack.pop_back();returntheValue;}") + "$",
         _sq(function_body(src, r"FormatterToHTML::doPopHasNamespace\s*\(", "doPopHasNamespace")), "doPopHasNamespace: the flag pushed by the start tag")
    need(re.escape("{if(pushHasNamespace(name)==true){FormatterToXML::startElement(name,attrs);}else{writeParentTagEnd();"), _sq(function_body(src, r"FormatterToHTML::startElement\s*\(", "startElement")),
         "startElement: an element in a namespace goes to FormatterToXML::startElement")
    need(re.escape("{if(popHasNamespace()==true){FormatterToXML::endElement(name);}else{m_currentIndent-=m_indent;"), _sq(function_body(src, r"FormatterToHTML::endElement\s*\(", "endElement")),
         "endElement: an element in a namespace goes to FormatterToXML::endElement")
    xs = _sq(function_body(xsrc, r"FormatterToXML::startElement\s*\(", "FormatterToXML::startElement"))
    need(re.escape("writeParentTagEnd();m_ispreserve=false;") + ".*?" + re.escape("accumName(XalanUnicode::charLessThanSign);accumName(name);constXalanSize_tnAttrs=attrs.getLength();for(XalanSize_ti=0;i<nAttrs;i++)"
         "{processAttribute(attrs.getName(i),attrs.getValue(i));}openElementForChildren();"), xs, "FormatterToXML::startElement: '<' name attributes")
    need(re.escape("if(true==m_needToOutputDocTypeDecl&&m_doctypeSystem.empty()==false){outputDocTypeDecl(name);"), xs, "FormatterToXML::startElement: DOCTYPE only while m_needToOutputDocTypeDecl")
    need(re.escape("m_needToOutputDocTypeDecl=false;}") + "$", _sq(function_body(src, r"FormatterToHTML::startDocument\s*\(", "startDocument")), "HTML startDocument switches the XML DOCTYPE off")
    need(re.escape("m_stringBuffer.clear();"), _sq(function_body(src, r"FormatterToHTML::startDocument\s*\(", "startDocument")), "startDocument clears the scratch string")
    xe = _sq(function_body(xsrc, r"FormatterToXML::endElement\s*\(", "FormatterToXML::endElement"))
    need(re.escape("constboolhasChildNodes=childNodesWereAdded();if(hasChildNodes==true){if(shouldIndent()==true){indent(m_currentIndent);}accumName(XalanUnicode::charLessThanSign);accumName(XalanUnicode::charSolidus);accumName(name);}"
                   "else{if(m_spaceBeforeClose==true){accumName(XalanUnicode::charSpace);}accumName(XalanUnicode::charSolidus);}accumName(XalanUnicode::charGreaterThanSign);"), xe, "FormatterToXML::endElement: </name> or />")
    need("^" + re.escape("{accumContent(XalanUnicode::charSpace);accumName(name);accumContent(XalanUnicode::charEqualsSign);accumContent(XalanUnicode::charQuoteMark);writeAttrString(value,length(value));accumContent(XalanUnicode::charQuoteMark);}") + "$",
         _sq(function_body(xsrc, r"FormatterToXML::processAttribute\s*\(", "FormatterToXML::processAttribute")), "FormatterToXML::processAttribute")
    need(r"virtualvoidwriteAttrString\(", _sq(hdr), "writeAttrString is virtual (the HTML one serves namespaced elements too)")
    need(re.escape("if(startsWith(m_doctypePublic,s_xhtmlDocTypeString)==true){m_spaceBeforeClose=true;}"), _sq(function_body(xsrc, r"FormatterToXML::FormatterToXML\s*\(", "FormatterToXML constructor")),
         "space before '/>' for XHTML public ids")
    need("^" + re.escape("{accumContent(XalanUnicode::charPercentSign);assert(m_stringBuffer.empty()==true);NumberToHexDOMString(theChar,m_stringBuffer);if(m_stringBuffer.length()==1){accumContent(XalanUnicode::charDigit_0);}"
                         "accumContent(m_stringBuffer);m_stringBuffer.clear();}") + "$", _sq(function_body(src, r"FormatterToHTML::accumHexNumber\s*\(", "accumHexNumber")),
         "accumHexNumber appends to the scratch string, writes it, clears it")
    # ---- startElement / endElement / characters
    se = _sq(function_body(src, r"FormatterToHTML::startElement\s*\(", "startElement"))
    need(re.escape("writeParentTagEnd();constXalanHTMLElementsProperties::ElementProperties&elemProperties=XalanHTMLElementsProperties::find(name);"), se, "startElement: parent tag end, look-up")
    need(re.escape("if(elemProperties.is(XalanHTMLElementsProperties::SCRIPTELEM)==true){m_isScriptOrStyleElem=true;m_inScriptElemStack.push_back(true);}else{if(elemProperties.is(XalanHTMLElementsProperties::STYLEELEM)==true)"
                   "{m_isScriptOrStyleElem=true;}m_inScriptElemStack.push_back(m_inScriptElemStack.back());}"), se, "startElement: script flag is inherited")
    need(re.escape("m_isRawStack.push_back(elemProperties.is(XalanHTMLElementsProperties::RAW));accumContent(XalanUnicode::charLessThanSign);accumName(name);") + ".*?" +
         re.escape("processAttribute(attrs.getName(i),attrs.getValue(i),elemProperties);}openElementForChildren();"), se, "startElement: '<' name attributes")
    need(re.escape("if(elemProperties.is(XalanHTMLElementsProperties::HEADELEM)==true){writeParentTagEnd();if(m_omitMetaTag==false){if(m_doIndent){indent(m_currentIndent);}"
                   "accumContent(s_metaString,0,s_metaStringLength);accumContent(getEncoding());accumContent(XalanUnicode::charQuoteMark);accumContent(XalanUnicode::charGreaterThanSign);}}"), se, "startElement: META after HEAD")
    ee = _sq(function_body(src, r"FormatterToHTML::endElement\s*\(", "endElement"))
    need(re.escape("if(hasChildNodes){if(shouldIndent==true){indent(m_currentIndent);}if(elemProperties.is(XalanHTMLElementsProperties::EMPTY)==false){accumContent(XalanUnicode::charLessThanSign);"
                   "accumContent(XalanUnicode::charSolidus);accumName(name);accumContent(XalanUnicode::charGreaterThanSign);}}else{if(elemProperties.is(XalanHTMLElementsProperties::EMPTY)==false)"
                   "{accumContent(XalanUnicode::charGreaterThanSign);accumContent(XalanUnicode::charLessThanSign);accumContent(XalanUnicode::charSolidus);accumName(name);accumContent(XalanUnicode::charGreaterThanSign);}"
                   "else{accumContent(XalanUnicode::charGreaterThanSign);}}"), ee, "endElement: end tag unless EMPTY")
    ch = _sq(function_body(src, r"FormatterToHTML::characters\s*\(", "characters"))
    need(re.escape("if(length!=0){if(m_inCData==true){cdata(chars,length);}elseif(m_nextIsRaw){m_nextIsRaw=false;charactersRaw(chars,length);}elseif(m_inScriptElemStack.back()==true){charactersRaw(chars,length);}"
                   "elseif(m_isRawStack.empty()==false&&m_isRawStack.back()==true){writeParentTagEnd();m_ispreserve=true;if(shouldIndent()==true){indent(m_currentIndent);}writeNormalizedChars(chars,0,length,false);}"
                   "else{writeParentTagEnd();m_ispreserve=true;writeCharacters(chars,length);}}"), ch, "characters: script / raw / escaped")
    need(re.escape("{writeParentTagEnd();m_ispreserve=true;accumContent(chars,0,length);}"), _sq(function_body(xsrc, r"FormatterToXML::charactersRaw\s*\(", "charactersRaw")), "charactersRaw")
    wn = _sq(function_body(xsrc, r"FormatterToXML::writeNormalizedChars\s*\(", "writeNormalizedChars"))
    need(re.escape("if(XalanUnicode::charCR==c&&i+1<end&&XalanUnicode::charLF==ch[i+1]&&(isCData==false||isReferenceInCDATA(c)==false)){outputLineSep();i++;}elseif(XalanUnicode::charLF==c){outputLineSep();}"
                   "elseif(isCData==true&&isReferenceInCDATA(c)==true)"), wn, "writeNormalizedChars: CR LF and LF (outside CDATA sections: always)")
    need(re.escape("else{if(c<=m_maxCharacter){if(0xd800<=c&&c<0xe000){if(c>=0xdc00||i+1>=end||!(0xdc00<=ch[i+1]&&ch[i+1]<0xe000)){throwInvalidUTF16SurrogateException(c,getMemoryManager());}"
                   "accumContent(c);accumContent(ch[++i]);}else{accumContent(c);}}elseif(0xdc00<=c&&c<0xe000){throwInvalidUTF16SurrogateException(c,getMemoryManager());}elseif(0xd800<=c&&c<0xdc00){") + ".*?" +
         re.escape("next=((c-0xd800)<<10)+next-0xdc00+0x00010000;writeNumberedEntityReference(next);}}else{writeNumberedEntityReference(c);}}}}") + "$", wn,
         "writeNormalizedChars: a unit of the encoding as it is (surrogates only in pairs), else a reference (a lone surrogate is an error)")
    # ---- comment / PI
    cm = _sq(function_body(xsrc, r"FormatterToXML::comment\s*\(", "comment"))
    need(re.escape("writeParentTagEnd();if(shouldIndent()==true){indent(m_currentIndent);}accumName(XalanUnicode::charLessThanSign);accumName(XalanUnicode::charExclamationMark);accumName(XalanUnicode::charHyphenMinus);"
                   "accumName(XalanUnicode::charHyphenMinus);accumCommentData(data);accumName(XalanUnicode::charHyphenMinus);accumName(XalanUnicode::charHyphenMinus);accumName(XalanUnicode::charGreaterThanSign);"), cm, "comment")
    need(re.escape("{accumName(data);}"), _sq(function_body(src, r"FormatterToHTML::accumCommentData\s*\(", "accumCommentData")), "HTML comment data goes through accumName")
    pi = _sq(function_body(src, r"FormatterToHTML::processingInstruction\s*\(", "processingInstruction"))
    need(re.escape("if(equals(target,length(target),s_piTarget,s_piTargetLength)==true&&equals(data,dataLength,s_piData,s_piDataLength)==true){m_nextIsRaw=true;}else{writeParentTagEnd();if(shouldIndent()==true){indent(m_currentIndent);}"
                   "accumContent(XalanUnicode::charLessThanSign);accumContent(XalanUnicode::charQuestionMark);accumName(target);if(length(data)>0){if(isXMLWhitespace(data[0])==false){accumContent(XalanUnicode::charSpace);}"), pi, "PI: <?target")
    # exactly two shapes of the site between "<?target[ ]" and '>': escaped (as found) and raw (the repaired loop)
    tail = "}accumContent(XalanUnicode::charGreaterThanSign);if(m_elementLevel==0){outputLineSep();}m_startNewLine=true;}}"
    pi_escaped = pi.endswith("writeCharacters(data,dataLength);" + tail)
    pi_raw = pi.endswith("for(size_typei=0;i<dataLength;++i){accumContent(data[i]);}" + tail)
    if pi_escaped == pi_raw:
        raise AnchorError("processingInstruction: neither writeCharacters(data, dataLength) nor the unit-by-unit accumContent(data[i]) loop before '>'")
    out += "Definition pi_data_is_escaped : bool := %s.    (* data goes through writeCharacters *)\n" % ("true" if pi_escaped else "false")
    facts["pi_data_is_escaped"] = pi_escaped
    # ---- strings
    out += "Definition meta_string : list N := %s.\n" % nl(_array(src, "FormatterToHTML::s_metaString", env))
    out += "Definition doctype_start : list N := %s.\n" % nl(_array(src, "FormatterToHTML::s_doctypeHeaderStartString", env))
    out += "Definition doctype_public : list N := %s.\n" % nl(_array(src, "FormatterToHTML::s_doctypeHeaderPublicString", env))
    out += "Definition doctype_system : list N := %s.\n" % nl(_array(src, "FormatterToHTML::s_doctypeHeaderSystemString", env))
    sd = _sq(function_body(src, r"FormatterToHTML::startDocument\s*\(", "startDocument"))
    need(re.escape("if(isEmptySystem==false||isEmptyPublic==false){accumContent(s_doctypeHeaderStartString,0,s_doctypeHeaderStartStringLength);if(isEmptyPublic==false){accumContent(s_doctypeHeaderPublicString,0,s_doctypeHeaderPublicStringLength);"
                   "accumContent(m_doctypePublic);accumContent(XalanUnicode::charQuoteMark);}if(isEmptySystem==false){if(isEmptyPublic==true){accumContent(s_doctypeHeaderSystemString,0,s_doctypeHeaderSystemStringLength);}"
                   "accumContent(XalanUnicode::charSpace);accumContent(XalanUnicode::charQuoteMark);accumContent(m_doctypeSystem);accumContent(XalanUnicode::charQuoteMark);}accumContent(XalanUnicode::charGreaterThanSign);outputLineSep();}"), sd,
         "startDocument: DOCTYPE line")
    return out, facts


GENERATORS = {"GenHtml": gen_html}
