(* PatcRefuseModel.v — C09 part "compile": classes of token lists the pattern compiler refuses (first alternative). *)
From Coq Require Import List NArith Bool Arith Lia.
Import ListNotations.
Require Import XV.XpAst XV.GenXpc XV.GenPatc XV.XpcLexDefs XV.XpcParseDefs XV.PatcDefs.

Lemma pparse_first_step_err : forall fl pf ns ts,
  is_idkey ts = false -> N.eqb (tokc ts) ch_solidus = false -> N.eqb (tokc ts) ch_bar = false -> ts <> [] ->
  (forall pe lf, pp_step fl ns pe lf ts = Err) ->
  pparse fl pf ns ts = Err.
Proof.
  intros fl pf ns ts H1 H2 H3 H4 H5. unfold pparse. cbn [pp_pattern]. unfold pp_lpp, pp_head, pp_tail. rewrite H1, H2.
  cbn [andb]. destruct ts as [|t r]; [congruence|]. cbn [isnil]. rewrite H3. cbn [negb andb].
  cbn [pp_steps]. rewrite H5. destruct (px_lpp pf); reflexivity.
Qed.

(* an axis other than child / attribute in the first step *)
Theorem refuses_other_axis_m : forall fl pf ns name r,
  N.eqb (tokc [name]) ch_at = false -> N.eqb (tokc [name]) ch_solidus = false -> N.eqb (tokc [name]) ch_bar = false ->
  str_eqb name kw_child = false -> str_eqb name kw_attribute = false ->
  pparse fl pf ns (name :: gen_xpc_kw_axis_sep :: r) = Err.
Proof.
  intros fl pf ns name r A1 A2 A3 A4 A5.
  assert (T : tokc (name :: gen_xpc_kw_axis_sep :: r) = tokc [name]) by (destruct name; reflexivity).
  apply pparse_first_step_err; try discriminate.
  - unfold is_idkey. reflexivity.
  - rewrite T. exact A2.
  - rewrite T. exact A3.
  - intros pe lf. unfold pp_step, pp_axis. rewrite T, A1.
    cbn [look_s nth_error]. replace (str_eqb gen_xpc_kw_axis_sep gen_xpc_kw_axis_sep) with true by reflexivity.
    unfold tok_is. rewrite A5, A4. reflexivity.
Qed.

(* a variable reference in the first step ('$' is not an NCName: no prefix binding for it) *)
Theorem refuses_variable_m : forall fl pf ns r, ns [ch_dollar] = None -> pparse fl pf ns ([ch_dollar] :: r) = Err.
Proof.
  intros fl pf ns r Hns. apply pparse_first_step_err; try discriminate; try reflexivity.
  - unfold is_idkey. replace (tok_is ([ch_dollar] :: r) kw_id) with false by reflexivity.
    replace (tok_is ([ch_dollar] :: r) kw_key) with false by reflexivity. apply andb_false_r.
  - intros pe lf. unfold pp_step, pp_axis.
    replace (N.eqb (tokc ([ch_dollar] :: r)) ch_at) with false by reflexivity.
    replace (tok_is ([ch_dollar] :: r) kw_attribute) with false by reflexivity.
    replace (tok_is ([ch_dollar] :: r) kw_child) with false by reflexivity.
    replace (N.eqb (tokc ([ch_dollar] :: r)) ch_solidus) with false by reflexivity.
    destruct (look_s ([ch_dollar] :: r) gen_xpc_kw_axis_sep 1); [reflexivity|].
    unfold p_nodetest. cbn [cur_tok].
    replace (ntype_of_name [ch_dollar]) with (@None ntype) by reflexivity.
    destruct (look_c ([ch_dollar] :: r) ch_lparen 1); [reflexivity|].
    replace (N.eqb (tokc ([ch_dollar] :: r)) ch_asterisk) with false by reflexivity. rewrite Hns.
    destruct (look_c ([ch_dollar] :: r) ch_colon 1); [reflexivity|].
    replace (is_nodetest_tok [ch_dollar]) with false by (vm_compute; reflexivity). reflexivity.
Qed.

(* a function call other than id( / key( (and not a node type test) in the first step *)
Theorem refuses_function_call_m : forall fl pf ns name r,
  N.eqb (tokc [name]) ch_at = false -> N.eqb (tokc [name]) ch_solidus = false -> N.eqb (tokc [name]) ch_bar = false ->
  str_eqb name kw_id = false -> str_eqb name kw_key = false -> ntype_of_name name = None ->
  pparse fl pf ns (name :: [ch_lparen] :: r) = Err.
Proof.
  intros fl pf ns name r A1 A2 A3 A4 A5 A6.
  assert (T : tokc (name :: [ch_lparen] :: r) = tokc [name]) by (destruct name; reflexivity).
  apply pparse_first_step_err; try discriminate.
  - unfold is_idkey, tok_is. rewrite A4, A5. apply andb_false_r.
  - rewrite T. exact A2.
  - rewrite T. exact A3.
  - intros pe lf. unfold pp_step, pp_axis. rewrite !T, A1, A2.
    replace (look_s (name :: [ch_lparen] :: r) gen_xpc_kw_axis_sep 1) with false by reflexivity.
    unfold p_nodetest. replace (look_c (name :: [ch_lparen] :: r) ch_lparen 1) with true by reflexivity.
    cbn [cur_tok]. rewrite A6. reflexivity.
Qed.
