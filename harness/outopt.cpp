// Correspondence + oracle driver for C08 (output options change only the lexical form).
//
// One case per line, first token = mode:
//   X <id> <enc> <ver> <indent:-1|n> <omitdecl:0|1> <standalone:-|yes|no|..> <dtsys:-|u:..> <dtpub:-|u:..> <event>*
//        the product of XalanXMLSerializerFactory::create (what StylesheetRoot::setupFormatterListener builds
//        for method="xml"); indent -1 = doIndent false.   Output: "<id> ok:<hex bytes>|<re-parse>" | "<id> err:<class>|-"
//   T <id> <enc> <event>*
//        FormatterToText::create(mm, writer, encoding)   Output: "<id> ok:<hex bytes>"
//   H <id> <enc> <indent:-1|n> <escapeURLs:0|1> <omitMeta:0|1> <dtsys> <dtpub> <event>*
//        FormatterToHTML::create(...)                     Output: "<id> ok:<hex bytes>"
//   HN <id> ... as H, but a prefix resolver is set on the formatter (FormatterListener::setPrefixResolver) that answers from the
//        xmlns / xmlns:p attributes of the open elements (innermost first; no binding -> 0), as the XSLT engine's result
//        namespace stack does: elements whose prefix (or the default namespace) is bound go to FormatterToXML's code
//   Z <id> <hex sheet> <hex source> <setIndent:-|n> <setOutputEncoding:-|name> <setOmitMETATag:-|0|1> <setEscapeURLs:-|0|1> [<name>=<hex file>]*
//        whole transformation through XalanTransformer with the API overrides; extra files are served as
//        file:///vmem/<name> (stylesheet = file:///vmem/main.xsl)   Output: "<id> ok:<hex bytes>" | "<id> err:<status>:<hex message>"
//   R <id> <hex bytes> [<encoding>]   re-parse only (Xerces SAX2)                    Output: "<id> <re-parse>"
//   event ::= S <u:name> <n> (<u:attrname> <u:attrvalue>){n} | E <u:name> | T <u:text> | C <u:text> | R <u:text> (charactersRaw)
//           | M <u:text> | P <u:target> <u:data>
//   re-parse = the bytes parsed by Xerces SAX2, printed as an event script with adjacent text coalesced, or PARSEERR:<msg>
#include "common.hpp"
#include <map>
#include <sys/resource.h>
#include <xercesc/sax2/SAX2XMLReader.hpp>
#include <xercesc/sax2/XMLReaderFactory.hpp>
#include <xercesc/sax2/DefaultHandler.hpp>
#include <xercesc/sax2/Attributes.hpp>
#include <xercesc/sax/SAXParseException.hpp>
#include <xercesc/sax/SAXException.hpp>
#include <xercesc/sax/EntityResolver.hpp>
#include <xercesc/sax/InputSource.hpp>
#include <xercesc/framework/MemBufInputSource.hpp>
#include <xercesc/util/XMLUni.hpp>
#include <xercesc/util/XMLString.hpp>
#include <xalanc/PlatformSupport/XalanStdOutputStream.hpp>
#include <xalanc/PlatformSupport/XalanOutputStreamPrintWriter.hpp>
#include <xalanc/PlatformSupport/AttributeListImpl.hpp>
#include <xalanc/PlatformSupport/XSLException.hpp>
#include <xalanc/PlatformSupport/FormatterListener.hpp>
#include <xalanc/PlatformSupport/PrefixResolver.hpp>
#include <xalanc/XMLSupport/XalanXMLSerializerFactory.hpp>
#include <xalanc/XMLSupport/FormatterToText.hpp>
#include <xalanc/XMLSupport/FormatterToHTML.hpp>
#include <xalanc/XSLT/XSLTInputSource.hpp>
#include <xalanc/XSLT/XSLTResultTarget.hpp>

using namespace xalanc;
using namespace verif;

struct Event { char kind; XalanDOMString a, b; std::vector<std::pair<XalanDOMString, XalanDOMString> > attrs; };

static std::string hexbytes(const std::string& s)
{
    static const char* d = "0123456789abcdef";
    std::string r; r.reserve(s.size() * 2);
    for (size_t i = 0; i < s.size(); ++i) { unsigned char c = (unsigned char) s[i]; r += d[c >> 4]; r += d[c & 15]; }
    return r;
}

static std::string unhex(const std::string& h)
{
    std::string r;
    for (size_t i = 0; i + 1 < h.size(); i += 2) r += (char) std::strtoul(h.substr(i, 2).c_str(), 0, 16);
    return r;
}

static const XalanDOMChar s_cdataType[] = { 'C', 'D', 'A', 'T', 'A', 0 };

static void replay(FormatterListener& fl, const std::vector<Event>& evs)
{
    fl.startDocument();
    for (size_t i = 0; i < evs.size(); ++i) {
        const Event& e = evs[i];
        switch (e.kind) {
        case 'S': {
            AttributeListImpl al(XalanMemMgrs::getDefaultXercesMemMgr());
            for (size_t k = 0; k < e.attrs.size(); ++k)
                al.addAttribute(e.attrs[k].first.c_str(), s_cdataType, e.attrs[k].second.c_str());
            fl.startElement(e.a.c_str(), al);
            break; }
        case 'E': fl.endElement(e.a.c_str()); break;
        case 'T': fl.characters(e.a.c_str(), e.a.length()); break;
        case 'C': fl.cdata(e.a.c_str(), e.a.length()); break;
        case 'R': fl.charactersRaw(e.a.c_str(), e.a.length()); break;
        case 'M': fl.comment(e.a.c_str()); break;
        case 'P': fl.processingInstruction(e.a.c_str(), e.b.c_str()); break;
        }
    }
    fl.endDocument();
}

static bool parse_events(const std::vector<std::string>& t, size_t i, std::vector<Event>& evs)
{
    while (i < t.size()) {
        Event e; e.kind = t[i][0];
        switch (e.kind) {
        case 'S': {
            if (i + 2 >= t.size()) return false;
            e.a = u16_of_token(t[i + 1]);
            size_t n = std::strtoul(t[i + 2].c_str(), 0, 10);
            if (i + 3 + 2 * n > t.size()) return false;
            for (size_t k = 0; k < n; ++k)
                e.attrs.push_back(std::make_pair(u16_of_token(t[i + 3 + 2 * k]), u16_of_token(t[i + 4 + 2 * k])));
            i += 3 + 2 * n;
            break; }
        case 'E': case 'T': case 'C': case 'M': case 'R':
            if (i + 1 >= t.size()) return false;
            e.a = u16_of_token(t[i + 1]); i += 2; break;
        case 'P':
            if (i + 2 >= t.size()) return false;
            e.a = u16_of_token(t[i + 1]); e.b = u16_of_token(t[i + 2]); i += 3; break;
        default: return false;
        }
        evs.push_back(e);
    }
    return true;
}

static XalanDOMString opt_string(const std::string& t, MemoryManager& mm)
{
    if (t == "-") return XalanDOMString(mm);
    if (t.compare(0, 2, "u:") == 0) return u16_of_token(t);
    return XalanDOMString(t.c_str(), mm);
}

struct Del { FormatterListener* p; MemoryManager& m; ~Del() { if (p) { p->~FormatterListener(); m.deallocate(p); } } };

template <class Make>
static std::string run_listener(Make make, const std::vector<Event>& evs, std::string& out)
{
    MemoryManager& mm = XalanMemMgrs::getDefaultXercesMemMgr();
    std::ostringstream os;
    std::string status;
    try {
        XalanStdOutputStream stream(os, mm);
        XalanOutputStreamPrintWriter writer(stream);
        FormatterListener* fl = make(mm, writer);
        Del del = { fl, mm };
        replay(*fl, evs);
        writer.flush();
        stream.flush();
        status = "ok";
    }
    catch (const xercesc::SAXException&) { status = "err:SAXException"; }
    catch (const XSLException&) { status = "err:XSLException"; }
    catch (const xercesc::XMLException&) { status = "err:XMLException"; }
    catch (...) { status = "err:unknown"; }
    out = os.str();
    if (status == "ok") return "ok:" + hexbytes(out);
    return status;
}

// ---- HN: the namespace declarations in scope, as a PrefixResolver
class ScopeResolver : public PrefixResolver
{
public:
    std::vector<std::vector<std::pair<XalanDOMString, XalanDOMString> > > m_frames;
    XalanDOMString m_uri;
    ScopeResolver() : m_frames(), m_uri(XalanMemMgrs::getDefaultXercesMemMgr()) {}
    virtual const XalanDOMString* getNamespaceForPrefix(const XalanDOMString& prefix) const
    {
        for (size_t f = m_frames.size(); f-- > 0; )
            for (size_t k = 0; k < m_frames[f].size(); ++k)
                if (m_frames[f][k].first == prefix) return &m_frames[f][k].second;
        return 0;
    }
    virtual const XalanDOMString& getURI() const { return m_uri; }
    void push(const Event& e)
    {
        std::vector<std::pair<XalanDOMString, XalanDOMString> > fr;
        for (size_t k = 0; k < e.attrs.size(); ++k) {
            const XalanDOMString& n = e.attrs[k].first;
            if (n.length() >= 5 && n[0] == 'x' && n[1] == 'm' && n[2] == 'l' && n[3] == 'n' && n[4] == 's') {
                if (n.length() == 5) fr.push_back(std::make_pair(XalanDOMString(XalanMemMgrs::getDefaultXercesMemMgr()), e.attrs[k].second));
                else if (n[5] == ':') { XalanDOMString p(XalanMemMgrs::getDefaultXercesMemMgr()); p.assign(n.c_str() + 6, n.length() - 6); fr.push_back(std::make_pair(p, e.attrs[k].second)); }
            }
        }
        m_frames.push_back(fr);
    }
    void pop() { if (!m_frames.empty()) m_frames.pop_back(); }
};

static void replay_ns(FormatterListener& fl, const std::vector<Event>& evs, ScopeResolver& res)
{
    fl.setPrefixResolver(&res);
    fl.startDocument();
    for (size_t i = 0; i < evs.size(); ++i) {
        const Event& e = evs[i];
        switch (e.kind) {
        case 'S': {
            AttributeListImpl al(XalanMemMgrs::getDefaultXercesMemMgr());
            for (size_t k = 0; k < e.attrs.size(); ++k)
                al.addAttribute(e.attrs[k].first.c_str(), s_cdataType, e.attrs[k].second.c_str());
            res.push(e);
            fl.startElement(e.a.c_str(), al);
            break; }
        case 'E': fl.endElement(e.a.c_str()); res.pop(); break;
        case 'T': fl.characters(e.a.c_str(), e.a.length()); break;
        case 'C': fl.cdata(e.a.c_str(), e.a.length()); break;
        case 'R': fl.charactersRaw(e.a.c_str(), e.a.length()); break;
        case 'M': fl.comment(e.a.c_str()); break;
        case 'P': fl.processingInstruction(e.a.c_str(), e.b.c_str()); break;
        }
    }
    fl.endDocument();
}

template <class Make>
static std::string run_listener_ns(Make make, const std::vector<Event>& evs, std::string& out)
{
    MemoryManager& mm = XalanMemMgrs::getDefaultXercesMemMgr();
    std::ostringstream os;
    std::string status;
    try {
        XalanStdOutputStream stream(os, mm);
        XalanOutputStreamPrintWriter writer(stream);
        ScopeResolver res;
        FormatterListener* fl = make(mm, writer);
        Del del = { fl, mm };
        replay_ns(*fl, evs, res);
        writer.flush();
        stream.flush();
        status = "ok";
    }
    catch (const xercesc::SAXException&) { status = "err:SAXException"; }
    catch (const XSLException&) { status = "err:XSLException"; }
    catch (const xercesc::XMLException&) { status = "err:XMLException"; }
    catch (...) { status = "err:unknown"; }
    out = os.str();
    if (status == "ok") return "ok:" + hexbytes(out);
    return status;
}

struct MakeXml {
    std::string enc, ver, standalone, dtsys, dtpub; int indent; bool omit;
    FormatterListener* operator()(MemoryManager& mm, Writer& w) const {
        XalanDOMString encoding(enc.c_str(), mm), version(ver.c_str(), mm), empty(mm);
        return XalanXMLSerializerFactory::create(mm, w, version, indent > -1, indent, encoding, empty,
                                                 opt_string(dtsys, mm), opt_string(dtpub, mm), !omit, opt_string(standalone, mm));
    }
};
struct MakeText {
    std::string enc;
    FormatterListener* operator()(MemoryManager& mm, Writer& w) const {
        XalanDOMString encoding(enc.c_str(), mm);
        return FormatterToText::create(mm, w, encoding);
    }
};
struct MakeHtml {
    std::string enc, dtsys, dtpub; int indent; bool esc, omitMeta;
    FormatterListener* operator()(MemoryManager& mm, Writer& w) const {
        XalanDOMString encoding(enc.c_str(), mm), empty(mm);
        return FormatterToHTML::create(mm, w, encoding, empty, opt_string(dtsys, mm), opt_string(dtpub, mm),
                                       indent > -1, indent < 0 ? 0 : indent, esc, omitMeta);
    }
};

class Collector : public xercesc::DefaultHandler
{
public:
    std::string   m_out;
    XalanDOMString m_text;
    std::string   m_error;
    void flushText() { if (!m_text.empty()) { m_out += " T " + token_of_u16(m_text); m_text.clear(); } }
    static std::string tok(const XMLCh* s) { return token_of_u16(s, xercesc::XMLString::stringLen(s)); }
    virtual void startElement(const XMLCh* const, const XMLCh* const, const XMLCh* const qname, const xercesc::Attributes& attrs)
    {
        flushText();
        char buf[32]; std::snprintf(buf, sizeof buf, " %u", (unsigned) attrs.getLength());
        m_out += " S " + tok(qname) + buf;
        for (XMLSize_t i = 0; i < attrs.getLength(); ++i)
            m_out += " " + tok(attrs.getQName(i)) + " " + tok(attrs.getValue(i));
    }
    virtual void endElement(const XMLCh* const, const XMLCh* const, const XMLCh* const qname) { flushText(); m_out += " E " + tok(qname); }
    virtual void characters(const XMLCh* const chars, const XMLSize_t length) { m_text.append(chars, (XalanDOMString::size_type) length); }
    virtual void ignorableWhitespace(const XMLCh* const chars, const XMLSize_t length) { m_text.append(chars, (XalanDOMString::size_type) length); }
    virtual void processingInstruction(const XMLCh* const target, const XMLCh* const data) { flushText(); m_out += " P " + tok(target) + " " + tok(data); }
    virtual void comment(const XMLCh* const chars, const XMLSize_t length) { flushText(); m_out += " M " + token_of_u16(chars, length); }
    virtual void error(const xercesc::SAXParseException& e) { note(e); }
    virtual void fatalError(const xercesc::SAXParseException& e) { note(e); throw e; }
    void note(const xercesc::SAXParseException& e)
    {
        if (!m_error.empty()) return;
        char* m = xercesc::XMLString::transcode(e.getMessage());
        m_error = m ? m : "?";
        xercesc::XMLString::release(&m);
        for (size_t i = 0; i < m_error.size(); ++i) if (m_error[i] == ' ' || m_error[i] == '|') m_error[i] = '_';
    }
};

static std::string reparse(const std::string& bytes, const std::string& forcedEncoding = std::string())
{
    using namespace xercesc;
    Collector c;
    SAX2XMLReader* r = XMLReaderFactory::createXMLReader();
    std::string res;
    try {
        r->setFeature(XMLUni::fgSAX2CoreNameSpaces, true);
        r->setFeature(XMLUni::fgSAX2CoreNameSpacePrefixes, true);
        r->setFeature(XMLUni::fgSAX2CoreValidation, false);
        r->setFeature(XMLUni::fgXercesLoadExternalDTD, false);
        r->setContentHandler(&c);
        r->setLexicalHandler(&c);
        r->setErrorHandler(&c);
        MemBufInputSource src((const XMLByte*) bytes.data(), bytes.size(), "outopt-output");
        // no XML declaration was requested: the encoding is external information (as an HTTP header would give it)
        if (!forcedEncoding.empty()) src.setEncoding(XalanDOMString(forcedEncoding.c_str()).c_str());
        r->parse(src);
        c.flushText();
        res = c.m_error.empty() ? (c.m_out.empty() ? " " : c.m_out) : "PARSEERR:" + c.m_error;
    }
    catch (const SAXParseException&) { res = "PARSEERR:" + (c.m_error.empty() ? std::string("?") : c.m_error); }
    catch (const SAXException&) { res = "PARSEERR:SAXException"; }
    catch (const XMLException&) { res = "PARSEERR:XMLException"; }
    catch (...) { res = "PARSEERR:unknown"; }
    delete r;
    if (!res.empty() && res[0] == ' ') res = res.substr(1);
    return res;
}

static std::string narrowX(const XMLCh* s) { std::string r; if (s) for (; *s; ++s) r += (char) *s; return r; }

class MemResolver : public xercesc::EntityResolver
{
public:
    std::map<std::string, std::string> m_files;
    virtual xercesc::InputSource* resolveEntity(const XMLCh* const, const XMLCh* const systemId)
    {
        std::string id = narrowX(systemId);
        std::string::size_type p = id.find("/vmem/");
        std::string name = p == std::string::npos ? id : id.substr(p + 6);
        if (p == std::string::npos && id.find(':') != std::string::npos) return 0;
        std::map<std::string, std::string>::const_iterator i = m_files.find(name);
        if (i == m_files.end()) return 0;
        return new xercesc::MemBufInputSource((const XMLByte*) i->second.data(), i->second.size(), systemId, false);
    }
};

static void transform_case(const std::vector<std::string>& t)
{
    // Z id sheet source indent enc omitmeta escapeurls files...
    const std::string& id = t[1];
    if (t.size() < 8) { std::cout << id << " badscript" << std::endl; return; }
    std::string sheet = unhex(t[2]), src = unhex(t[3]);
    MemResolver res;
    for (size_t k = 8; k < t.size(); ++k) {
        size_t e = t[k].find('=');
        if (e != std::string::npos) res.m_files[t[k].substr(0, e)] = unhex(t[k].substr(e + 1));
    }
    XalanTransformer* tr = new XalanTransformer;
    tr->setEntityResolver(&res);
    tr->setWarningStream(0);
    if (t[4] != "-") tr->setIndent(std::atoi(t[4].c_str()));
    if (t[5] != "-") tr->setOutputEncoding(XalanDOMString(t[5].c_str()));
    if (t[6] != "-") tr->setOmitMETATag(t[6] == "1" ? XalanTransformer::eOmitMETATagYes : XalanTransformer::eOmitMETATagNo);
    if (t[7] != "-") tr->setEscapeURLs(t[7] == "1" ? XalanTransformer::eEscapeURLsYes : XalanTransformer::eEscapeURLsNo);
    std::istringstream ss(sheet), ds(src);
    XSLTInputSource sin(&ss), din(&ds);
    sin.setSystemId(XalanDOMString("file:///vmem/main.xsl").c_str());
    din.setSystemId(XalanDOMString("file:///vmem/main.xml").c_str());
    std::ostringstream os;
    int rc = -99; std::string msg;
    try {
        XSLTResultTarget out(os);
        rc = tr->transform(din, sin, out);
        if (rc != 0) msg = tr->getLastError();
    } catch (const std::exception& e) { rc = -98; msg = std::string("std::exception: ") + e.what(); }
    catch (...) { rc = -97; msg = "unknown exception"; }
    if (rc == 0) std::cout << id << " ok:" << hexbytes(os.str()) << std::endl;
    else std::cout << id << " err:" << rc << ":" << hexbytes(msg) << std::endl;
    tr->setEntityResolver(0);
    delete tr;
}

int main(int argc, char** argv)
{
    struct rlimit rl; rl.rlim_cur = rl.rlim_max = (rlim_t) 1 << 30; setrlimit(RLIMIT_AS, &rl);
    Init init;
    std::istream* in = &std::cin;
    std::ifstream f;
    if (argc > 1) { f.open(argv[1]); in = &f; }
    std::string line;
    while (std::getline(*in, line)) {
        std::vector<std::string> t = split(line);
        if (t.size() < 3 || t[0][0] == '#') continue;
        const std::string& id = t[1];
        std::vector<Event> evs;
        std::string bytes;
        if (t[0] == "X") {
            if (t.size() < 9 || !parse_events(t, 9, evs)) { std::cout << id << " badscript" << std::endl; continue; }
            MakeXml m; m.enc = t[2]; m.ver = t[3]; m.indent = std::atoi(t[4].c_str()); m.omit = t[5] == "1";
            m.standalone = t[6]; m.dtsys = t[7]; m.dtpub = t[8];
            std::string s = run_listener(m, evs, bytes);
            std::cout << id << ' ' << s << '|' << (s.compare(0, 3, "ok:") == 0 ? reparse(bytes, (m.omit && m.standalone == "-") ? m.enc : std::string()) : std::string("-")) << std::endl;
        } else if (t[0] == "T") {
            if (!parse_events(t, 3, evs)) { std::cout << id << " badscript" << std::endl; continue; }
            MakeText m; m.enc = t[2];
            std::cout << id << ' ' << run_listener(m, evs, bytes) << std::endl;
        } else if (t[0] == "H") {
            if (t.size() < 8 || !parse_events(t, 8, evs)) { std::cout << id << " badscript" << std::endl; continue; }
            MakeHtml m; m.enc = t[2]; m.indent = std::atoi(t[3].c_str()); m.esc = t[4] == "1"; m.omitMeta = t[5] == "1";
            m.dtsys = t[6]; m.dtpub = t[7];
            std::cout << id << ' ' << run_listener(m, evs, bytes) << std::endl;
        } else if (t[0] == "HN") {
            if (t.size() < 8 || !parse_events(t, 8, evs)) { std::cout << id << " badscript" << std::endl; continue; }
            MakeHtml m; m.enc = t[2]; m.indent = std::atoi(t[3].c_str()); m.esc = t[4] == "1"; m.omitMeta = t[5] == "1";
            m.dtsys = t[6]; m.dtpub = t[7];
            std::cout << id << ' ' << run_listener_ns(m, evs, bytes) << std::endl;
        } else if (t[0] == "Z") {
            transform_case(t);
        } else if (t[0] == "R") {
            std::cout << id << ' ' << reparse(unhex(t[2]), t.size() > 3 ? t[3] : std::string()) << std::endl;
        } else {
            std::cout << id << " badscript" << std::endl;
        }
    }
    return 0;
}
