<?xml version="1.0"?>
<!-- calls an extension function installed with XalanTransformer::installExternalFunction (harness/mem_multi.cpp) -->
<xsl:stylesheet version="1.0" xmlns:xsl="http://www.w3.org/1999/XSL/Transform"
                xmlns:ext="http://verif.example/ext" exclude-result-prefixes="ext">
  <xsl:template match="/">
    <out>
      <xsl:choose>
        <xsl:when test="function-available('ext:twice')">
          <xsl:for-each select="//*[@qty]"><q><xsl:value-of select="ext:twice(@qty)"/></q></xsl:for-each>
        </xsl:when>
        <xsl:otherwise><none/></xsl:otherwise>
      </xsl:choose>
    </out>
  </xsl:template>
</xsl:stylesheet>
