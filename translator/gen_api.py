"""C06 translator plugin: /repo's reset machinery -> coq/GenApi.v (regenerated on every run, fail closed).

(a) data members (name + coarse kind) of StylesheetExecutionContextDefault, XPathExecutionContextDefault,
    XSLTEngineImpl, XalanTransformer and their state-carrying bases;
(b) for each reset()/cleanUpTransients()/XalanTransformer::reset()/~EnsureReset: the members assigned,
    cleared or reset by its body, in the conditional-compilation branch that is actually compiled
    (XALAN_RECURSIVE_STYLESHEET_EXECUTION must be undefined: checked), every statement recognised;
(c) doTransform: the top-level statements of its try block classified as guard construction /
    touching the long-lived execution context / passing a reference / other;
(d) the catch clauses (exception class, status) of doTransform, compileStylesheet, parseSource, and the
    idiom with which each of them empties m_errorMessage;
(e) whether XalanObjectStackCache::reset() rewinds m_numObjectsOnStack.
"""
import os, re
import srcfacts
from srcfacts import AnchorError, read, strip_comments, need, function_body, HEADER

MACROS = {  # conditional-compilation symbols that may guard code in the anchored files
    "XALAN_RECURSIVE_STYLESHEET_EXECUTION": False,   # verified below: defined nowhere
    "APACHE_XALAN_C_VERIF": False,                   # the verification hook itself is not part of the facts
    "XALAN_AUTO_PTR_REQUIRES_DEFINITION": False,
    "XALAN_OBJECT_CACHE_KEEP_BUSY_LIST": False,
    "XALAN_NO_DEFAULT_TEMPLATE_ARGUMENTS": False,
    "XALAN_USE_ICU": True,
    "XALAN_NODESORTER_CACHE_XOBJECTS": False,        # commented out in NodeSorter.hpp; checked by check_undefined
    "NDEBUG": True,
}


def check_recursive_undefined():
    rx = re.compile(r"#\s*define\s+XALAN_RECURSIVE_STYLESHEET_EXECUTION\b|-DXALAN_RECURSIVE_STYLESHEET_EXECUTION")
    roots = [os.path.join(srcfacts.REPO, "src"), os.path.join(srcfacts.REPO, "cmake")]
    files = [os.path.join(srcfacts.REPO, "CMakeLists.txt")]
    for root in roots:
        for d, _, fs in os.walk(root):
            for f in fs:
                if f.endswith((".hpp", ".h", ".cpp", ".in", ".txt", ".cmake")):
                    files.append(os.path.join(d, f))
    for p in files:
        try:
            with open(p, encoding="utf-8", errors="replace") as fh:
                if rx.search(fh.read()):
                    raise AnchorError("XALAN_RECURSIVE_STYLESHEET_EXECUTION is defined in " + p + ": the other branch of reset() is compiled")
        except OSError:
            pass


def preprocess(text, what):
    """Keep only the lines of the conditional branches that are compiled (MACROS); fail closed on
    any other symbol.  Header guards (!defined(..._GUARD...)) count as true."""
    out, stack = [], []   # stack of (active_before, taken, current)
    for line in text.split("\n"):
        m = re.match(r"\s*#\s*(if|ifdef|ifndef|elif|else|endif)\b(.*)", line)
        if not m:
            if all(s[2] for s in stack):
                out.append(line)
            else:
                out.append("")
            continue
        kw, rest = m.group(1), m.group(2).strip()
        rest = re.sub(r"//.*", "", rest).strip()
        if kw in ("if", "ifdef", "ifndef"):
            mm = re.fullmatch(r"(!?)\s*defined\s*\(?\s*(\w+)\s*\)?", rest) if kw == "if" else re.fullmatch(r"()(\w+)", rest)
            if not mm:
                raise AnchorError("%s: unsupported conditional '%s'" % (what, line.strip()))
            neg, sym = mm.group(1) == "!" or kw == "ifndef", mm.group(2)
            if "HEADER_GUARD" in sym:
                val = False
            elif sym in MACROS:
                val = MACROS[sym]
            else:
                raise AnchorError("%s: conditional on unknown symbol %s" % (what, sym))
            cur = (not val) if neg else val
            stack.append([all(s[2] for s in stack), cur, cur])
        elif kw == "else":
            if not stack:
                raise AnchorError(what + ": #else without #if")
            stack[-1][2] = not stack[-1][1]
        elif kw == "elif":
            raise AnchorError(what + ": #elif not supported")
        else:
            if not stack:
                raise AnchorError(what + ": #endif without #if")
            stack.pop()
        out.append("")
    return "\n".join(out)


def class_body(text, name, what):
    m = need(r"\bclass\s+(?:XALAN_\w+\s+)?%s\b[^;{]*\{" % name, text, "class " + name + " in " + what)
    i = m.end() - 1
    depth = 0
    for j in range(i, len(text)):
        if text[j] == "{":
            depth += 1
        elif text[j] == "}":
            depth -= 1
            if depth == 0:
                return text[i + 1:j]
    raise AnchorError("unbalanced class " + name)


def strip_nested(body):
    """Remove every brace block (function bodies, nested classes/structs/enums) of a class body."""
    out, depth = [], 0
    for ch in body:
        if ch == "{":
            depth += 1
            if depth == 1:
                out.append(";")
            continue
        if ch == "}":
            depth -= 1
            if depth == 0:
                out.append(";")
            continue
        if depth == 0:
            out.append(ch)
    return "".join(out)


def typedefs(body):
    td = {}
    for m in re.finditer(r"\btypedef\s+(.*?)\s+(\w+)\s*;", body, re.S):
        td[m.group(2)] = " ".join(m.group(1).split())
    return td


def kind_of(ty, td):
    seen = 0
    t = ty
    while seen < 4:
        base = re.sub(r"\b(mutable|const)\b", "", t).strip()
        key = base.rstrip("*& ").split("::")[-1]
        if key in td and "<" not in base:
            t = td[key] + base[len(base.rstrip("*& ")):]
            seen += 1
        else:
            break
    full = ty + " " + t
    if "&" in ty:
        return "KReference"
    if "*" in ty:
        return "KPointer"
    if "XalanObjectStackCache" in full:
        return "KObjStack"
    if "Allocator" in full:
        return "KAllocator"
    if re.search(r"Cache\b|CacheType\b|CacheMapType", full):
        return "KCache"
    if re.search(r"XalanVector|XalanMap|XalanSet|XalanDeque|XalanList|VectorType|StackType|MapType|TableType|Stack\b|CountersTable|VariablesStack|NamespacesStack|AttributeListImpl", full):
        return "KContainer"
    if re.search(r"\b(bool|int|size_type|eEscapeURLs|eOmitMETATag|unsigned|long)\b", full):
        return "KScalar"
    if re.search(r"XalanDOMString|CharVectorType", full):
        return "KString"
    return "KObject"


def members_of(rel, cname):
    raw = read(rel)
    text = preprocess(strip_comments(raw), rel)
    body = class_body(text, cname, rel)
    td = typedefs(body)
    flat = strip_nested(body)
    res = []
    for stmt in flat.split(";"):
        s = " ".join(stmt.split())
        s = re.sub(r"^(public|protected|private)\s*:\s*", "", s)
        s = re.sub(r"^((public|protected|private)\s*:\s*)+", "", s)
        m = re.fullmatch(r"((?:mutable\s+|const\s+)*[\w:<>,\s]+?[\s\*&]+)(m_\w+)", s)
        if not m:
            if re.search(r"\bm_\w+\s*$", s) and "(" not in s and "typedef" not in s and not s.startswith("static"):
                raise AnchorError("%s: member declaration not understood: %s" % (rel, s[:100]))
            continue
        ty = m.group(1).strip()
        if ty.startswith("static") or "typedef" in ty or "return" in ty:
            continue
        res.append((m.group(2), kind_of(ty, td)))
    if not res:
        raise AnchorError("no data members found for " + cname)
    names = [n for n, _ in res]
    if len(set(names)) != len(names):
        raise AnchorError("duplicate member names in " + cname)
    return res


CLEAR_METHODS = ("clear", "reset", "pushContext", "push_back", "resize")


EMPT = r"(?:(?P<neg>!)\s*)?(?P<m>m_\w+)\s*\.\s*empty\s*\(\s*\)\s*(?P<cmp>==\s*false|!=\s*true)?"
FOREACH_RX = r"for_each\s*\(\s*(m_\w+)\.begin\(\)\s*,\s*\1\.end\(\)\s*,\s*[\w<>:]+\s*\([^()]*(\([^()]*\))?[^()]*\)\s*\)\s*;"


def expand_emptiness_guards(text, what):
    """'if (M.empty() == false) { ...statements that delete the pointees of / clear M... }' (also
    '!M.empty()', optionally preceded by 'm_p != 0 &&' when the body only walks M) is equivalent to its
    body for the purpose of 'M is empty afterwards': an empty member needs no clearing.  Accepted ONLY when
    every member the body touches is the member whose emptiness is tested; anything else fails closed."""
    out, pos = [], 0
    rx = re.compile(r"if\s*\(\s*(?:(?P<ptr>m_\w+)\s*!=\s*0\s*&&\s*)?" + EMPT + r"\s*\)\s*\{")
    while True:
        m = rx.search(text, pos)
        if not m:
            out.append(text[pos:])
            return "".join(out)
        if bool(m.group("neg")) == bool(m.group("cmp")):
            raise AnchorError("%s: emptiness guard not understood: %s" % (what, m.group(0)[:80]))
        i = m.end() - 1
        depth = 0
        for j in range(i, len(text)):
            if text[j] == "{":
                depth += 1
            elif text[j] == "}":
                depth -= 1
                if depth == 0:
                    break
        else:
            raise AnchorError(what + ": unbalanced braces after an emptiness guard")
        body, mem = text[i + 1:j], m.group("m")
        walked = [x[0] for x in re.findall(FOREACH_RX, body)]
        inner = re.sub(FOREACH_RX, " ", body)
        touched = re.findall(r"\b(m_\w+)\s*(?:\.|->)\s*(\w+)\s*\(\s*\)\s*;", inner)
        left = re.sub(r"\b(m_\w+)\s*(?:\.|->)\s*(\w+)\s*\(\s*\)\s*;|\s", "", inner)
        if left or any(w != mem for w in walked) or any(n != mem or meth not in ("clear", "reset") for n, meth in touched):
            raise AnchorError("%s: the block guarded by %s.empty() does more than delete/clear %s: %s" % (
                what, mem, mem, " ".join(body.split())[:120]))
        if m.group("ptr") and touched:
            raise AnchorError("%s: clearing of %s also depends on %s != 0" % (what, mem, m.group("ptr")))
        out.append(text[pos:m.start()])
        out.append(" ".join("%s.%s();" % t for t in touched) + " ")     # the body's clearing statements, unguarded
        pos = j + 1


def reset_facts(body, what, allowed_calls):
    """Members cleared/assigned and helper calls made by a reset-like body; every statement must be
    recognised (fail closed). Returns (cleared_in_order, calls)."""
    b = preprocess(strip_comments(body), what)
    b = b.strip()
    assert b.startswith("{") and b.endswith("}")
    b = b[1:-1]
    cleared, calls = [], []
    rest = expand_emptiness_guards(b, what)
    # if (m_x != 0) { m_x->reset(); }  -> a call through a pointer member, not a clearing of the pointer
    def ptr_call(m):
        calls.append("%s->%s" % (m.group(1), m.group(2)))
        return " "
    rest = re.sub(r"if\s*\(\s*(m_\w+)\s*!=\s*0\s*\)\s*\{\s*\1\s*->\s*(\w+)\s*\(\s*\)\s*;\s*\}", ptr_call, rest)
    # for_each(m_x.begin(), m_x.end(), <functor>);  (deleting the pointees before clear())
    rest = re.sub(r"for_each\s*\(\s*(m_\w+)\.begin\(\)\s*,\s*\1\.end\(\)\s*,\s*[\w<>:]+\s*\([^()]*(\([^()]*\))?[^()]*\)\s*\)\s*;", " ", rest)
    rest = re.sub(r"using\s+std::for_each\s*;", " ", rest)
    rest = re.sub(r"assert\s*\((?:[^()]|\([^()]*\))*\)\s*;", " ", rest)
    rest = re.sub(r"\btry\b|\bcatch\s*\(\s*\.\.\.\s*\)", " ", rest)

    def member_call(m):
        name, meth = m.group(1), m.group(2)
        if meth in CLEAR_METHODS:
            if name not in cleared:
                cleared.append(name)
        else:
            calls.append("%s%s%s" % (name, m.group(0)[len(name):].split(meth)[0].strip(), meth))
        return " "
    rest = re.sub(r"\b(m_\w+)\s*(?:\.|->)\s*(\w+)\s*\((?:[^()]|\([^()]*\))*\)\s*[;,]", member_call, rest)

    def assign(m):
        if m.group(1) not in cleared:
            cleared.append(m.group(1))
        return " "
    rest = re.sub(r"\b(m_\w+)\s*=\s*[^=;][^;]*;", assign, rest)

    def plain_call(m):
        calls.append(m.group(1))
        return " "
    rest = re.sub(r"\b(\w+)\s*\(\s*\)\s*;", plain_call, rest)
    rest = re.sub(r"if\s*\(\s*m_\w+\s*!=\s*0\s*\)\s*\{\s*\}", " ", rest)   # guard around a for_each only
    left = re.sub(r"[\s{}]", "", rest)
    if left:
        raise AnchorError("%s: statement not recognised: %s" % (what, " ".join(rest.split())[:160]))
    for c in calls:
        if c not in allowed_calls:
            raise AnchorError("%s: unexpected call %s" % (what, c))
    return cleared, calls


def split_top_statements(block):
    """Top-level statements of a brace block (inner brace blocks belong to their statement)."""
    assert block.startswith("{") and block.endswith("}")
    s = block[1:-1]
    out, depth, par, cur = [], 0, 0, []
    i = 0
    while i < len(s):
        ch = s[i]
        cur.append(ch)
        if ch == "(":
            par += 1
        elif ch == ")":
            par -= 1
        elif ch == "{":
            depth += 1
        elif ch == "}":
            depth -= 1
            if depth == 0 and par == 0:
                # a block ends a statement unless followed by 'else'
                j = i + 1
                while j < len(s) and s[j].isspace():
                    j += 1
                if not s.startswith("else", j):
                    out.append("".join(cur).strip())
                    cur = []
        elif ch == ";" and depth == 0 and par == 0:
            out.append("".join(cur).strip())
            cur = []
        i += 1
    tail = "".join(cur).strip()
    if tail:
        out.append(tail)
    return [" ".join(x.split()) for x in out if x.strip()]


CTX = "m_stylesheetExecutionContext"
# audited: these only hand a reference/pointer to the context to a per-call helper object; the context
# itself is not modified (XMLParserLiaison::setExecutionContext stores the pointer)
PASS_ONLY = ["theParserLiaison.setExecutionContext(*m_stylesheetExecutionContext);"]


def classify_stmt(s):
    if re.fullmatch(r"const\s+EnsureReset\s+\w+\s*\(\s*\*this\s*\)\s*;", s):
        return "SGuard"
    if "EnsureReset" in s:
        raise AnchorError("doTransform: EnsureReset used in an unexpected form: " + s[:100])
    if CTX in s:
        if s in PASS_ONLY:
            return "SPassRef"
        return "STouchCtx"
    return "SOther"


def catch_table(fn_body, what):
    res = []
    for m in re.finditer(r"catch\s*\(\s*const\s+(\w+)\s*&\s*\w*\s*\)\s*\{", fn_body):
        j = fn_body.index("{", m.end() - 1)
        depth, k = 0, j
        while True:
            if fn_body[k] == "{":
                depth += 1
            elif fn_body[k] == "}":
                depth -= 1
                if depth == 0:
                    break
            k += 1
        blk = fn_body[j:k + 1]
        r = re.findall(r"theResult\s*=\s*(-?\d+)\s*;", blk)
        if len(r) != 1:
            raise AnchorError("%s: catch(%s) does not set theResult exactly once" % (what, m.group(1)))
        if "m_errorMessage" not in blk:
            raise AnchorError("%s: catch(%s) does not store an error message" % (what, m.group(1)))
        res.append((m.group(1), int(r[0])))
    if not res:
        raise AnchorError(what + ": no catch clauses")
    if re.search(r"catch\s*\(\s*\.\.\.\s*\)", fn_body):
        res.append(("...", 0))
    return res


def err_clear_idiom(fn_body, what):
    head = fn_body.split("try", 1)[0]
    if re.search(r"m_errorMessage\s*\.\s*clear\s*\(\s*\)\s*;\s*m_errorMessage\s*\.\s*push_back\s*\(\s*(0|'\\0')\s*\)\s*;", head):
        return "ErrClearPush"
    if re.search(r"m_errorMessage\s*\.\s*resize\s*\(\s*1\s*,\s*'\\0'\s*\)\s*;", head):
        return "ErrResize1"
    if "m_errorMessage" not in head:
        return "ErrNone"
    raise AnchorError(what + ": m_errorMessage is emptied in an unrecognised way")


def coq_str_list(xs):
    return "[" + "; ".join('"%s"' % x for x in xs) + "]"


def gen_api():
    check_recursive_undefined()
    classes = [
        ("CSecd", "XSLT/StylesheetExecutionContextDefault.hpp", "StylesheetExecutionContextDefault"),
        ("CXpec", "XPath/XPathExecutionContextDefault.hpp", "XPathExecutionContextDefault"),
        ("CXpecBase", "XPath/XPathExecutionContext.hpp", "XPathExecutionContext"),
        ("CExecBase", "PlatformSupport/ExecutionContext.hpp", "ExecutionContext"),
        ("CEngine", "XSLT/XSLTEngineImpl.hpp", "XSLTEngineImpl"),
        ("CTransformer", "XalanTransformer/XalanTransformer.hpp", "XalanTransformer"),
        # owned sub-objects of the execution context whose reset() is part of the chain
        ("CVarStack", "XSLT/VariablesStack.hpp", "VariablesStack"),
        ("CCounters", "XSLT/CountersTable.hpp", "CountersTable"),
    ]
    mem = {}
    for tag, rel, cname in classes:
        mem[tag] = members_of(rel, cname)

    secd = strip_comments(read("XSLT/StylesheetExecutionContextDefault.cpp"))
    xpec = strip_comments(read("XPath/XPathExecutionContextDefault.cpp"))
    eng = strip_comments(read("XSLT/XSLTEngineImpl.cpp"))
    xt = strip_comments(read("XalanTransformer/XalanTransformer.cpp"))
    xth = strip_comments(read("XalanTransformer/XalanTransformer.hpp"))
    secdh = preprocess(strip_comments(read("XSLT/StylesheetExecutionContextDefault.hpp")), "SECD.hpp")

    secd_reset, secd_calls = reset_facts(
        function_body(secd, r"\bStylesheetExecutionContextDefault::reset\s*\(\s*\)\s*\{", "StylesheetExecutionContextDefault::reset"),
        "StylesheetExecutionContextDefault::reset",
        {"cleanUpTransients", "m_xsltProcessor->reset"})
    cleanup, cleanup_calls = reset_facts(
        function_body(secd, r"\bStylesheetExecutionContextDefault::cleanUpTransients\s*\(\s*\)\s*\{", "cleanUpTransients"),
        "StylesheetExecutionContextDefault::cleanUpTransients", {"clearXPathCache"})
    xcache, _ = reset_facts(
        function_body(secd, r"\bStylesheetExecutionContextDefault::clearXPathCache\s*\(\s*\)\s*\{", "clearXPathCache"),
        "StylesheetExecutionContextDefault::clearXPathCache", set())
    xpec_reset, xpec_calls = reset_facts(
        function_body(xpec, r"\bXPathExecutionContextDefault::reset\s*\(\s*\)\s*\{", "XPathExecutionContextDefault::reset"),
        "XPathExecutionContextDefault::reset",
        {"m_xpathEnvSupport->reset", "m_domSupport->reset", "m_xobjectFactory->reset"})
    eng_reset, _ = reset_facts(
        function_body(eng, r"\bXSLTEngineImpl::reset\s*\(\s*\)\s*\{", "XSLTEngineImpl::reset"),
        "XSLTEngineImpl::reset", set())

    # VariablesStack::reset(): "while (m_stack.empty() == false) pop();" empties m_stack and, because
    # pop() decrements m_currentStackFrameIndex whenever it equals the size, brings that index to 0
    vs = strip_comments(read("XSLT/VariablesStack.cpp"))
    vs_body = function_body(vs, r"\bVariablesStack::reset\s*\(\s*\)\s*\{", "VariablesStack::reset")
    loop_rx = r"while\s*\(\s*m_stack\.empty\(\)\s*==\s*false\s*\)\s*\{\s*pop\s*\(\s*\)\s*;\s*\}"
    vs_loop = re.search(loop_rx, vs_body) is not None
    vs_clears, _ = reset_facts(re.sub(loop_rx, " ", vs_body), "VariablesStack::reset", set())
    if vs_loop:
        pop_body = function_body(vs, r"\bVariablesStack::pop\s*\(\s*\)\s*\{", "VariablesStack::pop")
        flat = re.sub(r"\s", "", pop_body)
        if "if(m_currentStackFrameIndex==m_stack.size()){--m_currentStackFrameIndex;}" not in flat or "m_stack.pop_back();" not in flat:
            raise AnchorError("VariablesStack::pop no longer keeps m_currentStackFrameIndex below the size while popping")
        for m_ in ("m_stack", "m_currentStackFrameIndex"):
            if m_ not in vs_clears:
                vs_clears.append(m_)
    ct = preprocess(strip_comments(read("XSLT/CountersTable.hpp")), "CountersTable.hpp")
    ct_body = function_body(class_body(ct, "CountersTable", "CountersTable.hpp"), r"\breset\s*\(\s*\)\s*\{", "CountersTable::reset")
    ct_clears, _ = reset_facts(ct_body, "CountersTable::reset", set())

    # XalanTransformer::reset(): setters on the context + the context's reset()
    tr_body = preprocess(function_body(xt, r"\bXalanTransformer::reset\s*\(\s*\)\s*\{", "XalanTransformer::reset"), "XalanTransformer::reset")
    tr_calls = re.findall(r"m_stylesheetExecutionContext\s*->\s*(\w+)\s*\(\s*(0?)\s*\)\s*;", tr_body)
    left = re.sub(r"m_stylesheetExecutionContext\s*->\s*\w+\s*\(\s*0?\s*\)\s*;|\btry\b|catch\s*\(\s*\.\.\.\s*\)|[\s{}]", "", tr_body)
    if left:
        raise AnchorError("XalanTransformer::reset: statement not recognised: " + left[:120])
    setter_member = {"setXPathEnvSupport": ("CXpec", "m_xpathEnvSupport"), "setDOMSupport": ("CXpec", "m_domSupport"),
                     "setXObjectFactory": ("CXpecBase", "m_xobjectFactory"), "setXSLTProcessor": ("CSecd", "m_xsltProcessor")}
    tr_nulls, tr_resets_ctx = [], False
    for name, arg in tr_calls:
        if name == "reset" and arg == "":
            tr_resets_ctx = True
        elif name in setter_member and arg == "0":
            tr_nulls.append(setter_member[name])
        else:
            raise AnchorError("XalanTransformer::reset: unexpected call %s(%s)" % (name, arg))
    # the setters really store their argument in the member named in the audited table
    need(r"setXSLTProcessor\s*\(\s*XSLTEngineImpl\s*\*\s*(\w+)\s*\)\s*\{\s*m_xsltProcessor\s*=\s*\1\s*;", secdh, "SECD::setXSLTProcessor stores m_xsltProcessor")
    xpech = preprocess(strip_comments(read("XPath/XPathExecutionContextDefault.hpp")), "XPEC.hpp")
    for fn, memb in (("setXPathEnvSupport", "m_xpathEnvSupport"), ("setDOMSupport", "m_domSupport"), ("setXObjectFactory", "m_xobjectFactory")):
        need(r"\b%s\s*\(\s*\w+\s*\*\s*(\w+)\s*\)\s*\{\s*m_xpathExecutionContextDefault\s*\.\s*%s\s*\(\s*\1\s*\)\s*;" % (fn, fn), secdh, "SECD::%s forwards" % fn)
        need(r"\b%s\s*\(\s*\w+\s*\*\s*(\w+)\s*\)\s*\{\s*%s\s*=\s*\1\s*;\s*\}" % (fn, memb), xpech, "XPEC::%s stores %s" % (fn, memb))

    # ~EnsureReset
    er = function_body(xt, r"XalanTransformer::EnsureReset::~EnsureReset\s*\(\s*\)\s*\{", "~EnsureReset")
    er_ctx = re.search(r"m_transformer\s*\.\s*m_stylesheetExecutionContext\s*->\s*reset\s*\(\s*\)\s*;", er) is not None
    er_tr = re.search(r"m_transformer\s*\.\s*reset\s*\(\s*\)\s*;", er) is not None
    left = re.sub(r"m_transformer\s*\.\s*(m_stylesheetExecutionContext\s*->\s*)?reset\s*\(\s*\)\s*;|\btry\b|\bcatch\s*\(\s*\.\.\.\s*\)|[\s{}]", "", strip_comments(er))
    if left:
        raise AnchorError("~EnsureReset: statement not recognised: " + left[:120])

    # doTransform
    dt = function_body(xt, r"\bXalanTransformer::doTransform\s*\([^)]*\)\s*\{", "XalanTransformer::doTransform")
    dt = preprocess(dt, "doTransform")
    m = need(r"\btry\s*\{", dt, "doTransform try block")
    pre = dt[1:m.start()]
    i = m.end() - 1
    depth = 0
    for j in range(i, len(dt)):
        if dt[j] == "{":
            depth += 1
        elif dt[j] == "}":
            depth -= 1
            if depth == 0:
                break
    try_block = dt[i:j + 1]
    after = dt[j + 1:]
    pre_stmts = [classify_stmt(s) for s in split_top_statements("{" + pre + "}")]
    try_stmts_txt = split_top_statements(try_block)
    try_stmts = [classify_stmt(s) for s in try_stmts_txt]
    if try_stmts.count("SGuard") != 1:
        raise AnchorError("doTransform: expected exactly one EnsureReset guard at the top level of the try block, found %d" % try_stmts.count("SGuard"))
    catches_dt = catch_table(after, "doTransform")
    cs = function_body(xt, r"\bXalanTransformer::compileStylesheet\s*\([^)]*\)\s*\{", "compileStylesheet")
    pz = function_body(xt, r"\bXalanTransformer::parseSource\s*\([^)]*\)\s*\{", "parseSource")
    catches_cs = catch_table(cs.split("try", 1)[1], "compileStylesheet")
    catches_ps = catch_table(pz.split("try", 1)[1], "parseSource")
    idiom = {"doTransform": err_clear_idiom(dt, "doTransform"), "compileStylesheet": err_clear_idiom(cs, "compileStylesheet"),
             "parseSource": err_clear_idiom(pz, "parseSource")}

    # clearStylesheetParams / setStylesheetParam touch exactly m_params
    cp = function_body(xth, r"\bclearStylesheetParams\s*\(\s*\)\s*\{", "clearStylesheetParams")
    clear_params_clears = "m_params.clear();" in re.sub(r"\s", "", cp)
    sp_e = function_body(xt, r"XalanTransformer::setStylesheetParam\s*\(\s*const\s+XalanDOMString\s*&\s*qname\s*,\s*const\s+XalanDOMString\s*&\s*expression\s*\)\s*\{", "setStylesheetParam(name, expression)")
    sp_o = function_body(xt, r"XalanTransformer::setStylesheetParam\s*\(\s*const\s+XalanDOMString\s*&\s*qname\s*,\s*XObjectPtr\s+object\s*\)\s*\{", "setStylesheetParam(name, object)")
    flat_e, flat_o = re.sub(r"\s", "", sp_e), re.sub(r"\s", "", sp_o)
    if "m_params[qname].m_expression=expression;" != flat_e.strip("{}") and "m_expression" not in flat_e:
        raise AnchorError("setStylesheetParam(name, expression) no longer stores into m_params")
    if "m_value" not in flat_o or "m_params" not in flat_o:
        raise AnchorError("setStylesheetParam(name, object) no longer stores into m_params")
    # does setting one form of a parameter drop the other form stored under the same name?
    set_expr_drops_value = re.search(r"m_value\s*(=|\.\s*(reset|release|clear))", sp_e) is not None or re.search(r"=\s*XalanParamHolder", sp_e) is not None
    set_value_drops_expr = re.search(r"m_expression\s*(=|\.\s*(clear|erase|assign|resize))", sp_o) is not None or re.search(r"=\s*XalanParamHolder", sp_o) is not None
    need(r"if\s*\(\s*theExpression\.length\(\)\s*>\s*0\s*\)\s*\{\s*theProcessor\.setStylesheetParam\(\s*theName\s*,\s*theExpression\s*\)\s*;\s*\}\s*else\s*\{\s*theProcessor\.setStylesheetParam\(\s*theName\s*,\s*theObject\s*\)\s*;",
         xt, "doTransform prefers a parameter's expression form over its object form")
    # doTransform hands exactly m_params and m_functions to the per-call processor
    need(r"theProcessor\s*\.\s*clearStylesheetParams\s*\(\s*\)\s*;\s*for\s*\(\s*const_iterator\s+i\s*=\s*m_params\.begin\(\)", dt, "doTransform pushes m_params into the per-call processor")
    need(r"for\s*\(\s*FunctionMapType::const_iterator\s+i\s*=\s*m_functions\.begin\(\)", dt, "doTransform installs m_functions locally")
    # the processor, env support and factories are automatic objects of doTransform
    for decl in (r"XSLTEngineImpl\s+theProcessor\s*\(", r"XSLTProcessorEnvSupportDefault\s+theXSLTProcessorEnvSupport\s*\(",
                 r"XObjectFactoryDefault\s+theXObjectFactory\s*\(", r"XPathFactoryBlock\s+theXPathFactory\s*\("):
        need(decl, try_block, "doTransform automatic object " + decl)
    gi = try_stmts.index("SGuard")
    decl_before_guard = all(re.search(d, " ".join(try_stmts_txt[:gi])) for d in (r"XSLTEngineImpl\s+theProcessor\s*\(",))

    # NodeSorter (m_nodeSorter is classified "scratch"): its key-value caches and its scratch vector are
    # emptied by CollectionClearGuard objects declared BEFORE the code that can throw (key evaluation
    # inside std::stable_sort), so they are empty again on every exit, also when a sort key raises an error
    ns = strip_comments(read("XSLT/NodeSorter.cpp"))
    ns_sort1 = function_body(ns, r"\bNodeSorter::sort\s*\(\s*StylesheetExecutionContext\s*&\s*\w+\s*\)\s*\{", "NodeSorter::sort(context)")
    ns_sort2 = function_body(ns, r"\bNodeSorter::sort\s*\(\s*StylesheetExecutionContext\s*&\s*\w+\s*,\s*MutableNodeRefList\s*&\s*\w+\s*\)\s*\{", "NodeSorter::sort(context, list)")

    def guarded_before(body, member, marker):
        g = re.search(r"CollectionClearGuard\s*<[^>]*>\s+\w+\s*\(\s*%s\s*\)\s*;" % member, body)
        mk = re.search(marker, body)
        if mk is None:
            raise AnchorError("NodeSorter::sort: '%s' not found" % marker)
        return g is not None and g.start() < mk.start()
    sorter_guards = [("m_numberResultsCache", guarded_before(ns_sort1, "m_numberResultsCache", r"\bstable_sort\s*\(")),
                     ("m_stringResultsCache", guarded_before(ns_sort1, "m_stringResultsCache", r"\bstable_sort\s*\(")),
                     ("m_scratchVector", guarded_before(ns_sort2, "m_scratchVector", r"m_scratchVector\s*\.\s*(reserve|push_back)\s*\("))]
    nsh = members_of("XSLT/NodeSorter.hpp", "NodeSorter")
    known_ns = {"m_numberResultsCache", "m_stringResultsCache", "m_scratchVector", "m_keys"}
    if {n for n, _ in nsh} != known_ns:
        raise AnchorError("NodeSorter has data members the audit does not know: %s" % sorted({n for n, _ in nsh} ^ known_ns))
    if re.search(r"^\s*#\s*define\s+XALAN_NODESORTER_CACHE_XOBJECTS", read("XSLT/NodeSorter.hpp"), re.M):
        raise AnchorError("XALAN_NODESORTER_CACHE_XOBJECTS is defined: NodeSorter has a third cache")

    # XalanObjectStackCache::reset()
    osc = strip_comments(read("Include/XalanObjectStackCache.hpp"))
    osc_reset = function_body(osc, r"\breset\s*\(\s*\)\s*\{", "XalanObjectStackCache::reset")
    rewinds = re.search(r"m_numObjectsOnStack\s*=\s*0\s*;", osc_reset) is not None
    if not re.search(r"m_resetFunctor\s*\(", osc_reset):
        raise AnchorError("XalanObjectStackCache::reset no longer resets the pooled objects")

    out = HEADER.replace("srcfacts.py", "gen_api.py")
    out += "From Coq Require Import List ZArith.\nRequire Import XV.ApiName.\nImport ListNotations.\nOpen Scope name_scope.\n\n"
    out += "Inductive mkind := KContainer | KObjStack | KCache | KPointer | KReference | KScalar | KAllocator | KString | KObject.\n"
    out += "Inductive mclass := CSecd | CXpec | CXpecBase | CExecBase | CEngine | CTransformer | CVarStack | CCounters.\n"
    out += "Inductive stmt := SGuard | STouchCtx | SPassRef | SOther.\n"
    out += "Inductive err_idiom := ErrClearPush | ErrResize1 | ErrNone.\n\n"
    out += "(* (a) data members *)\nDefinition members : list (mclass * name * mkind) := [\n"
    rows = []
    for tag, _, _ in classes:
        for n, k in mem[tag]:
            rows.append('  (%s, "%s", %s)' % (tag, n, k))
    out += ";\n".join(rows) + "].\n\n"
    out += "(* (b) members assigned / cleared / reset, function by function (branch compiled with\n   XALAN_RECURSIVE_STYLESHEET_EXECUTION undefined) *)\n"
    out += "Definition recursive_execution_defined : bool := false.\n"
    out += "Definition secd_reset_clears : list name := %s.\n" % coq_str_list(secd_reset)
    out += "Definition secd_reset_calls : list name := %s.\n" % coq_str_list(secd_calls)
    out += "Definition secd_cleanup_clears : list name := %s.\n" % coq_str_list(cleanup)
    out += "Definition secd_cleanup_calls : list name := %s.\n" % coq_str_list(cleanup_calls)
    out += "Definition secd_clearxpathcache_clears : list name := %s.\n" % coq_str_list(xcache)
    out += "Definition xpec_reset_clears : list name := %s.\n" % coq_str_list(xpec_reset)
    out += "Definition xpec_reset_calls : list name := %s.\n" % coq_str_list(xpec_calls)
    out += "Definition engine_reset_clears : list name := %s.\n" % coq_str_list(eng_reset)
    out += "Definition varstack_reset_clears : list name := %s.\n" % coq_str_list(vs_clears)
    out += "Definition counters_reset_clears : list name := %s.\n" % coq_str_list(ct_clears)
    out += "Definition transformer_reset_nulls : list (mclass * name) := [%s].\n" % "; ".join('(%s, "%s")' % x for x in tr_nulls)
    out += "Definition transformer_reset_resets_context : bool := %s.\n" % ("true" if tr_resets_ctx else "false")
    out += "Definition ensure_reset_dtor_resets_context : bool := %s.\n" % ("true" if er_ctx else "false")
    out += "Definition ensure_reset_dtor_resets_transformer : bool := %s.\n" % ("true" if er_tr else "false")
    out += "Definition objstack_reset_rewinds : bool := %s.\n" % ("true" if rewinds else "false")
    out += "(* NodeSorter: member emptied by a CollectionClearGuard declared before the code that can throw? *)\n"
    out += "Definition nodesorter_guarded : list (name * bool) := [%s].\n\n" % "; ".join('("%s", %s)' % (n, "true" if b else "false") for n, b in sorter_guards)
    out += "(* (c) doTransform: statements before the try block and at the top level of the try block *)\n"
    out += "Definition dotransform_pre_stmts : list stmt := [%s].\n" % "; ".join(pre_stmts)
    out += "Definition dotransform_try_stmts : list stmt := [%s].\n" % "; ".join(try_stmts)
    out += "Definition dotransform_processor_declared_before_guard : bool := %s.\n\n" % ("true" if decl_before_guard else "false")
    out += "(* (d) catch clauses in source order, and how each entry point empties m_errorMessage *)\n"
    for nm, tab in (("dotransform", catches_dt), ("compile", catches_cs), ("parse", catches_ps)):
        out += "Definition %s_catches : list (name * Z) := [%s].\n" % (nm, "; ".join('("%s", (%d)%%Z)' % x for x in tab))
    out += "Definition errclear_dotransform : err_idiom := %s.\n" % idiom["doTransform"]
    out += "Definition errclear_compile : err_idiom := %s.\n" % idiom["compileStylesheet"]
    out += "Definition errclear_parse : err_idiom := %s.\n" % idiom["parseSource"]
    out += "Definition clear_params_clears_map : bool := %s.\n" % ("true" if clear_params_clears else "false")
    out += "(* setStylesheetParam: does storing one form (expression / object) drop the other form kept under the same name? *)\n"
    out += "Definition set_expr_drops_value : bool := %s.\n" % ("true" if set_expr_drops_value else "false")
    out += "Definition set_value_drops_expr : bool := %s.\n" % ("true" if set_value_drops_expr else "false")
    facts = {"members": {t: len(mem[t]) for t in mem}, "secd_reset_clears": len(secd_reset), "cleanup": cleanup,
             "xpec_reset": xpec_reset, "try_stmts": try_stmts, "idiom": idiom, "objstack_reset_rewinds": rewinds,
             "catches": catches_dt, "clear_params_clears_map": clear_params_clears}
    return out, facts


GENERATORS = {"GenApi": gen_api}
