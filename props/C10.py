"""C10 — template conflict resolution: import precedence, then priority, then last.
(state after the repairs of K2, K-new-1/K-new-3 and K-new-2 in Stylesheet.cpp; the k2/k3/k4 streams and corpus
 cases remain as regression inputs for the repaired defects.  K1: the model, the theorems and this check cover
 both variants of findTemplate - an entry tested with the whole match pattern (K1 a known finding) or with its own
 alternative (after the repair of K1: class opened) - and follow the generated fact per_alternative)

Legs:
  proof          coq/Properties_C10.v over coq/TmplDefs.v (+ coq/GenTmpl.v regenerated from XPath.cpp /
                 Stylesheet.cpp on every run by translator/gen_tmpl.py)
  correspondence extracted model (ocaml/tmpl_driver.ml) vs whole transformations through the rebuilt
                 library (vlib/xsltrun.py): generated rule sets x all nodes x all modes, each template
                 writes a marker (and optionally xsl:apply-imports); the model's prediction of the complete
                 output string of every (node, mode) is compared with the library's
  oracle         winner computed here in Python straight from XSLT 1.0 section 5.5 (maximum of
                 (import precedence, priority, position) over the applicable rules); "alternative P matches
                 node n" is decided by the library itself through P's defining expression
                 (count($set | .) = count($set) with $set = //P) in a separate probing stylesheet, so it
                 depends neither on the pattern tables nor on the Coq model
"""
import re, json, os
from vlib import core, xsltrun

LEVEL = "proof"
FAMILY = "tmpl"
XSL = "http://www.w3.org/1999/XSL/Transform"
NSDECL = ' xmlns:p="urn:u1" xmlns:q="urn:u2"'
ALL = "/|//node()|//@*"
NAMES = ["a", "b", "c", "d", "x", "y", "z"]          # local names (elements a-d, attributes x-z)
NAME_ID = {n: i + 1 for i, n in enumerate(NAMES)}
MODES = [None, "m1", "m2"]
MODE_ID = {None: "-", "m1": "1", "m2": "2"}
PRIOS = [-1000, -500, -250, 0, 250, 500, 1000, 2000]


def prio_text(p):
    s = "%s%d.%03d" % ("-" if p < 0 else "", abs(p) // 1000, abs(p) % 1000)
    return s.rstrip("0").rstrip(".") if "." in s else s


# ---------------------------------------------------------------------------------------------
# pattern alternatives: structured, so that the last-step shape (model input) and the section 5.5
# default priority (oracle input) are known without parsing

def alt(text, kind, attr=False, name=None, multi=False, k2=False, steps=False, pred=None):
    """multi: several steps or a predicate (what getTargetData looks at); steps: several steps;
    pred: None | "pos" (positional predicate) | "bool" """
    return {"text": text, "kind": kind, "attr": attr, "name": name, "multi": multi, "k2": k2, "steps": steps, "pred": pred}


def gen_step(r, allow_fn=True):
    """a last step (no predicate): returns alt with multi=False"""
    c = r.random()
    el = r.choice(["a", "b", "c", "d"])
    at = r.choice(["x", "y", "z"])
    if c < 0.22:
        return alt(el, "name", False, el)
    if c < 0.30:
        return alt(r.choice(["p:", "q:"]) + el, "name", False, el)
    if c < 0.40:
        return alt("*", "wild")
    if c < 0.47:
        return alt(r.choice(["p:*", "q:*"]), "nswild")
    if c < 0.55:
        return alt("@" + at, "name", True, at)
    if c < 0.58:
        return alt("@p:" + at, "name", True, at)
    if c < 0.64:
        return alt("@*", "wild", True)
    if c < 0.67:
        return alt("@p:*", "nswild", True)
    if c < 0.73:
        return alt("text()", "text")
    if c < 0.78:
        return alt("comment()", "comment")
    if c < 0.83:
        return alt("processing-instruction()", "pi")
    if c < 0.87:
        return alt("processing-instruction('%s')" % r.choice(["pi1", "pi2"]), "pilit")
    if c < 0.94:
        return alt("node()", "node")
    if c < 0.96:
        return alt("@node()", "node", True)
    if c < 0.98:
        return alt("/", "root")
    if allow_fn:
        return alt("key('ke','v')", "fn")
    return alt("*", "wild")


def gen_alt(r, k2=False):
    """one alternative, possibly with a predicate and/or leading steps"""
    if r.random() < (0.5 if k2 else 0.04):
        return alt("key('k','v')", "fn", k2=True)
    a = gen_step(r)
    if a["kind"] in ("root", "fn") or r.random() < 0.55:
        return a
    t = a["text"]
    c = r.random()
    if c < 0.35:
        pred = r.choice(["[1]", "[@x]", "[b]", "[last()]", "[not(@y)]", "[.='t1']", "[2]"])
        return dict(a, text=t + pred, multi=True, pred="pos" if pred in ("[1]", "[2]", "[last()]") else "bool")
    if c < 0.75:
        lead = r.choice(["a/", "b/", "*/", "d/", "//", "/", "a/b/", "p:a/", "*[@x]/", "key('ke','v')/"])
        if lead == "/" and a["attr"]:
            lead = "*/"
        return dict(a, text=lead + t, multi=True, steps=True)
    lead = r.choice(["a/", "*/", "//"])     # '//' only as the leading step: '//' inside a pattern is C09's subject (K14, K15)
    pred = r.choice(["[1]", "[@x]", "[last()]"])
    return dict(a, text=lead + t + pred, multi=True, steps=True, pred="pos" if pred != "[@x]" else "bool")


def spec_default_priority(a):
    """XSLT 1.0 section 5.5 (independent of the code and of the generated table), in 1/1000"""
    if a["multi"]:
        return 500
    k = a["kind"]
    if k in ("name", "pilit"):
        return 0
    if k == "nswild":
        return -250
    if k in ("wild", "text", "comment", "pi", "node"):
        return -500
    return 500


TN = {"TNAny": "a", "TNRoot": "r", "TNText": "t", "TNComment": "c", "TNPI": "p", "TNNode": "n"}
SC = {"ScNone": 0, "ScNodeTest": 1, "ScNSWild": 2, "ScQName": 3, "ScOther": 4}
KIND_ROW = {"name": "NAME", "wild": "WILD", "nswild": "NSWILD", "comment": "eNODETYPE_COMMENT", "text": "eNODETYPE_TEXT",
            "node": "eNODETYPE_NODE", "pi": "PI0", "pilit": "PI1", "root": "LRoot", "fn": "LFunction"}


def target_tokens(a, facts):
    """(tname, ttype, score) tokens for the model, from the translator's reading of getTargetData"""
    n, t, s = facts["last_step"][KIND_ROW[a["kind"]]]
    tn = ("N%d" % NAME_ID[a["name"]]) if n == "name" else TN[n]
    tt = {"axis": "a" if a["attr"] else "e", "eOther": "o", "eAny": "y", "eElement": "e", "eAttribute": "a"}[t]
    sc = facts["multi"] if a["multi"] else s
    return "%s %s %d" % (tn, tt, SC[sc])


# ---------------------------------------------------------------------------------------------
# rule sets

def gen_template(r, tid, k1=False, k2=False, pool=None, k3=False, k4=False):
    n_alt = r.choice([1, 1, 1, 2, 2, 3])
    explicit = r.random() < 0.4
    for _ in range(50):
        if k1 and r.random() < 0.4:
            a0 = gen_alt(r)
            alts = [a0, r.choice([alt("*", "wild"), alt("node()", "node"), alt("@*", "wild", True), alt("text()", "text")])]
            r.shuffle(alts)
        elif pool and r.random() < 0.5:
            alts = [dict(x) for x in r.choice(pool)]    # same pattern as an earlier template (ties)
        else:
            alts = [gen_alt(r, k2) for _ in range(n_alt)]
        uniform = len({spec_default_priority(x) for x in alts}) == 1
        if explicit or uniform or k1 or OPEN_K1:
            break
        n_alt = 1
    if pool is not None:
        pool.append(alts)
    if r.random() < (0.6 if k3 else 0.05):
        alts = [r.choice([alt("p:a", "name", False, "a"), alt("p:*", "nswild"), alt("@p:x", "name", True, "x"), alt("p:b", "name", False, "b")])]
        return {"id": tid, "alts": alts, "mode": r.choice([None, None, "m1"]), "prio": r.choice([None, None, 0, 500]),
                "ai": r.random() < 0.3, "rebind": r.random() < 0.5}
    return {"id": tid, "alts": alts, "mode": r.choice([None, None, None, "m1", "m1", "m1", "m2", "m2"]),
            "prio": r.choice(PRIOS) if explicit else None, "ai": r.random() < 0.5}


def gen_sheet(r, depth, budget, counter, k1, k2, pool, included=False, k3=False, k4=False):
    """{"items": [template | {"incl": sheet-like items}], "imports": [...]}"""
    sheet = {"items": [], "imports": []}
    if not included and depth < 4:
        while budget[0] > 0 and r.random() < (0.75 if depth == 0 else 0.5) and len(sheet["imports"]) < 3:
            budget[0] -= 1
            sheet["imports"].append(gen_sheet(r, depth + 1, budget, counter, k1, k2, pool, k3=k3, k4=k4))
    for _ in range(r.choice([0, 1, 2, 3, 4, 6] if depth else [2, 3, 4, 5, 7, 9])):
        if r.random() < 0.2 and depth < 6:
            sheet["items"].append({"incl": gen_sheet(r, depth + 2, budget, counter, k1, k2, pool, included=True, k3=k3, k4=k4)["items"]})
        else:
            counter[0] += 1
            sheet["items"].append(gen_template(r, counter[0], k1, k2, pool, k3, k4))
    return sheet


def flatten_items(items):
    out = []
    for it in items:
        if "incl" in it:
            out += flatten_items(it["incl"])
        else:
            out.append(it)
    return out


def all_sheets(sheet, path=()):
    """pre-order list of (path, sheet)"""
    out = [(path, sheet)]
    for i, s in enumerate(sheet["imports"]):
        out += all_sheets(s, path + (i,))
    return out


T0 = {"id": 0, "alts": [alt("/", "root")], "mode": None, "prio": 1000000, "ai": False}


def template_xml(t):
    if t["id"] == 0:
        body = ('<xsl:param name="r" select="0"/><xsl:choose><xsl:when test="$r=0"><out><xsl:for-each select="%s">' % ALL)
        for m in MODES:
            body += '<r><xsl:apply-templates select="."%s><xsl:with-param name="r" select="1"/></xsl:apply-templates></r>' % (
                ' mode="%s"' % m if m else "")
        body += '</xsl:for-each></out></xsl:when><xsl:otherwise>[T0]</xsl:otherwise></xsl:choose>'
    else:
        body = "[T%d%s]" % (t["id"], "<xsl:apply-imports/>" if t["ai"] else "")
    pat = "|".join(a["text"] for a in t["alts"])
    return '<xsl:template match="%s"%s%s%s>%s</xsl:template>' % (
        pat, ' xmlns:p="urn:u2"' if t.get("rebind") else "", ' mode="%s"' % t["mode"] if t["mode"] else "",
        ' priority="%s"' % prio_text(t["prio"]) if t["prio"] is not None else "", body)


KEYS = ('<xsl:key name="k" match="*|text()|comment()|processing-instruction()" use="\'v\'"/>'
        '<xsl:key name="ke" match="b|c" use="\'v\'"/>')


def sheet_files(sheet):
    """-> (main text, {name: text})"""
    files = {}
    cnt = [0]

    def items_xml(items):
        s = ""
        for it in items:
            if "incl" in it:
                cnt[0] += 1
                name = "i%d.xsl" % cnt[0]
                files[name] = wrap(items_xml(it["incl"]), "")
                s += '<xsl:include href="%s"/>' % name
            else:
                s += template_xml(it)
        return s

    def wrap(body, imports):
        return '<xsl:stylesheet version="1.0" xmlns:xsl="%s"%s>%s%s</xsl:stylesheet>' % (XSL, NSDECL, imports, body)

    def sheet_xml(sh):
        imp = ""
        for s in sh["imports"]:
            cnt[0] += 1
            name = "s%d.xsl" % cnt[0]
            files[name] = None
            files[name] = sheet_xml(s)
            imp += '<xsl:import href="%s"/>' % name
        return '<xsl:stylesheet version="1.0" xmlns:xsl="%s"%s>%s%s</xsl:stylesheet>' % (XSL, NSDECL, imp, items_xml(sh["items"]))

    main = sheet_xml(sheet)
    # xsl:key declarations once, in the main stylesheet (after the imports)
    k = main.rfind("<xsl:import")
    k = main.index("/>", k) + 2 if k >= 0 else main.index(">", main.index("<xsl:stylesheet")) + 1
    main = main[:k] + KEYS + main[k:]
    return main, files


def gen_doc(r):
    cnt = [0]

    def elem(depth):
        cnt[0] += 1
        pre = r.choice(["", "", "", "p:", "q:"])
        name = pre + r.choice(["a", "b", "c", "d"])
        attrs = ""
        for a in r.sample(["x", "y", "z", "p:x"], r.choice([0, 0, 1, 1, 2])):
            attrs += ' %s="%s"' % (a, r.choice(["1", "v", "t1"]))
        kids = ""
        last_text = False
        n = r.choice([0, 1, 2, 3]) if depth < 3 else 0
        for _ in range(n):
            c = r.random()
            if cnt[0] > 14:
                break
            if c < 0.5:
                kids += elem(depth + 1)
                last_text = False
            elif c < 0.7 and not last_text:
                kids += r.choice(["t1", "t2", "tx"])
                last_text = True
            elif c < 0.85:
                kids += "<!--c%d-->" % r.randrange(3)
                last_text = False
            else:
                kids += "<?%s d?>" % r.choice(["pi1", "pi2"])
                last_text = False
        return "<%s%s>%s</%s>" % (name, attrs, kids, name)
    body = elem(0)
    # declare both prefixes on the root element
    i = body.index(">") if body.index(">") < (body.index(" ") if " " in body else 10 ** 9) else body.index(" ")
    body = body[:i] + NSDECL + body[i:]
    pre = r.choice(["", "", "<!--c9-->", "<?pi1 top?>"])
    return pre + body


# ---------------------------------------------------------------------------------------------
# probing stylesheet: node table and match matrix through the defining expressions

def defining_expr(a):
    t = a["text"]
    if t.startswith("/") or t.startswith("key(") or t.startswith("id("):
        return t
    return "//" + t


def probe_sheet(alts):
    s = '<xsl:stylesheet version="1.0" xmlns:xsl="%s"%s>%s<xsl:template match="/"><out>' % (XSL, NSDECL, KEYS)
    s += ('<xsl:for-each select="%s"><n k="{count(self::*)}{count(self::text())}{count(self::comment())}'
          '{count(self::processing-instruction())}{count(..)}" a="{count(../@*[count(.|current())=1])}" l="{local-name()}" '
          'i="{generate-id()}" u="{generate-id(..)}" v="{.}"/></xsl:for-each>') % ALL
    for j, a in enumerate(alts):
        s += ('<p><xsl:variable name="s" select="%s"%s/><xsl:variable name="c" select="count($s)"/><xsl:for-each select="%s">'
              '<xsl:value-of select="number(count($s|.)=$c)"/></xsl:for-each></p>') % (
                  defining_expr(a).replace('"', "&quot;"), ' xmlns:p="urn:u2"' if a.get("rebind") else "", ALL)
    s += '</out></xsl:template></xsl:stylesheet>'
    return s


def unesc(s):
    return s.replace("&lt;", "<").replace("&gt;", ">").replace("&quot;", '"').replace("&amp;", "&")


def parse_probe(out):
    txt = out.decode("utf-8")
    nodes = []
    for m in re.finditer(r'<n k="(\d+)" a="(\d+)" l="([^"]*)" i="([^"]*)" u="([^"]*)" v="([^"]*)"/>', txt):
        k, isattr, l, i, u, v = m.groups()
        if k[4] == "0":
            kind = "r"
        elif isattr != "0":
            kind = "a"
        elif k[0] == "1":
            kind = "e"
        elif k[1] == "1":
            kind = "t"
        elif k[2] == "1":
            kind = "c"
        elif k[3] == "1":
            kind = "p"
        else:
            kind = "o"
        nodes.append({"kind": kind, "lname": l, "gid": i, "pgid": u, "value": unesc(v)})
    gid = {n["gid"]: i for i, n in enumerate(nodes)}
    for i, n in enumerate(nodes):
        n["parent"] = gid.get(n["pgid"]) if n["kind"] != "r" else None
    matrix = [m.group(1) or "" for m in re.finditer(r"<p>(?:([01]*)</p>)", txt)]
    matrix += [""] * txt.count("<p/>")
    return nodes, matrix


def node_key(n):
    if n["kind"] in ("e", "a"):
        nid = NAME_ID.get(n["lname"])
        return "%s%d" % (n["kind"], nid if nid else 99)
    return n["kind"]


# ---------------------------------------------------------------------------------------------
# expected output strings from a chooser

def children(nodes, i):
    return [j for j, n in enumerate(nodes) if n["parent"] == i and n["kind"] != "a"]


def render(nodes, tmpl_by_id, sheet_path_of, chooser, i, mode, res, depth=0):
    """res: template id, or -1 (built-in: children), -2 (built-in: text), -3 (nothing)"""
    if depth > 60:
        return "<deep>"
    if res == -1:
        return "".join(render(nodes, tmpl_by_id, sheet_path_of, chooser, c, mode, chooser((), 0, mode, c), depth + 1)
                       for c in children(nodes, i))
    if res == -2:
        return nodes[i]["value"]
    if res == -3:
        return ""
    t = tmpl_by_id[res]
    inner = ""
    if t["ai"]:
        inner = render(nodes, tmpl_by_id, sheet_path_of, chooser, i, mode,
                       chooser(sheet_path_of[res], 1, mode, i), depth + 1)
    return "[T%d%s]" % (res, inner)


def builtin_code(kind):
    return {"e": -1, "r": -1, "t": -2, "a": -2}.get(kind, -3)


def oracle_chooser(case):
    """XSLT 1.0 section 5.5 over the rule set; matching from the probe matrix"""
    sheet, nodes, matrix = case["sheet"], case["nodes"], case["matrix"]
    cache = {}

    def rules_under(path, only):
        key = (path, only)
        if key in cache:
            return cache[key]
        sub = sheet
        for i in path:
            sub = sub["imports"][i]
        levels = []      # post-order: increasing precedence

        def post(s):
            for c in s["imports"]:
                post(c)
            levels.append(flatten_items(s["items"]))
        post(sub)
        if only:
            levels = levels[:-1]
        rules = []
        for prec, ts in enumerate(levels):
            for pos, t in enumerate(ts):
                for a in t["alts"]:
                    pr = t["prio"] if t["prio"] is not None else spec_default_priority(a)
                    rules.append((prec, pr, pos, t["id"], t["mode"], a["pid"]))
        cache[key] = rules
        return rules

    def choose(path, only, mode, i):
        best = None
        for (prec, pr, pos, tid, tm, pid) in rules_under(tuple(path), only):
            if tm == mode and matrix[pid][i] == "1":
                if best is None or (prec, pr, pos) > best[:3]:
                    best = (prec, pr, pos, tid)
        return best[3] if best else builtin_code(nodes[i]["kind"])
    return choose


# ---------------------------------------------------------------------------------------------

def assign_ids(sheet):
    """global alternative ids, pattern-text ids, template table, sheet path of each template"""
    pid = [0]
    texts = {}
    tmpl_by_id, sheet_path_of, alts = {}, {}, []
    for path, s in all_sheets(sheet):
        for t in flatten_items(s["items"]):
            tmpl_by_id[t["id"]] = t
            sheet_path_of[t["id"]] = path
            txt = "|".join(a["text"] for a in t["alts"])
            t["text_id"] = texts.setdefault(txt, len(texts))
            for a in t["alts"]:
                a["rebind"] = bool(t.get("rebind"))
                a["pid"] = pid[0]
                pid[0] += 1
                alts.append(a)
    return tmpl_by_id, sheet_path_of, alts


def model_line(case, facts, queries):
    def item_tok(it):
        if "incl" in it:
            return "I %d %s" % (len(it["incl"]), " ".join(item_tok(x) for x in it["incl"]))
        return "T %d %s %s %d %s" % (it["id"], MODE_ID[it["mode"]], "-" if it["prio"] is None else str(it["prio"]),
                                      len(it["alts"]),
                                         " ".join("%d %s" % (a["pid"], target_tokens(a, facts)) for a in it["alts"]))

    def sheet_tok(s):
        return "S %d %s %d %s" % (len(s["items"]), " ".join(item_tok(x) for x in s["items"]), len(s["imports"]),
                                  " ".join(sheet_tok(x) for x in s["imports"]))
    nodes, matrix = case["nodes"], case["matrix"]
    q = " ".join("%d %d %s %d %s" % (quiet, len(path), " ".join(str(i) for i in path), only, MODE_ID[mode])
                 for (quiet, path, only, mode) in queries)
    line = "%s V%d %s N %d %s M %d %s Q %d %s" % (case["id"], 1 if facts.get("per_alternative") else 0, sheet_tok(case["sheet"]), len(nodes), " ".join(node_key(n) for n in nodes),
                                              len(matrix), " ".join(m or "-" for m in matrix), len(queries), q)
    return re.sub(r"\s+", " ", line)


def queries_of(case, quiet_modes=(1,)):
    qs = []
    for quiet in quiet_modes:
        for m in MODES:
            qs.append((quiet, (), 0, m))
        for path, s in all_sheets(case["sheet"]):
            if any(t["ai"] for t in flatten_items(s["items"])):
                for m in MODES:
                    qs.append((quiet, path, 1, m))
    return qs


def make_case(ctx, cid, k1=False, k2=False, sheet=None, doc=None, k3=False, k4=False):
    r = ctx.rng
    if sheet is None:
        counter = [0]
        pool = []
        sheet = gen_sheet(r, 0, [r.choice([0, 1, 2, 3, 5])], counter, k1, k2, pool, k3=k3, k4=k4)
    sheet["items"].insert(0, dict(T0, alts=[dict(T0["alts"][0])]))
    return {"id": cid, "sheet": sheet, "doc": doc if doc is not None else gen_doc(r), "k1": k1, "k2": k2, "k3": k3, "k4": k4}


# True when the tree tests every table entry with its own alternative (generated fact per_alternative, after
# the repair of K1): unions whose alternatives have different default priorities are then ordinary inputs of
# the main stream and a disagreement with section 5.5 on them is a violation, not the known finding K1
OPEN_K1 = False


def has_k1(case):
    for _, s in all_sheets(case["sheet"]):
        for t in flatten_items(s["items"]):
            if t["prio"] is None and len({spec_default_priority(a) for a in t["alts"]}) > 1:
                return True
    return False


def has_k2(case):
    """a function-headed single-step alternative matches a node that is not an element or attribute"""
    for a in case["alts"]:
        if a["kind"] == "fn" and not a["multi"]:
            for i, n in enumerate(case["nodes"]):
                if case["matrix"][a["pid"]][i] == "1" and n["kind"] not in ("e", "a"):
                    return True
    return False


def has_k4(case):
    """a template without priority attribute with a single-step alternative under a non-positional
    predicate: its run-time score is that of the bare node test"""
    for t in case["tmpl_by_id"].values():
        if t["prio"] is None and any(a["pred"] == "bool" and not a["steps"] for a in t["alts"]):
            return True
    return False


def has_k3(case):
    """two templates of one stylesheet level with the same match string and priority attribute but
    different namespace bindings (different patterns)"""
    for _, sh in all_sheets(case["sheet"]):
        seen = {}
        for t in flatten_items(sh["items"]):
            key = ("|".join(a["text"] for a in t["alts"]), t["prio"])
            if key in seen and seen[key] != bool(t.get("rebind")):
                return True
            seen.setdefault(key, bool(t.get("rebind")))
    return False


def limited(exe):
    """wrapper script: the same driver under an address-space limit (a wrong template choice can make
    apply-imports recurse without bound: that must end as a crash of the case, not eat the machine)"""
    w = exe + "_lim.sh"
    txt = "#!/bin/sh\nulimit -v 1200000\nulimit -s 65536\nexec %s \"$@\"\n" % exe
    if not os.path.exists(w) or open(w).read() != txt:
        with open(w, "w") as f:
            f.write(txt)
        os.chmod(w, 0o755)
    return w


def run_nonquiet(cases_lines_ids, exe):
    """harness/tmpl.cpp: -> {id: ("ok", bytes, warnings) | ("err", ...) | ("crash",)}"""
    lines = [l for _, l in cases_lines_ids]
    rc, res, raw = core.run_lines_parallel(exe, lines, sep="|", timeout=600)
    out = {}
    for cid, _ in cases_lines_ids:
        r = res.get(cid)
        if r is None:
            out[cid] = ("crash",)
            continue
        f = r.split("|")
        if f[0] == "ok":
            out[cid] = ("ok", bytes.fromhex(f[1]), int(f[2]) if len(f) > 2 else 0)
        else:
            out[cid] = ("err", f[1], bytes.fromhex(f[2]).decode("utf-8", "replace") if len(f) > 2 else "")
    return out


def evaluate(ctx, cases, model_exe, facts, exes=None):
    """-> (corr mismatches, oracle failures) ; fills coverage"""
    exes = exes or {}
    # 1. probe
    for c in cases:
        c["tmpl_by_id"], c["sheet_path_of"], c["alts"] = assign_ids(c["sheet"])
    probe = xsltrun.run([{"id": c["id"], "sheet": probe_sheet(c["alts"]), "source": c["doc"]} for c in cases], exe=exes.get("xslt"))
    good = []
    problems = []
    for c in cases:
        pr = probe[c["id"]]
        if pr[0] != "ok":
            problems.append({"case": c, "what": "probe stylesheet failed: %r" % (pr,), "known": None, "kind": "probe"})
            continue
        c["nodes"], c["matrix"] = parse_probe(pr[1])
        if len(c["matrix"]) != len(c["alts"]) or any(len(m) != len(c["nodes"]) for m in c["matrix"]):
            problems.append({"case": c, "what": "probe output not understood", "known": None, "kind": "probe"})
            continue
        good.append(c)
    # 2. the real transformation
    runs = []
    for c in good:
        main, files = sheet_files(c["sheet"])
        c["main"], c["files"] = main, files
        runs.append({"id": c["id"], "sheet": main, "source": c["doc"], "files": files})
    res = xsltrun.run(runs, exe=exes.get("xslt"))
    # a crash takes the rest of its chunk with it: run the lost cases again, one process each
    lost = [r for r in runs if res[r["id"]][0] == "crash"]
    if lost:
        from concurrent.futures import ThreadPoolExecutor
        with ThreadPoolExecutor(8) as ex:
            for r, o in zip(lost[:200], ex.map(lambda r: xsltrun.run([r], exe=exes.get("xslt"))[r["id"]], lost[:200])):
                res[r["id"]] = o
    res_nq = {}
    if exes.get("tmpl"):
        nql = [(r["id"], xsltrun.line_of(dict(r, opts="nonquiet"))) for r in runs]
        res_nq = run_nonquiet(nql, exes["tmpl"])
        lost = [x for x in nql if res_nq[x[0]][0] == "crash"]
        if lost:
            from concurrent.futures import ThreadPoolExecutor
            with ThreadPoolExecutor(8) as ex:
                for x, o in zip(lost[:200], ex.map(lambda x: run_nonquiet([x], exes["tmpl"])[x[0]], lost[:200])):
                    res_nq[x[0]] = o
    # 3. the model
    mres = {}
    if model_exe:
        for c in good:
            c["queries"] = queries_of(c, (1, 0) if res_nq else (1,))
        rc, mres, raw = core.run_lines_parallel(model_exe, [model_line(c, facts, c["queries"]) for c in good])
    corr, orc = [], []

    def observed(r):
        if r[0] != "ok":
            return None, "transformation failed: %r" % (r[:3],)
        obs = [unesc(x or "") for x in re.findall(r"<r>(.*?)</r>|<r/>", r[1].decode("utf-8"), flags=re.S)]
        if len(obs) != len(nodes) * len(MODES):
            return None, "output not understood (%d <r> for %d nodes)" % (len(obs), len(nodes))
        return obs, None
    for c in good:
        nodes = c["nodes"]
        ctx.count("sheets:%d" % len(all_sheets(c["sheet"])))
        ctx.count("class:" + ("k1" if c["k1"] else "k2" if c["k2"] else "k3" if c.get("k3") else "k4" if c.get("k4") else "guarded"))
        obs, err = observed(res[c["id"]])
        if err:
            orc.append({"case": c, "what": err, "known": None})
            continue
        obs_nq = None
        if res_nq:
            obs_nq, err = observed(res_nq[c["id"]])
            if err:
                orc.append({"case": c, "what": "non-quiet run: " + err, "known": None, "nq": True})
        # oracle A: section 5.5 against the library (quiet path, XalanTransformer)
        och = oracle_chooser(c)
        k1 = has_k1(c)
        nontrivial = 0
        for i in range(len(nodes)):
            for mi, m in enumerate(MODES):
                ctx.cov["evaluations"] += 1
                want = render(nodes, c["tmpl_by_id"], c["sheet_path_of"], och, i, m, och((), 0, m, i))
                got = obs[i * len(MODES) + mi]
                # how many rules compete for this node/mode
                napp = sum(1 for t in c["tmpl_by_id"].values() if t["mode"] == m and any(c["matrix"][a["pid"]][i] == "1" for a in t["alts"]))
                if napp >= 2:
                    nontrivial += 1
                ctx.count("competing:%s" % (napp if napp < 4 else "4+"))
                if want != got:
                    orc.append({"case": c, "node": i, "mode": m, "want": want, "got": got,
                                "what": "node #%d (%s %s) mode %s: output %r, section 5.5 gives %r" % (
                                    i, nodes[i]["kind"], nodes[i]["lname"], m, got, want),
                                "known": "K1" if (k1 and not OPEN_K1) else None})
                # oracle B: conflict reporting must not change the choice (library against itself)
                if obs_nq is not None:
                    gq = obs_nq[i * len(MODES) + mi]
                    if gq != got:
                        orc.append({"case": c, "node": i, "mode": m, "want": got, "got": gq, "nq": True,
                                    "what": "node #%d (%s %s) mode %s: with conflict reporting on the output is %r, without it %r" % (
                                        i, nodes[i]["kind"], nodes[i]["lname"], m, gq, got),
                                    "known": None})
        ctx.cov["distinct_nontrivial"] += nontrivial
        # correspondence
        if model_exe:
            mr = mres.get(c["id"])
            if mr is None or mr.startswith("error"):
                corr.append({"case": c["id"], "what": "model driver: %r" % (mr,)})
                continue
            body, g, b = re.match(r"(.*)\|G (.*)\|B (.*)$", mr).groups()
            groups = [x.split(",") for x in body.split(";")]
            table = {}
            for q, gvals in zip(c["queries"], groups):
                table[(q[0], tuple(q[1]), q[2], q[3])] = [int(v) for v in gvals]
            for quiet, o in ((1, obs), (0, obs_nq)):
                if o is None:
                    continue

                def mch(path, only, mode, i):
                    return table[(quiet, tuple(path), only, mode)][i]
                for i in range(len(nodes)):
                    for mi, m in enumerate(MODES):
                        ctx.cov["traces_validated_against_impl"] += 1
                        want = render(nodes, c["tmpl_by_id"], c["sheet_path_of"], mch, i, m, mch((), 0, m, i))
                        got = o[i * len(MODES) + mi]
                        if want != got:
                            corr.append({"case": c["id"], "what": "%s path, node #%d (%s %s) mode %s: library %r, model %r" % (
                                "quiet" if quiet else "non-quiet", i, nodes[i]["kind"], nodes[i]["lname"], m, got, want),
                                "replay": replay_text(c)})
            # the model against its own theorem: under the two guards the choice is the section 5.5 maximum
            uni, filed = g.split(" ")
            bgroups = [x.split(",") for x in b.split(";")]
            for mi, m in enumerate(MODES):
                for i in range(len(nodes)):
                    if uni == "1" and filed[i] == "1":
                        mv = table[(1, (), 0, m)][i]
                        bv = int(bgroups[mi][i])
                        if (bv == -9) != (mv < 0) or (bv != -9 and bv != mv):
                            corr.append({"case": c["id"], "what": "model contradicts find_template_spec_partial at node %d mode %s: %d vs %d" % (i, m, mv, bv)})
    return corr, orc + problems


def replay_text(c, extra=""):
    d = {"main.xsl": c.get("main"), "files": c.get("files"), "main.xml": c["doc"]}
    return "# C10 replay: python3 check.py C10 --replay <this file>\n" + extra + "REPLAY " + json.dumps(d) + "\n"


K1_SHEET = {"items": [
    {"id": 1, "alts": [alt("a", "name", False, "a")], "mode": None, "prio": None, "ai": False},
    {"id": 2, "alts": [alt("a[b]", "name", False, "a", multi=True, pred="bool"), alt("*", "wild")], "mode": None, "prio": None, "ai": False}],
    "imports": []}
K2_SHEET = {"items": [
    {"id": 1, "alts": [alt("key('k','v')", "fn", k2=True)], "mode": None, "prio": None, "ai": False}], "imports": []}


K3_SHEET = {"items": [
    {"id": 1, "alts": [alt("p:a", "name", False, "a")], "mode": None, "prio": None, "ai": False},
    {"id": 2, "alts": [alt("p:a", "name", False, "a")], "mode": None, "prio": None, "ai": False, "rebind": True}],
    "imports": []}


K4_SHEET = {"items": [
    {"id": 1, "alts": [alt("a", "name", False, "a")], "mode": None, "prio": 250, "ai": False},
    {"id": 2, "alts": [alt("a[@x]", "name", False, "a", multi=True, pred="bool")], "mode": None, "prio": None, "ai": False}],
    "imports": []}


def big_sheet(n):
    """more than 100 pattern entries competing for one node with equal priority: the conflict-reporting
    path switches from its 100-element stack array to a vector (Stylesheet::findTemplate)"""
    items = [{"id": k, "alts": [alt("a[%d > 0]" % k, "name", False, "a", multi=True, pred="bool")], "mode": None,
              "prio": 1000 if k % 3 else 2000, "ai": False} for k in range(1, n + 1)]
    return {"items": items, "imports": []}


def corpus_cases(ctx):
    import copy
    return [make_case(ctx, "corpusBig", sheet=big_sheet(104), doc="<d><a/><b/></d>"),
            make_case(ctx, "corpusBig99", sheet=big_sheet(99), doc="<d><a/><b/></d>"),
            make_case(ctx, "corpusK1", k1=True, sheet=copy.deepcopy(K1_SHEET), doc="<d><a/><a><b/></a></d>"),
            make_case(ctx, "corpusK2", k2=True, sheet=copy.deepcopy(K2_SHEET), doc="<d><a>t1</a><!--c--><?pi1 q?></d>"),
            make_case(ctx, "corpusK4", k4=True, sheet=copy.deepcopy(K4_SHEET), doc='<d><a x="1"/></d>'),
            make_case(ctx, "corpusK3", k3=True, sheet=copy.deepcopy(K3_SHEET), doc='<d><p:a xmlns:p="urn:u1"/></d>')]


def run(ctx):
    ctx.assumptions += [
        "pattern matching is abstract in the model: 'alternative P alone matches node n' is an input (taken from the library through P's defining expression //P); a union matches iff one of its alternatives does (XPath::doGetMatchScore)",
        "priorities are modelled as integers in units of 1/1000 (the generator writes at most three decimals; DoubleSupport::toDouble is monotone on them); priority attributes that are not numbers are out of scope",
        "simplified (literal-result-element) stylesheets are out of scope (m_isWrapperless)",
        "the quiet path of findTemplate is observed through XalanTransformer, the conflict-reporting path through XSLTEngineImpl::setQuietConflictWarnings(false) (harness/tmpl.cpp, the set-up of TestXSLT/process.cpp)",
    ]
    ok_lib, liblog = core.build_lib("plain")
    if not ok_lib:
        ctx.broken.append("library does not build from the working tree: " + liblog[-500:])
        return ctx.finish(LEVEL)
    proved = ctx.prove(["Properties_C10.v"], ["GenTmpl"])
    gen = core.srcfacts.run(core.COQ, ["GenTmpl"]).get("GenTmpl", {})
    facts = gen.get("facts")
    global OPEN_K1
    OPEN_K1 = bool(facts and facts.get("per_alternative"))
    ctx.notes["per_alternative_variant"] = OPEN_K1
    model, ok_m, mlog = core.build_model(FAMILY)
    if not ok_m:
        ctx.broken.append("model extraction/build failed: " + mlog[-500:])
        model = None
    if facts is None:
        # the translator no longer understands the source: fall back to the last-known table for the
        # correspondence (already reported as a broken tie by ctx.prove)
        model = None
    exe, ok_h, hlog = xsltrun.build()
    if not ok_h:
        ctx.broken.append("xslt harness does not compile against the working tree: " + hlog[-500:])
        return ctx.finish(LEVEL)
    exe_nq, ok_n, nlog = core.build_harness("tmpl", "plain")
    if not ok_n:
        ctx.broken.append("harness/tmpl.cpp (non-quiet driver) does not compile against the working tree: " + nlog[-500:])
        return ctx.finish(LEVEL)
    exes = {"xslt": limited(exe), "tmpl": limited(exe_nq)}

    known = {k["key"]: k for k in ctx.known.for_property("C10")}
    n_guarded, n_k = (700, 80) if not ctx.thorough else (40000, 2000)

    def batch(n_guarded, n_k, tag):
        cs = []
        for i in range(n_guarded):
            cs.append(make_case(ctx, "%sg%d" % (tag, i)))
        for i in range(n_k):
            cs.append(make_case(ctx, "%sk%d" % (tag, i), k1=(i % 4 == 0), k2=(i % 4 == 1), k3=(i % 4 == 2), k4=(i % 4 == 3)))
        return cs
    cases = corpus_cases(ctx) + batch(n_guarded, n_k, "")
    corr, orc = evaluate(ctx, cases, model, facts, exes)
    new = [o for o in orc if not (o["known"] and o["known"] in known)]
    if (corr or not proved or not model) and not new and not ctx.thorough:
        ctx.escalated = True
        c2, o2 = evaluate(ctx, batch(3000, 0, "w"), model, facts, exes)
        corr += c2
        orc += o2
        new = [o for o in orc if not (o["known"] and o["known"] in known)]
    ctx.cov["samples"] = ["%s: match=%s" % (c["id"], [("|".join(a["text"] for a in t["alts"]), t["mode"], t["prio"])
                                                     for t in list(c.get("tmpl_by_id", {}).values())[:4]]) for c in cases[2:8]]
    ctx.notes["rule"] = "evaluations = (node, mode) pairs whose complete output was compared with the section 5.5 oracle; distinct_nontrivial = pairs for which at least two template rules of the mode match the node (a real conflict)"
    hits = {}
    for o in orc:
        if o["known"] and o["known"] in known:
            hits[o["known"]] = hits.get(o["known"], 0) + 1
    for k in sorted(hits):
        ctx.known_finding("%s %s" % (k, known[k]["what"]))
    ctx.notes["known_class_hits"] = hits
    if corr:
        ctx.broken.append("correspondence tmpl: %d differences between model and library, e.g. %s" % (len(corr), corr[0]["what"]))
        ctx.notes["correspondence_mismatches"] = [x["what"] for x in corr[:20]]
        if corr[0].get("replay"):
            with open(os.path.join(core.OUT, "C10", "correspondence_first.txt"), "w") as f:
                f.write(corr[0]["replay"])
    if new:
        new.sort(key=lambda o: len(o["case"].get("main", "")) + len(o["case"]["doc"]) if isinstance(o["case"], dict) else 0)
        o = new[0]
        extra = "".join("# %s\n" % x["what"] for x in new[:12])
        ctx.violation("oracle", replay_text(o["case"], extra + "EXPECT %s\n" % json.dumps(
            {"node": o.get("node"), "mode": o.get("mode"), "want": o.get("want"), "nq": bool(o.get("nq")),
             "results": len(o["case"].get("nodes", [])) * len(MODES)})))
    ctx.notes["oracle_failures"] = len(new)
    # the current template rule (sections 5.6 / 6) and xsl:apply-imports end to end: built as its own part (props/C10_currule.py)
    try:
        import importlib
        currule_part = importlib.import_module("props.C10_currule")
    except ImportError:
        currule_part = None
    if currule_part is not None:
        currule_part.run_part(ctx)
    return ctx.finish(LEVEL, explanation="theorems over the Gallina model of the pattern tables and findTemplate + generated facts from XPath.cpp/Stylesheet.cpp + correspondence of the extracted model with whole transformations + independent section 5.5 oracle")


def replay(ctx, path):
    core.build_lib("plain")
    txt = open(path).read()
    if txt.startswith("# C10r replay"):
        import importlib
        return importlib.import_module("props.C10_currule").replay(ctx, path)
    d = json.loads(re.search(r"^REPLAY (.*)$", txt, flags=re.M).group(1))
    m = re.search(r"^EXPECT (.*)$", txt, flags=re.M)
    e = json.loads(m.group(1)) if m else {}
    case = {"id": "replay", "sheet": d["main.xsl"], "source": d["main.xml"], "files": d.get("files") or {}}
    exe, ok_h, hlog = xsltrun.build()
    r = xsltrun.run([case], exe=limited(exe))["replay"]
    print("XalanTransformer (quiet path):", r[0])

    def obs_of(r):
        return [unesc(x or "") for x in re.findall(r"<r>(.*?)</r>|<r/>", r[1].decode("utf-8"), flags=re.S)]
    if r[0] != "ok":
        print(r)
        return 1
    obs = obs_of(r)
    print("outputs per (node, mode) in the order of '%s' x %s:" % (ALL, MODES))
    for i in range(0, len(obs), len(MODES)):
        print("  node #%d: %s" % (i // len(MODES), obs[i:i + len(MODES)]))
    if e.get("node") is None:
        if e.get("results") and len(obs) != e["results"]:
            print("%d results in the output, %d expected -> FAILS" % (len(obs), e["results"]))
            return 1
        return 0
    k = e["node"] * len(MODES) + MODES.index(e["mode"])
    if e.get("nq"):
        exe_nq, ok_n, nlog = core.build_harness("tmpl", "plain")
        rq = run_nonquiet([("replay", xsltrun.line_of(dict(case, opts="nonquiet")))], limited(exe_nq))["replay"]
        if rq[0] != "ok":
            print("conflict reporting on:", rq)
            return 1
        got = obs_of(rq)[k]
        print("node #%d mode %s: with conflict reporting on %r, without it %r -> %s" % (
            e["node"], e["mode"], got, obs[k], "FAILS" if got != obs[k] else "passes"))
        return 1 if got != obs[k] else 0
    got = obs[k]
    print("node #%d mode %s: got %r, section 5.5 gives %r -> %s" % (e["node"], e["mode"], got, e["want"],
                                                                   "FAILS" if got != e["want"] else "passes"))
    return 1 if got != e["want"] else 0
