"""Grammar-based, typed generator of error-free XSLT 1.0 stylesheets (C01) over vlib/xpgen.py documents,
the printer of the stylesheet AST (see vlib/xsltref.py) as XML, and the AST shrinker.

Termination by construction: modes are ranked (None < m1 < m2); an xsl:apply-templates that stays in the
current mode selects strictly downward (child/descendant/attribute of the current node, itself known to
be inside the subtree the template was invoked for); any other selection (absolute, variable, sibling,
ancestor, key) switches to a strictly higher mode; named templates contain no apply-templates and call
only lower-numbered named templates or themselves with a decreasing counter."""
from vlib import xpgen

MODES = [None, "m1", "m2"]
OPEN_CLASSES = set()     # keys of repaired findings whose class the generators should produce (set by props/C01.py)
ELS = ["a", "b", "c", "d"]
ATS = ["x", "y", "id", "n"]


def P(steps, head=None, preds=None):
    return ("path", head, preds or [], steps)


def N(local, ns=None):
    return ("name", ns, local)


def num(i):
    return ("num", str(i))


def lit(s):
    return ("lit", s)


def fn(name, *args):
    return ("fn", name, list(args))


class Gen:
    def __init__(self, r, size="small", features=None):
        self.r = r
        self.budget = 40
        self.keys = []
        self.asets = []          # names of attribute sets
        self.named = []          # (name, [param names], recursive?)
        self.globals = {}        # name -> type
        self.uid = 0
        self.size = size

    # ------------------------------------------------------------------ expressions
    def test(self, attr=False):
        r = self.r
        if attr:
            return r.choice([N(None), N("x"), N("y"), N("id"), N("n"), N("z", "urn:p"), "node"])
        k = r.random()
        if k < 0.45:
            return N(r.choice(ELS))
        if k < 0.62:
            return N(None)
        if k < 0.7:
            return N(r.choice(["a", "b", None]), "urn:p")
        if k < 0.82:
            return "node"
        if k < 0.92:
            return "text"
        if k < 0.96:
            return "comment"
        return ("pi", None)

    def pred(self, env, d):
        r = self.r
        k = r.random()
        if k < 0.25:
            e = num(r.choice([1, 1, 2, 3]))
        elif k < 0.35:
            e = fn("last")
        elif k < 0.5:
            e = (r.choice(["lt", "gt", "ne", "eq", "lte"]), fn("position"), r.choice([num(1), num(2), fn("last")]))
        elif k < 0.65:
            e = P([("attribute", N(r.choice(ATS)), [])])
        elif k < 0.78:
            e = ("eq", P([("attribute", N(r.choice(ATS)), [])]), lit(r.choice(["1", "2", "a", "b", "10"])))
        elif k < 0.88:
            e = P([("child", N(r.choice(ELS)), [])])
        else:
            e = self.g_bool(env, d - 1)
        return (xpgen.has_pos(e), e)

    def down_steps(self, env, d, maxn=2):
        """strictly downward steps from the context node"""
        r = self.r
        steps = []
        for _ in range(r.choice([1, 1, 1, 2][:maxn + 2])):
            k = r.random()
            if k < 0.7:
                ax = "child"
            elif k < 0.85:
                ax = "descendant"
            else:
                ax = "attribute"
            preds = [self.pred(env, d)] if d > 0 and r.random() < 0.3 else []
            steps.append((ax, self.test(ax == "attribute"), preds))
            if ax == "attribute":
                break
        return steps

    def any_steps(self, env, d):
        r = self.r
        steps = []
        for _ in range(r.choice([1, 1, 2])):
            ax = r.choice(["child", "child", "descendant", "attribute", "parent", "ancestor", "ancestor-or-self",
                           "following-sibling", "preceding-sibling", "self", "descendant-or-self", "following", "preceding"])
            preds = [self.pred(env, d)] if d > 0 and r.random() < 0.3 else []
            steps.append((ax, self.test(ax == "attribute"), preds))
            if ax == "attribute":
                break
        return steps

    def vars_of(self, env, ty):
        return [n for n, t in env.items() if t == ty]

    def g_nodes(self, env, d, down=False, rich=False):
        r = self.r
        if rich and r.random() < 0.55:
            # selections that usually hold several nodes (composition needs node lists to iterate over)
            c = [P([("child", N(None), [])]), P([("child", "node", [])]), P([("descendant", N(None), [])]),
                 P([("child", N(None), []), ("child", N(None), [])]), P([("descendant", "node", [])]),
                 P([("child", N(None), []), ("attribute", N(None), [])])]
            if not down:
                c += [P([("root", "root", []), ("descendant-or-self", "node", []), ("child", N(None), [])]),
                      P([("root", "root", []), ("child", N(None), []), ("child", "node", [])]),
                      P([("following-sibling", N(None), [])]), P([("ancestor-or-self", N(None), [])])]
            return r.choice(c)
        if down:
            return P(self.down_steps(env, d))
        k = r.random()
        if k < 0.4:
            return P(self.down_steps(env, d))
        if k < 0.55:
            return P(self.any_steps(env, d))
        if k < 0.7:
            steps = [("root", "root", [])]
            if r.random() < 0.5:
                steps.append(("descendant-or-self", "node", []))
            return P(steps + [("child", self.test(), [self.pred(env, d)] if r.random() < 0.3 else [])])
        if k < 0.82 and self.vars_of(env, "nodes"):
            v = ("var", r.choice(self.vars_of(env, "nodes")))
            if r.random() < 0.5:
                return v
            return P(self.down_steps(env, d, 1), head=v, preds=[self.pred(env, d)] if r.random() < 0.3 else [])
        if k < 0.88 and self.keys:
            kn, vals = r.choice(self.keys)
            return fn("key", lit(kn), lit(r.choice(vals)) if r.random() < 0.6 else P([("attribute", N(r.choice(ATS)), [])]))
        if k < 0.94 and d > 0:
            return ("union", [self.g_nodes(env, d - 1), self.g_nodes(env, d - 1)])
        return P([("self", "node", [])])

    def g_num(self, env, d):
        r = self.r
        k = r.random()
        if d <= 0 or k < 0.2:
            return num(r.choice([0, 1, 2, 3, 5, 10]))
        if k < 0.4:
            return fn("count", self.g_nodes(env, d - 1))
        if k < 0.55:
            if env.get("#nopos"):
                return fn("count", P([("child", "node", [])]))
            return fn(r.choice(["position", "last"]))
        if k < 0.7:
            a, b = self.g_num(env, d - 1), self.g_num(env, d - 1)
            op = r.choice(["plus", "minus", "mult", "mod"])
            wrap = lambda e: ("group", e) if e[0] in ("plus", "minus", "mult", "mod") else e
            return (op, wrap(a), wrap(b))
        if k < 0.8 and self.vars_of(env, "num"):
            return ("var", r.choice(self.vars_of(env, "num")))
        if k < 0.88:
            return fn("sum", P([("child", N(None), []), ("attribute", N(r.choice(["x", "n"])), [])]))
        if k < 0.94:
            return fn("number", P([("attribute", N(r.choice(ATS)), [])]))
        return num(r.choice([1, 2, 4]))

    def g_str(self, env, d):
        r = self.r
        k = r.random()
        if d <= 0 or k < 0.2:
            return lit(r.choice(["", "a", "b", "s", "x y", "1", "v", "é"]))
        if k < 0.35:
            return fn("string", self.g_nodes(env, d - 1))
        if k < 0.5:
            return fn(r.choice(["name", "local-name", "namespace-uri"]), *([self.g_nodes(env, d - 1)] if r.random() < 0.6 else []))
        if k < 0.65:
            return fn("concat", self.g_any(env, d - 1, ("str", "num", "nodes")), lit(r.choice(["-", ".", "", "_"])), self.g_any(env, d - 1, ("str", "num")))
        if k < 0.75 and (self.vars_of(env, "str") or self.vars_of(env, "anyparam")):
            v = r.choice(self.vars_of(env, "str") + self.vars_of(env, "anyparam"))
            return ("var", v) if env[v] == "str" else fn("string", ("var", v))
        if k < 0.85 and self.vars_of(env, "rtf"):
            return fn("string", ("var", r.choice(self.vars_of(env, "rtf"))))
        if k < 0.92:
            return fn("normalize-space", self.g_nodes(env, d - 1))
        return fn("string", self.g_num(env, d - 1))

    def g_bool(self, env, d):
        r = self.r
        k = r.random()
        if d <= 0 or k < 0.15:
            return fn(r.choice(["true", "false", "true"]))
        if k < 0.35:
            return self.g_nodes(env, d - 1)
        if k < 0.5:
            return (r.choice(["eq", "ne", "lt", "gt", "lte", "gte"]), self.g_num(env, d - 1), self.g_num(env, d - 1))
        if k < 0.62:
            return ("eq", self.g_nodes(env, d - 1), lit(r.choice(["1", "2", "a", "b", "", "10"])))
        if k < 0.7:
            return (r.choice(["eq", "ne"]), self.g_str(env, d - 1), self.g_str(env, d - 1))
        if k < 0.78:
            return fn("not", self.g_bool(env, d - 1))
        if k < 0.86:
            a, b = self.g_bool(env, d - 1), self.g_bool(env, d - 1)
            op = r.choice(["and", "or"])
            wrap = lambda e: ("group", e) if e[0] in ("and", "or", "union") else e
            return (op, wrap(a), wrap(b))
        if k < 0.92 and self.vars_of(env, "bool"):
            return ("var", r.choice(self.vars_of(env, "bool")))
        if k < 0.96 and self.vars_of(env, "rtf"):
            return ("eq", fn("string", ("var", r.choice(self.vars_of(env, "rtf")))), lit(r.choice(["", "a", "1"])))
        if env.get("#nopos"):
            return fn("true")
        return ("eq", fn("position"), fn("last"))

    def g_any(self, env, d, tys=("nodes", "num", "str", "bool")):
        ty = self.r.choice(tys)
        return self.g_typed(ty, env, d)

    def g_typed(self, ty, env, d):
        e = getattr(self, "g_" + ty)(env, d)
        return xpgen.fix_bare_root(e)

    # ------------------------------------------------------------------ instructions
    def fresh(self, pfx="w"):
        self.uid += 1
        return "%s%d" % (pfx, self.uid)

    def local_name(self, env):
        """a name not bound by an enclosing xsl:variable/xsl:param of the same template (XSLT 1.0 11.5:
        shadowing a local by a local is an error; shadowing a global, or re-using a name in a sibling
        scope, is not)"""
        r = self.r
        loc = env.get("#L", frozenset())
        k = r.random()
        pool = ["g1", "g2", "g3"] if k < 0.25 else (["v1", "v2", "v3"] if k < 0.65 else [])
        pool = [n for n in pool if n not in loc]
        return r.choice(pool) if pool else self.fresh()

    def avt(self, env, d):
        r = self.r
        parts = []
        for _ in range(r.choice([1, 1, 2, 3])):
            if r.random() < 0.5:
                parts.append(r.choice(["", "s", "a b", "1", "{x}", "é", "-"]))
            else:
                parts.append(("x", self.g_any(env, d, ("str", "num", "nodes", "bool"))))
        return parts

    def vdef(self, cx, env, d, ty=None):
        """-> (vdef, type)"""
        r = self.r
        ty = ty or r.choice(["nodes", "num", "str", "bool", "rtf", "rtf", "str"])
        if ty == "rtf":
            if r.random() < 0.12:
                return ("empty",), "str"
            body = self.body(cx, dict(env), d - 1, in_rtf=True)
            if not body:
                return ("empty",), "str"
            return ("body", body), "rtf"
        return ("select", self.g_typed(ty, env, 2)), ty

    def sorts(self, env):
        r = self.r
        out = []
        for _ in range(r.choice([0, 0, 1, 1, 2])):
            k = r.random()
            if k < 0.35:
                e, dt = fn("count", P([("child", r.choice([N(None), "node"]), [])])), "number"
            elif k < 0.55:
                e, dt = fn("count", P([("attribute", N(None), [])])), "number"
            elif k < 0.7:
                e, dt = fn("local-name"), "text"
            elif k < 0.85:
                e, dt = fn("count", P([("preceding-sibling", N(None), [])])), "number"
            else:
                e, dt = fn("count", P([("ancestor", N(None), [])])), "number"
            out.append((e, dt, r.choice(["ascending", "descending"])))
        return out

    def constructors(self, cx, env, d, in_elem):
        """attribute-producing prefix of an element body"""
        r = self.r
        out = []
        if in_elem:
            for _ in range(r.choice([0, 0, 1, 1, 2, 3])):
                out.append(("attribute", [r.choice(["k", "k", "m", "x", "p:w"])] if r.random() < 0.8 else ["n", ("x", fn("count", P([("child", N(None), [])])))],
                            self.text_body(env, d)))
                self.budget -= 1
        return out

    def text_body(self, env, d):
        """instructions producing only text"""
        r = self.r
        out = []
        for _ in range(r.choice([0, 1, 1, 2])):
            k = r.random()
            if k < 0.4:
                out.append(("lit", r.choice(["t", "a b", "1", "é", "x-y"])))
            elif k < 0.8:
                out.append(("value-of", self.g_any(env, 2, ("str", "num", "nodes", "bool"))))
            elif k < 0.9:
                out.append(("text", r.choice([" ", "", "tx"])))
            else:
                out.append(("if", self.g_typed("bool", env, 1), [("lit", "y")]))
            self.budget -= 1
        return out

    def body(self, cx, env, d, in_elem=False, in_rtf=False):
        """cx: dict(mode_rank, down(bool), named(bool: inside a named template), self_name, counter)"""
        r = self.r
        out = self.constructors(cx, env, d, in_elem)
        n = r.choice([1, 1, 2, 2, 3, 4]) if d > 0 else r.choice([0, 1, 1, 2])
        for _ in range(n):
            if self.budget <= 0:
                break
            out.append(self.instr(cx, env, d))
        if in_elem and r.random() < 0.08:
            # an attribute after child content: XSLT 1.0 7.1.3 lets the processor ignore it
            out.append(("attribute", [r.choice(["late", "k"])], [("lit", "L")]))
        elif r.random() < 0.06:
            # boundary stream: attribute NODES copied where no start tag is open (after a child / outside any
            # element), followed by an element that must not receive them
            allattrs = P([("root", "root", []), ("descendant-or-self", "node", []), ("attribute", N(r.choice([None, "x", "id", "n", "y"])), [])])
            if r.random() < 0.5:
                late = ("copy-of", allattrs)
            else:
                late = ("for-each", allattrs, [], [("copy", [])])
            out += [("lit", "c"), late, ("lre", r.choice(["e", "f"]), [], [])]
        return [i for i in out if i is not None]

    def instr(self, cx, env, d):
        r = self.r
        self.budget -= 1
        k = r.random()
        if d <= 0:
            k = k * 0.3
        if k < 0.1:
            return ("lit", r.choice(["t", "uv", "1", " w ", "é"]))
        if k < 0.2:
            vs = [n for n, t in env.items() if not n.startswith("#") and t in ("str", "num", "bool", "anyparam", "rtf")]
            if vs and r.random() < 0.3:
                return ("value-of", fn("string", ("var", r.choice(vs))))     # a plain reference to a visible binding
            return ("value-of", self.g_any(env, 2))
        if k < 0.24:
            return ("text", r.choice([" ", "tx", "\n"]))
        if k < 0.27:
            return ("copy-of", self.g_any(env, 2, ("nodes", "nodes", "str", "num", "bool")))
        if k < 0.3:
            if self.vars_of(env, "rtf") or self.vars_of(env, "anyparam"):
                return ("copy-of", ("var", r.choice(self.vars_of(env, "rtf") + self.vars_of(env, "anyparam"))))
            return ("number", ("plus", fn("count", self.g_nodes(env, 1)), num(1)), r.choice(["1", "a", "A", "i", "I", "01"]))
        if k < 0.42:
            name = r.choice(["e", "f", "g", "p:h", "out", "e"])
            attrs = []
            used = set()
            for _ in range(r.choice([0, 0, 1, 2])):
                an = r.choice(["k", "m", "x", "p:w"])
                if an not in used:
                    used.add(an)
                    attrs.append((an, self.avt(env, 1)))
            if self.asets and r.random() < 0.3:
                return ("lre", name, attrs, self.body(cx, dict(env), d - 1, in_elem=True), r.sample(self.asets, r.choice([1, 1, 2][:len(self.asets) + 1] or [1])))
            return ("lre", name, attrs, self.body(cx, dict(env), d - 1, in_elem=True))
        if k < 0.47:
            nm = [r.choice(["e", "h", "p:h"])] if r.random() < 0.6 else ["n", ("x", fn("count", P([("child", "node", [])])))]
            if self.asets and r.random() < 0.3:
                return ("element", nm, self.body(cx, dict(env), d - 1, in_elem=True), [r.choice(self.asets)])
            return ("element", nm, self.body(cx, dict(env), d - 1, in_elem=True))
        if k < 0.5:
            return ("comment", self.text_body(env, d))
        if k < 0.52:
            return ("pi", [r.choice(["pt", "go"])], self.text_body(env, d))
        if k < 0.58:
            return ("copy", self.body(cx, dict(env), d - 1, in_elem=True))
        if k < 0.66:
            name = self.local_name(env)
            # (the library also rejects the same name inside the variable's own body, where XSLT 1.0 does
            # not make the outer binding visible; the generator stays clear of that)
            env2 = dict(env)
            env2["#L"] = env.get("#L", frozenset()) | {name}
            vd, ty = self.vdef(cx, env2, d)
            # shadowing of an outer name is legal when the outer binding is not in the same template
            # body scope; re-use of a name declared by an enclosing for-each/template level is an error
            env[name] = ty
            env["#L"] = env.get("#L", frozenset()) | {name}
            return ("variable", name, vd)
        if k < 0.74:
            return ("if", self.g_typed("bool", env, 2), self.body(cx, dict(env), d - 1))
        if k < 0.79:
            whens = [(self.g_typed("bool", env, 2), self.body(cx, dict(env), d - 1)) for _ in range(r.choice([1, 2, 2]))]
            return ("choose", whens, self.body(cx, dict(env), d - 1) if r.random() < 0.7 else None)
        if k < 0.88:
            down = r.random() < 0.6
            sel = xpgen.fix_bare_root(self.g_nodes(env, 2, down=down, rich=True))
            cx2 = dict(cx)
            cx2["down"] = cx["down"] and down
            env3 = dict(env)
            env3.pop("#nopos", None)
            return ("for-each", sel, self.sorts(env3), self.body(cx2, env3, d - 1))
        if k < 0.94 and not cx["named"] and not cx.get("noapply"):
            return self.apply(cx, env, d)
        if self.named and not cx.get("noapply"):
            return self.call(cx, env, d)
        return ("value-of", self.g_any(env, 2))

    def with_params(self, cx, env, d, names):
        r = self.r
        out = []
        for nme in names:
            if r.random() < 0.7:
                vd, _ = self.vdef(dict(cx, noapply=True), env, d - 1, ty=r.choice(["num", "str", "nodes", "rtf"]))
                out.append((nme, vd))
        if r.random() < 0.15:
            out.append(("unused", ("select", lit("u"))))
        if "K-C01-1" in OPEN_CLASSES and r.random() < 0.5:
            # a with-param named like a top-level variable; the invoked template may or may not declare it
            # (11.6: when it does not, the parameter is ignored and $name is the top-level binding)
            out.append((r.choice(["g1", "g2", "g3"]), ("select", lit("wp" + str(r.randrange(9))))))
        return out

    def apply(self, cx, env, d):
        r = self.r
        rank = cx["rank"]
        stay = cx["down"] and (r.random() < 0.6 or rank == len(MODES) - 1)
        if stay:
            sel = None if r.random() < 0.3 else xpgen.fix_bare_root(self.g_nodes(env, 2, down=True, rich=True))
            mode = MODES[rank] if r.random() < 0.8 or rank == len(MODES) - 1 else MODES[r.randrange(rank + 1, len(MODES))]
        else:
            if rank == len(MODES) - 1:
                return ("value-of", self.g_any(env, 2))
            sel = xpgen.fix_bare_root(self.g_nodes(env, 2, rich=True))
            mode = MODES[r.randrange(rank + 1, len(MODES))]
        return ("apply", sel, mode, self.sorts(env), self.with_params(cx, env, d, r.sample(["pa", "pb"], r.choice([0, 0, 1, 2]))))

    def call(self, cx, env, d):
        r = self.r
        cands = [t for t in self.named if not cx["named"] or t[3] < cx["index"]]
        if not cands:
            return ("lit", "nc")
        name, params, rec, idx = r.choice(cands)
        wps = []
        for p in params:
            if p == "cnt":
                wps.append(("cnt", ("select", num(r.choice([0, 1, 2, 3])))))
            elif r.random() < 0.7:
                vd, _ = self.vdef(dict(cx, noapply=True), env, d - 1, ty=r.choice(["num", "str", "rtf"]))
                wps.append((p, vd))
        if r.random() < 0.3:
            # parameters the called template does not declare (ignored, 11.6)
            extra = [n for n in ["pa", "pb", "pc"] + (["g1", "g2", "g3"] if "K-C01-1" in OPEN_CLASSES else []) if n not in params]
            if extra:
                wps.append((r.choice(extra), ("select", lit("xp" + str(r.randrange(9))))))
        r.shuffle(wps)
        return ("call", name, wps)

    # ------------------------------------------------------------------ top level
    def pattern(self):
        r = self.r
        k = r.random()
        if k < 0.35:
            return [P([("child", N(r.choice(ELS)), [])])]
        if k < 0.45:
            return [P([("child", N(None), [])])]
        if k < 0.52:
            return [P([("child", N(r.choice(["a", "b", None]), "urn:p"), [])])]
        if k < 0.6:
            return [P([("child", "text", [])])]
        if k < 0.66:
            return [P([("attribute", r.choice([N("x"), N(None), N("id")]), [])])]
        if k < 0.7:
            return [P([("child", r.choice(["comment", ("pi", None), "node"]), [])])]
        if k < 0.8:
            return [P([("child", N(r.choice(ELS)), []), ("child", r.choice([N(r.choice(ELS)), N(None), "text"]), [])])]
        if k < 0.9:
            pe = r.choice([P([("attribute", N(r.choice(ATS)), [])]), P([("child", N(r.choice(ELS)), [])]),
                           ("eq", P([("attribute", N("x"), [])]), lit("1"))])
            return [P([("child", r.choice([N(r.choice(ELS)), N(None)]), [(False, pe)])])]
        if k < 0.95:
            return [P([("child", N(r.choice(ELS)), [])]), P([("child", N(r.choice(ELS)), [])])]
        return [P([("root", "root", []), ("child", N(None), [])])]

    def template_params(self, cx, env, d, names):
        ps = []
        for nme in names:
            if nme == "cnt":
                ps.append((nme, ("select", num(1))))
                env[nme] = "num"
                env["#L"] = env.get("#L", frozenset()) | {nme}
            else:
                # declared type is unknown to the callers: params are only used in string contexts
                vd, ty = self.vdef(dict(cx, noapply=True), env, 1, ty=self.r.choice(["str", "num", "rtf"]))
                ps.append((nme, vd))
                env[nme] = "anyparam"
                env["#L"] = env.get("#L", frozenset()) | {nme}
        return ps

    def module(self, main, genv0):
        r = self.r
        tops = []
        genv = genv0
        for _ in range(r.choice([0, 1, 1, 2, 3]) if main else r.choice([0, 1, 2])):
            name = r.choice(["g1", "g2", "g3"])
            if any(t[0] in ("variable", "param") and t[1] == name for t in tops):
                continue
            cxg = {"rank": len(MODES) - 1, "down": False, "named": True, "index": 0, "noapply": True}
            genv = dict(genv0, **{"#nopos": True}) if r.random() < 0.9 and "K-C01-2b" not in OPEN_CLASSES else dict(genv0)
            vd, ty = self.vdef(cxg, dict(genv), 2)
            if name in genv0 and genv0[name] != ty:
                # the same global defined with different types in different modules: keep one type so
                # that every reference is well typed whatever the import precedence
                vd, ty = self.vdef(cxg, dict(genv), 2, ty=genv0[name])
                if ty != genv0[name]:
                    continue
            genv0[name] = ty
            tops.append((r.choice(["variable", "variable", "param"]), name, vd))
        return tops

    def templates(self, genv, main):
        r = self.r
        tops = []
        if main or r.random() < 0.3:
            if r.random() < 0.85:
                self.budget = max(self.budget, 8)
                cx = {"rank": 0, "down": True, "named": False}
                env = dict(genv)
                if r.random() < 0.9 and "K-C01-2a" not in OPEN_CLASSES:
                    env["#nopos"] = True     # class of the known finding K-C01-2 (position()/last() for the initial node)
                tops.append(("template", {"match": [P([("root", "root", [])])],
                                          "body": [("lre", "out", [], self.body(cx, env, 3, in_elem=True))]}))
        for _ in range(r.choice([1, 2, 3, 4, 5]) if main else r.choice([1, 2, 3])):
            self.budget = max(self.budget, 5)
            rank = r.choice([0, 0, 0, 1, 1, 2])
            cx = {"rank": rank, "down": True, "named": False}
            env = dict(genv)
            names = r.sample(["pa", "pb"], r.choice([0, 0, 1, 2]))
            if "K-C01-1" in OPEN_CLASSES and r.random() < 0.3:
                names.append(r.choice(["g1", "g2", "g3"]))     # a param may shadow a top-level variable
            params = self.template_params(cx, env, 2, names)
            d = {"match": self.pattern(), "mode": MODES[rank], "params": params, "body": self.body(cx, env, r.choice([1, 2, 2, 3]))}
            if r.random() < 0.3:
                d["priority"] = r.choice(["1", "0", "-1", "0.5", "2", "0.25"])
            tops.append(("template", d))
        return tops

    def named_templates(self, genv):
        r = self.r
        tops = []
        for i in range(r.choice([0, 1, 1, 2, 3])):
            name = "t%d" % i
            rec = r.random() < 0.5
            pnames = (["cnt"] if rec else []) + r.sample(["pa", "pb", "pc"], r.choice([0, 1, 2]))
            r.shuffle(pnames)
            self.budget = max(self.budget, 6)
            cx = {"rank": len(MODES) - 1, "down": False, "named": True, "index": i}
            env = dict(genv)
            params = self.template_params(cx, env, 2, pnames)
            body = self.body(cx, env, 2)
            if rec:
                wps = [("cnt", ("select", ("minus", ("var", "cnt"), num(1))))]
                for p in pnames:
                    if p != "cnt" and r.random() < 0.6:
                        wps.append((p, ("select", fn("concat", ("var", p), lit("+")))))
                r.shuffle(wps)
                inner = [("lre", "rec", [("c", [("x", ("var", "cnt"))])], self.text_body(env, 1)), ("call", name, wps)]
                if r.random() < 0.5:
                    inner.reverse()
                body.append(("if", ("gt", ("var", "cnt"), num(0)), inner))
            tops.append(("template", {"name": name, "params": params, "body": body}))
            self.named.append((name, pnames, rec, i))
        return tops

    def attribute_sets(self, genv, prefix, n):
        """top-level xsl:attribute-set elements; only top-level bindings are visible in them (7.1.4)"""
        r = self.r
        tops = []
        genv = dict(genv, **{"#nopos": True})
        for i in range(n):
            name = "%s%d" % (prefix, i)
            uses = r.sample(self.asets, r.choice([0, 0, 1])) if self.asets else []
            attrs = []
            for _ in range(r.choice([1, 1, 2, 3])):
                attrs.append(([r.choice(["k", "m", "x", "s", "p:w"])], self.text_body(genv, 1)))
            gnames = [n for n, t in genv.items() if not n.startswith("#") and t in ("str", "num", "bool", "rtf")]
            if gnames:
                # only top-level bindings are visible here, whatever locals shadow them where the set is used
                attrs.append((["gv"], [("value-of", fn("string", ("var", r.choice(gnames))))]))
            tops.append(("attribute-set", name, uses, attrs))
            self.asets.append(name)
        return tops

    def sheet(self):
        r = self.r
        genv = {}
        if r.random() < 0.4:
            kn = "k1"
            alts = [P([("child", r.choice([N(r.choice(ELS)), N(None)]), [])])]
            use = r.choice([P([("attribute", N(r.choice(ATS)), [])]), fn("local-name"), P([("attribute", N(None), [])])])
            self.keys.append((kn, ["1", "2", "a", "b", "10", "x"]))
            keytop = [("key", kn, alts, use)]
        else:
            keytop = []
        imports = []
        if r.random() < 0.35:
            for _ in range(r.choice([1, 1, 2])):
                sub = {"imports": [], "tops": []}
                if r.random() < 0.25:
                    sub["imports"].append({"imports": [], "tops": self.module(False, genv) + self.templates(genv, False)})
                sub["tops"] = self.module(False, genv) + self.templates(genv, False)
                imports.append(sub)
        gl = self.module(True, genv)
        sets = []
        if r.random() < 0.3:
            sets = self.attribute_sets(genv, "s", r.choice([1, 2, 3]))
            if r.random() < 0.3:
                # a second definition of an existing set: merged with the first (the later one wins a clash)
                nm = r.choice(self.asets)
                sets.append(("attribute-set", nm, [], [([r.choice(["k", "m", "z"])], self.text_body(dict(genv, **{"#nopos": True}), 1))]))
        named = self.named_templates(genv)
        main = {"imports": imports, "tops": keytop + gl + sets + named}
        tl = self.templates(genv, True)
        if r.random() < 0.2 and len(tl) > 1:
            cut = r.randrange(1, len(tl))
            main["tops"] += tl[:cut] + [("include", {"imports": [], "tops": tl[cut:]})]
        else:
            main["tops"] += tl
        return main


def gen_case(r, size=None):
    size = size or r.choice(["small", "small", "medium"])
    doc = xpgen.gen_doc(r, size)
    g = Gen(r, size)
    return g.sheet(), doc


# ---------------------------------------------------------------------------------------------------
# printing

def esc_attr(s):
    return (s.replace("&", "&amp;").replace("<", "&lt;").replace('"', "&quot;").replace("\n", "&#10;")
            .replace("\t", "&#9;").replace("\r", "&#13;"))


def esc_text(s):
    return s.replace("&", "&amp;").replace("<", "&lt;").replace(">", "&gt;").replace("\r", "&#13;")


def px(e):
    return esc_attr(xpgen.p_expr(e))


def p_avt(parts):
    out = []
    for p in parts:
        if isinstance(p, str):
            out.append(esc_attr(p.replace("{", "{{").replace("}", "}}")))
        else:
            out.append("{" + px(p[1]) + "}")
    return "".join(out)


def p_pattern(alts):
    return esc_attr(" | ".join(xpgen.p_expr(a) for a in alts))


def p_vdef(tag, name, vdef):
    if vdef[0] == "select":
        return '<xsl:%s name="%s" select="%s"/>' % (tag, name, px(vdef[1]))
    if vdef[0] == "empty" or not vdef[1]:
        return '<xsl:%s name="%s"/>' % (tag, name)
    return '<xsl:%s name="%s">%s</xsl:%s>' % (tag, name, p_body(vdef[1]), tag)


def p_sorts(sorts):
    return "".join('<xsl:sort select="%s" data-type="%s" order="%s"/>' % (px(e), dt, o) for e, dt, o in sorts)


def p_body(body):
    return "".join(p_instr(i) for i in body)


def p_instr(i):
    k = i[0]
    if k == "lre":
        uses = ' xsl:use-attribute-sets="%s"' % " ".join(i[4]) if len(i) > 4 and i[4] else ""
        return "<%s%s%s>%s</%s>" % (i[1], uses, "".join(' %s="%s"' % (a, p_avt(v)) for a, v in i[2]), p_body(i[3]), i[1])
    if k == "element":
        uses = ' use-attribute-sets="%s"' % " ".join(i[3]) if len(i) > 3 and i[3] else ""
        return '<xsl:element name="%s"%s>%s</xsl:element>' % (p_avt(i[1]), uses, p_body(i[2]))
    if k == "attribute":
        return '<xsl:attribute name="%s">%s</xsl:attribute>' % (p_avt(i[1]), p_body(i[2]))
    if k == "text":
        return "<xsl:text>%s</xsl:text>" % esc_text(i[1])
    if k == "lit":
        # a literal text node; whitespace-only text in a stylesheet is stripped, so such text goes in xsl:text
        if i[1].strip(" \t\r\n") == "":
            return "<xsl:text>%s</xsl:text>" % esc_text(i[1])
        return esc_text(i[1])
    if k == "value-of":
        return '<xsl:value-of select="%s"/>' % px(i[1])
    if k == "comment":
        return "<xsl:comment>%s</xsl:comment>" % p_body(i[1])
    if k == "pi":
        return '<xsl:processing-instruction name="%s">%s</xsl:processing-instruction>' % (p_avt(i[1]), p_body(i[2]))
    if k == "copy":
        return "<xsl:copy>%s</xsl:copy>" % p_body(i[1])
    if k == "copy-of":
        return '<xsl:copy-of select="%s"/>' % px(i[1])
    if k == "apply":
        return "<xsl:apply-templates%s%s>%s%s</xsl:apply-templates>" % (
            ' select="%s"' % px(i[1]) if i[1] is not None else "", ' mode="%s"' % i[2] if i[2] else "",
            p_sorts(i[3]), "".join(p_vdef("with-param", n, v) for n, v in i[4]))
    if k == "call":
        return '<xsl:call-template name="%s">%s</xsl:call-template>' % (i[1], "".join(p_vdef("with-param", n, v) for n, v in i[2]))
    if k == "for-each":
        return '<xsl:for-each select="%s">%s%s</xsl:for-each>' % (px(i[1]), p_sorts(i[2]), p_body(i[3]))
    if k == "if":
        return '<xsl:if test="%s">%s</xsl:if>' % (px(i[1]), p_body(i[2]))
    if k == "choose":
        return "<xsl:choose>%s%s</xsl:choose>" % (
            "".join('<xsl:when test="%s">%s</xsl:when>' % (px(t), p_body(b)) for t, b in i[1]),
            "<xsl:otherwise>%s</xsl:otherwise>" % p_body(i[2]) if i[2] is not None else "")
    if k == "variable":
        return p_vdef("variable", i[1], i[2])
    if k == "number":
        return '<xsl:number value="%s" format="%s"/>' % (px(i[1]), i[2])
    raise ValueError(k)


def p_top(t, files, counter):
    if t[0] == "template":
        d = t[1]
        at = ""
        if d.get("match") is not None:
            at += ' match="%s"' % p_pattern(d["match"])
        if d.get("name") is not None:
            at += ' name="%s"' % d["name"]
        if d.get("mode"):
            at += ' mode="%s"' % d["mode"]
        if d.get("priority") is not None:
            at += ' priority="%s"' % d["priority"]
        return "<xsl:template%s>%s%s</xsl:template>" % (at, "".join(p_vdef("param", n, v) for n, v in d.get("params", [])), p_body(d.get("body", [])))
    if t[0] in ("variable", "param"):
        return p_vdef(t[0], t[1], t[2])
    if t[0] == "key":
        return '<xsl:key name="%s" match="%s" use="%s"/>' % (t[1], p_pattern(t[2]), px(t[3]))
    if t[0] == "attribute-set":
        return '<xsl:attribute-set name="%s"%s>%s</xsl:attribute-set>' % (
            t[1], ' use-attribute-sets="%s"' % " ".join(t[2]) if t[2] else "",
            "".join('<xsl:attribute name="%s">%s</xsl:attribute>' % (p_avt(a), p_body(b)) for a, b in t[3]))
    if t[0] == "include":
        counter[0] += 1
        name = "inc%d.xsl" % counter[0]
        files[name] = p_module(t[1], files, counter)
        return '<xsl:include href="%s"/>' % name
    raise ValueError(t[0])


def p_module(sheet, files, counter):
    out = ['<xsl:stylesheet version="1.0" xmlns:xsl="http://www.w3.org/1999/XSL/Transform" xmlns:p="urn:p" xmlns:q="urn:q" exclude-result-prefixes="p q">']
    for imp in sheet.get("imports", []):
        counter[0] += 1
        name = "imp%d.xsl" % counter[0]
        files[name] = p_module(imp, files, counter)
        out.append('<xsl:import href="%s"/>' % name)
    out.append('<xsl:output method="xml" indent="no"/>')
    for t in sheet["tops"]:
        out.append(p_top(t, files, counter))
    out.append("</xsl:stylesheet>")
    return "\n".join(out)


def print_sheet(sheet):
    files = {}
    main = p_module(sheet, files, [0])
    return main, files


def doc_xml(top):
    out = []

    def go(t):
        if t[0] == "e":
            out.append("<" + t[1] + "".join(' %s="%s"' % (a, esc_attr(v)) for a, v in t[2]))
            if t[3]:
                out.append(">")
                for c in t[3]:
                    go(c)
                out.append("</%s>" % t[1])
            else:
                out.append("/>")
        elif t[0] == "t":
            out.append(esc_text(t[1]))
        elif t[0] == "c":
            out.append("<!--%s-->" % t[1])
        else:
            out.append("<?%s%s?>" % (t[1], (" " + t[2]) if t[2] else ""))
    for t in top:
        go(t)
    return "".join(out)


# ---------------------------------------------------------------------------------------------------
# shrinking: delete instructions / templates / document nodes while `fails(sheet, doc)` holds

def _bodies(ins):
    """indices of sub-bodies inside an instruction tuple: list of (path setter)"""
    k = ins[0]
    if k in ("lre",):
        return [3]
    if k in ("element", "attribute", "pi"):
        return [2]
    if k in ("comment", "copy"):
        return [1]
    if k in ("for-each",):
        return [3]
    if k == "if":
        return [2]
    return []


def shrink_body(body, attempt):
    """attempt(new_body) -> bool (still failing). Returns a shrunk body."""
    i = 0
    while i < len(body):
        cand = body[:i] + body[i + 1:]
        if attempt(cand):
            body = cand
            continue
        ins = body[i]
        # hoist the children of a container in place of it
        for bi in _bodies(ins):
            cand = body[:i] + list(ins[bi]) + body[i + 1:]
            if attempt(cand):
                body = cand
                break
        else:
            for bi in _bodies(ins):
                def sub(nb, bi=bi, i=i, ins=ins):
                    ni = list(ins)
                    ni[bi] = nb
                    return attempt(body[:i] + [tuple(ni)] + body[i + 1:])
                nb = shrink_body(list(ins[bi]), sub)
                ni = list(ins)
                ni[bi] = nb
                body = body[:i] + [tuple(ni)] + body[i + 1:]
                ins = body[i]
            if ins[0] == "choose":
                for wi in range(len(ins[1])):
                    def subw(nb, wi=wi, i=i):
                        cur = body[i]
                        whens = list(cur[1])
                        whens[wi] = (whens[wi][0], nb)
                        return attempt(body[:i] + [("choose", whens, cur[2])] + body[i + 1:])
                    nb = shrink_body(list(body[i][1][wi][1]), subw)
                    whens = list(body[i][1])
                    whens[wi] = (whens[wi][0], nb)
                    body = body[:i] + [("choose", whens, body[i][2])] + body[i + 1:]
            i += 1
            continue
    return body


def _mod_paths(sheet, path=()):
    out = [path]
    for i, imp in enumerate(sheet.get("imports", [])):
        out += _mod_paths(imp, path + (("imp", i),))
    for j, t in enumerate(sheet["tops"]):
        if t[0] == "include":
            out += _mod_paths(t[1], path + (("inc", j),))
    return out


def _get_mod(sheet, path):
    for k, i in path:
        sheet = sheet["imports"][i] if k == "imp" else sheet["tops"][i][1]
    return sheet


def _set_mod(sheet, path, new):
    if not path:
        return new
    (k, i), rest = path[0], path[1:]
    if k == "imp":
        imps = list(sheet["imports"])
        imps[i] = _set_mod(imps[i], rest, new)
        return dict(sheet, imports=imps)
    tops = list(sheet["tops"])
    tops[i] = ("include", _set_mod(tops[i][1], rest, new))
    return dict(sheet, tops=tops)


def shrink(sheet, doc, fails, max_steps=400):
    import copy
    steps = [0]

    def ok(s, d):
        steps[0] += 1
        if steps[0] > max_steps:
            return False
        try:
            return fails(s, d)
        except Exception:
            return False
    sheet = copy.deepcopy(sheet)
    # 1. imports / includes / top-level items of every module (outermost first)
    changed = True
    while changed and steps[0] < max_steps:
        changed = False
        for path in _mod_paths(sheet):
            try:
                mod = _get_mod(sheet, path)
            except (IndexError, KeyError, TypeError):
                continue
            for i in range(len(mod.get("imports", [])) - 1, -1, -1):
                mod = _get_mod(sheet, path)
                cand = _set_mod(sheet, path, dict(mod, imports=mod["imports"][:i] + mod["imports"][i + 1:]))
                if ok(cand, doc):
                    sheet, changed = cand, True
            for i in range(len(_get_mod(sheet, path)["tops"]) - 1, -1, -1):
                mod = _get_mod(sheet, path)
                cand = _set_mod(sheet, path, dict(mod, tops=mod["tops"][:i] + mod["tops"][i + 1:]))
                if ok(cand, doc):
                    sheet, changed = cand, True
            if changed:
                break
    # 2. template bodies and params of every module
    for path in _mod_paths(sheet):
        for ti in range(len(_get_mod(sheet, path)["tops"])):
            t = _get_mod(sheet, path)["tops"][ti]
            if t[0] != "template":
                continue

            def put(d2, ti=ti, path=path):
                mod = _get_mod(sheet, path)
                return _set_mod(sheet, path, dict(mod, tops=mod["tops"][:ti] + [("template", d2)] + mod["tops"][ti + 1:]))

            def attempt(nb, ti=ti, path=path):
                cur = _get_mod(sheet, path)["tops"][ti]
                return ok(put(dict(cur[1], body=nb)), doc)
            nb = shrink_body(list(t[1].get("body", [])), attempt)
            sheet = put(dict(_get_mod(sheet, path)["tops"][ti][1], body=nb))
            cur = _get_mod(sheet, path)["tops"][ti][1]
            for pi in range(len(cur.get("params", [])) - 1, -1, -1):
                cur = _get_mod(sheet, path)["tops"][ti][1]
                cand = put(dict(cur, params=cur["params"][:pi] + cur["params"][pi + 1:]))
                if ok(cand, doc):
                    sheet = cand
    # 3. document nodes

    def shrink_children(ch, rebuild):
        i = 0
        while i < len(ch):
            cand = ch[:i] + ch[i + 1:]
            if ok(sheet, rebuild(cand)):
                ch = cand
                continue
            c = ch[i]
            if c[0] == "e":
                def rb2(nch, i=i, c=c):
                    return rebuild(ch[:i] + [("e", c[1], c[2], nch)] + ch[i + 1:])
                nch = shrink_children(list(c[3]), rb2)
                c = ("e", c[1], c[2], nch)
                ch = ch[:i] + [c] + ch[i + 1:]
                for ai in range(len(c[2]) - 1, -1, -1):
                    if c[2][ai][0].startswith("xmlns"):
                        continue
                    c2 = ("e", c[1], c[2][:ai] + c[2][ai + 1:], c[3])
                    if ok(sheet, rebuild(ch[:i] + [c2] + ch[i + 1:])):
                        c = c2
                        ch = ch[:i] + [c] + ch[i + 1:]
            i += 1
        return ch
    els = [i for i, t in enumerate(doc) if t[0] == "e"]
    if els:
        ei = els[0]
        root = doc[ei]

        def rb(nch):
            return doc[:ei] + [("e", root[1], root[2], nch)] + doc[ei + 1:]
        nch = shrink_children(list(root[3]), rb)
        doc = rb(nch)
    return sheet, doc


# ---------------------------------------------------------------------------------------------------
# marker programs for the variables-stack correspondence: every binding has a distinct printable value,
# every observation is <u n="x"><xsl:value-of select="$x"/></u> at the top level of the main output

class VarsGen:
    def __init__(self, r):
        self.r = r
        self.site = 0
        self.named = []      # (name, params)
        self.globals = []
        self.budget = 30

    def lit(self):
        self.site += 1
        return "b%d" % self.site

    def value(self, vis):
        """select expression: a literal, or concat(literal, '<', $x, '>' ...) over visible variables"""
        r = self.r
        l = self.lit()
        names = sorted(vis)
        if not names or r.random() < 0.5:
            return ("select", ("lit", l))
        args = [("lit", l)]
        for _ in range(r.choice([1, 1, 2])):
            args += [("lit", "<"), ("var", r.choice(names)), ("lit", ">")]
        return ("select", ("fn", "concat", args))

    def marker(self, vis):
        x = self.r.choice(sorted(vis))
        return ("lre", "u", [("n", [x])], [("value-of", ("var", x))])

    def body(self, vis, loc, d, named_idx, in_rtf=False):
        """vis: visible names (locals, params, globals); loc: names bound locally in this template"""
        r = self.r
        vis, loc = set(vis), set(loc)
        out = []
        for _ in range(r.choice([1, 2, 2, 3, 4]) if d > 0 else r.choice([1, 2])):
            if self.budget <= 0:
                break
            self.budget -= 1
            k = r.random()
            if k < 0.3 and vis and not in_rtf:
                out.append(self.marker(vis))
            elif k < 0.5:
                pool = [n for n in ["v1", "v2", "g1", "g2", "pa"] if n not in loc and "r" + n not in loc]
                if not pool:
                    continue
                name = r.choice(pool)
                if d > 0 and r.random() < 0.2:
                    vd = ("body", self.body(vis, loc | {name}, d - 1, named_idx, in_rtf=True) or [("lit", "z")])
                    out.append(("variable", "r" + name, vd))
                    loc.add("r" + name)
                    continue
                out.append(("variable", name, self.value(vis)))
                vis.add(name)
                loc.add(name)
            elif k < 0.58 and d > 0:
                out.append(("lre", "e", [], self.body(vis, loc, d - 1, named_idx, in_rtf)))
            elif k < 0.66 and d > 0:
                out.append(("if", ("fn", r.choice(["true", "true", "false"]), []), self.body(vis, loc, d - 1, named_idx, in_rtf)))
            elif k < 0.78 and d > 0:
                sel = r.choice([P([("child", N(None), [])]), ("union", [P([("child", N("a"), [])]), P([("child", N("b"), [])])]),
                                P([("child", N("c"), [])])])
                out.append(("for-each", sel, [], self.body(vis, loc, d - 1, named_idx, in_rtf)))
            elif k < 0.9 and not in_rtf:
                wps = [(n, self.value(vis)) for n in r.sample(["pa", "pb", "pc"], r.choice([0, 1, 1, 2, 3]))]
                if "K-C01-1" in OPEN_CLASSES and r.random() < 0.4:
                    wps.append((r.choice(["g1", "g2"]), self.value(vis)))
                r.shuffle(wps)
                out.append(("apply", P([("child", N(None), [])]) if r.random() < 0.8 else None, r.choice([None, None, "m1"]), [], wps))
            elif not in_rtf:
                cands = [t for i, t in enumerate(self.named) if i < named_idx]
                if not cands:
                    continue
                name, params = r.choice(cands)
                wps = [(n, self.value(vis)) for n in r.sample(["pa", "pb", "pc"], r.choice([0, 1, 2, 3]))]
                if "K-C01-1" in OPEN_CLASSES and r.random() < 0.4:
                    wps.append((r.choice(["g1", "g2"]), self.value(vis)))
                r.shuffle(wps)
                out.append(("call", name, wps))
        return out

    def template(self, match, mode, name, named_idx):
        r = self.r
        pnames = r.sample(["pa", "pb", "pc"], r.choice([0, 0, 1, 2, 3]))
        if "K-C01-1" in OPEN_CLASSES and r.random() < 0.4:
            pnames.append(r.choice(["g1", "g2"]))
        params = [(n, ("select", ("lit", self.lit()))) for n in pnames]
        self.budget = max(self.budget, 6)
        vis = set(self.globals) | set(pnames)
        d = {"params": params, "body": self.body(vis, set(pnames), r.choice([1, 2, 2, 3]), named_idx)}
        if match is not None:
            d["match"] = match
        if mode:
            d["mode"] = mode
        if name:
            d["name"] = name
        return ("template", d), pnames

    def sheet(self):
        r = self.r
        imports = []
        gl_imp = []
        if r.random() < 0.3:
            self.globals = ["g1"]
            gl_imp = [("variable", "g1", ("select", ("lit", self.lit())))]
            t, _ = self.template([P([("child", N("c"), [])])], None, None, 0)
            imports.append({"imports": [], "tops": gl_imp + [t]})
        tops = []
        for g in r.sample(["g1", "g2"], r.choice([0, 1, 2, 2])):
            tops.append((r.choice(["variable", "variable", "param"]), g, ("select", ("lit", self.lit()))))
            if g not in self.globals:
                self.globals.append(g)
        for i in range(r.choice([0, 1, 2, 3])):
            t, pn = self.template(None, None, "t%d" % i, i)
            tops.append(t)
            self.named.append(("t%d" % i, pn))
        n_named = len(self.named)
        t, _ = self.template([P([("root", "root", [])])], None, None, n_named)
        t[1]["params"] = []          # the initial template gets no with-params; keep it simple
        t[1]["body"] = [("lre", "out", [], self.body(set(self.globals), set(), 3, n_named))]
        tops.append(t)
        for nm in r.sample(["a", "b", "c", "d"], r.choice([2, 3, 4])):
            for mode in ([None, "m1"] if r.random() < 0.3 else [None]):
                t, _ = self.template([P([("child", N(nm), [])])], mode, None, n_named)
                tops.append(t)
        return {"imports": imports, "tops": tops}


def gen_vars_doc(r):
    def el(d):
        ch = [el(d - 1) for _ in range(r.choice([0, 1, 2, 3]))] if d > 0 else []
        return ("e", r.choice(["a", "b", "c", "a", "b"]), [], ch)
    return [("e", "d", [], [el(2) for _ in range(r.choice([1, 2, 3]))])]


def gen_vars_case(r):
    g = VarsGen(r)
    return g.sheet(), gen_vars_doc(r)


def vs_tokens(it, sheet):
    """model input line (without id) from an instrumented reference run: globals in push order + the tree"""
    names = {}

    def nid(n):
        return names.setdefault(n, len(names) + 1)
    toks = []
    # Stylesheet::pushTopLevelVariables: imported stylesheets first (lowest precedence first), then own
    gl = []

    def collect(sh):
        for imp in sh.get("imports", []):
            collect(imp)
        for t in sh["tops"]:
            if t[0] in ("variable", "param"):
                gl.append(t)
            elif t[0] == "include":
                collect(t[1])
    collect(sheet)
    ginst = {}
    for t in gl:
        it.insts.append([t[2][1][1]] if t[2][0] == "select" and t[2][1][0] == "lit" else None)
        ginst[id(t)] = len(it.insts)
        toks.append("G,%d,%d" % (nid(t[1]), len(it.insts)))
    toks.append(";")

    def go(n):
        if n[0] == "U":
            toks.append("U,%d" % nid(n[1]))
        elif n[0] == "V":
            toks.append("V,%d,%d" % (nid(n[1]), n[2]))
        elif n[0] == "B":
            toks.append("(B,%d" % n[1])
            for c in n[2]:
                go(c)
            toks.append(")")
        elif n[0] == "I":
            toks.append("(I")
            for nm, inst in n[1]:
                toks.append("w,%d,%d" % (nid(nm), inst))
            for c in n[2]:
                go(c)
            toks.append(")")
        elif n[0] == "T":
            toks.append("(T,%d" % n[1])
            for nm, inst in n[2]:
                toks.append("p,%d,%d" % (nid(nm), inst))
            for c in n[3]:
                go(c)
            toks.append(")")
    root = [n for n in it.vroot if n[0] == "T"]
    go(root[0])
    return " ".join(toks), names


def vs_expected_markers(it, obs):
    """obs: list of binding ids (int) or None per use index, as answered by the model. Returns the marker
    sequence [(name, printed value)] the library should output."""
    memo = {}

    def val(inst, depth=0):
        if inst is None:
            return "?"
        if inst in memo:
            return memo[inst]
        parts = it.insts[inst - 1]
        if parts is None or depth > 50:
            return "#"
        s = "".join(p if isinstance(p, str) else val(obs[p[1]] if p[1] < len(obs) else None, depth + 1) for p in parts)
        memo[inst] = s
        return s
    out = []

    def go(n):
        if n[0] == "U":
            if n[3]:
                out.append((n[1], val(obs[n[2]] if n[2] < len(obs) else None)))
        elif n[0] in ("B", "I"):
            for c in n[2]:
                go(c)
        elif n[0] == "T":
            for c in n[3]:
                go(c)
    for n in it.vroot:
        go(n)
    return out


def markers_of_output(tree):
    out = []

    def go(l):
        for n in l:
            if n[0] == "e":
                if n[1] == ("", "u"):
                    nm = [v for u, l2, v in n[2] if l2 == "n"]
                    out.append((nm[0] if nm else "", "".join(c[1] for c in n[3] if c[0] == "t")))
                else:
                    go(n[3])
    go(tree)
    return out
