(* C01, whole-interpreter piece, part 3 ("core2", deliverable b): TOP-LEVEL xsl:variable / xsl:param, evaluated lazily at
   their first reference.

   LANGUAGE: a top-level binding is  xsl:variable / xsl:param name=N  with a select expression or empty ("": the empty
   string); a top-level param may be set from outside (external value: it overrides the definition).  NOT modelled: a
   top-level binding whose value is a result tree fragment (a body): ElemVariable::getValue then runs a nested execute
   loop over the body (ElemVariable.cpp:352-356).

   REFERENCE SEMANTICS (XSLT 1.0 11.4): gval - the value of top-level binding k is the value of its expression in the
   context of the root node (node list = just the root: position 1, size 1), with the top-level bindings it mentions
   resolved by name to the binding of highest import precedence (the last one pushed) and evaluated the same way;
   evaluated once, the same everywhere, whatever the order; a circular definition has no value (the least fixpoint,
   reached by fuel: None at every fuel = an error).  topo_eval evaluates a list of bindings in a given order, each after
   the ones it mentions: proved equal (XsltCore3Model.v).

   IMPLEMENTATION MODEL, read from: Stylesheet::pushTopLevelVariables (Stylesheet.cpp:1450-1519: the bindings are pushed
   in order, imports first; an xsl:param for which an external value exists is pushed WITH that value, everything else
   as a name + the ElemVariable with a null value), StylesheetRoot::process (the global frame: XsltVarsDefs.impl_start),
   VariablesStack::findXObject (VariablesStack.cpp:341-470: findEntry - local frame first, then the global frame -; a
   non-null value is returned; otherwise the ElemVariable is looked for in m_guardStack (=> "circular variable
   definition"), pushed on it, pushContextMarker (the locals of the place of reference become invisible), the root node
   as the context node list, copy-text-nodes-only off, ElemVariable::getValue (ElemVariable.cpp:338-395: empty string /
   the select expression with the root as current node), popContextMarker, m_guardStack.pop_back, the value stored in the
   stack entry).  The VariablesStack is the model of XsltVarsDefs.v (reused): a reference inside a top-level expression
   goes through get_variable on the stack WITH the marker pushed.
     - the machine forces the bindings an expression mentions BEFORE the (abstract) evaluation, left to right; the
       library forces them DURING the evaluation, i.e. possibly fewer (an operand that is never evaluated).  Evaluation
       is total in the model, so the difference shows only for a circular definition reachable through an unevaluated
       operand alone (the model reports it, the library does not).
   Definitions only (extracted by ExtractXsltCore3.v). *)
From Coq Require Import List NArith Bool Arith.
Require Import XV.XsltEventsDefs XV.XsltVarsDefs XV.XsltCoreDefs.
Import ListNotations.

Record gdef := mkG { g_name : N; g_par : bool; g_sel : option expr }.

(* (name, binding identity) in push order; the binding identity of a top-level binding is its index *)
Fixpoint number_from (k : N) (l : list gdef) : list (N * N) :=
  match l with
  | [] => []
  | g :: r => (g_name g, k) :: number_from (N.succ k) r
  end.

Inductive fres (A : Type) :=
| FOk (a : A)
| FCirc (k : N)          (* "A circular variable definition was detected" *)
| FUnbound (n : N)       (* the name is not bound in the global frame *)
| FFuel.
Arguments FOk {A} a.
Arguments FCirc {A} k.
Arguments FUnbound {A} n.
Arguments FFuel {A}.

Fixpoint set_nth {A : Type} (i : nat) (x : A) (l : list A) : list A :=
  match l, i with
  | [], _ => []
  | _ :: r, O => x :: r
  | y :: r, S i' => y :: set_nth i' x r
  end.

(* the lazy side: the VariablesStack, the value held by each global entry (None = null XObjectPtr), m_guardStack *)
Record lstate := mkL { l_vs : vs; l_slots : list (option value); l_guard : list N }.

Section Globals.
  Variable ev_value : N -> list value -> N -> N -> N -> value.
  Variable root : N.
  Variable gdefs : list gdef.          (* in the order pushTopLevelVariables pushes them: lowest import precedence first *)
  Variable ext : list (N * value).     (* external params *)

  Definition gpairs : list (N * N) := number_from 0%N gdefs.
  (* resolution of a name at top level: highest precedence first *)
  Definition genv : list (N * N) := rev gpairs.

  Definition gdef_at (k : N) : option gdef := nth_error gdefs (N.to_nat k).

  Definition ext_value (g : gdef) : option value := if g_par g then lookup_v (g_name g) ext else None.

  (* ================= reference semantics ================= *)
  Fixpoint gval (f : nat) (k : N) : option value :=
    match f with
    | O => None
    | S f' =>
      match gdef_at k with
      | None => None
      | Some g =>
        match ext_value g with
        | Some v => Some v
        | None =>
          match g_sel g with
          | None => Some empty_string_value
          | Some e =>
              match map_opt (fun n => match lookup n genv with Some j => gval f' j | None => None end) (xvars e) with
              | Some vs => Some (ev_value (xid e) vs root 1%N 1%N)
              | None => None
              end
          end
        end
      end
    end.

  (* enough fuel for every acyclic program *)
  Definition gfuel : nat := S (length gdefs).
  Definition gvalue (k : N) : option value := gval gfuel k.
  Definition all_defined : bool :=
    forallb (fun p => match gvalue (snd p) with Some _ => true | None => false end) gpairs.

  (* evaluation in a given order (a topological one): env = the values so far *)
  Definition topo_step (env : list (N * value)) (k : N) : option (list (N * value)) :=
    match gdef_at k with
    | None => None
    | Some g =>
      match ext_value g with
      | Some v => Some ((k, v) :: env)
      | None =>
        match g_sel g with
        | None => Some ((k, empty_string_value) :: env)
        | Some e =>
            match map_opt (fun n => match lookup n genv with Some j => lookup_v j env | None => None end) (xvars e) with
            | Some vs => Some ((k, ev_value (xid e) vs root 1%N 1%N) :: env)
            | None => None
            end
        end
      end
    end.

  Fixpoint topo_eval (order : list N) (env : list (N * value)) : option (list (N * value)) :=
    match order with
    | [] => Some env
    | k :: r => match topo_step env k with Some env' => topo_eval r env' | None => None end
    end.

  (* ================= the lazy machine ================= *)
  (* after pushTopLevelVariables: an external value is in the entry, everything else is null *)
  Definition slots_init : list (option value) := map ext_value gdefs.
  Definition l_init : lstate := mkL (impl_start gpairs) slots_init [].

  Fixpoint memN (k : N) (l : list N) : bool := match l with [] => false | x :: r => N.eqb x k || memN k r end.

  Definition force_list (fc : N -> lstate -> fres (value * lstate)) : list N -> lstate -> fres (list value * lstate) :=
    fix go (l : list N) (s : lstate) : fres (list value * lstate) :=
    match l with
    | [] => FOk ([], s)
    | n :: r => match fc n s with
                | FOk (v, s1) => match go r s1 with
                                 | FOk (vs, s2) => FOk (v :: vs, s2)
                                 | FCirc k => FCirc k | FUnbound m => FUnbound m | FFuel => FFuel
                                 end
                | FCirc k => FCirc k | FUnbound m => FUnbound m | FFuel => FFuel
                end
    end.

  (* findXObject for a name the local frame does not bind *)
  Fixpoint force (f : nat) (n : N) (s : lstate) {struct f} : fres (value * lstate) :=
    match f with
    | O => FFuel
    | S f' =>
      match fst (get_variable n (l_vs s)) with
      | None => FUnbound n
      | Some k =>
        match nth_error (l_slots s) (N.to_nat k), gdef_at k with
        | Some (Some v), _ => FOk (v, s)
        | Some None, Some g =>
            if memN k (l_guard s) then FCirc k
            else
              let s1 := mkL (push ECtx (l_vs s)) (l_slots s) (k :: l_guard s) in
              match (match g_sel g with
                     | None => FOk (empty_string_value, s1)
                     | Some e => match force_list (force f') (xvars e) s1 with
                                 | FOk (vs, s2) => FOk (ev_value (xid e) vs root 1%N 1%N, s2)
                                 | FCirc j => FCirc j | FUnbound m => FUnbound m | FFuel => FFuel
                                 end
                     end) with
              | FOk (v, s2) => FOk (v, mkL (pop_ctx (l_vs s2)) (set_nth (N.to_nat k) (Some v) (l_slots s2)) (tl (l_guard s2)))
              | FCirc j => FCirc j | FUnbound m => FUnbound m | FFuel => FFuel
              end
        | _, _ => FUnbound n
        end
      end
    end.

  (* a run of references, in the order they occur *)
  Definition force_all (f : nat) : list N -> lstate -> fres (list value * lstate) := force_list (force f).
End Globals.
