"""C05 - the result does not depend on how source, stylesheet and output are supplied.

Legs:
  proof           coq/Properties_C05.v over coq/FormsDefs.v (text accumulation + index assignment of the native
                  tree builder, the wrapper walk over a Xerces DOM, the buffered callback stream), consuming
                  coq/GenForms.v regenerated from /repo by translator/gen_forms.py.
  correspondence  the extracted model (ocaml/forms_driver.ml) against the rebuilt library (harness/forms.cpp):
                  B  event streams (text re-chunked at random, empty chunks) fed to XalanDocumentBuilder's handlers
                     -> tree dump with getIndex() of every node        == build_sax
                  W  XML text -> Xerces DOM -> XercesParserLiaison::createDocument(dom,false,true,true) dump
                     == wrap (raw DOM as input);  the SAX2 events Xerces reports for the same text -> build_sax
                     == the native tree XalanTransformer::parseSource built
                  O  write sequences on a XalanTransformerOutputStream with setBufferSize(bs) -> callback chunks
                     == chunks bs
  oracle          (no Coq model involved)
                  B/W  the dump must be the generated tree itself, numbered in pre-order by a Python walk
                  W    wrapper indexes consecutive in document order; for XPath-normal DOMs same nodes as the native tree
                  O    concatenation of the callback chunks == the bytes written
                  T    one (stylesheet, source, params) through every form (7 source forms x 4 stylesheet forms to a
                       std::ostream; 8 more targets; handler overloads; 8 C-API entry points; the Xalan executable):
                       all byte results identical, all tree results identical to the parsed reference, all succeed
                       or all fail.
"""
import os, re, shutil, subprocess, tempfile
from vlib import core

LEVEL = "proof"
FAMILY = "forms"

XSLNS = "http://www.w3.org/1999/XSL/Transform"
DOM_FORMS = ("xercesps", "wrapps", "wraprawps")     # source forms backed by a Xerces DOM
RAW_DOM_FORMS = ("xercesps", "wraprawps")           # ... whose DOM is not normalised by the driver


def fld(s):
    """string -> comma separated hex UTF-16 code units"""
    b = s.encode("utf-16-le", "surrogatepass")
    return ",".join("%x" % (b[i] | (b[i + 1] << 8)) for i in range(0, len(b), 2))


def unfld(f):
    if f == "":
        return ""
    u = [int(x, 16) for x in f.split(",")]
    return b"".join(bytes((c & 255, c >> 8)) for c in u).decode("utf-16-le", "surrogatepass")


# ---------------------------------------------------------------------------------------------
# generated documents: ("e", qname, [(an, av)], kids) | ("t", s) | ("i", ws) | ("c", s) | ("p", target, data)

ELEMS = ["a", "b", "c", "d", "p:e", "q:f", "b", "a"]
# attribute names: in UTF-16 code unit order AND after every "xmlns..." name, so that the native order (xmlns
# declarations first, then source order) and the Xerces DOM order (sorted by name) coincide when sorted_attrs
ATTRS = ["y", "yid", "yp:m", "z", "zk", "zq:n"]
ATTRS_ANY = ["A1", "b", "id", "k", "yp:m", "zq:n", "y", "z"]
NSDECL = [("xmlns", "urn:d1"), ("xmlns", ""), ("xmlns:p", "urn:p2"), ("xmlns:q", "urn:q2"), ("xmlns:r", "urn:r")]
ALPHA_BMP = "abcxyz  \n\t<&>]\"'-é€中"
ALPHA = ALPHA_BMP + "\U0001F600"
ALPHA_CUR = [ALPHA]


def rand_text(r, kind=None):
    kind = kind or r.choice(["short", "short", "short", "ws", "ws", "long", "mid", "special"])
    if kind == "ws":
        return "".join(r.choice(" \n\t") for _ in range(r.randrange(1, 6)))
    if kind == "short":
        return "".join(r.choice(ALPHA_CUR[0]) for _ in range(r.randrange(1, 12)))
    if kind == "mid":
        return "".join(r.choice(ALPHA_CUR[0]) for _ in range(r.choice([255, 256, 511, 512, 513, 1023, 1024, 1025])))
    if kind == "long":
        n = r.choice([4095, 4096, 4097, 5000, 8191, 8192, 8193, 16385, 20000])
        w = "".join(r.choice(ALPHA_CUR[0]) for _ in range(37))
        return (w * (n // len(w) + 1))[:n]
    return r.choice(["]]>", "&", "<", "a]]>b", "&amp;", "x\n", " x ", "\U0001F600" if ALPHA_CUR[0] is ALPHA else "€", "é"])


def rand_comment(r):
    # ASCII only: a character the output encoding cannot represent is written as a character reference inside
    # a comment (C04 K4), which a re-parse does not undo
    s = "".join(r.choice("abc <&>' ") for _ in range(r.randrange(0, 8)))
    return s.replace("--", "-").rstrip("-")


def gen_kids(r, depth, budget, sorted_attrs, allow_ign=False):
    kids = []
    n = r.choice([0, 1, 2, 3, 4, 6]) if depth < 4 else r.choice([0, 1])
    for _ in range(n):
        if budget[0] <= 0:
            break
        budget[0] -= 1
        k = r.random()
        if k < 0.35:
            if kids and kids[-1][0] == "t":
                continue                       # XPath-normal: no adjacent text
            kids.append(("t", rand_text(r)))
        elif k < 0.45:
            kids.append(("c", rand_comment(r)))
        elif k < 0.52:
            kids.append(("p", r.choice(["pi", "x-y", "target"]), r.choice(["", "d", "a b", "x='1'"])))
        elif k < 0.56 and allow_ign:
            kids.append(("i", "".join(r.choice(" \n\t") for _ in range(r.randrange(1, 4)))))
        else:
            kids.append(gen_elem(r, depth + 1, budget, sorted_attrs, allow_ign))
    return kids


def gen_elem(r, depth, budget, sorted_attrs, allow_ign=False, root=False):
    q = r.choice(ELEMS)
    attrs = []
    names = [a for a in (ATTRS if sorted_attrs else ATTRS_ANY) if r.random() < 0.3]
    if not sorted_attrs:
        r.shuffle(names)
    decls = []
    if root:
        decls = [("xmlns:p", "urn:p"), ("xmlns:q", "urn:q"), ("xmlns:yp", "urn:p"), ("xmlns:zq", "urn:q")]
        if r.random() < 0.4:
            decls.insert(0, ("xmlns", "urn:d0"))
    elif r.random() < 0.25:
        decls = [r.choice(NSDECL)]
        if decls[0] == ("xmlns", "") and ":" not in q and False:
            decls = []
    attrs = [(n, "".join(r.choice("abc 12<&\"'é\t") for _ in range(r.randrange(0, 6)))) for n in names]
    if sorted_attrs:
        attrs = decls + attrs
    else:
        # xmlns declarations are placed at random among the attributes (the native builder moves them first)
        for d in decls:
            attrs.insert(r.randrange(len(attrs) + 1), d)
    return ("e", q, attrs, gen_kids(r, depth, budget, sorted_attrs, allow_ign))


def gen_doc(r, sorted_attrs=True, allow_ign=False, size=None):
    budget = [size or r.choice([3, 8, 20, 40])]
    top = []
    for _ in range(r.choice([0, 0, 1, 2])):
        top.append(r.choice([("c", rand_comment(r)), ("p", "pi", "top")]))
    top.append(gen_elem(r, 0, budget, sorted_attrs, allow_ign, root=True))
    for _ in range(r.choice([0, 0, 1])):
        top.append(("c", rand_comment(r)))
    return top


# ---- internal DTD subset: declared attribute types and defaults (same ATTLIST for the elements DTD_ELEMS)
# names are taken from ATTRS / sort after them, and the defaulted ones are declared in name order, so that the native
# order (specified attributes in source order, then the defaults in declaration order) is also the name order of a DOM
DTD_ELEMS = ("b", "c", "p:e")
DTD_ATTLIST = [("y", "NMTOKENS", "#IMPLIED"), ("yid", "ID", "#IMPLIED"), ("yp:m", "NMTOKEN", "#IMPLIED"), ("z", "IDREFS", "#IMPLIED"),
               ("zk", "IDREF", "#IMPLIED"), ("zz1", "CDATA", '"d  v"'), ("zz2", "CDATA", '#FIXED "fx"'), ("zz3", "(p|q|r)", '"q"')]
DTD_DEFAULTS = [("zz1", "d  v"), ("zz2", "fx"), ("zz3", "q")]
DTD_TEXT = "".join("<!ATTLIST %s %s>" % (e, " ".join("%s %s %s" % d for d in DTD_ATTLIST)) for e in DTD_ELEMS)


def norm_tokens(v):
    """attribute value normalisation of a non-CDATA type: leading / trailing spaces dropped, runs collapsed"""
    return " ".join(x for x in v.split(" ") if x)


def apply_dtd(r, top, sorted_attrs=True, dup_ids=False):
    """give the elements DTD_ELEMS typed attributes: unique ID values, IDREF / IDREFS with backward, forward and dangling
    references, token lists with superfluous spaces.  Returns (tree to serialise, tree the parser must deliver: values
    normalised, defaulted attributes appended, {ID value: ordinal of its element among the elements})."""
    ids = []

    def spaced(tokens):
        return r.choice(["", " ", "  "]) + r.choice([" ", "  ", "   "]).join(tokens) + r.choice(["", " ", "   "])

    def assign(t):
        if t[0] != "e":
            return t
        attrs = list(t[2])
        if t[1] in DTD_ELEMS:
            attrs = [a for a in attrs if a[0] not in ("y", "yid", "yp:m", "z", "zk")]
            if r.random() < 0.7:
                v = "k%d" % (len(ids) + 1) if not (dup_ids and ids and r.random() < 0.3) else r.choice(ids)
                ids.append(v)
                attrs.append(("yid", v))
        return ("e", t[1], attrs, [assign(k) for k in t[3]])
    top1 = [assign(t) for t in top]
    pool = ids + ["nope", "k99"] if ids else ["nope"]

    def refs(t):
        if t[0] != "e":
            return t, t
        raw, exp = list(t[2]), list(t[2])
        if t[1] in DTD_ELEMS:
            add = []
            if r.random() < 0.6:
                add.append(("zk", spaced([r.choice(pool)])))
            if r.random() < 0.5:
                add.append(("z", spaced([r.choice(pool) for _ in range(r.randrange(1, 4))])))
            if r.random() < 0.4:
                add.append(("y", spaced(["t%d" % r.randrange(5) for _ in range(r.randrange(1, 4))])))
            if r.random() < 0.3:
                add.append(("yp:m", spaced(["tok"])))
            if r.random() < 0.25:
                add.append(("zz1", r.choice([" own ", "o  w", ""])))          # CDATA: kept as written
            raw = raw + add
            exp = exp + [(n, v if n == "zz1" else norm_tokens(v)) for n, v in add]
            if sorted_attrs:
                key = lambda a: (0 if is_nsdecl(a[0]) else 1, a[0].encode("utf-16-be") if not is_nsdecl(a[0]) else b"")
                raw = sorted(raw, key=key) if all(not is_nsdecl(a[0]) for a in raw) else [a for a in raw if is_nsdecl(a[0])] + sorted([a for a in raw if not is_nsdecl(a[0])], key=lambda a: a[0].encode("utf-16-be"))
                exp = [a for a in exp if is_nsdecl(a[0])] + sorted([a for a in exp if not is_nsdecl(a[0])], key=lambda a: a[0].encode("utf-16-be"))
            else:
                order = list(range(len(raw)))
                r.shuffle(order)
                raw, exp = [raw[i] for i in order], [exp[i] for i in order]
            exp = exp + [(n, v) for n, v in DTD_DEFAULTS if not any(a[0] == n for a in exp)]
        kids = [refs(k) for k in t[3]]
        return ("e", t[1], raw, [k[0] for k in kids]), ("e", t[1], exp, [k[1] for k in kids])
    pairs = [refs(t) for t in top1]
    raw_top, exp_top = [p[0] for p in pairs], [p[1] for p in pairs]
    id_map, count = {}, [0]

    def walk(t):
        if t[0] != "e":
            return
        if t[1] in DTD_ELEMS:
            for n, v in t[2]:
                if n == "yid" and v not in id_map:
                    id_map[v] = count[0]
        count[0] += 1
        for k in t[3]:
            walk(k)
    for t in exp_top:
        walk(t)
    return raw_top, exp_top, id_map


def split_ids(dump):
    """'<tree dump> # v=i ...' -> (tree dump, {value: index or None})"""
    d, sep, ids = dump.partition(" # ")
    if not sep and dump.endswith(" #"):
        d = dump[:-2]
    m = {}
    for x in ids.split(" "):
        if x:
            k, _, v = x.rpartition("=")
            m[unfld(k)] = None if v == "-" else int(v)
    return d, m


def is_nsdecl(q):
    return q == "xmlns" or q.startswith("xmlns:")


XML_ATTR = ("xmlns:xml", "http://www.w3.org/XML/1998/namespace")


def expected_dump(top, first=2):
    """Python reference: the native tree of the document, numbered in pre-order (element, xmlns:xml on the
    document element, xmlns declarations, other attributes, children); 'i' nodes are text nodes."""
    out = []
    n = [first]

    def item(d, k, name, val):
        out.append("%d:%s:%d:%s:%s" % (d, k, n[0], fld(name), fld(val)))
        n[0] += 1

    def walk(t, d, is_root):
        if t[0] == "e":
            item(d, "e", t[1], "")
            attrs = list(t[2])
            order = [a for a in attrs if is_nsdecl(a[0])] + [a for a in attrs if not is_nsdecl(a[0])]
            if is_root and not any(a[0] == "xmlns:xml" for a in attrs):
                order = [XML_ATTR] + order
            for a in order:
                item(d + 1, "a", a[0], a[1])
            for k in t[3]:
                walk(k, d + 1, False)
        elif t[0] in ("t", "i"):
            item(d, "t", "", t[1])
        elif t[0] == "c":
            item(d, "c", "", t[1])
        else:
            item(d, "p", t[1], t[2])
    for t in top:
        walk(t, 0, t[0] == "e")     # xmlns:xml is added to the element appended to the document (there is only one)
    return " ".join(out)


def chunkings(r, s):
    """a random re-chunking of s (list of pieces, empty pieces included)"""
    mode = r.randrange(6)
    if mode == 0:
        ps = [s]
    elif mode == 1:
        ps = list(s) if len(s) <= 40 else [s[:1], s[1:-1], s[-1:]]
    elif mode == 2:
        cuts = sorted(r.randrange(len(s) + 1) for _ in range(r.randrange(1, 5)))
        ps = [s[a:b] for a, b in zip([0] + cuts, cuts + [len(s)])]
    elif mode == 3:
        ps = ["", s, ""]
    elif mode == 4:
        k = r.randrange(len(s) + 1)
        ps = [s[:k], "", "", s[k:]]
    else:
        ps = ["", s[:1], "", s[1:]]
    # never split a surrogate pair (a parser does not either)
    res = []
    for p in ps:
        if res and res[-1] and 0xD800 <= ord(res[-1][-1]) < 0xDC00:
            res[-1] += p
        else:
            res.append(p)
    return res


def events_of(r, top, extra_empty=True):
    ev = []

    def maybe_empty():
        if extra_empty and r.random() < 0.15:
            ev.append("C|")

    def walk(t, depth):
        if t[0] == "e":
            if depth > 0:
                maybe_empty()
            ev.append("S|" + fld(t[1]) + "".join("|%s|%s" % (fld(a), fld(v)) for a, v in t[2]))
            for k in t[3]:
                walk(k, depth + 1)
            maybe_empty()
            ev.append("E")
        elif t[0] == "t":
            for p in chunkings(r, t[1]):
                ev.append("C|" + fld(p))
        elif t[0] == "i":
            ev.append("I|" + fld(t[1]))
        elif t[0] == "c":
            if depth > 0:
                maybe_empty()
            ev.append("M|" + fld(t[1]))
        else:
            if depth > 0:
                maybe_empty()
            ev.append("P|%s|%s" % (fld(t[1]), fld(t[2])))
    for t in top:
        walk(t, 0)
        if r.random() < 0.2:
            ev.append("C|" + fld(r.choice([" ", "\n", "", "\t "])))     # white space between top-level nodes is ignored
    return ev


def ref_build(tokens):
    """Python reference of the native builder on an arbitrary event stream (independent of the Coq model):
    returns the expected dump or 'ERR' (text at the top level, a second document element, not well nested)."""
    out, n, stack, buf, root_done = [], [2], [], [""], [False]
    ids, cands, typed = {}, [], [False]

    def item(d, k, name, val):
        out.append("%d:%s:%d:%s:%s" % (d, k, n[0], name, val))
        n[0] += 1

    def flush():
        if buf[0]:
            item(len(stack), "t", "", fld(buf[0]))
            buf[0] = ""
    for tok in tokens:
        f = tok.split("|")
        if f[0] in ("S", "A"):
            flush()
            if not stack and root_done[0]:
                return "ERR"
            eidx = n[0]
            item(len(stack), "e", f[1], "")
            if f[0] == "A":
                typed[0] = True
                trip = [(unfld(f[i]), unfld(f[i + 1]), unfld(f[i + 2])) for i in range(2, len(f) - 2, 3)]
                for a in trip:
                    if a[1] not in cands:
                        cands.append(a[1])
                # the ID table: declared type exactly "ID", the first element registered for a value stays
                for a in [a for a in trip if is_nsdecl(a[0])] + [a for a in trip if not is_nsdecl(a[0])]:
                    if a[2] == "ID" and a[1] not in ids:
                        ids[a[1]] = eidx
                attrs = [(a[0], a[1]) for a in trip]
            else:
                attrs = [(unfld(f[i]), unfld(f[i + 1])) for i in range(2, len(f) - 1, 2)]
            order = [a for a in attrs if is_nsdecl(a[0])] + [a for a in attrs if not is_nsdecl(a[0])]
            if not stack and not any(a[0] == "xmlns:xml" for a in attrs):
                order = [XML_ATTR] + order
            for a in order:
                item(len(stack) + 1, "a", fld(a[0]), fld(a[1]))
            stack.append(f[1])
        elif f[0] == "E":
            flush()
            if not stack:
                return "ERR"
            stack.pop()
            if not stack:
                root_done[0] = True
        elif f[0] == "C":
            s = unfld(f[1])
            if not stack:
                if s.strip(" \t\n\r"):
                    return "ERR"
            else:
                buf[0] += s
        elif f[0] == "I":
            flush()
            item(len(stack), "t", "", f[1])
        elif f[0] == "M":
            flush()
            item(len(stack), "c", "", f[1])
        elif f[0] == "P":
            flush()
            item(len(stack), "p", f[1], f[2])
    if stack:
        return "ERR"
    if typed[0]:
        return " ".join(out) + " #" + "".join(" %s=%s" % (fld(v), ids[v] if v in ids else "-") for v in cands)
    return " ".join(out)


ATYPES = ["CDATA", "ID", "ID", "IDREF", "IDREFS", "NMTOKEN", "I", "IDX", "id", "", "ENUMERATION"]


def random_events(r):
    """an arbitrary well-nested event stream (not derived from a document): adjacent / empty characters events,
    white space and text at the top level, several top-level elements"""
    ev, depth = [], 0
    for _ in range(r.randrange(1, 30)):
        k = r.random()
        if k < 0.25:
            attrs = [(a, r.choice(["", "v", " "])) for a in r.sample(["b", "xmlns:p", "z", "xmlns", "A"], r.choice([0, 0, 1, 2, 3]))]
            if r.random() < 0.5:
                # declared types (DTD): duplicate values, several ID attributes, near misses of "ID"
                ev.append("A|" + fld(r.choice(["a", "b", "p:c"])) + "".join("|%s|%s|%s" % (fld(a), fld(r.choice(["k1", "k2", "k3", "k1 k2", ""])), fld(r.choice(ATYPES))) for a, v in attrs))
            else:
                ev.append("S|" + fld(r.choice(["a", "b", "p:c"])) + "".join("|%s|%s" % (fld(a), fld(v)) for a, v in attrs))
            depth += 1
        elif k < 0.45 and depth > 0:
            ev.append("E")
            depth -= 1
        elif k < 0.8:
            if depth == 0 and r.random() < 0.9:
                ev.append("C|" + fld(r.choice(["", " ", "\n", " \t"])))
            else:
                ev.append("C|" + fld(r.choice(["", "", " ", "x", "ab", "\n", "x y", "é"])))
        elif k < 0.85 and depth > 0:
            ev.append("I|" + fld(r.choice([" ", "\n ", "\t"])))
        elif k < 0.93:
            ev.append("M|" + fld(r.choice(["", "c", " c "])))
        else:
            ev.append("P|%s|%s" % (fld("pi"), fld(r.choice(["", "d"]))))
    ev += ["E"] * depth
    return ev


def esc_text(s):
    return s.replace("&", "&amp;").replace("<", "&lt;").replace(">", "&gt;").replace("\r", "&#13;")


def esc_attr(s):
    return (s.replace("&", "&amp;").replace("<", "&lt;").replace('"', "&quot;").replace("\t", "&#9;")
            .replace("\n", "&#10;").replace("\r", "&#13;"))


def serialise(r, top, variants=True, doctype=False, flags=None, dtd=False):
    """XML text of the document; with variants the text is written with CDATA sections, character
    references and (with doctype) an internal entity reference.  flags collects what was used."""
    flags = flags if flags is not None else set()
    out = []

    def text(s):
        if not variants or r.random() < 0.4:
            out.append(esc_text(s))
            return
        i = 0
        while i < len(s):
            j = min(len(s), i + r.choice([1, 2, 3, 7, 50, 5000]))
            if j < len(s) and 0xD800 <= ord(s[j - 1]) < 0xDC00:
                j += 1
            seg = s[i:j]
            k = r.random()
            if k < 0.3 and "]]>" not in seg and "\r" not in seg:
                out.append("<![CDATA[" + seg + "]]>")
                flags.add("cdata")
            elif k < 0.5 and len(seg) <= 3:
                out.append("".join("&#%d;" % ord(c) if r.random() < 0.5 else "&#x%x;" % ord(c) for c in seg))
                flags.add("charref")
            elif doctype and "E1" in seg and k < 0.85:
                out.append(esc_text(seg).replace("E1", "&ent;"))
                flags.add("entity")
            else:
                out.append(esc_text(seg))
            i = j

    def walk(t):
        if t[0] == "e":
            out.append("<" + t[1] + "".join(' %s="%s"' % (a, esc_attr(v)) for a, v in t[2]))
            if not t[3] and r.random() < 0.5:
                out.append("/>")
                return
            out.append(">")
            for k in t[3]:
                walk(k)
            out.append("</" + t[1] + ">")
        elif t[0] in ("t", "i"):
            text(t[1])
        elif t[0] == "c":
            out.append("<!--" + t[1] + "-->")
        else:
            out.append("<?" + t[1] + (" " + t[2] if t[2] else "") + "?>")
    if doctype:
        root = [t for t in top if t[0] == "e"][0][1]
        out.append('<!DOCTYPE %s [<!ENTITY ent "E1"><!ENTITY ent2 "E2"><!NOTATION gif SYSTEM "gif">'
                   '<!ENTITY pic SYSTEM "http://x/pic.gif" NDATA gif>%s]>' % (root, DTD_TEXT if dtd else ""))
        flags.add("doctype")
        if dtd:
            flags.add("dtd")
    for t in top:
        walk(t)
        if r.random() < 0.3:
            out.append("\n")
    return "".join(out)


# ---------------------------------------------------------------------------------------------
# dumps

def parse_dump(d):
    """dump -> list of (depth, kind, index, name, value)"""
    if d in ("ERR", "", None):
        return None
    res = []
    for it in d.split(" "):
        p = it.split(":")
        res.append((int(p[0]), p[1], int(p[2]), p[3], p[4]))
    return res


def node_view(items, drop_doctype=True):
    """order-insensitive in attributes: per element the attribute set sorted; xmlns:xml dropped"""
    res = []
    i = 0
    items = items or []
    while i < len(items):
        d, k, _, nm, v = items[i]
        if k == "e":
            j = i + 1
            at = []
            while j < len(items) and items[j][1] == "a" and items[j][0] == d + 1:
                if unfld(items[j][3]) != "xmlns:xml":
                    at.append((items[j][3], items[j][4]))
                j += 1
            res.append((d, "e", nm, tuple(sorted(at))))
            i = j
            continue
        if not (k == "y" and drop_doctype):
            res.append((d, k, nm, v))
        i += 1
    return res


# ---------------------------------------------------------------------------------------------
# T mode: stylesheets

def sheet(body, out='<xsl:output method="xml"/>', top=""):
    return ('<?xml version="1.0"?><xsl:stylesheet version="1.0" xmlns:xsl="%s" xmlns:p="urn:p" xmlns:q="urn:q" xmlns:yp="urn:p" xmlns:zq="urn:q" exclude-result-prefixes="p q yp zq">'
            '%s<xsl:param name="par" select="\'dflt\'"/><xsl:param name="num" select="0"/>%s%s</xsl:stylesheet>' % (XSLNS, out, top, body))


def gen_sheet(r):
    """returns (class, stylesheet text, flags)"""
    enc = r.choice(["UTF-8", "UTF-8", "UTF-16", "ISO-8859-1", "US-ASCII", "UTF-8"])
    out = '<xsl:output method="xml" encoding="%s"/>' % enc
    k = r.randrange(18)
    flags = set()
    if k == 0:
        body = ('<xsl:template match="/"><out par="{$par}" num="{$num + 1}"><xsl:for-each select="//node()|//@*">'
                '<n t="{name()}" i="{position()}" pre="{count(preceding::node())}" anc="{count(ancestor::node())}" '
                'fol="{count(following::node())}" ps="{count(preceding-sibling::node())}" len="{string-length(.)}">'
                '<xsl:value-of select="substring(.,1,20)"/></n></xsl:for-each></out></xsl:template>')
        cls = "docorder"
    elif k == 1:
        top = '<xsl:key name="k" match="*|@*" use="name()"/><xsl:key name="t" match="text()" use="string-length(.) mod 7"/>'
        body = ('<xsl:template match="/"><out><xsl:for-each select="//*|//@*"><k n="{name()}" c="{count(key(\'k\',name()))}" '
                'first="{generate-id()=generate-id(key(\'k\',name())[1])}" last="{generate-id()=generate-id(key(\'k\',name())[last()])}"/></xsl:for-each>'
                '<xsl:for-each select="key(\'t\',3)|key(\'t\',0)"><t p="{count(preceding::text())}"><xsl:value-of select="substring(.,1,9)"/></t></xsl:for-each></out></xsl:template>')
        flags.add("x")
        return "keys", sheet(body, out, top), flags
    elif k == 2:
        body = ('<xsl:template match="/"><out><xsl:copy-of select="/*"/><x/><xsl:copy-of select="//comment()|//processing-instruction()[name()!=\'xml-stylesheet\']"/>'
                '<xsl:for-each select="//*[@*][position() &lt; 4]"><y><xsl:copy-of select="@*"/><xsl:copy-of select="node()"/></y></xsl:for-each></out></xsl:template>')
        cls = "copyof"
    elif k == 3:
        body = ('<xsl:template match="/"><out><xsl:for-each select="//*"><xsl:sort select="name()"/><xsl:sort select="count(preceding::*)" data-type="number" order="descending"/>'
                '<e n="{name()}"><xsl:number level="any" count="*"/>/<xsl:number level="multiple" count="*" format="1.1"/>/<xsl:number level="single" count="b|a"/></e>'
                '</xsl:for-each></out></xsl:template>')
        cls = "number"
    elif k == 4:
        body = ('<xsl:template match="/"><out n="{count(//text())}"><xsl:for-each select="//text()"><t l="{string-length(.)}" f="{substring(.,1,3)}" '
                'e="{substring(., string-length(.) - 2)}" w="{normalize-space(.) = \'\'}" nx="{name(following-sibling::node()[1])}" '
                'px="{name(preceding-sibling::node()[1])}"/></xsl:for-each><all><xsl:value-of select="/"/></all></out></xsl:template>')
        cls = "text"
    elif k == 5:
        top = '<xsl:strip-space elements="*"/><xsl:preserve-space elements="c p:e"/>'
        body = ('<xsl:template match="/"><out n="{count(//text())}"><xsl:for-each select="//node()"><xsl:value-of select="position()"/>:'
                '<xsl:value-of select="name()"/>:<xsl:value-of select="count(preceding-sibling::node())"/>;</xsl:for-each></out></xsl:template>')
        flags.add("x")
        return "strip", sheet(body, out, top), flags
    elif k == 6:
        n = r.choice([1, 3, 20, 60])
        body = ('<xsl:template match="/"><out><xsl:call-template name="rep"><xsl:with-param name="n" select="%d"/></xsl:call-template></out></xsl:template>'
                '<xsl:template name="rep"><xsl:param name="n"/><xsl:if test="$n &gt; 0"><r i="{$n}"><xsl:value-of select="/"/>&#233;&#8364;</r>'
                '<xsl:call-template name="rep"><xsl:with-param name="n" select="$n - 1"/></xsl:call-template></xsl:if></xsl:template>' % n)
        cls = "bigout"
    elif k == 7:
        m = r.choice(["html", "text"])
        out = '<xsl:output method="%s" encoding="%s"/>' % (m, r.choice(["UTF-8", "ISO-8859-1", "UTF-16"]))
        if m == "html":
            body = ('<xsl:template match="/"><html><head><title><xsl:value-of select="$par"/></title></head><body><br/><p>&#233;&lt;'
                    '<xsl:for-each select="//*"><xsl:value-of select="name()"/><xsl:text> </xsl:text></xsl:for-each></p><xsl:copy-of select="//comment()"/></body></html></xsl:template>')
        else:
            body = '<xsl:template match="/">T:<xsl:value-of select="$par"/>:<xsl:for-each select="//text()">[<xsl:value-of select="."/>]</xsl:for-each></xsl:template>'
        cls = "method-" + m
    elif k == 8:
        w = r.randrange(3)
        if w == 0:
            body = '<xsl:template match="/"><out><xsl:if test="count(//*) &gt; 0"><xsl:message terminate="yes">stop</xsl:message></xsl:if></out></xsl:template>'
        elif w == 1:
            body = '<xsl:template match="/"><out><xsl:value-of select="///"/></out></xsl:template>'
        else:
            body = '<xsl:template match="/"><out><xsl:call-template name="nope"/></out></xsl:template>'
        cls = "failing"
    elif k == 9:
        body = ('<xsl:template match="@*|node()"><xsl:copy><xsl:apply-templates select="@*|node()"/></xsl:copy></xsl:template>'
                '<xsl:template match="/"><out><xsl:apply-templates select="node()[not(self::processing-instruction(\'xml-stylesheet\'))]"/></out></xsl:template>'
                '<xsl:template match="b"><B><xsl:apply-templates select="@*|node()" mode="m"/></B></xsl:template>'
                '<xsl:template match="text()" mode="m"><tx><xsl:value-of select="string-length(.)"/></tx></xsl:template>'
                '<xsl:template match="@*" mode="m"><xsl:attribute name="m-{local-name()}"><xsl:value-of select="."/></xsl:attribute></xsl:template>')
        cls = "identity"
    elif k == 10:
        body = ('<xsl:template match="/"><out n="{count(document(\'\')//xsl:template)}" m="{count(document(\'main.xml\')//node())}" '
                's="{count(document(\'main.xsl\')/*/*)}"/></xsl:template>')
        flags.add("u")
        cls = "document-fn"
    elif k == 11:
        body = ('<xsl:template match="/"><out><xsl:for-each select="(//b|//a|//@*|//text()|//comment())[position() &lt; 25]">'
                '<u k="{name()}" s="{substring(.,1,5)}"/></xsl:for-each><l><xsl:value-of select="name((//*|//@*)[last()])"/></l>'
                '<f><xsl:value-of select="name((//@*|//*)[1])"/></f></out></xsl:template>')
        cls = "union"
    elif k == 12:
        body = ('<xsl:template match="/"><out><xsl:for-each select="//*"><e n="{name()}" u="{namespace-uri()}" l="{local-name()}" '
                'na="{count(@*)}" pa="{count(ancestor-or-self::*/@*)}"><xsl:for-each select="@*"><a n="{name()}" u="{namespace-uri()}" v="{.}"/></xsl:for-each>'
                '</e></xsl:for-each></out></xsl:template>')
        cls = "names"
    elif k == 13:
        body = ('<xsl:template match="/"><out><xsl:apply-templates select="//text()[string-length(.) &gt; 100]"/></out></xsl:template>'
                '<xsl:template match="text()"><long l="{string-length(.)}" a="{substring(.,250,12)}" b="{substring(.,4090,12)}" c="{substring(.,8185,12)}"/></xsl:template>')
        cls = "longtext"
    elif k == 15:
        body = ('<xsl:template match="/"><out n="{count(/node())}" p="{count(/*/preceding::node())}" f="{name(/node()[1])}" l="{name(/node()[last()])}" '
                'ps="{count(/*/preceding-sibling::node())}" u="{unparsed-entity-uri(\'pic\')}" v="{unparsed-entity-uri(\'ent\')}" all="{count(//node())}"/></xsl:template>')
        cls = "doctype-probe"
    elif k in (16, 17):
        # id() over ID / IDREF / IDREFS attributes (forward, backward, dangling references), also from a document()-loaded
        # copy of the source; defaulted / #FIXED attributes and the normalised values of token-list attributes
        body = ('<xsl:template match="/"><out><a c="{count(id(\'k1\'))}" n="{name(id(\'k2\'))}" m="{count(id(\'k1 k3  nope k2\'))}" '
                'g="{generate-id(id(\'k1\'))=generate-id((//*[@yid=\'k1\'])[1])}" p="{count(id(\'k2\')/preceding::*)}"/>'
                '<xsl:for-each select="//*[@zk]"><r v="{@zk}" t="{name(id(@zk))}" i="{id(@zk)/@yid}" p="{count(id(@zk)/preceding::*)}" s="{generate-id(id(@zk))=generate-id(.)}"/></xsl:for-each>'
                '<xsl:for-each select="//*[@z]"><rs v="{@z}" n="{count(id(@z))}"><xsl:for-each select="id(@z)"><xsl:value-of select="@yid"/>,</xsl:for-each></rs></xsl:for-each>'
                '<all n="{count(id(//@zk))}" m="{count(id(//@z|//@zk))}" y="{count(id(//@y))}" d="{count(id(//@zz1|//@zz2|//@zz3))}"/>'
                '<d n="{count(document(\'main.xml\')//*)}"><xsl:for-each select="document(\'main.xml\')"><xsl:value-of select="name(id(\'k1\'))"/>|'
                '<xsl:value-of select="count(id(\'k2 k3 nope\'))"/>|<xsl:value-of select="count(id(//@zk))"/></xsl:for-each></d>'
                '<at><xsl:for-each select="//*[@zz2]"><xsl:value-of select="concat(count(@*),\':\',@zz1,\':\',@zz2,\':\',@zz3,\':[\',@y,\']:[\',@z,\']:[\',@yp:m,\'];\')"/></xsl:for-each></at>'
                '<names><xsl:for-each select="//*[@zz2]/@*"><xsl:value-of select="name()"/>,</xsl:for-each></names></out></xsl:template>')
        flags.add("u")
        cls = "id-fn"
    else:
        body = ('<xsl:template match="/"><out par="{$par}" n="{$num * 2}" t="{count(//node())}"><xsl:value-of select="concat($par, \'|\', string($num))"/></out></xsl:template>')
        cls = "params"
    if 'method="xml"' in out:
        flags.add("x")
    if 'method="text"' in out and 'encoding="UTF-8"' in out:
        flags.add("T8")      # not passed to the driver; class K05e when the source has supplementary characters
    return cls, sheet(body, out), flags


NS_AXIS_SHEET = sheet('<xsl:template match="/"><out><xsl:for-each select="//*"><e n="{name()}" c="{count(namespace::*)}"/></xsl:for-each></out></xsl:template>')
ATTR_ORDER_SHEET = sheet('<xsl:template match="/"><out><xsl:for-each select="//@*"><xsl:value-of select="name()"/>,</xsl:for-each></out></xsl:template>')
DOCTYPE_SHEET = sheet('<xsl:template match="/"><out n="{count(/node())}" p="{count(/*/preceding::node())}"/></xsl:template>')
UENT_SHEET = sheet('<xsl:template match="/"><out u="{unparsed-entity-uri(\'pic\')}"/></xsl:template>')
TEXT_SHEET = sheet('<xsl:template match="/"><xsl:value-of select="/a"/></xsl:template>', '<xsl:output method="text" encoding="UTF-8"/>')
PI = '<?xml-stylesheet type="text/xsl" href="main.xsl"?>'

KNOWN_REPLAYS = {
    "K05a": (NS_AXIS_SHEET, PI + '<a xmlns:p="u"><b xmlns="d"><c/></b></a>'),
    "K05b": (ATTR_ORDER_SHEET, PI + '<a z="1" b="2"/>'),
    "K05e": (TEXT_SHEET, PI + "<a>" + "a" * 511 + "\U0001F600b</a>"),
}
# repaired (fixes/C05): must agree in every form now
FIXED_REPLAYS = {
    "K05c": (DOCTYPE_SHEET, '<!DOCTYPE a [<!ENTITY e "zz">]>' + PI + '<a><b/></a>'),
    "K05d": (UENT_SHEET, '<!DOCTYPE a [<!NOTATION gif SYSTEM "gif"><!ENTITY pic SYSTEM "http://x/pic.gif" NDATA gif>]>' + PI + '<a/>'),
}


def t_line(cid, seed, sh, src, params, flags):
    ps = ",".join("%s=%s" % (k, v.encode().hex()) for k, v in params) or "-"
    return "%s T %d %s %s %s %s" % (cid, seed, sh.encode("utf-8").hex(), src.encode("utf-8", "surrogatepass").hex(), ps,
                                   "".join(sorted(f for f in flags if len(f) == 1)) or "-")


def attrs_unsorted(top):
    """class K05b: some element whose native attribute order (xmlns declarations, then the others, each in
    source order) is not the UTF-16 code unit order of the names"""
    def walk(t):
        if t[0] != "e":
            return False
        names = [a for a, _ in t[2] if is_nsdecl(a)] + [a for a, _ in t[2] if not is_nsdecl(a)]
        u16 = [n.encode("utf-16-be") for n in names]
        return u16 != sorted(u16) or any(walk(k) for k in t[3])
    return any(walk(t) for t in top)


# ---------------------------------------------------------------------------------------------

def run_cli(xalan, libdir, workdir, sh, src, params, variant):
    with open(os.path.join(workdir, "main.xml"), "wb") as f:
        f.write(src.encode("utf-8", "surrogatepass"))
    with open(os.path.join(workdir, "main.xsl"), "wb") as f:
        f.write(sh.encode("utf-8"))
    outp = os.path.join(workdir, "cli.out")
    if os.path.exists(outp):
        os.unlink(outp)
    cmd = [xalan]
    for k, v in params:
        cmd += ["-p", k, v]
    if variant == 0:
        cmd += ["-o", outp, "main.xml", "main.xsl"]
    elif variant == 1:
        cmd += ["-a", "main.xml"]
    else:
        cmd += ["main.xml", "main.xsl"]
    env = dict(os.environ)
    env["LD_LIBRARY_PATH"] = libdir + ":" + os.path.join(libdir, "Utils", "XalanMsgLib") + ":" + env.get("LD_LIBRARY_PATH", "")
    try:
        p = subprocess.run(cmd, cwd=workdir, env=env, stdout=subprocess.PIPE, stderr=subprocess.PIPE, timeout=120)
    except subprocess.TimeoutExpired:
        return ("timeout", b"")
    if p.returncode != 0:
        return ("err", p.stderr[-300:])
    if variant == 0:
        with open(outp, "rb") as f:
            return ("ok", f.read())
    return ("ok", p.stdout)


# the variant of XalanOutputStream in the tree (GenForms.stream_keeps_high_surrogate): True = repaired for K05e
STREAM_FIXED = [False]


def gen_writes(r, bs, oracle_class, surrogates=False):
    """a write sequence around the buffer size bs; oracle_class: narrow writes only directly after a flush;
    surrogates: supplementary characters arrive unit by unit, at the end / the start of blocks - a high
    surrogate is always followed by its low surrogate in the next unit written (no flush in between)"""
    ws = []
    flushed = True
    need_low = False

    def unit():
        return r.randrange(0x21, 0x7f)

    def low():
        return r.randrange(0xDC00, 0xE000)

    def block(n):
        d = [unit() for _ in range(max(n, 0))]
        if surrogates and len(d) >= 2 and r.random() < 0.3:
            k = r.randrange(len(d) - 1)
            d[k], d[k + 1] = r.randrange(0xD800, 0xDC00), low()        # a pair inside the block
        return d
    for _ in range(r.randrange(1, 14)):
        k = r.random()
        if need_low:
            k = r.choice([0.1, 0.6])
        if k < 0.5:
            n = r.choice([0, 1, 1, 2, max(bs, 1) - 1, max(bs, 1), max(bs, 1) + 1, 2 * max(bs, 1), 2 * max(bs, 1) + 1, r.randrange(0, 3 * max(bs, 1) + 3)])
            if need_low:
                d = [low()] + block(max(n, 1) - 1)
                need_low = False
            else:
                d = block(n)
            if surrogates and d and r.random() < 0.35 and not (0xD800 <= d[-1] < 0xE000) and not (len(d) >= 2 and 0xD800 <= d[-2] < 0xDC00):
                d[-1] = r.randrange(0xD800, 0xDC00)                    # the block ends with the first half of a pair
                need_low = True
            ws.append(("w", d))
            flushed = flushed and n == 0
        elif k < 0.75:
            if need_low:
                ws.append(("c", [low()]))
                need_low = False
            elif surrogates and r.random() < 0.4:
                ws.append(("c", [r.randrange(0xD800, 0xDC00)]))
                need_low = True
            else:
                ws.append(("c", [unit()]))
            flushed = False
        elif k < 0.87:
            ws.append(("f", []))
            flushed = True
        else:
            if oracle_class and not flushed:
                ws.append(("f", []))
            ws.append(("n", [r.randrange(0x21, 0x7f) for _ in range(r.randrange(0, 5))]))
            flushed = True if oracle_class else flushed
    if need_low:
        ws.append(("c", [low()]))
    return ws


def writes_tokens(ws):
    return " ".join(k if k == "f" else "%s|%s" % (k, ",".join("%x" % u for u in d)) for k, d in ws)


def run(ctx):
    r = ctx.rng
    ctx.assumptions += [
        "Xerces-C delivers to SAX2 handlers / builds as DOM what the XML recommendation prescribes (the parser itself is not modelled); the event streams it really delivers are recorded and fed to the model on every run",
        "transcoders act block-wise (tc(a++b) = tc a ++ tc b): exact for the UTF-16 pass-through and for UTF-8/8-bit encoders as long as no surrogate pair is split over two flushes",
        "tree-building targets (Xerces DOM, Xalan source tree) are compared only when the byte result is one well-formed XML document (xml method); the C-API data buffer only for results without NUL bytes (it is NUL terminated)",
        "Xerces-DOM-backed source forms are compared on documents in XPath-normal form (no CDATA section next to text, no entity reference nodes); the wrapped-DOM form is normalised by the driver; attribute order and namespace axis are the recorded finding classes K05a, K05b (K05c DOCTYPE node and K05d unparsed-entity-uri are repaired and generated again)",
        "file / stream / C API / command line plumbing is exercised by the differential run, not modelled in Coq",
    ]
    ok_lib, liblog = core.build_lib("plain")
    if not ok_lib:
        ctx.broken.append("library does not build from the working tree: " + liblog[-500:])
        return ctx.finish(LEVEL)
    with core.Lock("lib_plain"):
        rc_x, out_x = core.sh(["ninja", "-C", os.path.join(core.BUILD, "plain"), "Xalan"], timeout=1200)
    xalan = os.path.join(core.lib_dir("plain"), "Xalan")
    if rc_x != 0 or not os.path.exists(xalan):
        ctx.broken.append("the Xalan executable does not build: " + out_x[-300:])
        xalan = None
    proved = ctx.prove(["Properties_C05.v"], ["GenForms"])
    model, ok_m, mlog = core.build_model(FAMILY)
    if not ok_m:
        ctx.broken.append("model extraction/build failed: " + mlog[-500:])
        model = None
    impl, ok_h, hlog = core.build_harness("forms", "plain")
    if not ok_h:
        ctx.broken.append("harness does not compile against the working tree: " + hlog[-500:])
        return ctx.finish(LEVEL)
    try:
        import gen_forms
        STREAM_FIXED[0] = bool(gen_forms.gen_forms()[1].get("stream_keeps_high_surrogate"))
    except Exception:
        STREAM_FIXED[0] = False      # the translator failure is already recorded by ctx.prove
    ctx.notes["repo_variant"] = {"stream_keeps_high_surrogate": STREAM_FIXED[0]}
    known = {k["key"]: k for k in ctx.known.for_property("C05")}
    state = {"corr": [], "orc": [], "known_hits": {}, "info": {}}

    def round_(scale):
        evaluate(ctx, r, impl, model, xalan, scale, state)

    round_(1 if not ctx.thorough else 30)
    if (state["corr"] or not proved or not model) and not state["orc"] and not ctx.thorough:
        ctx.escalated = True
        round_(6)
    for k in sorted(state["known_hits"]):
        if k in known:
            ctx.known_finding("%s %s" % (k, known[k]["what"]))
        else:
            state["orc"].append(("known-class-without-entry", "class %s was hit but is not listed in props/C05.findings.txt" % k, ""))
    ctx.notes["known_class_hits"] = state["known_hits"]
    ctx.notes["outside_quantifier"] = state["info"]
    ctx.notes["rule"] = "distinct = distinct case lines; non-trivial = B/W cases with >= 1 text node, O cases with >= 2 chunks, T cases whose reference result is > 60 bytes or an error"
    if state["corr"]:
        ctx.broken.append("correspondence forms: %d cases differ between model and library, e.g. %s" % (len(state["corr"]), str(state["corr"][0])[:700]))
        ctx.notes["correspondence_mismatches"] = [str(c)[:600] for c in state["corr"][:10]]
    if state["orc"]:
        state["orc"].sort(key=lambda o: len(o[2]))
        by_tag = {}
        for tag, what, line in state["orc"]:
            by_tag.setdefault(tag, []).append((what, line))
        for tag, items in by_tag.items():
            txt = "# C05 oracle failures, class %s (replay: feed the case lines to .build/forms_plain; '=' means identical to the reference form)\n" % tag
            txt += "\n".join("%s\n#   %s" % (line, what[:1500]) for what, line in items[:8])
            ctx.violation(tag, txt)
    ctx.notes["oracle_failures"] = len(state["orc"])
    # the two tree-building result targets inside the model (built as its own part: props/C05_targets.py)
    try:
        import importlib
        targets_part = importlib.import_module("props.C05_targets")
    except ImportError:
        targets_part = None
    if targets_part is not None:
        targets_part.run_part(ctx)
    return ctx.finish(LEVEL, explanation="theorems over the Gallina models of tree building / wrapper numbering / chunked output (tied by GenForms.v) + correspondence of the extracted models with the rebuilt library + differential run of every supply form")


def run_robust(impl, lines, last_key, orc, mode, timeout):
    """run the case lines in parallel; when a process dies or exceeds the time limit, the cases without a
    (complete) result are run again one by one, and only a case that fails on its own is reported"""
    rc, res, raw = core.run_lines_parallel(impl, lines, timeout=timeout)
    if rc != 0:
        for line in lines:
            cid = line.split(" ", 1)[0]
            if last_key(cid) in res:
                continue
            rc1, res1, raw1 = core.run_lines(impl, line + "\n", timeout=120)
            res.update(res1)
            if rc1 != 0:
                orc.append(("crash", "the driver %s on this case (mode %s): %s" % (
                    "did not finish within 120 s" if rc1 == 124 else "exited with status %d" % rc1, mode, raw1[-300:]), line))
    return res


def evaluate(ctx, r, impl, model, xalan, scale, state):
    import time
    corr, orc = state["corr"], state["orc"]
    tm = ctx.notes.setdefault("phase_seconds", {})
    t_last = [time.time()]

    def lap(name):
        now = time.time()
        tm[name] = round(tm.get(name, 0) + now - t_last[0], 1)
        t_last[0] = now
    # ------------------------------------------------------------------ B: event streams
    nB = 160 * scale
    b_lines, b_exp = [], {}
    fixed = [
        ("S|61 C|61,62,63 C| E", [("e", "a", [], [("t", "abc")])]),
        ("S|61 C| C|61 C| E", [("e", "a", [], [("t", "a")])]),
        ("S|61 C|61 M|63 C| C|62 E", [("e", "a", [], [("t", "a"), ("c", "c"), ("t", "b")])]),
        ("S|61 C|61 C| M|63 C|62 E", [("e", "a", [], [("t", "a"), ("c", "c"), ("t", "b")])]),
        ("S|61 C|61 P|70|64 C|62 S|62 E C|63 E", [("e", "a", [], [("t", "a"), ("p", "p", "d"), ("t", "b"), ("e", "b", [], []), ("t", "c")])]),
        ("S|61 C| E", [("e", "a", [], [])]),
        ("C|20 M|78 C|a S|61 E C|20", [("c", "x"), ("e", "a", [], [])]),
        ("S|61 C|20 I|20 C|20 E", [("e", "a", [], [("t", " "), ("i", " "), ("t", " ")])]),
    ]
    for i, (ev, top) in enumerate(fixed):
        b_lines.append("bf%d B %s" % (i, ev))
        b_exp["bf%d" % i] = expected_dump(top)
        ctx.count("B:fixed")
    b_lines.append("be0 B C|78 S|61 E"); b_exp["be0"] = "ERR"
    b_lines.append("be1 B S|61 E C|20,78"); b_exp["be1"] = "ERR"
    b_lines.append("be2 B C| C|20 C|78 S|61 E"); b_exp["be2"] = "ERR"
    for i in range(nB):
        top = gen_doc(r, sorted_attrs=False, allow_ign=True)
        ev = events_of(r, top)
        cid = "b%d" % i
        b_lines.append("%s B %s" % (cid, " ".join(ev)))
        b_exp[cid] = expected_dump(top)
        ctx.count("B:generated")
    for i in range(nB // 2):
        ev = random_events(r)
        cid = "br%d" % i
        b_lines.append("%s B %s" % (cid, " ".join(ev)))
        b_exp[cid] = ref_build(ev)
        ctx.count("B:arbitrary-stream" + (":rejected" if b_exp[cid] == "ERR" else ""))
    res_i = run_robust(impl, b_lines, lambda cid: cid, orc, "B", 120 * scale)
    res_m = core.run_lines_parallel(model, b_lines)[1] if model else {}
    lines_by_id = {l.split(" ", 1)[0]: l for l in b_lines}
    for cid, exp in b_exp.items():
        ctx.cov["evaluations"] += 1
        got = res_i.get(cid)
        if ":t:" in exp:
            ctx.cov["distinct_nontrivial"] += 1
        if model:
            ctx.cov["traces_validated_against_impl"] += 1
            if res_m.get(cid) != got:
                corr.append({"mode": "B", "case": lines_by_id[cid][:400], "impl": (got or "")[:300], "model": (res_m.get(cid) or "")[:300]})
        if got != exp:
            orc.append(("build", "tree built from the events differs from the document: got %s expected %s" % ((got or "(none)")[:600], exp[:600]), lines_by_id[cid]))
    lap("B")
    # ------------------------------------------------------------------ W: XML text -> DOM wrapper / native tree / events
    nW = 120 * scale
    w_lines, w_info = [], {}
    for i in range(nW):
        flags = set()
        doctype = r.random() < 0.4
        w_sorted = r.random() < 0.7
        top = gen_doc(r, sorted_attrs=w_sorted)
        id_map = None
        if doctype:
            # text containing the replacement text of the internal entity: serialise() writes some of it as &ent;
            def add_ent(t):
                if t[0] == "e":
                    return ("e", t[1], t[2], [add_ent(k) for k in t[3]])
                if t[0] == "t" and len(t[1]) < 100 and r.random() < 0.6:
                    k = r.randrange(len(t[1]) + 1)
                    return ("t", t[1][:k] + "E1" + t[1][k:])
                return t
            top = [add_ent(t) for t in top]
        if doctype and r.random() < 0.7:
            # declared attribute types, defaults and ID / IDREF(S) values (unique IDs)
            raw_top, top, id_map = apply_dtd(r, top, sorted_attrs=w_sorted, dup_ids=(r.random() < 0.2))
            xml = serialise(r, raw_top, variants=True, doctype=True, flags=flags, dtd=True)
        else:
            xml = serialise(r, top, variants=True, doctype=doctype, flags=flags)
        cid = "w%d" % i
        keep = "r" if r.random() < 0.3 else ""
        if keep and "entity" in flags:
            flags.add("entref")
        w_lines.append(("%s W %s %s" % (cid, xml.encode("utf-8", "surrogatepass").hex(), keep)).strip())
        w_info[cid] = (top, flags, xml, id_map)
        ctx.count("W:" + ("+".join(sorted(flags)) or "plain"))
    # entity references that survive as nodes
    for i, xml in enumerate(['<!DOCTYPE a [<!ENTITY e "zz"><!ENTITY f "<b>q</b>">]><a>x&e;y&f;<![CDATA[c]]></a>',
                             '<!DOCTYPE a [<!ENTITY e "zz">]><!--c--><a b="&e;">&e;</a><?p?>']):
        cid = "wr%d" % i
        w_lines.append("%s W %s r" % (cid, xml.encode().hex()))
        w_info[cid] = (None, {"doctype", "entref"}, xml, None)
    res_i = run_robust(impl, w_lines, lambda cid: cid + "/s", orc, "W", 120 * scale)
    m_lines = []
    for cid in w_info:
        x, s = res_i.get(cid + "/x"), res_i.get(cid + "/s")
        if x not in (None, "ERR"):
            m_lines.append("%s/w W %s" % (cid, x))
        if s not in (None, "ERR"):
            m_lines.append("%s/n B %s" % (cid, s))
    res_m = core.run_lines_parallel(model, m_lines)[1] if model else {}
    w_by_id = {l.split(" ", 1)[0]: l for l in w_lines}
    for cid, (top, flags, xml, id_map) in w_info.items():
        ctx.cov["evaluations"] += 1
        w, n = res_i.get(cid + "/w"), res_i.get(cid + "/n")
        if w is None or n is None or w == "ERR" or n == "ERR":
            orc.append(("crash", "no wrapper / native dump for a well-formed document (w=%s n=%s)" % (str(w)[:40], str(n)[:40]), w_by_id[cid]))
            continue
        if model:
            ctx.cov["traces_validated_against_impl"] += 2
            if res_m.get(cid + "/w") != split_ids(w)[0]:
                corr.append({"mode": "W/wrap", "case": xml[:300], "impl": w[:300], "model": (res_m.get(cid + "/w") or "")[:300]})
            if res_m.get(cid + "/n") != n:
                corr.append({"mode": "W/native-from-recorded-events", "case": xml[:300], "impl": n[:300], "model": (res_m.get(cid + "/n") or "")[:300]})
        (w, w_ids), (n, n_ids) = split_ids(w), split_ids(n)
        wi, ni = parse_dump(w), parse_dump(n)
        # oracle 0: getElementById - native table, Xerces DOM and the generated document agree (unique IDs): the value of an
        # ID attribute finds its element, every other attribute value (IDREF, IDREFS, NMTOKENS, defaults ...) finds nothing
        w_ord = {it[2]: k for k, it in enumerate([it for it in (wi or []) if it[1] == "e"])}
        n_ord = {it[2]: k for k, it in enumerate([it for it in (ni or []) if it[1] == "e"])}
        got_w = {v: w_ord.get(i) for v, i in w_ids.items() if i is not None}
        got_n = {v: n_ord.get(i) for v, i in n_ids.items() if i is not None}
        if got_w != got_n:
            orc.append(("ids", "getElementById differs between the native tree %s and the wrapped Xerces DOM %s (value -> ordinal of the element)" % (got_n, got_w), w_by_id[cid]))
        elif id_map is not None and got_n != id_map:
            orc.append(("ids", "getElementById on the native tree %s differs from the ID attributes of the document %s (value -> ordinal of the element)" % (got_n, id_map), w_by_id[cid]))
        elif id_map is None and top is not None and got_n:
            orc.append(("ids", "getElementById finds elements in a document without ID attributes: %s" % got_n, w_by_id[cid]))
        # oracle 1: native tree = the generated document
        if top is not None:
            ctx.cov["distinct_nontrivial"] += 1
            exp = expected_dump(top)
            if n != exp:
                orc.append(("native", "native tree of the text differs from the generated document: got %s expected %s" % (n[:500], exp[:500]), w_by_id[cid]))
        # oracle 2: both numberings follow document order
        idx = [it[2] for it in ni]
        if idx != list(range(2, 2 + len(idx))):
            orc.append(("index", "native indexes are not 2,3,4,... in document order: %s" % idx[:40], w_by_id[cid]))
        widx = [it[2] for it in wi]
        if any(b <= a for a, b in zip(widx, widx[1:])) or (widx and widx[0] < 2) or ("doctype" not in flags and widx != list(range(2, 2 + len(widx)))):
            orc.append(("index", "wrapper indexes do not increase in document order (element, attributes, children; consecutive without a DOCTYPE): %s" % widx[:60], w_by_id[cid]))
        if any(it[1] == "y" for it in wi):
            orc.append(("wrap-vs-native", "the document type declaration is linked into the wrapper's child chain", w_by_id[cid]))
        # oracle 3: XPath-normal DOM: same nodes in the same order as the native tree
        if not (flags & {"cdata", "entref"}):
            if node_view(wi) != node_view(ni):
                orc.append(("wrap-vs-native", "wrapper view differs from the native tree on an XPath-normal document: %s vs %s" % (str(node_view(wi))[:400], str(node_view(ni))[:400]), w_by_id[cid]))
    lap("W")
    # ------------------------------------------------------------------ O: output stream
    nO = 300 * scale
    o_lines, o_info = [], {}
    for i in range(nO):
        bs = r.choice([0, 1, 2, 3, 4, 7, 8, 16, 64])
        oracle_class = True     # the library is built with assertions: a narrow write on a non-empty buffer aborts
        # the local code page cannot take surrogates; a real transcoder (UTF-8) only once pairs are never split
        enc = r.choice(["u16", "u16", "loc"] + (["UTF-8", "UTF-8"] if STREAM_FIXED[0] else []))
        ws = gen_writes(r, bs, oracle_class, surrogates=(enc != "loc"))
        if r.random() < 0.8:
            ws.append(("f", []))
        cid = "o%d" % i
        o_lines.append("%s O %s %d %s" % (cid, enc, bs, writes_tokens(ws)))
        o_info[cid] = (enc, bs, ws, oracle_class)
        ctx.count("O:%s:%s" % (enc, "flushed-narrow" if oracle_class else "any"))
    for i, (bs, toks) in enumerate([(4, "w|41,42,43,44 f"), (4, "w|41,42,43,44,45,46,47,48 f"), (4, "w|41,42,43 w|44 w|45 f"), (1, "c|41 c|42 c|43 f"),
                                    (512, "w|" + ",".join(["41"] * 512) + " w|42 f"), (512, "w|" + ",".join(["41"] * 1024) + " f")]):
        cid = "of%d" % i
        ws = [(t.split("|")[0], [int(x, 16) for x in t.split("|")[1].split(",")] if "|" in t and t.split("|")[1] else []) for t in toks.split(" ")]
        o_lines.append("%s O u16 %d %s" % (cid, bs, toks))
        o_info[cid] = ("u16", bs, ws, True)
        ctx.count("O:fixed")
    res_i = run_robust(impl, o_lines, lambda cid: cid, orc, "O", 120 * scale)
    m_lines = ["%s O %d %s" % (cid, bs, writes_tokens(ws)) for cid, (enc, bs, ws, oc) in o_info.items()]
    res_m = core.run_lines_parallel(model, m_lines)[1] if model else {}
    o_by_id = {l.split(" ", 1)[0]: l for l in o_lines}
    for cid, (enc, bs, ws, oracle_class) in o_info.items():
        ctx.cov["evaluations"] += 1
        got = res_i.get(cid)
        if got is None:
            orc.append(("crash", "no result in mode O", o_by_id[cid]))
            continue
        toks = got.split(" ")
        chunks_i = [("" if t == "-" else t) for t in toks if not t.startswith("F") and t != "EXC"]
        nflush = [t for t in toks if t.startswith("F")]

        def enc_units(us, wide):
            if wide and enc == "u16":
                return "".join("%02x%02x" % (u & 255, u >> 8) for u in us)
            if wide and enc == "UTF-8":
                return b"".join(bytes((u & 255, u >> 8)) for u in us).decode("utf-16-le", "surrogatepass").encode("utf-8", "surrogatepass").hex()
            return "".join("%02x" % u for u in us)
        if len(chunks_i) >= 2:
            ctx.cov["distinct_nontrivial"] += 1
        if model and cid in res_m:
            ctx.cov["traces_validated_against_impl"] += 1
            mt = res_m[cid].split(" ")
            chunks_m = []
            for t in mt:
                k, _, d = t.partition("|")
                us = [int(x, 16) for x in d.split(",")] if d else []
                if k == "W":
                    chunks_m.append(enc_units(us, True))
                elif k == "N":
                    chunks_m.append(enc_units(us, False))
            if chunks_m != chunks_i:
                corr.append({"mode": "O", "case": o_by_id[cid][:300], "impl": chunks_i[:12], "model": chunks_m[:12]})
        if "EXC" in toks:
            orc.append(("chunks", "the stream raised an exception on well-formed UTF-16 (a surrogate pair was split between two transcoder calls?)", o_by_id[cid]))
        if oracle_class and ws and ws[-1][0] == "f":
            # runs of wide units are encoded as a whole (a pair may arrive in two writes)
            exp, run_ = "", []
            for k, d in ws:
                if k == "n":
                    exp += enc_units(run_, True) + enc_units(d, False)
                    run_ = []
                elif k != "f":
                    run_ = run_ + d
            exp += enc_units(run_, True)
            if "".join(chunks_i) != exp:
                orc.append(("chunks", "callback chunks %s do not concatenate to the written data %s" % (chunks_i[:10], exp[:200]), o_by_id[cid]))
            if nflush and nflush[0] != "F%d" % sum(1 for k, _ in ws if k == "f"):
                orc.append(("chunks", "flush handler called %s times for %d flush() calls" % (nflush[0], sum(1 for k, _ in ws if k == "f")), o_by_id[cid]))
    lap("O")
    # ------------------------------------------------------------------ T: every form
    nT = 70 * scale
    t_cases = []
    for key, (sh, src) in KNOWN_REPLAYS.items():
        if key == "K05e" and STREAM_FIXED[0]:
            t_cases.append({"id": "tf" + key, "sheet": sh, "src": src, "params": [], "flags": set(), "cls": "fixed:" + key, "srcflags": set(), "seed": 1})
            continue
        t_cases.append({"id": "tk" + key, "sheet": sh, "src": src, "params": [], "flags": {"x"} if key != "K05e" else set(), "cls": "known:" + key,
                        "srcflags": {"K05a": {"nsaxis"}, "K05b": {"attrorder"}, "K05e": {"textastral"}}[key], "seed": 1})
    for key, (sh, src) in FIXED_REPLAYS.items():
        t_cases.append({"id": "tf" + key, "sheet": sh, "src": src, "params": [], "flags": {"x"}, "cls": "fixed:" + key, "srcflags": {"doctype"}, "seed": 1})
    for i in range(nT):
        cls, sh, flags = gen_sheet(r)
        srcflags = set()
        # substring() cuts surrogate pairs (C02 K6/K7): no astral characters where the stylesheet uses it
        astral_text = "T8" in flags and (STREAM_FIXED[0] or r.random() < 0.25)
        ALPHA_CUR[0] = ALPHA_BMP if (cls in ("docorder", "keys", "text", "union", "longtext") or ("T8" in flags and not astral_text)) else ALPHA
        unsorted = r.random() < 0.06
        top = [("p", "xml-stylesheet", 'type="text/xsl" href="main.xsl"')] + gen_doc(r, sorted_attrs=not unsorted, size=r.choice([3, 8, 20, 40, 40]))
        if unsorted and attrs_unsorted(top):
            srcflags.add("attrorder")
        if cls == "longtext" or r.random() < 0.15:
            # make sure there is long text crossing the parser / accumulation buffer sizes
            root = [t for t in top if t[0] == "e"][0]
            root[3].insert(0, ("e", "b", [], [("t", rand_text(r, "long"))]))
        ALPHA_CUR[0] = ALPHA
        if astral_text and not STREAM_FIXED[0] and any(ord(ch) > 0xFFFF for ch in str(top)):
            srcflags.add("textastral")      # class K05e (original stream only)
        variants = r.random() < 0.45
        doctype = r.random() < 0.25 or cls in ("doctype-probe", "id-fn")
        if doctype and (cls == "id-fn" or r.random() < 0.6) and not unsorted:
            # declared attribute types, defaults, unique IDs with forward / backward / dangling references
            if cls == "id-fn":
                root = [t for t in top if t[0] == "e"][0]
                for _ in range(r.randrange(2, 6)):
                    root[3].insert(r.randrange(len(root[3]) + 1), ("e", r.choice(DTD_ELEMS), [], []))
            raw_top, _, _ = apply_dtd(r, top, sorted_attrs=True, dup_ids=(r.random() < 0.2))
            src = serialise(r, raw_top, variants=variants, doctype=True, flags=srcflags, dtd=True)
        else:
            src = serialise(r, top, variants=variants, doctype=doctype, flags=srcflags)
        params = []
        if r.random() < 0.5:
            params.append(("par", r.choice(["'v'", "'a b'", "concat('x','y')", "1 div 3"])))
        if r.random() < 0.3:
            params.append(("num", r.choice(["41", "2.5", "-1"])))
        t_cases.append({"id": "t%d" % i, "sheet": sh, "src": src, "params": params, "flags": flags, "cls": cls, "srcflags": srcflags, "seed": r.randrange(1, 1 << 30)})
        ctx.count("T:" + cls)
        if srcflags:
            ctx.count("T:source:" + "+".join(sorted(srcflags)))
    # results whose byte length sits on / next to the multiples of the stream buffer sizes (C-API data buffer,
    # callback chunks, file stream): <?xml version="1.0" encoding="UTF-8"?><out>PAD</out> = 49 + len(PAD) bytes
    exact_sheet = sheet('<xsl:template match="/"><out><xsl:value-of select="/a"/></out></xsl:template>', '<xsl:output method="xml" encoding="UTF-8"/>')
    totals = [255, 256, 257, 511, 512, 513, 768, 1024, 1025, 2048, 4096, 8192]
    for i, total in enumerate(r.sample(totals, 6 if scale == 1 else len(totals))):
        t_cases.append({"id": "tx%d" % i, "sheet": exact_sheet, "src": PI + "<a>" + "".join(r.choice("abcdefgh") for _ in range(total - 49)) + "</a>",
                        "params": [], "flags": {"x"}, "cls": "exact-size", "srcflags": set(), "seed": r.randrange(1, 1 << 30)})
        ctx.count("T:exact-size")
    # malformed source: every form must fail
    t_cases.append({"id": "tbad", "sheet": gen_sheet(r)[1], "src": PI + "<a><b></a>", "params": [], "flags": set(), "cls": "malformed-source", "srcflags": set(), "seed": 3})
    lines = [t_line(c["id"], c["seed"], c["sheet"], c["src"], c["params"], c["flags"]) for c in t_cases]
    res_i = run_robust(impl, lines, lambda cid: cid + "/capi.prebuiltstream_todata", orc, "T", 300 * scale)
    lap("T-driver")
    by_case = {}
    for k, v in res_i.items():
        cid, _, form = k.partition("/")
        by_case.setdefault(cid, {})[form] = v
    samples = []
    workdir = tempfile.mkdtemp(prefix="verif_c05_")
    try:
        for c, line in zip(t_cases, lines):
            forms = by_case.get(c["id"])
            ctx.cov["evaluations"] += 1
            if not forms or "ref" not in forms:
                orc.append(("crash", "no result for the case (driver crashed?)", line))
                continue
            ref = forms["ref"].split(" ")
            ref_ok = ref[0] == "ok"
            ref_bytes = bytes.fromhex(ref[1]) if ref_ok and len(ref) > 1 else b""
            if not ref_ok or len(ref_bytes) > 60:
                ctx.cov["distinct_nontrivial"] += 1
            if len(samples) < 6:
                samples.append("%s [%s] -> %s" % (c["id"], c["cls"], (ref_bytes[:80] if ref_ok else ref[:2])))
            if c["cls"] in ("failing", "malformed-source") and ref_ok:
                orc.append(("status", "a transformation that must fail succeeded in the reference form", line))
            if c["cls"] not in ("failing", "malformed-source") and not ref_ok and "x" in c["flags"]:
                # (xml method only: the text / html methods legitimately fail on characters the encoding cannot represent)
                # a generator / stylesheet mistake would make every form fail alike and the case worthless
                orc.append(("status", "[%s] a transformation that must succeed failed in the reference form: %s" % (
                    c["cls"], bytes.fromhex(ref[2])[:300] if len(ref) > 2 else ref[:2]), line))
            diffs = []
            ncmp = 0
            for form, v in forms.items():
                if form in ("ref", "treeref"):
                    continue
                if v == "skip":
                    continue
                ncmp += 1
                if v != "=":
                    diffs.append((form, v))
            ctx.cov["traces_validated_against_impl"] += 0
            state.setdefault("forms_compared", 0)
            state["forms_compared"] += ncmp
            # the command-line program
            if xalan and (c["id"].startswith("tk") or c["id"].startswith("tf") or r.random() < (0.25 if scale == 1 else 0.1)):
                for variant in (0, 1, 2):
                    st, data = run_cli(xalan, core.lib_dir("plain"), workdir, c["sheet"], c["src"], c["params"], variant)
                    state["forms_compared"] += 1
                    name = "cli.%s" % ("outfile", "pi_stdout", "stdout")[variant]
                    if st == "timeout":
                        diffs.append((name, "timeout"))
                    elif (st == "ok") != ref_ok:
                        diffs.append((name, "%s %s" % (st, data[:200].hex())))
                    elif st == "ok" and data != ref_bytes:
                        diffs.append((name, "ok " + data.hex()))
            if not diffs:
                continue
            # classification
            sf = c["srcflags"]
            rest = []
            for form, v in diffs:
                srcform = form.split(".")[0]
                if "textastral" in sf:
                    state["known_hits"]["K05e"] = state["known_hits"].get("K05e", 0) + 1
                    continue
                if srcform in RAW_DOM_FORMS and "cdata" in sf:
                    state["info"]["cdata-in-unnormalised-dom"] = state["info"].get("cdata-in-unnormalised-dom", 0) + 1
                    continue
                if srcform in DOM_FORMS and "nsaxis" in sf:
                    state["known_hits"]["K05a"] = state["known_hits"].get("K05a", 0) + 1
                    continue
                if srcform in DOM_FORMS and "attrorder" in sf:
                    state["known_hits"]["K05b"] = state["known_hits"].get("K05b", 0) + 1
                    continue
                rest.append((form, v))
            if rest:
                def show(v):
                    p = v.split(" ")
                    if p[0] in ("ok", "tree") and len(p) > 1:
                        try:
                            return p[0] + " " + repr(bytes.fromhex(p[1])[:300])
                        except ValueError:
                            return v[:300]
                    if p[0] == "err" and len(p) > 2:
                        return "err %s %r" % (p[1], bytes.fromhex(p[2])[:200])
                    return v[:300]
                what = "[%s] reference (stream, stylesheet source, std::ostream) = %s; differing forms: %s" % (
                    c["cls"], ("ok " + repr(ref_bytes[:300])) if ref_ok else "err " + " ".join(ref[1:2]),
                    "; ".join("%s -> %s" % (f, show(v)) for f, v in rest[:6]))
                orc.append(("forms", what, line))
    finally:
        shutil.rmtree(workdir, ignore_errors=True)
    lap("T-cli+classify")
    ctx.cov["samples"] = (ctx.cov.get("samples") or []) + samples
    ctx.notes["forms_compared"] = state.get("forms_compared", 0)


def replay(ctx, path):
    core.build_lib("plain")
    impl, ok_h, hlog = core.build_harness("forms", "plain")
    lines = [l for l in open(path) if l.strip() and not l.startswith("#")]
    rc, out = core.sh([impl], input="".join(lines))
    for l in out.split("\n"):
        p = l.split(" ")
        if len(p) >= 2 and p[1] != "=":
            print(l[:2000])
    return 0
