(* DomModel.v — facts about the node table of DomDefs.v and about the structural navigation the
   interpreter uses (first child / next sibling / previous sibling / parent), against the stored
   child lists: the sibling walks of XpDefs.v enumerate exactly the children, the following
   siblings and the preceding siblings (nearest first). *)
From Coq Require Import NArith List Bool Arith Lia.
Require Import XV.XpAst XV.DomDefs XV.NumDefs XV.XpDefs.
Import ListNotations.

(* local well-formedness of a node table: children lists are duplicate-free and agree with the
   parent links; children are not attribute nodes *)
Record wf (d : doc) : Prop := {
  wf_parent : forall i c, In c (n_children (get d i)) ->
      n_parent (get d c) = Some i /\ is_attr_kind (n_kind (get d c)) = false;
  wf_nodup : forall i, NoDup (n_children (get d i))
}.

Lemma next_in_head a l x : a <> x -> next_in (a :: l) x = next_in l x.
Proof.
  intros H. destruct l as [|b r]; cbn [next_in].
  - reflexivity.
  - destruct (Nat.eqb a x) eqn:E; [apply Nat.eqb_eq in E; contradiction | reflexivity].
Qed.

Lemma next_in_here x l : next_in (x :: l) x = hd_error l.
Proof. destruct l as [|b r]; cbn [next_in]; [reflexivity|]. rewrite Nat.eqb_refl. reflexivity. Qed.

Lemma next_in_app pre x post : NoDup (pre ++ x :: post) -> next_in (pre ++ x :: post) x = hd_error post.
Proof.
  induction pre as [|a pre IH]; intros H; cbn [app] in *.
  - apply next_in_here.
  - inversion H as [|? ? Hn Hd]; subst. rewrite next_in_head.
    + apply IH. exact Hd.
    + intros ->. apply Hn. apply in_or_app. right. left. reflexivity.
Qed.

Section Walks.
  Variable d : doc.
  Hypothesis Hwf : wf d.

  Lemma next_sibling_spec p pre x post :
    n_children (get d p) = pre ++ x :: post -> next_sibling d x = hd_error post.
  Proof.
    intros Hc. assert (Hin : In x (n_children (get d p))) by (rewrite Hc; apply in_or_app; right; left; reflexivity).
    destruct (wf_parent d Hwf p x Hin) as [Hp Hk].
    unfold next_sibling. rewrite Hk, Hp, Hc. apply next_in_app. rewrite <- Hc. apply (wf_nodup d Hwf).
  Qed.

  Lemma prev_sibling_spec p pre x post :
    n_children (get d p) = pre ++ x :: post -> prev_sibling d x = hd_error (rev pre).
  Proof.
    intros Hc. assert (Hin : In x (n_children (get d p))) by (rewrite Hc; apply in_or_app; right; left; reflexivity).
    destruct (wf_parent d Hwf p x Hin) as [Hp Hk].
    unfold prev_sibling. rewrite Hk, Hp, Hc.
    rewrite rev_app_distr. simpl. rewrite <- app_assoc. simpl.
    apply next_in_app.
    replace (rev post ++ x :: rev pre) with (rev (pre ++ x :: post)).
    - apply NoDup_rev. rewrite <- Hc. apply (wf_nodup d Hwf).
    - rewrite rev_app_distr. simpl. rewrite <- app_assoc. reflexivity.
  Qed.

  (* walking next-sibling links from a child enumerates the rest of the child list *)
  Lemma siblings_after_suffix p : forall post pre fuel,
    n_children (get d p) = pre ++ post -> length post <= fuel ->
    siblings_after d fuel (hd_error post) = post.
  Proof.
    induction post as [|x post IH]; intros pre fuel Hc Hf.
    - destruct fuel; reflexivity.
    - destruct fuel as [|f]; [simpl in Hf; lia|]. cbn [hd_error siblings_after].
      rewrite (next_sibling_spec p pre x post Hc). f_equal.
      apply (IH (pre ++ [x])); [rewrite <- app_assoc; exact Hc | simpl in Hf; lia].
  Qed.

  Lemma siblings_before_prefix p : forall pre post fuel,
    n_children (get d p) = pre ++ post -> length pre <= fuel ->
    siblings_before d fuel (hd_error (rev pre)) = rev pre.
  Proof.
    intros pre. induction pre as [|x pre IH] using rev_ind; intros post fuel Hc Hf.
    - destruct fuel; reflexivity.
    - rewrite rev_app_distr. simpl. destruct fuel as [|f]; [rewrite app_length in Hf; simpl in Hf; lia|].
      cbn [siblings_before]. rewrite <- app_assoc in Hc. simpl in Hc.
      rewrite (prev_sibling_spec p pre x post Hc). f_equal.
      apply (IH (x :: post)); [exact Hc | rewrite app_length in Hf; simpl in Hf; lia].
  Qed.

  (* child axis: first child, then next siblings = the stored child list *)
  Theorem child_walk p fuel : length (n_children (get d p)) <= fuel ->
    siblings_after d fuel (first_child d p) = n_children (get d p).
  Proof. intros H. unfold first_child. apply (siblings_after_suffix p _ []); [reflexivity | exact H]. Qed.

  (* following-sibling axis from a child x of p: the children after x, in document order *)
  Theorem following_sibling_walk p pre x post fuel :
    n_children (get d p) = pre ++ x :: post -> length post <= fuel ->
    siblings_after d fuel (next_sibling d x) = post.
  Proof.
    intros Hc Hf. rewrite (next_sibling_spec p pre x post Hc).
    apply (siblings_after_suffix p post (pre ++ [x])); [rewrite <- app_assoc; exact Hc | exact Hf].
  Qed.

  (* preceding-sibling axis from a child x of p: the children before x, nearest first *)
  Theorem preceding_sibling_walk p pre x post fuel :
    n_children (get d p) = pre ++ x :: post -> length pre <= fuel ->
    siblings_before d fuel (prev_sibling d x) = rev pre.
  Proof.
    intros Hc Hf. rewrite (prev_sibling_spec p pre x post Hc).
    apply (siblings_before_prefix p pre (x :: post)); assumption.
  Qed.
End Walks.

(** * every document built by [build_doc] is well-formed *)
From Coq Require Import Sorted.

Definition sorted_lt (l : list nat) : Prop := StronglySorted lt l.

(* node [nk] at offset k of a segment starting at id [base]: its children lie inside the segment,
   after it, in increasing order, and point back to it *)
Definition kid_ok (base : nat) (nodes : list node) (k : nat) (nk : node) : Prop :=
  sorted_lt (n_children nk) /\
  forall c, In c (n_children nk) ->
    base + k < c /\
    exists nc, nth_error nodes (c - base) = Some nc /\ n_parent nc = Some (base + k) /\
               is_attr_kind (n_kind nc) = false.

Definition seg_ok (base : nat) (nodes : list node) : Prop :=
  forall k nk, nth_error nodes k = Some nk -> kid_ok base nodes k nk.

Definition root_ok (parent : nat) (nodes : list node) : Prop :=
  exists n0 rest, nodes = n0 :: rest /\ n_parent n0 = Some parent /\ is_attr_kind (n_kind n0) = false.

Lemma nth_error_some_lt {A} (l : list A) k x : nth_error l k = Some x -> k < length l.
Proof. intros H. apply nth_error_Some. congruence. Qed.

Lemma kid_ok_app base l1 l2 k nk : kid_ok base l1 k nk -> kid_ok base (l1 ++ l2) k nk.
Proof.
  intros [Hs Hc]. split; [exact Hs|]. intros c Hin. destruct (Hc c Hin) as [Hlt [nc [Hn Hp]]].
  split; [exact Hlt|]. exists nc. split; [|exact Hp].
  rewrite nth_error_app1; [exact Hn | eapply nth_error_some_lt; eauto].
Qed.

Lemma seg_ok_app base l1 l2 : seg_ok base l1 -> seg_ok (base + length l1) l2 -> seg_ok base (l1 ++ l2).
Proof.
  intros H1 H2 k nk Hk. destruct (Nat.lt_ge_cases k (length l1)) as [Hlt|Hge].
  - rewrite nth_error_app1 in Hk by exact Hlt. apply kid_ok_app. apply H1. exact Hk.
  - rewrite nth_error_app2 in Hk by exact Hge.
    destruct (H2 _ _ Hk) as [Hs Hc]. split; [exact Hs|].
    intros c Hin. destruct (Hc c Hin) as [Hlt [nc [Hn [Hp Ha]]]].
    split; [lia|]. exists nc. split.
    + rewrite nth_error_app2 by lia. replace (c - base - length l1) with (c - (base + length l1)) by lia. exact Hn.
    + split; [rewrite Hp; f_equal; lia | exact Ha].
Qed.

Lemma seg_ok_childless base l : Forall (fun n => n_children n = []) l -> seg_ok base l.
Proof.
  intros H k nk Hk. rewrite Forall_forall in H. apply nth_error_In in Hk. unfold kid_ok. rewrite (H _ Hk).
  split; [constructor | intros c []].
Qed.

Lemma seg_ok_cons base n0 rest :
  kid_ok base (n0 :: rest) 0 n0 -> seg_ok (S base) rest -> seg_ok base (n0 :: rest).
Proof.
  intros H0 Hr [|k] nk Hk; simpl in Hk.
  - inversion Hk; subst. exact H0.
  - destruct (Hr _ _ Hk) as [Hs Hc]. split; [exact Hs|].
    intros c Hin. destruct (Hc c Hin) as [Hlt [nc [Hn [Hp Ha]]]].
    split; [lia|]. exists nc. split.
    + replace (c - base) with (S (c - S base)) by lia. exact Hn.
    + split; [rewrite Hp; f_equal; lia | exact Ha].
Qed.

(* the children loop of build_tree, named *)
Definition build_children (f : nat -> tree -> list node * nat) : list tree -> nat -> list node * list nat * nat :=
  fix go (l : list tree) (cid : nat) : list node * list nat * nat :=
    match l with
    | [] => ([], [], cid)
    | c :: r =>
        let (ns, nx) := f cid c in
        let '(ns', ids', nx') := go r nx in
        (ns ++ ns', cid :: ids', nx')
    end.

Lemma build_tree_elem env parent id impl q a ch :
  build_tree env parent id impl (TElem q a ch) =
  let attrs := impl ++ a in
  let env' := decls_of attrs ++ env in
  let (l, u) := elem_names env' q in
  let nattr := length attrs in
  let '(cn, ids, next) := build_children (fun cid c => build_tree env' id cid [] c) ch (S id + nattr) in
  (mkNode KElem q l u [] (Some parent) (seq (S id) nattr) ids :: map (attr_node env' id) attrs ++ cn, next).
Proof. reflexivity. Qed.

Definition tree_ok (f : nat -> tree -> list node * nat) (pid : nat) (c : tree) : Prop :=
  forall cid ns nx, f cid c = (ns, nx) -> nx = cid + length ns /\ seg_ok cid ns /\ root_ok pid ns.

Lemma build_children_ok f pid ch : Forall (tree_ok f pid) ch -> forall start cn ids next,
  build_children f ch start = (cn, ids, next) ->
  next = start + length cn /\ seg_ok start cn /\ sorted_lt ids /\
  forall c, In c ids -> start <= c /\
    exists nc, nth_error cn (c - start) = Some nc /\ n_parent nc = Some pid /\ is_attr_kind (n_kind nc) = false.
Proof.
  induction 1 as [|c r Hc Hr IH]; intros start cn ids next H; cbn [build_children] in H.
  - inversion H; subst. split; [simpl; lia|]. split; [|split].
    + intros k nk Hk. destruct k; discriminate.
    + constructor.
    + intros c [].
  - destruct (f start c) as [ns nx] eqn:Ef.
    destruct (build_children f r nx) as [[ns' ids'] nx'] eqn:Er. inversion H; subst. clear H.
    destruct (Hc _ _ _ Ef) as [Hnx [Hseg Hroot]]. destruct (IH _ _ _ _ Er) as [Hn' [Hseg' [Hsort' Hids']]].
    destruct Hroot as [n0 [rest [Hns [Hp0 Ha0]]]].
    assert (Hlen : 1 <= length ns) by (rewrite Hns; simpl; lia).
    split; [rewrite app_length; lia|]. split; [|split].
    + apply seg_ok_app; [exact Hseg|]. rewrite <- Hnx. exact Hseg'.
    + constructor; [exact Hsort'|]. apply Forall_forall. intros y Hy. destruct (Hids' y Hy). lia.
    + intros c0 [<-|Hin].
      * split; [lia|]. exists n0. rewrite Nat.sub_diag, Hns. simpl. auto.
      * destruct (Hids' c0 Hin) as [Hge [nc [Hn Hp]]]. split; [lia|]. exists nc. split; [|exact Hp].
        rewrite nth_error_app2 by lia. replace (c0 - start - length ns) with (c0 - nx) by lia. exact Hn.
Qed.

(* induction principle for the nested tree type *)
Section TreeInd.
  Variable P : tree -> Prop.
  Hypothesis Helem : forall q a ch, Forall P ch -> P (TElem q a ch).
  Hypothesis Htext : forall s, P (TTextN s).
  Hypothesis Hcomment : forall s, P (TCommentN s).
  Hypothesis Hpi : forall t dt, P (TPiN t dt).
  Fixpoint tree_ind2 (t : tree) : P t :=
    match t with
    | TElem q a ch =>
        Helem q a ch ((fix go (l : list tree) : Forall P l :=
                         match l with
                         | [] => Forall_nil P
                         | c :: r => Forall_cons c (tree_ind2 c) (go r)
                         end) ch)
    | TTextN s => Htext s
    | TCommentN s => Hcomment s
    | TPiN t dt => Hpi t dt
    end.
End TreeInd.

Lemma attr_node_childless env id a : n_children (attr_node env id a) = [].
Proof.
  unfold attr_node. destruct a as [q v]. destruct (is_nsdecl_name q); [reflexivity|].
  destruct (split_colon q) as [[p l]|]; reflexivity.
Qed.

Lemma leaf_ok parent id n : n_children n = [] -> n_parent n = Some parent -> is_attr_kind (n_kind n) = false ->
  S id = id + length [n] /\ seg_ok id [n] /\ root_ok parent [n].
Proof.
  intros Hc Hp Hk. split; [simpl; lia|]. split.
  - apply seg_ok_childless. constructor; [exact Hc | constructor].
  - exists n, []. auto.
Qed.

Theorem build_tree_ok : forall t env parent id impl nodes next,
  build_tree env parent id impl t = (nodes, next) ->
  next = id + length nodes /\ seg_ok id nodes /\ root_ok parent nodes.
Proof.
  induction t as [q a ch IH|s|s|tg dt] using tree_ind2; intros env parent id impl nodes next H.
  - rewrite build_tree_elem in H. cbv zeta in H.
    set (attrs := impl ++ a) in *. set (env' := decls_of attrs ++ env) in *.
    destruct (elem_names env' q) as [l u].
    destruct (build_children (fun cid c => build_tree env' id cid [] c) ch (S id + length attrs))
      as [[cn ids] nx] eqn:Ec.
    inversion H; subst. clear H.
    assert (HF : Forall (tree_ok (fun cid c => build_tree env' id cid [] c) id) ch).
    { eapply Forall_impl; [|exact IH]. intros c Hc cid ns nx0 Hb. eapply Hc. exact Hb. }
    destruct (build_children_ok _ _ _ HF _ _ _ _ Ec) as [Hnx [Hseg [Hsort Hids]]].
    set (an := map (attr_node env' id) attrs).
    assert (Hlen : length an = length attrs) by (unfold an; apply map_length).
    split; [simpl; rewrite app_length; lia|]. split.
    + apply seg_ok_cons.
      * split; [exact Hsort|]. cbn [n_children]. intros c Hin. destruct (Hids c Hin) as [Hge [nc [Hn Hp]]].
        split; [lia|]. exists nc. split; [|rewrite Nat.add_0_r; exact Hp].
        replace (c - id) with (S (length an + (c - (S id + length attrs)))) by lia.
        simpl. rewrite nth_error_app2 by lia.
        match goal with |- nth_error cn ?i = _ => replace i with (c - (S id + length attrs)) by lia end.
        exact Hn.
      * apply seg_ok_app.
        -- apply seg_ok_childless. apply Forall_forall. intros n Hn. unfold an in Hn.
           apply in_map_iff in Hn. destruct Hn as [x [<- _]]. apply attr_node_childless.
        -- rewrite Hlen. exact Hseg.
    + eexists _, _. split; [reflexivity|]. split; reflexivity.
  - inversion H; subst. apply leaf_ok; reflexivity.
  - inversion H; subst. apply leaf_ok; reflexivity.
  - inversion H; subst. apply leaf_ok; reflexivity.
Qed.

Lemma sorted_lt_nodup l : sorted_lt l -> NoDup l.
Proof.
  induction 1 as [|a l Hs IH Hall]; constructor; [|exact IH].
  intros Hin. rewrite Forall_forall in Hall. specialize (Hall _ Hin). lia.
Qed.

Lemma sorted_lt_snoc l x : sorted_lt l -> (forall y, In y l -> y < x) -> sorted_lt (l ++ [x]).
Proof.
  induction 1 as [|a l Hs IH Hall]; intros Hx; simpl.
  - constructor; constructor.
  - constructor.
    + apply IH. intros y Hy. apply Hx. right. exact Hy.
    + apply Forall_app. split; [exact Hall|]. constructor; [|constructor]. apply Hx. left. reflexivity.
Qed.

Lemma get_nth_error d i n : nth_error d i = Some n -> get d i = n.
Proof. intros H. unfold get. apply nth_error_nth. exact H. Qed.

Lemma get_out_of_range d i : length d <= i -> get d i = dummy_node.
Proof. intros H. unfold get. apply nth_overflow. exact H. Qed.

Lemma seg_ok_wf d : seg_ok 0 d -> wf d.
Proof.
  intros H. split.
  - intros i c Hin. destruct (nth_error d i) as [ni|] eqn:E.
    + rewrite (get_nth_error _ _ _ E) in Hin. destruct (H _ _ E) as [_ Hc].
      destruct (Hc c Hin) as [_ [nc [Hn [Hp Ha]]]]. rewrite Nat.sub_0_r in Hn.
      rewrite (get_nth_error _ _ _ Hn). simpl in Hp. auto.
    + apply nth_error_None in E. rewrite (get_out_of_range _ _ E) in Hin. destruct Hin.
  - intros i. destruct (nth_error d i) as [ni|] eqn:E.
    + rewrite (get_nth_error _ _ _ E). apply sorted_lt_nodup. apply (H _ _ E).
    + apply nth_error_None in E. rewrite (get_out_of_range _ _ E). constructor.
Qed.

(* the accumulator of build_doc's fold *)
Definition doc_step (acc : list node * list nat * nat * bool) (t : tree) :=
  let '(ns, ids, nx, seen) := acc in
  let is_el := match t with TElem _ _ _ => true | _ => false end in
  let impl := if is_el && negb seen then [(s_xmlns_colon ++ s_xml, s_xml_uri)] else [] in
  let (tn, nx') := build_tree [(s_xml, s_xml_uri)] 0 nx impl t in
  (ns ++ tn, ids ++ [nx], nx', seen || is_el).

Definition acc_ok (acc : list node * list nat * nat * bool) : Prop :=
  let '(ns, ids, nx, _) := acc in
  nx = 1 + length ns /\ seg_ok 1 ns /\ sorted_lt ids /\
  forall c, In c ids -> 1 <= c /\ c < nx /\
    exists nc, nth_error ns (c - 1) = Some nc /\ n_parent nc = Some 0 /\ is_attr_kind (n_kind nc) = false.

Lemma doc_step_ok acc t : acc_ok acc -> acc_ok (doc_step acc t).
Proof.
  destruct acc as [[[ns ids] nx] seen]. intros [Hnx [Hseg [Hsort Hids]]]. unfold doc_step.
  match goal with |- context [build_tree _ 0 nx ?i t] => set (impl := i) end.
  destruct (build_tree [(s_xml, s_xml_uri)] 0 nx impl t) as [tn nx'] eqn:E.
  destruct (build_tree_ok _ _ _ _ _ _ _ E) as [Hn' [Hseg' [n0 [rest [Htn [Hp0 Ha0]]]]]].
  unfold acc_ok. split; [rewrite app_length; lia|]. split; [|split].
  - apply seg_ok_app; [exact Hseg|]. replace (1 + length ns) with nx by lia. exact Hseg'.
  - apply sorted_lt_snoc; [exact Hsort|]. intros y Hy. destruct (Hids y Hy). lia.
  - assert (Hl : 1 <= length tn) by (rewrite Htn; simpl; lia).
    intros c Hin. apply in_app_or in Hin. destruct Hin as [Hin|[<-|[]]].
    + destruct (Hids c Hin) as [H1 [H2 [nc [Hn Hp]]]]. split; [lia|]. split; [lia|].
      exists nc. split; [|exact Hp]. rewrite nth_error_app1; [exact Hn | eapply nth_error_some_lt; eauto].
    + split; [lia|]. split; [lia|]. exists n0. split; [|auto].
      rewrite nth_error_app2 by lia. replace (nx - 1 - length ns) with 0 by lia. rewrite Htn. reflexivity.
Qed.

Lemma fold_doc_step_ok top : forall acc, acc_ok acc -> acc_ok (fold_left doc_step top acc).
Proof. induction top as [|t top IH]; intros acc H; simpl; [exact H | apply IH, doc_step_ok, H]. Qed.

Lemma build_doc_eq top :
  build_doc top =
  let '(nodes, ids, _, _) := fold_left doc_step top ([], [], 1, false) in
  mkNode KDoc [35;100;111;99;117;109;101;110;116]%N [] [] [] None [] ids :: nodes.
Proof. reflexivity. Qed.

Theorem build_doc_wf top : wf (build_doc top).
Proof.
  rewrite build_doc_eq.
  assert (H0 : acc_ok ([], [], 1, false)).
  { split; [reflexivity|]. split; [intros k nk Hk; destruct k; discriminate|]. split; [constructor | intros c []]. }
  pose proof (fold_doc_step_ok top _ H0) as H.
  destruct (fold_left doc_step top ([], [], 1, false)) as [[[ns ids] nx] seen].
  destruct H as [Hnx [Hseg [Hsort Hids]]].
  apply seg_ok_wf. apply seg_ok_cons; [|exact Hseg].
  split; [exact Hsort|]. cbn [n_children]. intros c Hin.
  destruct (Hids c Hin) as [H1 [H2 [nc [Hn Hp]]]]. split; [lia|]. exists nc. split; [|exact Hp].
  replace (c - 0) with (S (c - 1)) by lia. exact Hn.
Qed.

(* so, on every document the generators can build, the sibling walks enumerate the child lists *)
Corollary child_axis_on_built_documents top p :
  let d := build_doc top in
  siblings_after d (S (length d)) (first_child d p) = n_children (get d p).
Proof.
  intros d. apply child_walk; [apply build_doc_wf|].
  (* a duplicate-free list of ids below length d is no longer than d *)
  destruct (nth_error d p) as [np|] eqn:E.
  - rewrite (get_nth_error _ _ _ E).
    assert (Hw := build_doc_wf top). fold d in Hw.
    assert (Hnd : NoDup (n_children np)) by (rewrite <- (get_nth_error _ _ _ E); apply (wf_nodup d Hw)).
    assert (Hincl : incl (n_children np) (seq 0 (length d))).
    { intros c Hc. apply in_seq. split; [lia|]. simpl.
      rewrite <- (get_nth_error _ _ _ E) in Hc. destruct (wf_parent d Hw p c Hc) as [Hp _].
      destruct (Nat.lt_ge_cases c (length d)) as [Hlt|Hge]; [exact Hlt|].
      rewrite (get_out_of_range _ _ Hge) in Hp. discriminate. }
    pose proof (NoDup_incl_length Hnd Hincl) as Hl. rewrite seq_length in Hl. lia.
  - apply nth_error_None in E. rewrite (get_out_of_range _ _ E). simpl. lia.
Qed.

(** * parents have smaller ids in every built document (pre-order numbering) *)
Definition par_ok (base : nat) (nodes : list node) : Prop :=
  forall k nk p, nth_error nodes k = Some nk -> n_parent nk = Some p -> p < base + k.

Lemma par_ok_app base l1 l2 : par_ok base l1 -> par_ok (base + length l1) l2 -> par_ok base (l1 ++ l2).
Proof.
  intros H1 H2 k nk p Hk Hp. destruct (Nat.lt_ge_cases k (length l1)) as [Hlt|Hge].
  - rewrite nth_error_app1 in Hk by exact Hlt. eapply H1; eauto.
  - rewrite nth_error_app2 in Hk by exact Hge. specialize (H2 _ _ _ Hk Hp). lia.
Qed.

Lemma par_ok_cons base n0 rest :
  (forall p, n_parent n0 = Some p -> p < base) -> par_ok (S base) rest -> par_ok base (n0 :: rest).
Proof.
  intros H0 Hr [|k] nk p Hk Hp; simpl in Hk.
  - inversion Hk; subst. specialize (H0 _ Hp). lia.
  - specialize (Hr _ _ _ Hk Hp). lia.
Qed.

Lemma attr_node_parent env id a : n_parent (attr_node env id a) = Some id.
Proof.
  unfold attr_node. destruct a as [q v]. destruct (is_nsdecl_name q); [reflexivity|].
  destruct (split_colon q) as [[p l]|]; reflexivity.
Qed.

Definition tree_par (lo : nat) (f : nat -> tree -> list node * nat) (c : tree) : Prop :=
  forall cid ns nx, lo <= cid -> f cid c = (ns, nx) -> nx = cid + length ns /\ par_ok cid ns.

Lemma build_children_par lo f ch : Forall (tree_par lo f) ch -> forall start cn ids next,
  lo <= start -> build_children f ch start = (cn, ids, next) -> next = start + length cn /\ par_ok start cn.
Proof.
  induction 1 as [|c r Hc Hr IH]; intros start cn ids next Hlo H; cbn [build_children] in H.
  - inversion H; subst. split; [simpl; lia|]. intros k nk p Hk. destruct k; discriminate.
  - destruct (f start c) as [ns nx] eqn:Ef.
    destruct (build_children f r nx) as [[ns' ids'] nx'] eqn:Er. inversion H; subst. clear H.
    destruct (Hc _ _ _ Hlo Ef) as [Hnx Hp]. assert (Hlo' : lo <= nx) by lia.
    destruct (IH _ _ _ _ Hlo' Er) as [Hn' Hp'].
    split; [rewrite app_length; lia|]. apply par_ok_app; [exact Hp|]. rewrite <- Hnx. exact Hp'.
Qed.

Theorem build_tree_par : forall t env parent id impl nodes next,
  parent < id -> build_tree env parent id impl t = (nodes, next) ->
  next = id + length nodes /\ par_ok id nodes.
Proof.
  induction t as [q a ch IH|s|s|tg dt] using tree_ind2; intros env parent id impl nodes next Hlt H.
  - rewrite build_tree_elem in H. cbv zeta in H.
    set (attrs := impl ++ a) in *. set (env' := decls_of attrs ++ env) in *.
    destruct (elem_names env' q) as [l u].
    destruct (build_children (fun cid c => build_tree env' id cid [] c) ch (S id + length attrs))
      as [[cn ids] nx] eqn:Ec.
    inversion H; subst. clear H.
    set (an := map (attr_node env' id) attrs).
    assert (Hlen : length an = length attrs) by (unfold an; apply map_length).
    assert (HF : Forall (tree_par (S id) (fun cid c => build_tree env' id cid [] c)) ch).
    { eapply Forall_impl; [|exact IH]. intros c Hc cid ns nx0 Hlo Hb. eapply Hc; [|exact Hb]. lia. }
    assert (Hst : S id <= S id + length attrs) by lia.
    destruct (build_children_par _ _ _ HF _ _ _ _ Hst Ec) as [Hnx Hp].
    split; [simpl; rewrite app_length; lia|].
    apply par_ok_cons.
    + cbn [n_parent]. intros p Hp0. inversion Hp0; subst. exact Hlt.
    + apply par_ok_app.
      * intros k nk p Hk Hp0. unfold an in Hk. apply nth_error_In in Hk as Hin.
        apply in_map_iff in Hin. destruct Hin as [x [<- _]]. rewrite attr_node_parent in Hp0.
        inversion Hp0; subst. lia.
      * rewrite Hlen. exact Hp.
  - inversion H; subst. split; [simpl; lia|]. intros [|k] nk p Hk Hp; simpl in Hk; [|destruct k; discriminate].
    inversion Hk; subst. simpl in Hp. inversion Hp; subst. lia.
  - inversion H; subst. split; [simpl; lia|]. intros [|k] nk p Hk Hp; simpl in Hk; [|destruct k; discriminate].
    inversion Hk; subst. simpl in Hp. inversion Hp; subst. lia.
  - inversion H; subst. split; [simpl; lia|]. intros [|k] nk p Hk Hp; simpl in Hk; [|destruct k; discriminate].
    inversion Hk; subst. simpl in Hp. inversion Hp; subst. lia.
Qed.

Lemma par_ok_get d : par_ok 0 d -> forall x p, parent_of d x = Some p -> p < x.
Proof.
  intros H x p Hp. unfold parent_of in Hp. destruct (nth_error d x) as [nx|] eqn:E.
  - rewrite (get_nth_error _ _ _ E) in Hp. exact (H _ _ _ E Hp).
  - apply nth_error_None in E. rewrite (get_out_of_range _ _ E) in Hp. discriminate.
Qed.

Definition acc_par (acc : list node * list nat * nat * bool) : Prop :=
  let '(ns, _, nx, _) := acc in nx = 1 + length ns /\ par_ok 1 ns.

Lemma doc_step_par acc t : acc_par acc -> acc_par (doc_step acc t).
Proof.
  destruct acc as [[[ns ids] nx] seen]. intros [Hnx Hp]. unfold doc_step.
  match goal with |- context [build_tree _ 0 nx ?i t] => set (impl := i) end.
  destruct (build_tree [(s_xml, s_xml_uri)] 0 nx impl t) as [tn nx'] eqn:E.
  assert (H0 : 0 < nx) by lia.
  destruct (build_tree_par _ _ _ _ _ _ _ H0 E) as [Hn' Hp'].
  unfold acc_par. split; [rewrite app_length; lia|].
  apply par_ok_app; [exact Hp|]. replace (1 + length ns) with nx by lia. exact Hp'.
Qed.

Theorem build_doc_parent_lt top : forall x p, parent_of (build_doc top) x = Some p -> p < x.
Proof.
  apply par_ok_get. rewrite build_doc_eq.
  assert (H0 : acc_par ([], [], 1, false)).
  { split; [reflexivity|]. intros k nk p Hk. destruct k; discriminate. }
  assert (H : acc_par (fold_left doc_step top ([], [], 1, false))).
  { revert H0. generalize ([] : list node, [] : list nat, 1, false). induction top as [|t top IH]; intros acc Ha; simpl.
    - exact Ha.
    - apply IH. apply doc_step_par. exact Ha. }
  destruct (fold_left doc_step top ([], [], 1, false)) as [[[ns ids] nx] seen].
  destruct H as [_ Hp]. apply par_ok_cons; [|exact Hp].
  cbn [n_parent]. intros p Hp0. discriminate.
Qed.
