(* PatModel2.v — C09, part 2: the declarative selection as a right-to-left chain, and the matcher on the
   compiled user steps: exact on '/'-only chains, nearest-ancestor optimal on '//' prefixes. *)
From Coq Require Import List Bool Arith Lia.
Require Import XV.PatDefs XV.PatModel.
Import ListNotations.

(** * the selection, read from the selected node back to the node matched by the first step *)
Fixpoint reach (D : doc) (steps : list (sep * sstep)) (n c : nat) : Prop :=
  match steps with
  | [] => False
  | (_, st) :: r =>
      sstep_ok D st c /\
      match r with
      | [] => n = c
      | (sp2, _) :: _ =>
          exists c2, reach D r n c2 /\
          exists p2, parent D c2 = Some p2 /\
                     match sp2 with SChild => p2 = c | SDesc => In c (aos D p2) end
      end
  end.

Definition expand (D : doc) (sp : sep) (cs : list nat) : list nat :=
  match sp with SChild => cs | SDesc => flat_map (dos D) cs end.

Lemma sel_steps_cons : forall D cs s r,
  sel_steps D cs (s :: r) = sel_steps D (flat_map (spec_step D (snd s)) (expand D (fst s) cs)) r.
Proof. reflexivity. Qed.

Lemma in_dos : forall D c c', In c (dos D c') <->
  c < length D /\ (c = c' \/ (is_attr (kind_of D c) = false /\ In c' (aos D c))).
Proof.
  intros D c c'. unfold dos. rewrite filter_In. unfold nodes. rewrite in_seq.
  rewrite orb_true_iff, andb_true_iff, Nat.eqb_eq, negb_true_iff, mem_In.
  split; intros [H1 H2]; (split; [lia|exact H2]).
Qed.

Lemma reach_first_ok : forall D steps n c, reach D steps n c ->
  exists p, parent D c = Some p.
Proof.
  intros D steps n c H. destruct steps as [|[sp st] r]; [contradiction|].
  destruct H as [[p [Hp _]] _]. exists p. exact Hp.
Qed.

Lemma reach_aos : forall D steps n c, reach D steps n c -> In c (aos D n).
Proof.
  intros D steps. induction steps as [|[sp st] r IH]; intros n c H; [contradiction|].
  cbn [reach] in H. destruct H as [_ H]. destruct r as [|[sp2 st2] r'].
  - subst. apply aos_self.
  - destruct H as [c2 [H2 [p2 [Hp2 H3]]]]. apply IH in H2.
    pose proof (aos_parent_in D c2 n p2 H2 Hp2) as H4.
    destruct sp2; [subst; exact H4|]. eapply aos_trans; eauto.
Qed.

Lemma sel_steps_reach : forall D steps, wf_doc D = true -> steps <> [] -> forall cs n,
  In n (sel_steps D cs steps) <->
  exists c, reach D steps n c /\
            exists p, parent D c = Some p /\
                      In p (expand D (match steps with (sp, _) :: _ => sp | [] => SChild end) cs).
Proof.
  intros D steps W. induction steps as [|[sp st] r IH]; intros Hne cs n; [congruence|].
  rewrite sel_steps_cons. cbn [fst snd].
  destruct r as [|[sp2 st2] r'].
  - cbn [sel_steps fold_left reach]. rewrite in_flat_map. split.
    + intros [p [Hp Hn]]. exists n. split.
      * split; [|reflexivity]. exists p. split; [eapply in_spec_step_parent; eauto|exact Hn].
      * exists p. split; [eapply in_spec_step_parent; eauto|exact Hp].
    + intros [c [[[p' [Hp' Hin]] E] [p [Hp Hex]]]]. subst c.
      rewrite Hp' in Hp. inversion Hp. subst p'. exists p. split; assumption.
  - rewrite (IH ltac:(discriminate)). clear IH. split.
    + intros [c2 [R2 [p2 [Hp2 Hex]]]].
      destruct sp2; cbn [expand] in Hex.
      * apply in_flat_map in Hex. destruct Hex as [p [Hp Hin]].
        exists p2. split.
        -- cbn [reach]. split; [exists p; split; [eapply in_spec_step_parent; eauto|exact Hin]|].
           exists c2. split; [exact R2|]. exists p2. split; [exact Hp2|reflexivity].
        -- exists p. split; [eapply in_spec_step_parent; eauto|exact Hp].
      * apply in_flat_map in Hex. destruct Hex as [c0 [Hc0 Hd]].
        apply in_flat_map in Hc0. destruct Hc0 as [p [Hp Hin]].
        exists c0. split.
        -- cbn [reach]. split; [exists p; split; [eapply in_spec_step_parent; eauto|exact Hin]|].
           exists c2. split; [exact R2|]. exists p2. split; [exact Hp2|].
           apply in_dos in Hd. destruct Hd as [_ [Hd|[_ Hd]]]; [subst; apply aos_self|exact Hd].
        -- exists p. split; [eapply in_spec_step_parent; eauto|exact Hp].
    + intros [c [R [p [Hp Hex]]]]. cbn [reach] in R.
      destruct R as [[p' [Hp' Hin]] [c2 [R2 [p2 [Hp2 Hrel]]]]].
      rewrite Hp' in Hp. inversion Hp. subst p'.
      assert (Hc : In c (flat_map (spec_step D st) (expand D sp cs))).
      { apply in_flat_map. exists p. split; assumption. }
      exists c2. split; [exact R2|]. exists p2. split; [exact Hp2|].
      destruct sp2; cbn [expand].
      * subst p2. exact Hc.
      * apply in_flat_map. exists c. split; [exact Hc|]. apply in_dos. split.
        -- pose proof (parent_lt _ _ _ Hp2). pose proof (parent_valid _ _ _ Hp2). lia.
        -- right. split; [|exact Hrel].
           apply container_not_attr. apply (wf_parent_container D c2 p2 W Hp2).
Qed.

(** * the matcher on compiled user steps *)
Definition is_user (m : mstep) : bool :=
  match m with MAttr _ _ | MAny _ _ _ | MImm _ _ => true | _ => false end.


Lemma user_not_anyfn : forall m, is_user m = true -> is_anyfn m = false.
Proof. intros m. destruct m; simpl; intro H; try discriminate; reflexivity. Qed.

Lemma step_pattern_one : forall D m n,
  step_pattern D [m] n = let (c', s) := body D m [] n in ((if s then c' else None), s).
Proof. reflexivity. Qed.

Lemma step_pattern_cons2 : forall D m m2 rest n,
  step_pattern D (m :: m2 :: rest) n =
  match step_pattern D (m2 :: rest) n with
  | (Some c, true) =>
      match (if is_anyfn m2 then Some c else parent D c) with
      | Some c' => let (c'', s) := body D m (m2 :: rest) c' in ((if s then c'' else None), s)
      | None => (None, false)
      end
  | _ => (None, false)
  end.
Proof.
  intros D m m2 rest n. cbn [step_pattern].
  destruct (match rest with
            | [] => inl n
            | nxt :: _ =>
                match step_pattern D rest n with
                | (Some c, true) =>
                    match (if is_anyfn nxt then Some c else parent D c) with
                    | Some c' => inl c'
                    | None => inr (None, false)
                    end
                | _ => inr (None, false)
                end
            end) as [x|x]; try reflexivity.
  - destruct (body D m2 rest x) as [c'' s]. destruct s; [destruct c''|]; try reflexivity.
    destruct (if is_anyfn m2 then Some n0 else parent D n0); reflexivity.
  - destruct x as [o b]. destruct o; destruct b; try reflexivity.
    destruct (if is_anyfn m2 then Some n0 else parent D n0); reflexivity.
Qed.

(* what a user step at the front can return *)

Definition wf_steps (steps : list (sep * sstep)) : Prop :=
  Forall (fun s => Forall wf_pred (s_preds (snd s))) steps.


Lemma attr_before_desc_unreachable : forall D sp st st2 r' n c, wf_doc D = true ->
  s_attr st = true -> reach D ((sp, st) :: (SDesc, st2) :: r') n c -> False.
Proof.
  intros D sp st st2 r' n c W At H. cbn [reach] in H.
  destruct H as [[p [Hp Hin]] [c2 [_ [p2 [Hp2 Hanc]]]]].
  unfold spec_step in Hin. apply apply_preds_sub in Hin. rewrite At in Hin.
  apply filter_In in Hin. destruct Hin as [Hin _]. apply in_attributes in Hin.
  destruct Hin as [_ Hattr].
  destruct (aos_container D c p2 W Hanc) as [E|E].
  - subst. destruct (wf_parent_container D c2 p2 W Hp2) as [Hc _].
    apply container_not_attr in Hc. congruence.
  - apply container_not_attr in E. congruence.
Qed.

(* soundness needs no guard: whatever the matcher finds is a chain of the expression semantics *)
