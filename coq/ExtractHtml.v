(* Extraction of the C08 "html" model for the correspondence driver. ExtrOcamlBasic only. *)
Require Import ExtrOcamlBasic.
From Coq Require Import ZArith.
Require Import XV.GenHtml XV.HtmlDefs XV.HtmlNsDefs.
(* Z.of_N only so that the type z exists for ocaml/conv.ml *)
Extraction "extracted/html_model.ml" serialize_html serialize_html_b push_has_namespace_clears_buffer no_decls parse_html norm html_ok elem_is attr_is Z.of_N.
