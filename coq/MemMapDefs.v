(* MemMapDefs.v — allocation ledger model of xalanc::XalanMap (Include/XalanMap.hpp) as the code is:
   m_entries / m_freeEntries (two XalanLists of Entry{value*, erased}; nodes move between them by splice, so
   the lists' own node free lists stay empty), m_buckets (a XalanVector of XalanVector<iterator>), lazy list
   sentinels, doCreateEntry (bucket table creation, rehash, value block, entry node, bucket push_back),
   erase with compactBuckets at the erase threshold, clear, swap, copy construction, operator= (copy + swap)
   and the destructor (which calls m_freeEntries.begin() when the bucket table is not empty).
   Keys are numbers hashed by identity.  Definitions only. *)
From Coq Require Import List Arith Bool.
Require Import XV.GenCont XV.GenMem XV.MemDefs.
Import ListNotations.

Record mentry := mkentry { enode : nat; evalue : nat; ekey : nat; eerased : bool }.
Record bucket := mkbucket { bvec : vec; brefs : list nat }.

Record xmap := mkmap {
  mmgr : mgr; msize : nat; mehead : option nat; mfhead : option nat;
  mentries : list mentry; mfrees : list mentry;
  mtab : vec; mbuckets : list bucket;
  mec : nat; mthr : nat; mminb : nat }.

Definition map0 (m : mgr) (minb thr : nat) : xmap :=
  mkmap m 0 None None [] [] (vempty m) [] 0 thr minb.

Definition set_tab (x : xmap) (t : vec) (bs : list bucket) : xmap :=
  mkmap (mmgr x) (msize x) (mehead x) (mfhead x) (mentries x) (mfrees x) t bs (mec x) (mthr x) (mminb x).
Definition set_lists (x : xmap) (sz : nat) (eh fh : option nat) (es fs : list mentry) : xmap :=
  mkmap (mmgr x) sz eh fh es fs (mtab x) (mbuckets x) (mec x) (mthr x) (mminb x).
Definition set_ec (x : xmap) (ec : nat) : xmap :=
  mkmap (mmgr x) (msize x) (mehead x) (mfhead x) (mentries x) (mfrees x) (mtab x) (mbuckets x) ec (mthr x) (mminb x).

Definition bucket0 (m : mgr) : bucket := mkbucket (vempty m) [].

Definition lookup (x : xmap) (node : nat) : option mentry :=
  find (fun e => enode e =? node) (mentries x ++ mfrees x).

Definition ref_live (x : xmap) (k : nat) (node : nat) : bool :=
  match lookup x node with Some e => negb (eerased e) && (ekey e =? k) | None => false end.

Definition ref_erased (x : xmap) (node : nat) : bool :=
  match lookup x node with Some e => eerased e | None => false end.

Definition map_find (x : xmap) (k : nat) : option nat :=
  if msize x =? 0 then None
  else find (ref_live x k) (brefs (nth (k mod (vsize (mtab x))) (mbuckets x) (bucket0 0))).

Fixpoint upd_nth {A} (i : nat) (f : A -> A) (l : list A) : list A :=
  match l, i with
  | [], _ => []
  | a :: t, O => f a :: t
  | a :: t, S j => a :: upd_nth j f t
  end.

(* lazily allocated sentinel of one of the two entry lists *)
Definition get_ehead (m : mgr) (hd : option nat) (h : heap) : heap * option nat * bool :=
  match hd with
  | Some _ => (h, hd, true)
  | None => match alloc m TAG_MNODE 1 h with
            | (h1, Some id) => (h1, Some id, true)
            | (h1, None) => (h1, None, false)
            end
  end.

Definition buckets_dtor (bs : list bucket) (h : heap) : heap :=
  fold_left (fun h b => vec_dtor (bvec b) h) bs h.

(* bucket.push_back(ref) *)
Definition bucket_push (b : bucket) (node : nat) (h : heap) : heap * bucket * bool :=
  let '(h1, v1, ok) := vec_push TAG_BREF (bvec b) h in
  (h1, if ok then mkbucket v1 (brefs b ++ [node]) else b, ok).

(* rehash(): a new table of size*1.6 buckets filled from m_entries, swapped in; the old one destroyed *)
Fixpoint rehash_fill (es : list mentry) (n : nat) (bs : list bucket) (h : heap) : heap * list bucket * bool :=
  match es with
  | [] => (h, bs, true)
  | e :: r =>
      let i := ekey e mod n in
      let '(h1, b1, ok) := bucket_push (nth i bs (bucket0 0)) (enode e) h in
      if ok then rehash_fill r n (upd_nth i (fun _ => b1) bs) h1
      else (h1, bs, false)
  end.

Definition rehash (x : xmap) (h : heap) : heap * xmap * bool :=
  let n := msize x * map_grow_num / map_grow_den in
  match vec_insert_end TAG_BUCKET (vempty (mmgr x)) n h with
  | (h1, t, false) => (h1, x, false)
  | (h1, t, true) =>
      match rehash_fill (mentries x) n (repeat (bucket0 (mmgr x)) n) h1 with
      | (h2, bs, false) => (vec_dtor t (buckets_dtor bs h2), x, false)
      | (h2, bs, true) => (vec_dtor (mtab x) (buckets_dtor (mbuckets x) h2), set_tab x t bs, true)
      end
  end.

(* doCreateEntry(key).  [ge] = false: the code as found (K-new-2: m_freeEntries.push_back(Entry(allocate(1))) loses the
   value block when the head node or the node of the free list is refused); [ge] = true: the repaired code
   (theValue = allocate(1); try { push_back(Entry(theValue)); } catch(...) { deallocate(theValue); throw; }).
   The value of [ge] for this tree is GenMem.map_entry_guarded. *)
Definition create_entry (ge : bool) (x : xmap) (k : nat) (h : heap) : heap * xmap * bool :=
  (* 1. no buckets yet: m_buckets.insert(begin(), m_minBuckets, BucketType(manager)) *)
  let '(h1, x1, ok1) :=
    if vsize (mtab x) =? 0 then
      match vec_insert_end TAG_BUCKET (mtab x) (mminb x) h with
      | (h1, t, true) => (h1, set_tab x t (repeat (bucket0 (mmgr x)) (mminb x)), true)
      | (h1, _, false) => (h1, x, false)
      end
    else (h, x, true) in
  if negb ok1 then (h1, x1, false) else
  (* 2. load factor reached: rehash *)
  let '(h2, x2, ok2) :=
    if vsize (mtab x1) <? msize x1 * map_default_lf_num / map_default_lf_den then rehash x1 h1 else (h1, x1, true) in
  if negb ok2 then (h2, x2, false) else
  let idx := k mod (vsize (mtab x2)) in
  (* 4. m_freeEntries.empty() does not create the head node of the free-entries list any more (K8 repair);
        push_back does: Entry(allocate(1)) is evaluated first, then end() creates the head node, then the node *)
  let '(h3, fh, ok3) := if list_empty_nonallocating then (h2, mfhead x2, true) else get_ehead (mmgr x2) (mfhead x2) h2 in
  let x3 := set_lists x2 (msize x2) (mehead x2) fh (mentries x2) (mfrees x2) in
  if negb ok3 then (h3, x3, false) else
  let '(h4, x4, ok4) :=
    match mfrees x3 with
    | _ :: _ => (h3, x3, true)
    | [] =>
        match alloc (mmgr x3) TAG_MVALUE 1 h3 with                 (* Entry(allocate(1)) *)
        | (h4, None) => (h4, x3, false)
        | (h4, Some v) =>
            match get_ehead (mmgr x3) (mfhead x3) h4 with          (* m_freeEntries.push_back: end() *)
            | (h4', fh', false) => (if ge then free (mmgr x3) v h4' else h4', x3, false)   (* ge = false: the value block is lost *)
            | (h4', fh', true) =>
                match alloc (mmgr x3) TAG_MNODE 1 h4' with          (* ... and a fresh node *)
                | (h5, None) => (if ge then free (mmgr x3) v h5 else h5,
                                 set_lists x3 (msize x3) (mehead x3) fh' (mentries x3) (mfrees x3), false)   (* ge = false: lost *)
                | (h5, Some nd) =>
                    (h5, set_lists x3 (msize x3) (mehead x3) fh' (mentries x3) [mkentry nd v 0 false], true)
                end
            end
        end
    end in
  if negb ok4 then (h4, x4, false) else
  (* newEntry = m_freeEntries.back(): key constructed, erased = false *)
  let e0 := last (mfrees x4) (mkentry 0 0 0 false) in
  let e := mkentry (enode e0) (evalue e0) k false in
  let fr := removelast (mfrees x4) in
  (* 5. m_entries.end() creates the sentinel of the entries list; splice *)
  let '(h5, eh, ok5) := get_ehead (mmgr x4) (mehead x4) h4 in
  if negb ok5 then (h5, set_lists x4 (msize x4) eh (mfhead x4) (mentries x4) (fr ++ [e]), false) else
  let x5 := set_lists x4 (msize x4) eh (mfhead x4) (mentries x4 ++ [e]) fr in
  (* 6. m_buckets[index].push_back(--m_entries.end()) *)
  let '(h6, b6, ok6) := bucket_push (nth idx (mbuckets x5) (bucket0 0)) (enode e) h5 in
  if negb ok6 then
    (if map_bucket_push_guarded
     then (* K23 repair: doRemoveEntry takes the entry out again: pair destroyed, entry on the free list, erased *)
          (h6, set_lists x4 (msize x4) eh (mfhead x4) (mentries x4) (fr ++ [mkentry (enode e) (evalue e) k true]), false)
     else (h6, x5, false))         (* the entry is in m_entries but in no bucket; m_size not incremented *)
  else
  let x6 := set_tab x5 (mtab x5) (upd_nth idx (fun _ => b6) (mbuckets x5)) in
  (h6, set_lists x6 (S (msize x6)) (mehead x6) (mfhead x6) (mentries x6) (mfrees x6), true).

(* insert(key, value): find(key) ends in end() unless the key is found, and "pos == end()" calls end()
   again: the sentinel of m_entries is allocated here when the map was never used *)
Definition with_ehead (x : xmap) (h : heap) : heap * xmap * bool :=
  let '(h1, eh, ok) := get_ehead (mmgr x) (mehead x) h in
  (h1, set_lists x (msize x) eh (mfhead x) (mentries x) (mfrees x), ok).

Definition map_insert (ge : bool) (x : xmap) (k : nat) (h : heap) : heap * xmap * bool :=
  match with_ehead x h with
  | (h1, x1, false) => (h1, x1, false)
  | (h1, x1, true) =>
      match map_find x1 k with
      | Some _ => (h1, x1, true)
      | None => create_entry ge x1 k h1
      end
  end.

(* doRemoveEntry: splice to the end of m_freeEntries, erased = true *)
Definition remove_entry (x : xmap) (node : nat) : xmap :=
  match find (fun e => enode e =? node) (mentries x) with
  | None => x
  | Some e =>
      set_lists x (pred (msize x)) (mehead x) (mfhead x)
                (filter (fun e => negb (enode e =? node)) (mentries x))
                (mfrees x ++ [mkentry (enode e) (evalue e) (ekey e) true])
  end.

Fixpoint remove_entries (fuel : nat) (x : xmap) : xmap :=
  match fuel with
  | O => x
  | S f => if msize x =? 0 then x
           else match mentries x with
                | e :: _ => remove_entries f (remove_entry x (enode e))
                | [] => x
                end
  end.

(* compactBuckets *)
Fixpoint compact (x : xmap) (todo done : list bucket) (h : heap) : heap * list bucket * bool :=
  match todo with
  | [] => (h, done, true)
  | b :: r =>
      let refs := filter (fun nd => negb (ref_erased x nd)) (brefs b) in
      let v := vset_size (bvec b) (length refs) in
      let extra := vcap v - vsize v in
      if vsize v <? extra then
        let newcap := if vsize v =? 0 then map_min_bucket_size else extra in
        match vec_copy TAG_BREF v (mmgr x) newcap h with
        | (h1, None) => (h1, done ++ mkbucket v refs :: r, false)
        | (h1, Some t) => let '(v', t') := vec_swap v t in compact x r (done ++ [mkbucket v' refs]) (vec_dtor t' h1)
        end
      else compact x r (done ++ [mkbucket v refs]) h
  end.

Definition map_erase (x0 : xmap) (k : nat) (h0 : heap) : heap * xmap * bool :=
  match with_ehead x0 h0 with
  | (h, x, false) => (h, x, false)
  | (h, x, true) =>
  match map_find x k with
  | None => (h, x, true)
  | Some nd =>
      let x1 := set_ec (remove_entry x nd) (S (mec x)) in
      if mec x1 =? mthr x1 then
        match compact x1 (mbuckets x1) [] h with
        | (h1, bs, true) => (h1, set_ec (set_tab x1 (mtab x1) bs) 0, true)
        | (h1, bs, false) => (h1, set_tab x1 (mtab x1) bs, false)
        end
      else (h, x1, true)
  end
  end.

Definition map_clear (x : xmap) : xmap :=
  let x1 := if map_clear_recycles then remove_entries (length (mentries x)) x else x in
  set_ec (set_tab x1 (mtab x1) (map (fun b => mkbucket (vset_size (bvec b) 0) []) (mbuckets x1))) 0.

(* members destroyed in reverse order of declaration: m_buckets, m_freeEntries, m_entries (~XalanList is
   guarded: nothing happens for a list without sentinel) *)
Definition members_dtor (x : xmap) (h : heap) : heap :=
  let h1 := vec_dtor (mtab x) (buckets_dtor (mbuckets x) h) in
  let h2 := match mfhead x with
            | Some hd => free (mmgr x) hd (free_all (mmgr x) (map enode (mfrees x)) h1)
            | None => h1
            end in
  match mehead x with
  | Some hd => free (mmgr x) hd (free_all (mmgr x) (map enode (mentries x)) h2)
  | None => h2
  end.

(* ~XalanMap; ok = false: the manager refused an allocation inside the destructor *)
Definition map_dtor (x : xmap) (h : heap) : heap * bool :=
  let x1 := remove_entries (length (mentries x)) x in
  (* K8 repair: m_freeEntries.begin() only when the free list has entries (then it has its head node) *)
  let enter := if map_dtor_guard_buckets then negb (vsize (mtab x1) =? 0) && negb (length (mfrees x1) =? 0) else true in
  if enter then
    match get_ehead (mmgr x1) (mfhead x1) h with                    (* m_freeEntries.begin() *)
    | (h1, _, false) => (h1, false)
    | (h1, fh, true) =>
        let h2 := if map_dtor_frees_values then free_all (mmgr x1) (map evalue (mfrees x1)) h1 else h1 in
        (members_dtor (set_lists x1 (msize x1) (mehead x1) fh (mentries x1) (mfrees x1)) h2, true)
    end
  else (members_dtor x1 h, true).

(* XalanMap(rhs, manager): buckets = size_type(loadFactor * rhs.size()) + 1, then insert every entry;
   when an insert throws, the members are destroyed; [gc] = false (the code as found): but not the values (the
   destructor body does not run); [gc] = true (repaired: try { ... } catch(...) { doReleaseEntries(); throw; }, and
   ~XalanMap() { doReleaseEntries(); }): the entries copied so far are destroyed and their blocks released, exactly
   as the destructor would.  The value of [gc] for this tree is GenMem.map_copy_guarded. *)
Fixpoint copy_fill (ge : bool) (es : list mentry) (x : xmap) (h : heap) : heap * xmap * bool :=
  match es with
  | [] => (h, x, true)
  | e :: r => match map_insert ge x (ekey e) h with
              | (h1, x1, true) => copy_fill ge r x1 h1
              | (h1, x1, false) => (h1, x1, false)
              end
  end.

Definition map_copy (ge gc : bool) (rhs : xmap) (m : mgr) (h : heap) : heap * xmap * option xmap :=
  let n := msize rhs * map_default_lf_num / map_default_lf_den + 1 in
  match vec_insert_end TAG_BUCKET (vempty m) n h with
  | (h1, _, false) => (h1, rhs, None)
  | (h1, t, true) =>
      let x0 := mkmap m 0 None None [] [] t (repeat (bucket0 m) n) 0 (mthr rhs) (mminb rhs) in
      match with_ehead rhs h1 with                               (* theRhs.begin() allocates in the SOURCE map *)
      | (h2, rhs1, false) => (members_dtor x0 h2, rhs1, None)
      | (h2, rhs1, true) =>
          match copy_fill ge (mentries rhs1) x0 h2 with
          | (h3, x1, true) => (h3, rhs1, Some x1)
          | (h3, x1, false) => (if gc then fst (map_dtor x1 h3) else members_dtor x1 h3, rhs1, None)
          end
      end
  end.

(* operator=(rhs): XalanMap theTemp(rhs, *m_memoryManager); swap(theTemp); ~theTemp *)
Definition map_assign (ge gc : bool) (x rhs : xmap) (h : heap) : heap * xmap * xmap * bool :=
  match map_copy ge gc rhs (mmgr x) h with
  | (h1, rhs1, None) => (h1, x, rhs1, false)
  | (h1, rhs1, Some t) =>
      (* swap exchanges everything except m_minBuckets (const) and the load factor *)
      let x' := mkmap (mmgr t) (msize t) (mehead t) (mfhead t) (mentries t) (mfrees t) (mtab t) (mbuckets t)
                      (mec t) (mthr t) (mminb x) in
      let t' := mkmap (mmgr x) (msize x) (mehead x) (mfhead x) (mentries x) (mfrees x) (mtab x) (mbuckets x)
                      (mec x) (mthr x) (mminb t) in
      let '(h2, ok) := map_dtor t' h1 in (h2, x', rhs1, ok)
  end.

Definition map_swap (a b : xmap) : xmap * xmap :=
  (mkmap (mmgr b) (msize b) (mehead b) (mfhead b) (mentries b) (mfrees b) (mtab b) (mbuckets b) (mec b) (mthr b) (mminb a),
   mkmap (mmgr a) (msize a) (mehead a) (mfhead a) (mentries a) (mfrees a) (mtab a) (mbuckets a) (mec a) (mthr a) (mminb b)).

Inductive mop := MInsert (i : bool) (k : nat) | MErase (i : bool) (k : nat) | MClear (i : bool) | MAssign (i : bool) | MSwap.

Definition mstep (ge gc : bool) (op : mop) (w : xmap * xmap) (h : heap) : heap * (xmap * xmap) * bool :=
  let lift (i : bool) (r : heap * xmap * bool) := let '(h1, x1, ok) := r in (h1, upd i w x1, ok) in
  match op with
  | MInsert i k => lift i (map_insert ge (sel i w) k h)
  | MErase i k => lift i (map_erase (sel i w) k h)
  | MClear i => (h, upd i w (map_clear (sel i w)), true)
  | MAssign i => let '(h1, x1, r1, ok) := map_assign ge gc (sel i w) (sel (negb i) w) h in
                 (h1, upd (negb i) (upd i w x1) r1, ok)
  | MSwap => let '(a, b) := map_swap (fst w) (snd w) in (h, (a, b), true)
  end.

Definition mobs (w : xmap * xmap) : list nat := [msize (fst w); msize (snd w)].

Definition map_case_g (ge gc : bool) (f : option nat) (minb thr : nat) (ops : list mop) : result :=
  let '(t, w, h) := run_trace _ _ (mstep ge gc) mobs ops (map0 0 minb thr, map0 1 minb thr) (heap0 f) in
  let '(h1, ok1) := map_dtor (fst w) (clear_log h) in
  let '(h2, ok2) := if ok1 then map_dtor (snd w) h1 else (h1, false) in
  mkresult t (ok1 && ok2) (rev (log h2)) (length (live h2)) (bad h2).

(* this tree: the shapes of doCreateEntry() and of the copy constructor found by the translator *)
Definition map_case := map_case_g map_entry_guarded map_copy_guarded.
