(* XpSpecArithModel.v -- the arithmetic of XpDefs.v (DoubleSupport.cpp as coded: add, subtract,
   multiply, divide with its explicit zero-divisor branches, modulus = std::fmod behind NaN and
   zero-divisor guards) against IEEE 754 as formalised by Flocq (mode_NE = round to nearest,
   ties to even), through the SpecFloat <-> Binary bridge of XpSpecSubstrAuxModel.v.
   XPath 1.0 section 3.5: "The div operator performs floating-point division according to
   IEEE 754.  The mod operator returns the remainder from a truncating division." *)
From Coq Require Import ZArith Lia Reals SpecFloat List Bool Lra Psatz.
From Flocq Require Import Core IEEE754.BinarySingleNaN.
Require Import XV.GenNum XV.NumDefs XV.NumModel XV.NumFlocq XV.XpAst XV.DomDefs XV.XpDefs.
Require Import XV.XpSpecSubstrAuxModel.
Local Open Scope Z_scope.

(** * (1) DoubleSupport::divide is IEEE 754 division *)

(* for every pair of spec_floats (validity is not even needed): the NaN tests and the three
   zero-divisor branches return what SFdiv returns: NaN operand -> NaN, 0/0 -> NaN,
   x/(+-0) and inf/(+-0) -> infinity with the xor of the signs *)
Theorem d_div_is_ieee : forall x y : dbl, d_div x y = SFdiv prec emax x y.
Proof.
  intros [sx|sx| |sx mx ex] [sy|sy| |sy my ey]; try reflexivity;
  destruct sx, sy; reflexivity.
Qed.

Lemma SFdiv_Bdiv : forall x y : bfloat,
  SFdiv prec emax (B2SF x) (B2SF y) = B2SF (Bdiv mode_NE x y).
Proof.
  intros [sx|sx| |sx mx ex Hx] [sy|sy| |sy my ey Hy]; try reflexivity.
  unfold Bdiv. rewrite B2SF_SF2B. cbn [B2SF SFdiv].
  destruct (SFdiv_core_binary prec emax (Z.pos mx) ex (Z.pos my) ey) as [[mz ez] lz].
  apply binary_round_aux_equiv.
Qed.

(* ... and SFdiv is Flocq's Bdiv in mode_NE *)
Theorem d_div_Bdiv : forall x y (Vx : valid_binary prec emax x = true)
                            (Vy : valid_binary prec emax y = true),
  d_div x y = B2SF (Bdiv mode_NE (SF2B x Vx) (SF2B y Vy)).
Proof.
  intros x y Vx Vy. rewrite d_div_is_ieee, <- SFdiv_Bdiv, !B2SF_SF2B. reflexivity.
Qed.

(** * (3) add, subtract, multiply are Flocq's operations in mode_NE *)

Lemma SFmul_Bmult : forall x y : bfloat,
  SFmul prec emax (B2SF x) (B2SF y) = B2SF (Bmult mode_NE x y).
Proof.
  intros [sx|sx| |sx mx ex Hx] [sy|sy| |sy my ey Hy]; try reflexivity.
  unfold Bmult. rewrite B2SF_SF2B. cbn [B2SF SFmul].
  apply binary_round_aux_equiv.
Qed.

Theorem d_add_Bplus : forall x y (Vx : valid_binary prec emax x = true)
                             (Vy : valid_binary prec emax y = true),
  d_add x y = B2SF (Bplus mode_NE (SF2B x Vx) (SF2B y Vy)).
Proof. intros. unfold d_add. rewrite <- SFadd_Bplus, !B2SF_SF2B. reflexivity. Qed.

Theorem d_sub_Bminus : forall x y (Vx : valid_binary prec emax x = true)
                              (Vy : valid_binary prec emax y = true),
  d_sub x y = B2SF (Bminus mode_NE (SF2B x Vx) (SF2B y Vy)).
Proof. intros. unfold d_sub. rewrite <- SFsub_Bminus, !B2SF_SF2B. reflexivity. Qed.

Theorem d_mul_Bmult : forall x y (Vx : valid_binary prec emax x = true)
                             (Vy : valid_binary prec emax y = true),
  d_mul x y = B2SF (Bmult mode_NE (SF2B x Vx) (SF2B y Vy)).
Proof. intros. unfold d_mul. rewrite <- SFmul_Bmult, !B2SF_SF2B. reflexivity. Qed.

(* the results are doubles again *)
Theorem arith_valid : forall x y,
  valid_binary prec emax x = true -> valid_binary prec emax y = true ->
  valid_binary prec emax (d_add x y) = true /\ valid_binary prec emax (d_sub x y) = true /\
  valid_binary prec emax (d_mul x y) = true /\ valid_binary prec emax (d_div x y) = true.
Proof.
  intros x y Vx Vy.
  rewrite (d_add_Bplus x y Vx Vy), (d_sub_Bminus x y Vx Vy), (d_mul_Bmult x y Vx Vy),
          (d_div_Bdiv x y Vx Vy).
  repeat split; apply valid_binary_B2SF.
Qed.

(* Real-number characterisation.  [fin x v] (XpSpecSubstrAuxModel.v): x is a valid finite double
   of real value v.  [arith_result r v]: r is the finite double of value rnd v (round to nearest
   even of v in binary64), or r = +infinity and rnd v >= 2^1024, or r = -infinity and
   rnd v <= -2^1024. *)

Lemma overflow_sign1 : forall (s : bool) (v : R),
  ((if s then v <= 0 else 0 <= v) -> bigR <= Rabs (rnd v) ->
   if s then rnd v <= - bigR else bigR <= rnd v)%R.
Proof.
  intros s v Hv Hb.
  generalize (overflow_sign s v 0). rewrite Rplus_0_r. intros H. apply H; auto.
  destruct s; lra.
Qed.

Lemma sign_xor : forall (sx sy : bool) (vx vy : R),
  ((if sx then vx <= 0 else 0 <= vx) -> (if sy then vy <= 0 else 0 <= vy) ->
   if xorb sx sy then vx * vy <= 0 else 0 <= vx * vy)%R.
Proof. intros [|] [|] vx vy; simpl; intros; nra. Qed.

Lemma Bsign_value : forall bx : bfloat, is_finite bx = true ->
  (if Bsign bx then B2R bx <= 0 else 0 <= B2R bx)%R.
Proof.
  intros bx F. destruct (Bsign bx) eqn:S.
  - now apply Bsign_true_le0.
  - now apply Bsign_false_ge0.
Qed.

Theorem d_add_correct : forall x y vx vy, fin x vx -> fin y vy ->
  arith_result (d_add x y) (vx + vy).
Proof. exact fin_add. Qed.

Theorem d_sub_correct : forall x y vx vy, fin x vx -> fin y vy ->
  arith_result (d_sub x y) (vx - vy).
Proof. exact fin_sub. Qed.

Theorem d_mul_correct : forall x y vx vy, fin x vx -> fin y vy ->
  arith_result (d_mul x y) (vx * vy).
Proof.
  intros x y vx vy Hx Hy.
  destruct (fin_B _ _ Hx) as (bx & -> & Fx & <-).
  destruct (fin_B _ _ Hy) as (by_ & -> & Fy & <-).
  unfold d_mul. rewrite SFmul_Bmult.
  generalize (Bmult_correct prec emax _ _ mode_NE bx by_).
  change (round_mode mode_NE) with ZnearestE.
  destruct (Rlt_bool_spec (Rabs (rnd (B2R bx * B2R by_))) (bpow radix2 emax)) as [Hlt|Hge].
  - intros (E & F & _). left. rewrite <- E. apply B_fin. now rewrite F, Fx, Fy.
  - intros E. rewrite E. right.
    assert (Hs := overflow_sign1 (xorb (Bsign bx) (Bsign by_)) (B2R bx * B2R by_)
                    (sign_xor _ _ _ _ (Bsign_value bx Fx) (Bsign_value by_ Fy)) Hge).
    destruct (xorb (Bsign bx) (Bsign by_)); [right|left]; split; auto.
Qed.

Theorem d_div_correct : forall x y vx vy, fin x vx -> fin y vy -> vy <> 0%R ->
  arith_result (d_div x y) (vx / vy).
Proof.
  intros x y vx vy Hx Hy Hnz.
  destruct (fin_B _ _ Hx) as (bx & -> & Fx & <-).
  destruct (fin_B _ _ Hy) as (by_ & -> & Fy & <-).
  rewrite d_div_is_ieee, SFdiv_Bdiv.
  generalize (Bdiv_correct prec emax _ _ mode_NE bx by_ Hnz).
  change (round_mode mode_NE) with ZnearestE.
  destruct (Rlt_bool_spec (Rabs (rnd (B2R bx / B2R by_))) (bpow radix2 emax)) as [Hlt|Hge].
  - intros (E & F & _). left. rewrite <- E. apply B_fin. now rewrite F.
  - intros E. rewrite E. right.
    assert (Hi : (if Bsign by_ then / B2R by_ <= 0 else 0 <= / B2R by_)%R).
    { generalize (Bsign_value by_ Fy). destruct (Bsign by_); intros H.
      - apply Rlt_le, Rinv_lt_0_compat. lra.
      - apply Rlt_le, Rinv_0_lt_compat. lra. }
    assert (Hs := overflow_sign1 (xorb (Bsign bx) (Bsign by_)) (B2R bx / B2R by_)
                    (sign_xor _ _ _ _ (Bsign_value bx Fx) Hi) Hge).
    destruct (xorb (Bsign bx) (Bsign by_)); [right|left]; split; auto.
Qed.

(** * (2) DoubleSupport::modulus: the truncating remainder, exactly *)

(* special cases, for all spec_floats *)
Theorem d_mod_special : forall x y : dbl,
  (d_is_nan x = true -> d_mod x y = S754_nan) /\
  (d_is_nan y = true -> d_mod x y = S754_nan) /\
  (d_is_zero y = true -> d_mod x y = S754_nan) /\
  (is_finite_SF x = false -> d_mod x y = S754_nan) /\
  (is_finite_SF x = true -> (exists s, y = S754_infinity s) -> d_mod x y = x) /\
  (d_is_zero x = true -> is_finite_SF y = true -> d_is_zero y = false -> d_mod x y = x).
Proof.
  intros [sx|sx| |sx mx ex] [sy|sy| |sy my ey]; repeat split; intros; try reflexivity;
  try discriminate; try (destruct H0 as [s H0]; discriminate).
Qed.

Lemma rem_signs : forall (sx sy : bool) (X Y : Z), 0 <= X -> 0 < Y ->
  Z.rem (cond_Zopp sx X) (cond_Zopp sy Y) = cond_Zopp sx (X mod Y).
Proof.
  intros sx sy X Y HX HY.
  assert (E : Z.rem X Y = X mod Y) by (apply Z.rem_mod_nonneg; lia).
  destruct sx, sy; cbn [cond_Zopp];
  rewrite ?Z.rem_opp_l, ?Z.rem_opp_r by lia; rewrite ?E; reflexivity.
Qed.

(* real value of the truncating remainder of two numbers on a common exponent *)
Lemma trunc_rem_common : forall (SX SY e : Z), SY <> 0 ->
  let vx := F2R (Float radix2 SX e) in
  let vy := F2R (Float radix2 SY e) in
  (vx - vy * IZR (Ztrunc (vx / vy)))%R = F2R (Float radix2 (Z.rem SX SY) e).
Proof.
  intros SX SY e Hnz vx vy. unfold vx, vy, F2R. cbn [Fnum Fexp].
  assert (Hb : bpow radix2 e <> 0%R) by (apply Rgt_not_eq, bpow_gt_0).
  assert (Hy : IZR SY <> 0%R) by (now apply IZR_neq).
  replace (IZR SX * bpow radix2 e / (IZR SY * bpow radix2 e))%R with (IZR SX / IZR SY)%R
    by (field; auto).
  rewrite Ztrunc_div by exact Hnz.
  rewrite (Z.rem_eq SX SY) by exact Hnz.
  rewrite minus_IZR, mult_IZR. ring.
Qed.

Lemma fmod_finite : forall sx mx ex sy my ey,
  bounded prec emax mx ex = true -> bounded prec emax my ey = true ->
  let x := S754_finite sx mx ex in
  let y := S754_finite sy my ey in
  let vx := SF2R radix2 x in
  let vy := SF2R radix2 y in
  fin (d_fmod x y) (vx - vy * IZR (Ztrunc (vx / vy))) /\ sign_SF (d_fmod x y) = sx.
Proof.
  intros sx mx ex sy my ey Bx By_ x y vx vy.
  set (e := Z.min ex ey).
  set (X := Z.pos mx * 2 ^ (ex - e)). set (Y := Z.pos my * 2 ^ (ey - e)).
  assert (HX : 0 < X) by (apply Z.mul_pos_pos; [lia|apply Z.pow_pos_nonneg; lia]).
  assert (HY : 0 < Y) by (apply Z.mul_pos_pos; [lia|apply Z.pow_pos_nonneg; lia]).
  assert (Ex : vx = F2R (Float radix2 (cond_Zopp sx X) e)).
  { unfold vx, x, SF2R. rewrite (F2R_change_exp radix2 e) by lia.
    f_equal. f_equal. unfold X. change (radix2 ^ (ex - e)) with (2 ^ (ex - e)).
    destruct sx; cbn [cond_Zopp]; lia. }
  assert (Ey : vy = F2R (Float radix2 (cond_Zopp sy Y) e)).
  { unfold vy, y, SF2R. rewrite (F2R_change_exp radix2 e) by lia.
    f_equal. f_equal. unfold Y. change (radix2 ^ (ey - e)) with (2 ^ (ey - e)).
    destruct sy; cbn [cond_Zopp]; lia. }
  assert (ET : (vx - vy * IZR (Ztrunc (vx / vy)))%R
               = F2R (Float radix2 (cond_Zopp sx (X mod Y)) e)).
  { rewrite Ex, Ey, trunc_rem_common by (destruct sy; cbn [cond_Zopp]; lia).
    rewrite rem_signs by lia. reflexivity. }
  rewrite ET.
  assert (HR := Z.mod_pos_bound X Y HY).
  assert (HRX : X mod Y <= X) by (apply Z.mod_le; lia).
  change (d_fmod x y) with
    (match X mod Y with
     | 0 => S754_zero sx
     | Z.pos r => SpecFloat.binary_round prec emax sx r e
     | Z.neg _ => d_nan
     end).
  destruct (X mod Y) as [|r|r] eqn:ER; [| |lia].
  - split; [|reflexivity]. repeat split.
    replace (cond_Zopp sx 0) with 0 by (destruct sx; reflexivity). cbn [SF2R]. now rewrite F2R_0.
  - rewrite binary_round_equiv.
    generalize (binary_round_correct prec emax _ _ mode_NE sx r e).
    cbv zeta. change (round_mode mode_NE) with ZnearestE.
    set (x0 := F2R (Float radix2 (cond_Zopp sx (Z.pos r)) e)).
    (* |x0| <= |vx| and |x0| <= |vy| *)
    assert (Hax : (Rabs x0 <= Rabs vx)%R).
    { unfold x0. rewrite Ex, <- !F2R_Zabs, !abs_cond_Zopp. apply F2R_le. lia. }
    assert (Hay : (Rabs x0 <= Rabs vy)%R).
    { unfold x0. rewrite Ey, <- !F2R_Zabs, !abs_cond_Zopp. apply F2R_le. lia. }
    assert (Hx0 : x0 <> 0%R).
    { unfold x0. apply F2R_neq_0. cbn [Fnum]. destruct sx; cbn [cond_Zopp]; lia. }
    assert (Cx : cexp radix2 dfexp vx = ex).
    { symmetry. exact (canonical_bounded prec emax sx mx ex Bx). }
    assert (Cy : cexp radix2 dfexp vy = ey).
    { symmetry. exact (canonical_bounded prec emax sy my ey By_). }
    assert (G : generic_format radix2 dfexp x0).
    { unfold x0. apply generic_format_F2R. intros _. fold x0.
      assert (cexp radix2 dfexp x0 <= ex).
      { rewrite <- Cx. unfold cexp. apply monotone_exp; [exact dfexp_monotone|].
        now apply mag_le_abs. }
      assert (cexp radix2 dfexp x0 <= ey).
      { rewrite <- Cy. unfold cexp. apply monotone_exp; [exact dfexp_monotone|].
        now apply mag_le_abs. }
      unfold e. lia. }
    rewrite round_generic by (auto with typeclass_instances).
    rewrite Rlt_bool_true.
    + intros (V & E & F & S). split; [repeat split; assumption|exact S].
    + apply Rle_lt_trans with (1 := Hax).
      exact (abs_B2R_lt_emax prec emax (B754_finite sx mx ex Bx)).
Qed.

(* XPath 1.0 section 3.5: for finite x and finite non-zero y, x mod y is a finite double whose
   value is exactly x - y * trunc(x / y) -- no rounding error -- and whose sign is that of x
   (also when the remainder is zero: -4 mod 2 = -0) *)
Theorem mod_exact : forall x y vx vy, fin x vx -> fin y vy -> vy <> 0%R ->
  fin (d_mod x y) (vx - vy * IZR (Ztrunc (vx / vy))) /\ sign_SF (d_mod x y) = sign_SF x.
Proof.
  intros x y vx vy (Vx & Fx & Ex) (Vy & Fy & Ey) Hnz.
  destruct x as [sx|sx| |sx mx ex]; try discriminate;
  destruct y as [sy|sy| |sy my ey]; try discriminate.
  - simpl in Ey. congruence.
  - split; [|reflexivity]. change (d_mod (S754_zero sx) (S754_finite sy my ey)) with (S754_zero sx).
    repeat split. simpl in Ex. subst vx. unfold Rdiv. rewrite Rmult_0_l.
    rewrite Ztrunc_IZR. simpl. ring.
  - simpl in Ey. congruence.
  - subst vx vy.
    change (d_mod (S754_finite sx mx ex) (S754_finite sy my ey))
      with (d_fmod (S754_finite sx mx ex) (S754_finite sy my ey)).
    exact (fmod_finite sx mx ex sy my ey Vx Vy).
Qed.

(* the hypotheses are satisfiable and the sign rule is visible: 5 mod -3 = 2, -5 mod 3 = -2,
   -4 mod 2 = -0, 5 mod 0 = NaN *)
Example mod_examples :
  let d z := long_to_double z in
  d_mod (d 5) (d (-3)) = d 2 /\ d_mod (d (-5)) (d 3) = d (-2) /\
  d_mod (d (-4)) (d 2) = S754_zero true /\ d_mod (d 5) (d 0) = S754_nan /\
  fin (d 5) 5%R /\ fin (d (-3)) (-3)%R.
Proof.
  repeat split; try (vm_compute; reflexivity).
  - apply (isint_of_Z false 5). simpl; lia.
  - apply (isint_of_Z false (-3)). simpl; lia.
Qed.
