<?xml version="1.0"?>
<!-- succeeding counterpart of fail_rtf_key.xsl -->
<xsl:stylesheet version="1.0" xmlns:xsl="http://www.w3.org/1999/XSL/Transform"
                xmlns:exsl="http://exslt.org/common" exclude-result-prefixes="exsl">
  <xsl:key name="k" match="item" use="@id"/>
  <xsl:template match="/">
    <xsl:variable name="rtf">
      <list><item id="a">1</item><item id="b">2</item><item id="c">3</item></list>
    </xsl:variable>
    <out>
      <xsl:for-each select="exsl:node-set($rtf)/list/item">
        <xsl:sort select="." order="descending"/>
        <v><xsl:number/>:<xsl:value-of select="key('k', 'b')"/>:<xsl:value-of select="format-number(., '0.0')"/></v>
      </xsl:for-each>
      <xsl:for-each select="/doc/item"><w><xsl:value-of select="key('k', @id)"/></w></xsl:for-each>
    </out>
  </xsl:template>
</xsl:stylesheet>
