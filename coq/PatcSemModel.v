(* PatcSemModel.v — C09 part "compile": the composition of the pattern compiler, the expression compiler and the matcher. *)
From Coq Require Import List NArith Bool Arith Lia.
Import ListNotations.
Require Import XV.XpAst XV.GenXpc XV.XpcLexDefs XV.XpcParseDefs XV.XpcPrintDefs XV.XpcPrintFacts XV.XpcPrintModel.
Require Import XV.PatcDefs XV.PatcPrintDefs XV.PatcPrintModel XV.PatcExprModel XV.PatcSemDefs XV.PatcShapeModel.
Require XV.PatDefs XV.PatModel XV.PatModel2 XV.PatModel3.

Definition interp_ok (I : interp) : Prop := forall p, PatModel.wf_pred (i_pred I p).

Lemma isnil_ne : forall (A : Type) (l : list A), negb (isnil l) = true -> l <> [].
Proof. intros A [|x l] H; [discriminate|discriminate]. Qed.

(* the op codes the pattern compiler wrote are the ones PatDefs.compile derives from the surface path *)
Lemma compile_steps_agree : forall I D r sp acc left, shape_psteps r = true ->
  PatDefs.compile_steps D acc left (ssteps_of I sp r) = msteps_of I D acc left r.
Proof.
  intros I D. induction r as [|[[k t] ps] r IH]; intros sp acc left Hc; [reflexivity|].
  cbn [shape_psteps] in Hc. apply andb_prop in Hc. destruct Hc as [Hc Hrec]. apply andb_prop in Hc. destruct Hc as [Hk Hany].
  cbn [ssteps_of PatDefs.compile_steps msteps_of mstep_of sstep_of PatDefs.s_attr PatDefs.s_test PatDefs.s_preds].
  assert (E : (if is_attr_kind k then PatDefs.MAttr (i_test I t) (map (i_pred I) ps)
               else if PatDefs.next_is_desc (ssteps_of I (sep_behind (k, t, ps)) r)
                    then PatDefs.MAny (i_test I t) (map (i_pred I) ps) (PatDefs.left_check D acc left)
                    else PatDefs.MImm (i_test I t) (map (i_pred I) ps)) =
              match k with
              | PkAttribute => PatDefs.MAttr (i_test I t) (map (i_pred I) ps)
              | PkAnyAncestor => PatDefs.MAny (i_test I t) (map (i_pred I) ps) (PatDefs.left_check D acc left)
              | _ => PatDefs.MImm (i_test I t) (map (i_pred I) ps)
              end).
  { unfold sep_behind. cbn [fst]. destruct k; try discriminate; cbn [is_attr_kind is_any]; try reflexivity.
    - destruct r; reflexivity.
    - destruct r as [|s r']; [discriminate|]. reflexivity. }
  rewrite E. f_equal. apply IH. exact Hrec.
Qed.

Lemma compile_agree_shape : forall I D a, shape_lp a = true ->
  PatDefs.compile D (path_of_lp I a) = compiled_of I D a.
Proof.
  intros I D a Hc. unfold shape_lp, path_of_lp, compiled_of in *. destruct (split_head a) as [h r].
  apply andb_prop in Hc. destruct Hc as [Hc Hc0].
  unfold PatDefs.compile.
  destruct h as [| | |f|f]; cbn [PatDefs.p_head PatDefs.p_steps PatDefs.head_steps mhead_of].
  - cbn [app]. apply compile_steps_agree; auto.
  - assert (N : PatDefs.next_is_desc (ssteps_of I PatDefs.SChild r) = false) by (destruct r; reflexivity).
    rewrite N. f_equal. apply compile_steps_agree; auto.
  - assert (N : PatDefs.next_is_desc (ssteps_of I PatDefs.SDesc r) = true) by (destruct r; [discriminate|reflexivity]).
    rewrite N. f_equal. apply compile_steps_agree; auto.
  - assert (N : PatDefs.next_is_desc (ssteps_of I PatDefs.SChild r) = false) by (destruct r; reflexivity).
    rewrite N. f_equal. apply compile_steps_agree; auto.
  - assert (N : PatDefs.next_is_desc (ssteps_of I PatDefs.SDesc r) = true) by (destruct r; [discriminate|reflexivity]).
    rewrite N. f_equal. apply compile_steps_agree; auto.
Qed.

Lemma compile_agree : forall I D a, canon_lp a = true ->
  PatDefs.compile D (path_of_lp I a) = compiled_of I D a.
Proof. intros I D a H. apply compile_agree_shape. apply canon_shape_lp. exact H. Qed.

(* the expression steps are the pattern steps read as child / attribute / descendant-or-self::node() steps *)
Lemma esteps_path_agree : forall I r sp, canon_psteps r = true -> (r = [] -> sp = PatDefs.SChild) ->
  esteps_path I sp (esteps_of r) = Some (ssteps_of I sp r).
Proof.
  intros I. induction r as [|[[k t] ps] r IH]; intros sp Hc Hsp.
  - rewrite (Hsp eq_refl). reflexivity.
  - cbn [canon_psteps] in Hc. andbs Hc.
    change (esteps_of ((k, t, ps) :: r)) with (estep_of (k, t, ps) ++ esteps_of r).
    unfold estep_of. cbn [ssteps_of sstep_of]. unfold sep_behind. cbn [fst].
    destruct k; try discriminate; cbn [is_attr_kind is_any app esteps_path].
    + rewrite IH; auto. 
    + rewrite IH; auto.
    + (* any: the dos step *)
      assert (NE : r <> []) by (destruct r; [discriminate|discriminate]).
      assert (IH' := IH PatDefs.SDesc Hc0 ltac:(intros; congruence)).
      unfold step_dos. cbn [esteps_path]. rewrite IH'. reflexivity.
Qed.

Lemma esteps_first_not_root : forall r, match esteps_of r with (AxRoot, _, _) :: _ => False | _ => True end.
Proof. intros [|[[k t] ps] r]; cbn; [exact I|]. destruct (is_attr_kind k); exact I. Qed.

Lemma path_of_expr_agree : forall I a, canon_lp a = true ->
  path_of_expr I (expr_of_lp a) = Some (path_of_lp I a).
Proof.
  intros I a Hc. unfold canon_lp, expr_of_lp, path_of_lp in *. destruct (split_head a) as [h r]. andbs Hc.
  destruct h as [| | |f|f].
  - apply isnil_ne in Hc0. cbn [path_of_expr].
    pose proof (esteps_path_agree I r PatDefs.SChild Hc ltac:(intros; reflexivity)) as E.
    destruct r as [|[[k t] ps] r']; [congruence|].
    change (esteps_of ((k, t, ps) :: r')) with (((if is_attr_kind k then AxAttribute else AxChild), t, ps) :: (if is_any k then [step_dos] else []) ++ esteps_of r') in *.
    destruct (is_attr_kind k); rewrite E; reflexivity.
  - unfold step_root. cbn [path_of_expr].
    rewrite (esteps_path_agree I r PatDefs.SChild Hc ltac:(intros; reflexivity)). reflexivity.
  - apply isnil_ne in Hc0. unfold step_root. cbn [path_of_expr].
    assert (X : esteps_path I PatDefs.SChild (step_dos :: esteps_of r) = esteps_path I PatDefs.SDesc (esteps_of r)) by reflexivity.
    rewrite X. rewrite (esteps_path_agree I r PatDefs.SDesc Hc ltac:(intros; congruence)). reflexivity.
  - destruct f; try discriminate Hc0.
    destruct r as [|s r']; [reflexivity|]. cbn [path_of_expr].
    rewrite (esteps_path_agree I (s :: r') PatDefs.SChild Hc ltac:(intros; reflexivity)). reflexivity.
  - destruct f; try discriminate Hc0. apply andb_prop in Hc0. destruct Hc0 as [_ Hne]. apply isnil_ne in Hne.
    cbn [path_of_expr].
    assert (X : esteps_path I PatDefs.SChild (step_dos :: esteps_of r) = esteps_path I PatDefs.SDesc (esteps_of r)) by reflexivity.
    rewrite X. rewrite (esteps_path_agree I r PatDefs.SDesc Hc ltac:(intros; congruence)). reflexivity.
Qed.

Lemma ssteps_wf : forall I r sp, interp_ok I -> PatModel2.wf_steps (ssteps_of I sp r).
Proof.
  intros I r. induction r as [|[[k t] ps] r IH]; intros sp HI; [constructor|].
  cbn [ssteps_of]. constructor; [|apply IH; exact HI].
  cbn [snd sstep_of PatDefs.s_preds]. apply Forall_forall. intros p Hp. apply in_map_iff in Hp.
  destruct Hp as [q [<- _]]. apply HI.
Qed.

Lemma path_of_lp_wf_shape : forall I a, interp_ok I -> shape_lp a = true -> PatModel3.wf_path (path_of_lp I a).
Proof.
  intros I a HI Hc. unfold shape_lp, path_of_lp in *. destruct (split_head a) as [h r].
  apply andb_prop in Hc. destruct Hc as [Hc Hc0].
  destruct h as [| | |f|f]; split; cbn [PatDefs.p_steps]; try apply ssteps_wf; auto; try reflexivity.
  apply isnil_ne in Hc0. destruct r; [congruence|reflexivity].
Qed.
Lemma path_of_lp_wf : forall I a, interp_ok I -> canon_lp a = true -> PatModel3.wf_path (path_of_lp I a).
Proof. intros I a HI H. apply path_of_lp_wf_shape; auto. apply canon_shape_lp. exact H. Qed.

Lemma alts_of_expr_of : forall P, P <> [] -> forallb canon_lp P = true -> alts_of (expr_of P) = map expr_of_lp P.
Proof.
  intros [|a [|b r]] NE Hc; [congruence| |reflexivity].
  cbn [expr_of map]. cbn [forallb] in Hc. apply andb_prop in Hc. destruct Hc as [Hc _].
  unfold alts_of, expr_of_lp, canon_lp in *. destruct (split_head a) as [h q]. andbs Hc.
  destruct h; try reflexivity. destruct q; [|reflexivity]. destruct f; try discriminate Hc0. reflexivity.
Qed.

Theorem compose_m : forall fl pf ns P, pcanon P = true -> S (dep_pattern P) <= gen_xpc_max_nesting ->
  pparse fl pf ns (ppr P) = Ok P /\ parse fl ns (ppr P) = Ok (expr_of P) /\
  forall I D n, interp_ok I -> PatDefs.wf_doc D = true -> n < length D ->
    (pattern_matches I D P n = true <-> expr_selects I D (expr_of P) n).
Proof.
  intros fl pf ns P Hc Hd. split; [apply pattern_parse_print_m; auto; lia|].
  split; [apply pattern_as_expression_m; auto|].
  intros I D n HI W Hn.
  unfold pcanon in Hc. apply andb_prop in Hc. destruct Hc as [H1 H2]. apply isnil_ne in H1.
  assert (M : pattern_matches I D P n = PatDefs.matches D (map (path_of_lp I) P) n).
  { unfold pattern_matches, PatDefs.matches.
    clear H1 Hd. induction P as [|a r IH]; [reflexivity|].
    cbn [forallb] in H2. apply andb_prop in H2. destruct H2 as [Ha Hr].
    cbn [existsb map]. unfold PatDefs.match_path at 1. rewrite (compile_agree I D a Ha). rewrite IH; auto. }
  rewrite M.
  rewrite (PatModel3.matches_iff_selects D (map (path_of_lp I) P) n W).
  2:{ intros p Hp. apply in_map_iff in Hp. destruct Hp as [a [<- Ha]]. apply path_of_lp_wf; auto.
      rewrite forallb_forall in H2. apply H2. exact Ha. }
  2: exact Hn.
  unfold PatDefs.selects, expr_selects. rewrite (alts_of_expr_of P H1 H2). split.
  - intros (p & a0 & Hp & Ha & Hs). apply in_map_iff in Hp. destruct Hp as [a [<- Hin]].
    exists (expr_of_lp a), (path_of_lp I a), a0. repeat split; auto.
    + apply in_map. exact Hin.
    + apply path_of_expr_agree. rewrite forallb_forall in H2. apply H2. exact Hin.
  - intros (x & p & a0 & Hx & Hp & Ha & Hs). apply in_map_iff in Hx. destruct Hx as [a [<- Hin]].
    rewrite path_of_expr_agree in Hp by (rewrite forallb_forall in H2; apply H2; exact Hin).
    inversion Hp; subst. exists (path_of_lp I a), a0. repeat split; auto. apply in_map. exact Hin.
Qed.

(* for EVERY token list the pattern compiler accepts (no empty alternative): the matcher on the op codes it wrote says
   "match" iff the surface path read back from those op codes selects the node from some ancestor-or-self context *)
Theorem accepted_pattern_matches_iff_selects_m : forall fl pf ns ts P, pparse fl pf ns ts = Ok P -> no_empty_alt P = true ->
  forall I D n, interp_ok I -> PatDefs.wf_doc D = true -> n < length D ->
    (pattern_matches I D P n = true <-> PatDefs.selects D (map (path_of_lp I) P) n).
Proof.
  intros fl pf ns ts P H NE I D n HI W Hn.
  pose proof (compiled_shape_m fl pf ns ts P H) as Sh.
  assert (Sh2 : forall a, In a P -> shape_lp a = true).
  { intros a Ha. rewrite Forall_forall in Sh. destruct (Sh a Ha) as [->|S]; [|exact S].
    unfold no_empty_alt in NE. rewrite forallb_forall in NE. specialize (NE [] Ha). discriminate. }
  assert (M : pattern_matches I D P n = PatDefs.matches D (map (path_of_lp I) P) n).
  { unfold pattern_matches, PatDefs.matches. clear H NE Sh.
    induction P as [|a r IH]; [reflexivity|].
    cbn [existsb map]. unfold PatDefs.match_path at 1. rewrite (compile_agree_shape I D a (Sh2 a (or_introl eq_refl))).
    rewrite IH; auto. intros b Hb. apply Sh2. right. exact Hb. }
  rewrite M. apply PatModel3.matches_iff_selects; auto.
  intros p Hp. apply in_map_iff in Hp. destruct Hp as [a [<- Ha]]. apply path_of_lp_wf_shape; auto.
Qed.
