(* KeyWalk.v — the construction walk of KeyTable visits every node once, in document order *)
From Coq Require Import List NArith Bool Arith Lia Sorted Permutation.
Require Import XV.KeyDefs.
Import ListNotations.

(* ---------- equality tests ---------- *)
Lemma str_eqb_eq : forall a b, str_eqb a b = true <-> a = b.
Proof.
  induction a as [|x a IH]; destruct b as [|y b]; simpl; split; intro H; try congruence; try discriminate.
  - apply andb_true_iff in H. destruct H as [H1 H2]. apply N.eqb_eq in H1. apply IH in H2. congruence.
  - inversion H; subst. apply andb_true_iff. split. apply N.eqb_refl. apply IH. reflexivity.
Qed.

Lemma str_eqb_refl : forall a, str_eqb a a = true.
Proof. intro a. apply str_eqb_eq. reflexivity. Qed.

Lemma str_eqb_sym : forall a b, str_eqb a b = str_eqb b a.
Proof.
  intros a b. destruct (str_eqb a b) eqn:E.
  - apply str_eqb_eq in E. subst. symmetry. apply str_eqb_refl.
  - destruct (str_eqb b a) eqn:F; auto. apply str_eqb_eq in F. subst. rewrite str_eqb_refl in E. discriminate.
Qed.

Lemma rpath_eqb_eq : forall a b, rpath_eqb a b = true <-> a = b.
Proof.
  induction a as [|x a IH]; destruct b as [|y b]; simpl; split; intro H; try congruence; try discriminate.
  - apply andb_true_iff in H. destruct H as [H1 H2]. apply Nat.eqb_eq in H1. apply IH in H2. congruence.
  - inversion H; subst. apply andb_true_iff. split. apply Nat.eqb_refl. apply IH. reflexivity.
Qed.

Lemma node_eqb_eq : forall a b, node_eqb a b = true <-> a = b.
Proof.
  destruct a as [p|p i], b as [q|q j]; simpl; split; intro H; try congruence; try discriminate.
  - apply rpath_eqb_eq in H. congruence.
  - inversion H. apply rpath_eqb_eq. reflexivity.
  - apply andb_true_iff in H. destruct H as [H1 H2]. apply rpath_eqb_eq in H1. apply Nat.eqb_eq in H2. congruence.
  - inversion H; subst. apply andb_true_iff. split. apply rpath_eqb_eq; reflexivity. apply Nat.eqb_refl.
Qed.

Lemma node_eqb_refl : forall a, node_eqb a a = true.
Proof. intro a. apply node_eqb_eq. reflexivity. Qed.

Lemma node_eqb_neq : forall a b, node_eqb a b = false <-> a <> b.
Proof.
  intros a b. split.
  - intros H E. subst. rewrite node_eqb_refl in H. discriminate.
  - intro H. destruct (node_eqb a b) eqn:E; auto. apply node_eqb_eq in E. contradiction.
Qed.

(* ---------- tree induction ---------- *)
Section TreeInd.
  Variable P : tree -> Prop.
  Hypothesis step : forall k na kids, Forall P kids -> P (T k na kids).
  Fixpoint tree_ind2 (t : tree) : P t :=
    match t with
    | T k na kids =>
        step k na kids
          ((fix go (l : list tree) : Forall P l :=
              match l with
              | [] => Forall_nil P
              | c :: r => Forall_cons c (tree_ind2 c) (go r)
              end) kids)
    end.
End TreeInd.

(* ---------- sub ---------- *)
Lemma fsub_app : forall a t b,
  fsub t (a ++ b) = match fsub t a with Some s => fsub s b | None => None end.
Proof.
  induction a as [|i a IH]; intros t b; simpl; auto.
  destruct (nth_error (kids_of t) i); auto.
Qed.

Lemma sub_cons : forall t i p,
  sub t (i :: p) = match sub t p with Some s => nth_error (kids_of s) i | None => None end.
Proof.
  intros t i p. unfold sub. simpl. rewrite fsub_app. destruct (fsub t (rev p)); auto.
  simpl. destruct (nth_error (kids_of t0) i); auto.
Qed.

Lemma sub_nil : forall t, sub t [] = Some t.
Proof. reflexivity. Qed.

(* ---------- the attribute loop ---------- *)
Lemma attr_loop_S : forall m pos test k na,
  attr_loop (S m) pos test k na =
  test :: (if k <? na then attr_loop m pos (NAttr pos k) (S k) na else attr_loop m pos test k na).
Proof. reflexivity. Qed.

Lemma attr_loop_eq : forall m pos test k na, k + m = na ->
  attr_loop (S m) pos test k na = test :: map (NAttr pos) (seq k m).
Proof.
  induction m as [|m IH]; intros pos test k na H.
  - simpl. assert (E : (k <? na) = false) by (apply Nat.ltb_ge; lia). rewrite E. reflexivity.
  - rewrite attr_loop_S. assert (E : (k <? na) = true) by (apply Nat.ltb_lt; lia). rewrite E.
    rewrite (IH pos (NAttr pos k) (S k) na) by lia. reflexivity.
Qed.

Lemma visit_eq : forall t p, visit t p = NSelf p :: map (NAttr p) (seq 0 (nattrs t p)).
Proof. intros t p. unfold visit. apply attr_loop_eq. reflexivity. Qed.

(* ---------- walkf is a fold over the visiting sequence ---------- *)
Lemma fold_snoc : forall (l acc : list node), fold_left (fun a n => a ++ [n]) l acc = acc ++ l.
Proof.
  induction l as [|x l IH]; intro acc; simpl. now rewrite app_nil_r.
  rewrite IH. rewrite <- app_assoc. reflexivity.
Qed.

Lemma walkf_unfold : forall (S : Type) (step : S -> node -> S) f t pos s,
  walkf step (Datatypes.S f) t pos s =
  match next_pos t pos with
  | None => Some (fold_left step (visit t pos) s)
  | Some q => walkf step f t q (fold_left step (visit t pos) s)
  end.
Proof. reflexivity. Qed.

Lemma walkf_walk : forall (S : Type) (step : S -> node -> S) fuel t pos s0 acc,
  walkf step fuel t pos (fold_left step acc s0) =
  option_map (fun l => fold_left step l s0) (walk fuel t pos acc).
Proof.
  intros S step. induction fuel as [|f IH]; intros t pos s0 acc. reflexivity.
  unfold walk. rewrite !walkf_unfold. rewrite fold_snoc. rewrite <- fold_left_app.
  destruct (next_pos t pos) as [q|]. apply IH. reflexivity.
Qed.

(* ---------- number of positions ---------- *)
Fixpoint npos (t : tree) : nat :=
  match t with T _ _ kids => 1 + fold_right (fun c s => npos c + s) 0 kids end.

Definition nposs (ks : list tree) : nat := fold_right (fun c s => npos c + s) 0 ks.

Lemma npos_le_size : forall t, npos t <= size t.
Proof.
  apply tree_ind2. intros k na kids H. simpl.
  assert (fold_right (fun c s => npos c + s) 0 kids <= fold_right (fun c s => size c + s) 0 kids).
  { induction H; simpl. lia. lia. }
  lia.
Qed.

Definition forest (p : rpath) : list tree -> nat -> list node :=
  fix go (ks : list tree) (i : nat) : list node :=
    match ks with
    | [] => []
    | c :: r => all_nodes c (i :: p) ++ go r (S i)
    end.

Lemma all_nodes_unfold : forall k na kids p,
  all_nodes (T k na kids) p =
  (NSelf p :: map (NAttr p) (seq 0 (if is_elem k then na else 0))) ++ forest p kids 0.
Proof. reflexivity. Qed.

Lemma walk_unfold : forall f t pos acc,
  walk (S f) t pos acc = match next_pos t pos with
                         | None => Some (acc ++ visit t pos)
                         | Some q => walk f t q (acc ++ visit t pos)
                         end.
Proof. intros. unfold walk. rewrite walkf_unfold. rewrite fold_snoc. reflexivity. Qed.

Definition walk_ok (t : tree) (s : tree) : Prop :=
  forall p, sub t p = Some s -> forall k acc,
    walk (npos s + k) t p acc =
    match climb t p with
    | None => Some (acc ++ all_nodes s p)
    | Some q => walk k t q (acc ++ all_nodes s p)
    end.

Lemma walk_forest : forall t p ks, Forall (walk_ok t) ks -> ks <> [] ->
  forall i, (forall j, sub t ((i + j) :: p) = nth_error ks j) ->
  forall k acc,
    walk (nposs ks + k) t (i :: p) acc =
    match climb t p with
    | None => Some (acc ++ forest p ks i)
    | Some q => walk k t q (acc ++ forest p ks i)
    end.
Proof.
  intros t p ks H. induction H as [|c r Hc Hr IH]; intros Hne i Hsub k acc. congruence.
  assert (Sc : sub t (i :: p) = Some c). { specialize (Hsub 0). rewrite Nat.add_0_r in Hsub. exact Hsub. }
  cbn [nposs fold_right forest]. fold (nposs r).
  rewrite <- Nat.add_assoc. rewrite (Hc _ Sc). cbn [climb].
  assert (Sn : sub t (S i :: p) = nth_error r 0).
  { specialize (Hsub 1). replace (i + 1) with (S i) in Hsub by lia. exact Hsub. }
  rewrite Sn. destruct r as [|c' r'].
  - simpl. rewrite app_nil_r. reflexivity.
  - cbn [nth_error]. rewrite app_assoc. apply IH. congruence.
    intro j. specialize (Hsub (S j)). replace (i + S j) with (S i + j) in Hsub by lia. exact Hsub.
Qed.

Lemma walk_subtree : forall t s, walk_ok t s.
Proof.
  intro t. apply tree_ind2. intros kd na kids H p Sp k acc.
  cbn [npos]. fold (nposs kids). cbn [plus]. rewrite walk_unfold.
  rewrite visit_eq. unfold nattrs, next_pos. rewrite Sp. rewrite all_nodes_unfold.
  destruct kids as [|c r].
  - simpl. rewrite app_nil_r. reflexivity.
  - rewrite (walk_forest t p (c :: r) H).
    + rewrite <- app_assoc. reflexivity.
    + congruence.
    + intro j. rewrite sub_cons, Sp. reflexivity.
Qed.

Lemma walk_doc : forall t fuel, npos t <= fuel -> walk fuel t [] [] = Some (doc_nodes t).
Proof.
  intros t fuel H. replace fuel with (npos t + (fuel - npos t)) by lia.
  rewrite (walk_subtree t t [] (sub_nil t)). reflexivity.
Qed.

Lemma walk_size : forall t fuel, size t <= fuel -> walk fuel t [] [] = Some (doc_nodes t).
Proof. intros. apply walk_doc. pose proof (npos_le_size t). lia. Qed.

Lemma walkf_doc : forall (S : Type) (step : S -> node -> S) t fuel s0, size t <= fuel ->
  walkf step fuel t [] s0 = Some (fold_left step (doc_nodes t) s0).
Proof.
  intros S step t fuel s0 H. change s0 with (fold_left step [] s0) at 1.
  rewrite walkf_walk. rewrite walk_size by exact H. reflexivity.
Qed.

(* ---------- no node is visited twice ---------- *)
Definition npath (n : node) : rpath := match n with NSelf p => p | NAttr p _ => p end.

Lemma path_step_inj : forall (q q' p : rpath) i j, q ++ i :: p = q' ++ j :: p -> i = j.
Proof.
  intros q q' p i j H.
  replace (q ++ i :: p) with ((q ++ [i]) ++ p) in H by (rewrite <- app_assoc; reflexivity).
  replace (q' ++ j :: p) with ((q' ++ [j]) ++ p) in H by (rewrite <- app_assoc; reflexivity).
  apply app_inv_tail in H. apply app_inj_tail in H. tauto.
Qed.

Lemma path_not_longer : forall (q p : rpath) j, p <> q ++ j :: p.
Proof.
  intros q p j H. apply (f_equal (@length nat)) in H. rewrite app_length in H. simpl in H. lia.
Qed.

Definition path_ok (s : tree) : Prop :=
  forall p n, In n (all_nodes s p) -> exists q, npath n = q ++ p.

Lemma forest_path : forall p ks, Forall path_ok ks ->
  forall i n, In n (forest p ks i) -> exists q j, i <= j /\ npath n = q ++ j :: p.
Proof.
  intros p ks H. induction H as [|c r Hc Hr IH]; intros i n Hin; simpl in Hin. contradiction.
  apply in_app_or in Hin. destruct Hin as [Hin|Hin].
  - destruct (Hc _ _ Hin) as [q Hq]. exists q, i. split; auto.
  - destruct (IH _ _ Hin) as [q [j [Hj Hq]]]. exists q, j. split; auto. lia.
Qed.

Lemma self_in : forall p a n, In n (NSelf p :: map (NAttr p) (seq 0 a)) -> npath n = p.
Proof.
  intros p a n [H|H]. subst; reflexivity.
  apply in_map_iff in H. destruct H as [j [H _]]. subst. reflexivity.
Qed.

Lemma all_nodes_path : forall s, path_ok s.
Proof.
  apply tree_ind2. intros k na kids H p n Hin. rewrite all_nodes_unfold in Hin.
  apply in_app_or in Hin. destruct Hin as [Hin|Hin].
  - exists []. simpl. eapply self_in; eauto.
  - destruct (forest_path p kids H 0 n Hin) as [q [j [_ Hq]]].
    exists (q ++ [j]). rewrite <- app_assoc. exact Hq.
Qed.

Lemma nodup_app : forall (A : Type) (a b : list A),
  NoDup a -> NoDup b -> (forall x, In x a -> ~ In x b) -> NoDup (a ++ b).
Proof.
  induction a as [|x a IH]; intros b Ha Hb Hd; simpl; auto.
  inversion Ha; subst. constructor.
  - intro Hin. apply in_app_or in Hin. destruct Hin as [Hin|Hin]; [contradiction|].
    apply (Hd x); simpl; auto.
  - apply IH; auto. intros y Hy. apply Hd. simpl; auto.
Qed.

Lemma self_nodup : forall p a, NoDup (NSelf p :: map (NAttr p) (seq 0 a)).
Proof.
  intros p a. constructor.
  - intro H. apply in_map_iff in H. destruct H as [j [H _]]. discriminate.
  - apply FinFun.Injective_map_NoDup. intros x y E. congruence. apply seq_NoDup.
Qed.

Lemma forest_nodup : forall p ks, Forall (fun c => forall p, NoDup (all_nodes c p)) ks ->
  forall i, NoDup (forest p ks i).
Proof.
  intros p ks H. induction H as [|c r Hc Hr IH]; intro i; simpl. constructor.
  apply nodup_app; auto.
  intros x Hx Hy. destruct (all_nodes_path c _ _ Hx) as [q Hq].
  assert (Hr' : Forall path_ok r). { apply Forall_forall. intros. apply all_nodes_path. }
  destruct (forest_path p r Hr' (S i) x Hy) as [q' [j [Hj Hq']]].
  rewrite Hq in Hq'. apply path_step_inj in Hq'. lia.
Qed.

Lemma all_nodes_nodup : forall s p, NoDup (all_nodes s p).
Proof.
  apply (tree_ind2 (fun s => forall p, NoDup (all_nodes s p))). intros k na kids H p.
  rewrite all_nodes_unfold. apply nodup_app.
  - apply self_nodup.
  - apply forest_nodup. exact H.
  - intros x Hx Hy. apply self_in in Hx.
    assert (Hr' : Forall path_ok kids). { apply Forall_forall. intros. apply all_nodes_path. }
    destruct (forest_path p kids Hr' 0 x Hy) as [q [j [_ Hq]]].
    rewrite Hx in Hq. exact (path_not_longer _ _ _ Hq).
Qed.

Lemma doc_nodes_nodup : forall t, NoDup (doc_nodes t).
Proof. intro t. apply all_nodes_nodup. Qed.

(* ---------- getIndex() increases along the document order ---------- *)
Definition ssorted (ix : node -> nat) (l : list node) : Prop :=
  StronglySorted (fun a b => ix a < ix b) l.

Lemma index_of_app : forall x pre m, ~ In x pre ->
  index_of x (pre ++ m) = length pre + index_of x m.
Proof.
  induction pre as [|y pre IH]; intros m H; simpl. reflexivity.
  assert (E : node_eqb x y = false). { apply node_eqb_neq. intro; subst. apply H; simpl; auto. }
  rewrite E. rewrite IH. reflexivity. intro; apply H; simpl; auto.
Qed.

Lemma index_map_seq : forall l pre, NoDup (pre ++ l) ->
  map (fun n => index_of n (pre ++ l)) l = seq (length pre) (length l).
Proof.
  induction l as [|x r IH]; intros pre H. reflexivity.
  cbn [map length seq]. f_equal.
  - rewrite index_of_app. simpl. rewrite node_eqb_refl. lia.
    apply NoDup_remove_2 in H. intro Hin. apply H. apply in_or_app. auto.
  - replace (pre ++ x :: r) with ((pre ++ [x]) ++ r) by (rewrite <- app_assoc; reflexivity).
    rewrite IH. rewrite app_length. simpl. replace (length pre + 1) with (S (length pre)) by lia. reflexivity.
    rewrite <- app_assoc. exact H.
Qed.

Lemma ssorted_of_seq : forall ix l a, map ix l = seq a (length l) -> ssorted ix l.
Proof.
  intros ix. induction l as [|x r IH]; intros a H. constructor.
  cbn [map length seq] in H. injection H as H1 H2. constructor.
  - apply (IH (S a)). exact H2.
  - apply Forall_forall. intros b Hb.
    assert (Hi : In (ix b) (seq (S a) (length r))). { rewrite <- H2. apply in_map. exact Hb. }
    apply in_seq in Hi. lia.
Qed.

Lemma doc_nodes_sorted : forall t, ssorted (idx t) (doc_nodes t).
Proof.
  intro t. apply (ssorted_of_seq _ _ 0). unfold idx.
  apply (index_map_seq (doc_nodes t) []). simpl. apply doc_nodes_nodup.
Qed.

(* ---------- the visited nodes are exactly the nodes of the tree ---------- *)
Definition with_path (n : node) (q : rpath) : node :=
  match n with NSelf _ => NSelf q | NAttr _ j => NAttr q j end.

Lemma with_path_self : forall n, with_path n (npath n) = n.
Proof. destruct n; reflexivity. Qed.

Lemma sub_snoc : forall s q j,
  sub s (q ++ [j]) = match nth_error (kids_of s) j with Some c => sub c q | None => None end.
Proof. intros. unfold sub. rewrite rev_app_distr. reflexivity. Qed.

Lemma valid_node_snoc : forall s n q j,
  valid_node s (with_path n (q ++ [j])) =
  match nth_error (kids_of s) j with Some c => valid_node c (with_path n q) | None => false end.
Proof.
  intros s n q j. destruct n as [r|r j0]; simpl.
  - rewrite sub_snoc. destruct (nth_error (kids_of s) j); reflexivity.
  - unfold nattrs. rewrite sub_snoc. destruct (nth_error (kids_of s) j); reflexivity.
Qed.

Lemma forest_in : forall p ks i n,
  In n (forest p ks i) <-> exists j c, nth_error ks j = Some c /\ In n (all_nodes c ((i + j) :: p)).
Proof.
  intros p. induction ks as [|c r IH]; intros i n; simpl.
  - split. contradiction. intros [j [c [H _]]]. destruct j; discriminate.
  - rewrite in_app_iff, IH. split.
    + intros [H|[j [c' [H1 H2]]]].
      * exists 0, c. rewrite Nat.add_0_r. auto.
      * exists (S j), c'. replace (i + S j) with (S i + j) by lia. auto.
    + intros [j [c' [H1 H2]]]. destruct j as [|j]; simpl in H1.
      * injection H1 as <-. rewrite Nat.add_0_r in H2. auto.
      * right. exists j, c'. replace (S i + j) with (i + S j) by lia. auto.
Qed.

Lemma list_end : forall (A : Type) (l : list A), l = [] \/ exists l' x, l = l' ++ [x].
Proof.
  intros A l. induction l using rev_ind. auto. right. exists l, x. reflexivity.
Qed.

Definition valid_ok (s : tree) : Prop :=
  forall p n, In n (all_nodes s p) <->
              exists q, npath n = q ++ p /\ valid_node s (with_path n q) = true.

Lemma all_nodes_valid : forall s, valid_ok s.
Proof.
  apply tree_ind2. intros k na kids IH p n. rewrite all_nodes_unfold, in_app_iff. split.
  - intros [H|H].
    + exists []. split. simpl. eapply self_in; eauto.
      destruct H as [H|H]. subst n. reflexivity.
      apply in_map_iff in H. destruct H as [j [<- Hj]]. apply in_seq in Hj. simpl.
      apply Nat.ltb_lt. unfold nattrs. simpl. lia.
    + apply forest_in in H. destruct H as [j [c [Hc Hin]]].
      assert (Pc : valid_ok c). { rewrite Forall_forall in IH. apply IH. eapply nth_error_In; eauto. }
      apply Pc in Hin. destruct Hin as [q [Hq Hv]]. exists (q ++ [j]). split.
      rewrite <- app_assoc. exact Hq.
      rewrite valid_node_snoc. simpl. rewrite Hc. exact Hv.
  - intros [q [Hq Hv]]. destruct (list_end _ q) as [E|[q' [j E]]]; subst q.
    + left. simpl in Hq. destruct n as [r|r j]; simpl in *; subst r.
      * left; reflexivity.
      * right. apply in_map. apply in_seq. apply Nat.ltb_lt in Hv. unfold nattrs in Hv. simpl in Hv. lia.
    + right. rewrite valid_node_snoc in Hv. simpl in Hv.
      destruct (nth_error kids j) as [c|] eqn:Hc; [|discriminate].
      assert (Pc : valid_ok c). { rewrite Forall_forall in IH. apply IH. eapply nth_error_In; eauto. }
      apply forest_in. exists j, c. split; auto. apply Pc. exists q'. split; auto.
      rewrite <- app_assoc in Hq. exact Hq.
Qed.

Lemma doc_nodes_valid : forall t n, In n (doc_nodes t) <-> valid_node t n = true.
Proof.
  intros t n. unfold doc_nodes. rewrite (all_nodes_valid t [] n). split.
  - intros [q [Hq Hv]]. rewrite app_nil_r in Hq. subst q. rewrite with_path_self in Hv. exact Hv.
  - intro H. exists (npath n). rewrite app_nil_r, with_path_self. auto.
Qed.
