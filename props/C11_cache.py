"""C11, part "cache": the value caches of the XObjects that XObjectFactoryDefault recycles (XNodeSet: string and number of the
first node; XString: number; XNumber: string) -- proof + tie for "an expression has one value whichever way the caller asks,
whatever was evaluated before" (the mechanism of seeded/C11_f; props/C11_seq.py is the whole-transformation test of it).

  proof   coq/Properties_C11x.v over the machine of coq/XoCacheDefs.v: for all conversions, all flag records passing the
          decidable guard flags_ok and ALL histories of create / ask / give-back, every observation is the conversion of the
          payload the object holds at that moment; flags_ok at the regenerated flags (translator/gen_xocache.py -> GenXoCache.v:
          clearCachedValues() statement by statement, the sentinel, who calls release()/clearCachedValues(), the stack bounds;
          every other body the machine mirrors pinned token for token).
  tie     the extracted machine (ocaml/xoCache_driver.ml) and the library (harness/xocache.cpp: XObjectFactoryDefault driven
          directly over XalanSourceTree nodes) answer the same histories; every difference is reported.
  oracle  the property on the library's answers without the Coq model: a Python list of the payloads held, every answer must be
          the XPath conversion (vlib/xpref number/string conversions) of the payload held at that moment.
A failing history is shrunk (ops dropped while the failure stays) and written as the replay (#XOCACHE lines).

Result tree fragments (XSLT/XResultTreeFrag, the fourth kind of the machine) cannot be made through XObjectFactoryDefault: their
library side goes through WHOLE TRANSFORMATIONS (vlib/xsltrun.py): local variables holding fragments (single text child, element
/ comment / text mixes, empty) in nested scopes, each asked repeatedly through number / string / string-length / boolean routes
inside one template; the machine gets the same history (F ops, r ops at the end of each scope) and both are compared after
rendering the answers as the stylesheet shows them (#XOFRAG lines in a replay)."""
import json, os, struct, xml.etree.ElementTree as ET
from vlib import core, xpref, xsltrun

# string-values of the <p> elements.  The first ones are the interesting first nodes: empty, not a number, the sentinel
VALUES = ["", "abc", " ", "123456789", "123456789.0", " 123456789 ", "20", "10", "2.5", "-3", "0", "-0", " 7 ", "007", "1e3", "NaN",
          "0.0", "x<y&z", "été", "12", "5", ".5", "-", "Infinity", "1 2", "\U0001d4b3", "40"]
NUMBERS = [0.0, -0.0, 1.5, 2.5, 20.0, -3.0, float("nan"), float("inf"), float("-inf"), 1e21, 0.1, 123456789.0, -2.25, 7.0, 1e-7]
ASKS = "nstbceflz"


def u16(s):
    b = s.encode("utf-16-le")
    return "u:" + ",".join("%x" % (b[i] | (b[i + 1] << 8)) for i in range(0, len(b), 2))


def units(s):
    return len(s.encode("utf-16-le")) // 2


def show_num(x):
    return "n:nan" if x != x else "n:%016x" % struct.unpack(">Q", struct.pack(">d", x))[0]


def d_tok(x):
    return "Dnan" if x != x else "D%016x" % struct.unpack(">Q", struct.pack(">d", x))[0]


def dbl_of_tok(t):
    return float("nan") if t == "Dnan" else struct.unpack(">d", struct.pack(">Q", int(t[1:], 16)))[0]


# ---- the specification, in Python (independent of the Coq model) ------------------------------------------------------------
def expected(vals, ops):
    """the answers a cache-less evaluator gives: list of (index of the op, token)"""
    held, out = [], []
    for k, t in enumerate(ops):
        c, r = t[0], t[1:]
        if c == "N":
            held.append(("N", [vals[int(i)] for i in r.split(",")] if r else []))
        elif c == "F":
            held.append(("F", [(it[0], vals[int(it[1:])]) for it in r.split(",")] if r else []))
        elif c == "S":
            held.append(("S", vals[int(r)]))
        elif c == "D":
            held.append(("D", dbl_of_tok(t)))
        else:
            i = int(r)
            if i >= len(held):
                continue
            if c == "r":
                del held[i]
                continue
            kind, p = held[i]
            s = ((p[0] if p else "") if kind == "N" else p if kind == "S" else
                 "".join(v for k_, v in p if k_ != "c") if kind == "F" else xpref.num_to_str(p))
            if c == "n":
                out.append((k, show_num(p if kind == "D" else xpref.str_to_num(s))))
            elif c in "stbcef":
                out.append((k, "s:" + u16(s)))
            elif c == "l":
                out.append((k, "l:%d" % units(s)))
            elif c == "z":
                b = bool(p) if kind in ("N", "S") else True if kind == "F" else (p == p and p != 0)
                out.append((k, "z:1" if b else "z:0"))
    return out


# ---- histories --------------------------------------------------------------------------------------------------------------
def gen_vals(r):
    n = r.randrange(5, 10)
    vals = [r.choice(VALUES[:6]) for _ in range(2)] + [r.choice(VALUES) for _ in range(n - 2)]
    r.shuffle(vals)
    return vals


def gen_create(r, vals, kind=None):
    kind = kind or r.choice("NNNNNSD")
    if kind == "N":
        k = r.choice([0, 0, 1, 1, 1, 1, 2, 3])
        return "N" + ",".join(str(r.randrange(len(vals))) for _ in range(k))
    if kind == "S":
        return "S%d" % r.randrange(len(vals))
    return d_tok(r.choice(NUMBERS))


def gen_history(r, vals, n_ops):
    ops, held = [], []
    again = None
    while len(ops) < n_ops:
        x = r.random()
        if again is not None and r.random() < 0.7:
            # the recycled object of the kind just given back, asked straight away
            ops.append(gen_create(r, vals, again))
            held.append(again)
            ops.append(r.choice("nnnn" + ASKS) + str(len(held) - 1))
            again = None
        elif not held or x < 0.22:
            ops.append(gen_create(r, vals))
            held.append(ops[-1][0] if ops[-1][0] in "NS" else "D")
        elif x < 0.75 or len(held) < 2 and x < 0.85:
            i = r.randrange(len(held)) if r.random() < 0.5 else len(held) - 1
            ops.append(r.choice("nnn" + ASKS) + str(i))
        elif x < 0.97:
            i = r.randrange(len(held))
            ops.append("r%d" % i)
            again = held.pop(i)
        else:
            ops.append(r.choice(ASKS + "r") + str(len(held) + r.randrange(3)))     # nothing at that index: no-op on both sides
    return ops


def boundary_histories(r):
    """aimed at the case splits of the proof: what is (not) cached before the give-back x what the recycled object is asked first"""
    out = []
    vals = ["", "abc", " ", "20", "123456789", "5", " 7 ", "0"]
    firsts = ["N", "N0", "N1", "N2", "N3", "N4", "N0,3", "N6"]
    for a in firsts:
        for b in ("N3", "N5", "N4", "N", "N0", "N1,3"):
            for q in "nslbez":
                out.append((vals, [a, r.choice("nn" + ASKS) + "0", "r0", b, q + "0", "n0", "s0", "l0"]))
    # a first question other than num() before the give-back, two objects alive, LIFO order of the stack
    for _ in range(40):
        a, b, c = (r.choice(firsts) for _ in range(3))
        perm = r.choice([["r0", "r0", "r0"], ["r2", "r1", "r0"], ["r1", "r0", "r0"], ["r0", "r1", "r0"]])
        out.append((vals, [a, b, c, "n0", r.choice(ASKS) + "1", r.choice(ASKS) + "2"] + perm +
                    ["N3", "N5", "N6", "n0", "n1", "n2", "s0", "s1", "s2"]))
    # XString: sentinel 0.0;  XNumber: the empty string as the marker
    for a in range(len(vals)):
        for b in (3, 5, 7, 0):
            out.append((vals, ["S%d" % a, "n0", "n0", "r0", "S%d" % b, "n0", "s0", "l0", "z0", "n0"]))
    for x in NUMBERS:
        for y in (2.5, float("nan"), 0.0, 1e21):
            out.append((vals, [d_tok(x), r.choice("stefl") + "0", "b0", "r0", d_tok(y), r.choice("stbcefl") + "0", "n0", "z0", "s0"]))
    # more objects than the stacks keep (eXNodeSetCacheMax = 40): the 41st .. are destroyed, the others recycled in LIFO order
    for n in (39, 41, 45):
        ops = []
        for i in range(n):
            ops += [r.choice(firsts), "n%d" % i]
        ops += ["r0"] * n
        for i in range(n):
            ops += [r.choice(["N3", "N5", "N6", "N"]), r.choice("nnl") + str(i)]
        out.append((vals, ops))
    return out


# ---- result tree fragments: whole transformations ---------------------------------------------------------------------------
XSL = 'xmlns:xsl="http://www.w3.org/1999/XSL/Transform"'
ROUTES = {"n": ["number($%s)", "$%s * 1", "$%s - 0", "0 + $%s"],
          "s": ["string($%s)", "$%s", "concat($%s,'')", "VO"],
          "l": ["string-length($%s)"],
          "z": ["boolean($%s)", "not(not($%s))"]}


def xesc(v):
    return v.replace("&", "&amp;").replace("<", "&lt;")


def frag_content(r, vals):
    """(items of the F op, stylesheet text of the variable's content)"""
    shape = r.randrange(8)
    texts = [i for i, v in enumerate(vals) if v != ""]
    plain = [i for i, v in enumerate(vals) if "-" not in v]
    if shape == 0:
        return [], '<xsl:if test="false()">x</xsl:if>'
    if shape in (1, 2, 3) and texts:
        items = ["t%d" % r.choice(texts)]                                      # the single text child
    else:
        items = []
        for _ in range(r.randrange(1, 4)):
            k = r.choice("tecee")
            if k == "t" and (not texts or (items and items[-1][0] == "t")):
                k = "e"                                                         # adjacent text nodes would be one node
            if k == "c" and not plain:
                k = "e"
            items.append(k + str(r.choice(texts) if k == "t" else r.choice(plain) if k == "c" else r.randrange(len(vals))))
    out = []
    for it in items:
        v = vals[int(it[1:])]
        if it[0] == "t":
            out.append("<xsl:text>%s</xsl:text>" % xesc(v))
        elif it[0] == "e":
            out.append("<e><xsl:text>%s</xsl:text></e>" % xesc(v) if v else "<e/>")
        else:
            out.append("<xsl:comment>%s</xsl:comment>" % xesc(v))
    return items, "".join(out)


def gen_frag_case(r, vals, n_asks):
    """-> (ops, [(query, route)], stylesheet)"""
    ops, routes, held = [], [], []
    counter = [0]

    def ask(body):
        name = r.choice(held) if r.random() < 0.6 else held[-1]
        q = r.choice("nnnsslz")
        route = r.choice(ROUTES[q])
        ops.append(q + str(held.index(name)))
        k = len(routes)
        routes.append((q, route))
        if route == "VO":
            body.append('<l i="%d"><xsl:value-of select="$%s"/></l>' % (k, name))
        else:
            body.append('<l i="%d" v="{%s}"/>' % (k, route % name))

    def block(depth):
        body, mine = [], []
        for _ in range(r.randrange(1, 4)):
            name = "v%d" % counter[0]
            counter[0] += 1
            items, content = frag_content(r, vals)
            ops.append("F" + ",".join(items))
            held.append(name)
            mine.append(name)
            body.append('<xsl:variable name="%s">%s</xsl:variable>' % (name, content))
            for _ in range(r.randrange(0, 4)):
                if len(routes) < n_asks:
                    ask(body)
        for _ in range(r.randrange(0, 3)):
            if depth < 3 and len(routes) < n_asks:
                body.append('<xsl:if test="true()">%s</xsl:if>' % block(depth + 1))
            for _ in range(r.randrange(0, 4)):
                if len(routes) < n_asks:
                    ask(body)
        for name in reversed(mine):                                             # the scope ends: the fragments go back
            ops.append("r%d" % held.index(name))
            held.remove(name)
        return "".join(body)
    parts = []
    while len(routes) < n_asks:
        parts.append('<xsl:if test="true()">%s</xsl:if>' % block(0))
    sheet = ('<xsl:stylesheet version="1.0" %s><xsl:output method="xml" omit-xml-declaration="yes"/>'
             '<xsl:template match="/"><out>%s</out></xsl:template></xsl:stylesheet>' % (XSL, "".join(parts)))
    return ops, routes, sheet


def render(tok):
    """an answer of the machine / of the Python specification as the stylesheet shows it"""
    if tok.startswith("n:"):
        return xpref.num_to_str(float("nan") if tok == "n:nan" else struct.unpack(">d", struct.pack(">Q", int(tok[2:], 16)))[0])
    if tok.startswith("s:"):
        us = [int(h, 16) for h in tok[4:].split(",")] if len(tok) > 4 else []
        return b"".join(struct.pack("<H", u) for u in us).decode("utf-16-le")
    if tok.startswith("l:"):
        return tok[2:]
    return "true" if tok == "z:1" else "false"


def shown_number(t):
    """the number a stylesheet shows, as a comparable value (how many digits number-to-string prints is property C18's subject)"""
    if t is None:
        return None
    if t in ("NaN", "Infinity", "-Infinity"):
        return t
    try:
        return float(t) + 0.0 if float(t) != 0 else 0.0
    except ValueError:
        return "not a number: %r" % t


def comparable(vals_shown, routes):
    return [shown_number(v) if q == "n" else v for v, (q, _) in zip(vals_shown, routes)] + list(vals_shown[len(routes):])


def observed(out):
    """{i: text} of the <l> elements of a transformation result, or None"""
    if out is None or out[0] != "ok":
        return None
    try:
        root = ET.fromstring(out[1].decode("utf-8"))
    except Exception:
        return None
    return {int(l.get("i")): (l.get("v") if l.get("v") is not None else (l.text or "")) for l in root.findall("l")}


def run_frag_cases(ctx, fcases, model):
    """fcases: [(tag, vals, ops, routes, sheet)] -> (correspondence differences, oracle failures)"""
    res = xsltrun.run([{"id": tag, "sheet": sheet, "source": "<d/>"} for tag, vals, ops, routes, sheet in fcases])
    rm = {}
    if model:
        rcm, rm, rawm = core.run_lines_parallel(model, [line_of(tag, vals, ops) for tag, vals, ops, routes, sheet in fcases], sep="|")
    corr, bad = [], []
    for tag, vals, ops, routes, sheet in fcases:
        got = observed(res.get(tag))
        ctx.count("cache:fragment-transformation")
        if got is None:
            bad.append((tag, vals, ops, routes, sheet, "the transformation did not succeed: %r" % (res.get(tag) or ("",))[:1]))
            continue
        lib = [got.get(i) for i in range(len(routes))]
        ctx.cov["evaluations"] += len(lib)
        lib = comparable(lib, routes)
        exp = comparable([render(e) for _, e in expected(vals, ops)], routes)
        if model:
            ctx.cov["traces_validated_against_impl"] += 1
            mod = comparable([render(t) for t in rm.get(tag, "").split(" ") if t], routes)
            if mod != lib:
                k = next((i for i in range(len(routes)) if i >= len(mod) or mod[i] != lib[i]), 0)
                corr.append({"case": line_of(tag, vals, ops)[:300], "ask": k, "route": routes[k][1],
                             "impl": lib[k], "model": mod[k] if k < len(mod) else "<none>"})
        if exp != lib:
            k = next(i for i in range(len(routes)) if i >= len(exp) or exp[i] != lib[i])
            bad.append((tag, vals, ops, routes, sheet, "ask %d (%s of the fragment, op %s): the stylesheet shows %r, the conversion of the fragment is %r" % (
                k, routes[k][1] if routes[k][1] != "VO" else "xsl:value-of", [o for o in ops if o[0] in ASKS][k], lib[k], exp[k] if k < len(exp) else None)))
    return corr, bad


def gen_frag_all(ctx, r, n, n_asks, prefix):
    out = []
    for q in range(n):
        # no surrogate pairs here: the string-length() FUNCTION counts characters whatever XResultTreeFrag::stringLength() answers
        vals = [v.replace("\U0001d4b3", "\u00e9") for v in gen_vals(r)]
        ops, routes, sheet = gen_frag_case(r, vals, n_asks)
        out.append(("%sf%d" % (prefix, q), vals, ops, routes, sheet))
    return out


def line_of(tag, vals, ops):
    return "%s|%s|%s" % (tag, ";".join(u16(v) for v in vals), " ".join(ops))


def judge(vals, ops, got):
    """-> None or (index of the failing op, text)"""
    exp = expected(vals, ops)
    toks = got.split(" ") if got else []
    if got in ("docerr", "exception") or len(toks) != len(exp):
        return (exp[-1][0] if exp else 0, "the library answered %r where %d answers were expected" % (got[:80], len(exp)))
    for (k, e), g in zip(exp, toks):
        if e != g:
            return (k, "op %d (%s): the library answers %s, the conversion of the payload held is %s" % (k, ops[k], g, e))
    return None


def run_cases(ctx, cases, impl, model):
    lines = [line_of(tag, vals, ops) for tag, vals, ops in cases]
    rc, ri, raw = core.run_lines_parallel(impl, lines, sep="|")
    rm = {}
    if model:
        rcm, rm, rawm = core.run_lines_parallel(model, lines, sep="|")
    corr, bad = [], []
    for tag, vals, ops in cases:
        got = ri.get(tag)
        if got is None:
            bad.append((tag, vals, ops, len(ops) - 1, "the harness did not answer (crash?)"))
            continue
        ctx.cov["evaluations"] += len(got.split(" ")) if got else 0
        if model:
            ctx.cov["traces_validated_against_impl"] += 1
            if rm.get(tag) != got:
                corr.append({"case": line_of(tag, vals, ops), "impl": got[:300], "model": (rm.get(tag) or "<none>")[:300]})
        j = judge(vals, ops, got)
        if j:
            bad.append((tag, vals, ops, j[0], j[1]))
    return corr, bad


def shrink(impl, vals, ops, k):
    """drop ops (never the failing one) while the same op keeps failing"""
    keep = ops[:k + 1]

    def fails(trial):
        rc, ri, raw = core.run_lines(impl, line_of("s", vals, trial) + "\n", sep="|")
        j = judge(vals, trial, ri.get("s", "exception"))
        return j is not None and j[0] == len(trial) - 1
    if not fails(keep):
        return ops
    i = 0
    while i < len(keep) - 1 and len(keep) > 2:
        trial = keep[:i] + keep[i + 1:]
        # dropping a create / give-back shifts the indices of later ops: only keep trials that still fail at the last op
        if fails(trial):
            keep = trial
        else:
            i += 1
    return keep


def gen_all(ctx, r, n_hist, n_ops, prefix):
    cases = []
    for q in range(n_hist):
        vals = gen_vals(r)
        cases.append(("%s%d" % (prefix, q), vals, gen_history(r, vals, n_ops)))
        ctx.count("cache:random-history")
    for q, (vals, ops) in enumerate(boundary_histories(r)):
        cases.append(("%sb%d" % (prefix, q), vals, ops))
        ctx.count("cache:boundary-history")
    return cases


def corpus_cases(ctx):
    cases = []
    cdir = os.path.join(core.VERIF, "corpus", "C11cache")
    for fn in sorted(os.listdir(cdir)) if os.path.isdir(cdir) else []:
        for k, l in enumerate(open(os.path.join(cdir, fn), encoding="utf-8")):
            if l.startswith("#XOCACHE "):
                tag, vals, ops = parse_line(l[9:].rstrip("\n"))
                cases.append(("c%s_%d" % (fn.split(".")[0][:16], k), vals, ops))
                ctx.count("cache:corpus")
    return cases


def corpus_frag_cases(ctx):
    out = []
    cdir = os.path.join(core.VERIF, "corpus", "C11cache")
    for fn in sorted(os.listdir(cdir)) if os.path.isdir(cdir) else []:
        for k, l in enumerate(open(os.path.join(cdir, fn), encoding="utf-8")):
            if l.startswith("#XOFRAG "):
                d = json.loads(l[8:])
                out.append(("cf%s_%d" % (fn.split(".")[0][:16], k), d["vals"], d["ops"], [tuple(x) for x in d["routes"]], d["sheet"]))
                ctx.count("cache:corpus")
    return out


def parse_line(l):
    tag, vf, of = l.split("|")
    vals = []
    for t in vf.split(";"):
        if t:
            us = [int(h, 16) for h in t[2:].split(",")] if len(t) > 2 else []
            vals.append(b"".join(struct.pack("<H", u) for u in us).decode("utf-16-le"))
    return tag, vals, [o for o in of.split(" ") if o]


def run_part(ctx):
    broken_before = len(ctx.broken)
    ctx.assumptions.append(
        "cache: DoubleSupport::toDouble / NumberToDOMString are parameters of the machine (any functions; instantiated with property C18's "
        "model for the extracted machine); DOMServices::getNodeData appends the string-value of item(0); every function body the machine "
        "mirrors is pinned token for token by translator/gen_xocache.py; XResultTreeFrag (recycled by StylesheetExecutionContextDefault, "
        "caches of the same design) and the never-recycled kinds (XNodeSetNodeProxy, XStringCached/Reference/Adapter, XToken adapters) are "
        "not in the machine")
    rule = ("cache: histories of createNodeSet/createString/createNumber, the nine member functions asking for the value, and give-backs, "
            "driven against XObjectFactoryDefault directly; distinct = distinct (payload table, op list); non-trivial = an object handed "
            "out from a stack is asked for a value")
    ctx.notes["rule"] = (ctx.notes.get("rule", "") + " | " + rule) if ctx.notes.get("rule") else rule
    ok_lib, liblog = core.build_lib("plain")
    if not ok_lib:
        ctx.broken.append("cache: library does not build from the working tree: " + liblog[-300:])
        return
    proved = ctx.prove(["Properties_C11x.v"], ["GenXoCache"])
    impl, ok_h, hlog = core.build_harness("xocache", "plain")
    if not ok_h:
        ctx.broken.append("cache: harness xocache does not compile against the working tree: " + hlog[-300:])
        return
    model, ok_m, mlog = core.build_model("xoCache")
    if not ok_m:
        ctx.broken.append("cache: model extraction/build failed: " + mlog[-500:])
        model = None
    if model:
        rc, res, raw = core.run_lines(model, "fl|flags\n", sep="|")
        ctx.notes["cache_flags_ok"] = res.get("fl")
        if res.get("fl") != "1":
            try:
                import srcfacts
                facts = srcfacts.GENERATORS["GenXoCache"]()[1]
            except Exception as e:        # AnchorError: already reported by ctx.prove; GenXoCache.v is the last one written
                facts = None
            if facts is not None:
                ctx.broken.append("cache: the shape regenerated from this tree does not pass the guard flags_ok of the theorems "
                                  "(clearCachedValues() must leave nothing cached, release() must call it, set() or the factory must "
                                  "release, XString::set / XNumber::set must clear): %r" % (facts,))
    r = ctx.rng
    wide = ctx.thorough
    cases = corpus_cases(ctx) + gen_all(ctx, r, 2500 if wide else 320, 70 if wide else 45, "h")
    corr, bad = run_cases(ctx, cases, impl, model)
    fcases = corpus_frag_cases(ctx) + gen_frag_all(ctx, r, 600 if wide else 80, 50 if wide else 36, "h")
    fcorr, fbad = run_frag_cases(ctx, fcases, model)
    if (corr or not proved or not model or len(ctx.broken) > broken_before) and not bad and not ctx.thorough:
        ctx.escalated = True
        c2, b2 = run_cases(ctx, gen_all(ctx, r, 3000, 70, "w"), impl, model)
        corr += c2
        bad += b2
    if (fcorr or not proved or not model or len(ctx.broken) > broken_before) and not fbad and not bad and not ctx.thorough:
        ctx.escalated = True
        c2, b2 = run_frag_cases(ctx, gen_frag_all(ctx, r, 600, 50, "w"), model)
        fcorr += c2
        fbad += b2
    distinct = {(tuple(v), tuple(o)) for t, v, o in cases if any(x[0] == "r" for x in o)}
    ctx.cov["distinct_nontrivial"] = ctx.cov.get("distinct_nontrivial", 0) + len(distinct)
    ctx.cov["samples"] = list(ctx.cov.get("samples", [])) + [line_of(*cases[-1])[:200]]
    if corr:
        ctx.broken.append("correspondence cache: %d histories are answered differently by the extracted machine and the library, e.g. %s" % (
            len(corr), corr[0]))
        ctx.notes["cache_correspondence_mismatches"] = corr[:10]
    if bad:
        bad.sort(key=lambda b: b[3])
        txt = []
        for tag, vals, ops, k, what in bad[:8]:
            small = shrink(impl, vals, ops, k)
            exp = expected(vals, small)
            txt.append("#XOCACHE " + line_of(tag, vals, small))
            txt.append("# %s\n# payload table: %r\n# shortest failing history: %s\n# the cache-less conversions: %s" % (
                what, vals, " ".join(small), " ".join(e for _, e in exp)))
        ctx.violation("cache", "# C11: an XObject handed out by XObjectFactoryDefault answers with something that is not the XPath conversion of "
                               "the value it holds (a cached value of an earlier use?)\n"
                               "# replay: python3 check.py C11 --replay <this file>  (re-runs every #XOCACHE line), or feed the text after "
                               "#XOCACHE to .build/xocache_plain (protocol: head of harness/xocache.cpp)\n" + "\n".join(txt))
    if fcorr:
        ctx.broken.append("correspondence cache (fragments): %d transformations show other values than the extracted machine answers, e.g. %s" % (
            len(fcorr), fcorr[0]))
        ctx.notes["cache_fragment_correspondence_mismatches"] = fcorr[:10]
    if fbad:
        fbad.sort(key=lambda b: len(b[4]))
        txt = []
        for tag, vals, ops, routes, sheet, what in fbad[:6]:
            txt.append("#XOFRAG " + json.dumps({"vals": vals, "ops": ops, "routes": routes, "sheet": sheet}))
            txt.append("# %s\n# payload table: %r\n# history: %s\n# stylesheet (source <d/>):\n%s" % (what, vals, " ".join(ops), sheet))
        ctx.violation("cache-fragment", "# C11: a variable holding a result tree fragment is observed with something that is not the XPath conversion "
                                        "of the fragment\n# replay: python3 check.py C11 --replay <this file>  (re-runs every #XOFRAG line), or run the "
                                        "stylesheet over <d/> and compare attribute v / the text of each <l>\n" + "\n".join(txt))
    ctx.notes["cache_fragment_failures"] = len(fbad)
    ctx.notes["cache_fragment_transformations"] = len(fcases)
    ctx.notes["cache_failures"] = len(bad)
    ctx.notes["cache_histories"] = len(cases)


def replay(ctx, path):
    core.build_lib("plain")
    impl, ok_h, hlog = core.build_harness("xocache", "plain")
    failed = 0
    for k, l in enumerate(open(path, encoding="utf-8")):
        if l.startswith("#XOFRAG "):
            d = json.loads(l[8:])
            got = observed(xsltrun.run([{"id": "r%d" % k, "sheet": d["sheet"], "source": "<d/>"}]).get("r%d" % k))
            routes = [tuple(x) for x in d["routes"]]
            exp = comparable([render(e) for _, e in expected(d["vals"], d["ops"])], routes)
            lib = comparable([got.get(i) for i in range(len(exp))], routes) if got is not None else None
            print("fragments, history %s" % " ".join(d["ops"]))
            print("   stylesheet shows: %r" % (lib,))
            print("   conversions:      %r" % (exp,))
            if lib != exp:
                print("   FAIL")
                failed += 1
    for l in open(path, encoding="utf-8"):
        if not l.startswith("#XOCACHE "):
            continue
        tag, vals, ops = parse_line(l[9:].rstrip("\n"))
        rc, ri, raw = core.run_lines(impl, line_of(tag, vals, ops) + "\n", sep="|")
        got = ri.get(tag, "exception")
        j = judge(vals, ops, got)
        print("history over %r: %s" % (vals, " ".join(ops)))
        print("   library:     %s" % got)
        print("   conversions: %s" % " ".join(e for _, e in expected(vals, ops)))
        if j:
            print("   FAIL %s" % j[1])
            failed += 1
    print("%d failing history(ies)" % failed)
    return 1 if failed else 0
