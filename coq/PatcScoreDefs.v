(* PatcScoreDefs.v — C09 part "compile": name tests with namespaces and the match-score classes.
   Definitions only.

   XPath::NodeTester (XPath.cpp): the constructor picks ONE test function from the shape of the node test and from whether
   the step is an attribute step (eFROM_ATTRIBUTES / eMATCH_ATTRIBUTE); every test function returns eMatchScoreNone or
   its one positive score.  Both tables are read from the source on every run (GenPatc.gen_patc_dispatch,
   gen_patc_tester_score); the conditions under which each function says "match" are written here from its body.
   XPath::getTargetData: the score class a template's default priority is computed from (compile time).

   A node is described by what the tests read: node type, namespace URI, local name (target for a PI), and whether an
   attribute node is a namespace declaration.  Text nodes: shouldStripSourceNode is not modelled (no strip-space). *)
From Coq Require Import List NArith Bool Arith.
Import ListNotations.
Require Import XV.XpAst XV.GenPatc XV.XpcLexDefs XV.XpcParseDefs.

Inductive score := ScNone | ScNodeTest | ScNSWild | ScQName | ScOther.
Definition score_of_nat (k : nat) : score :=
  match k with 1 => ScNodeTest | 2 => ScNSWild | 3 => ScQName | 4 => ScOther | _ => ScNone end.
Definition score_eqb (a b : score) : bool :=
  match a, b with
  | ScNone, ScNone | ScNodeTest, ScNodeTest | ScNSWild, ScNSWild | ScQName, ScQName | ScOther, ScOther => true
  | _, _ => false
  end.

Inductive nkind := NkRoot | NkElem | NkAttr | NkNsDecl | NkText | NkComment | NkPI.
(* ns: namespace URI ("" = none); local: local name, or the target of a processing instruction *)
Record xnode := mkX { xkind : nkind; xns : str; xlocal : str }.

(* the test functions of NodeTester *)
Inductive tester :=
  | TsComment | TsText | TsPI | TsPIName (n : str) | TsNode | TsRoot
  | TsAttrNCName (l : str) | TsAttrQName (u l : str) | TsAttrNsOnly (u : str) | TsAttrWild
  | TsElemNCName (l : str) | TsElemQName (u l : str) | TsElemNsOnly (u : str) | TsElemWild
  | TsDefault.
(* numbering of GenPatc.gen_patc_tester_names *)
Definition tester_id (t : tester) : nat :=
  match t with
  | TsComment => 0 | TsText => 1 | TsPI => 2 | TsPIName _ => 3 | TsNode => 4 | TsRoot => 5
  | TsAttrNCName _ => 6 | TsAttrQName _ _ => 7 | TsAttrNsOnly _ => 8 | TsAttrWild => 9
  | TsElemNCName _ => 10 | TsElemQName _ _ => 11 | TsElemNsOnly _ => 12 | TsElemWild => 13
  | TsDefault => 14
  end.

(* the shape of a node test, as the constructor's switch sees it; numbering of GenPatc.gen_patc_shape_names *)
Definition shape_id (t : ntest) : nat :=
  match t with
  | TComment => 0 | TText => 1
  | TPi None => 2 | TPi (Some _) => 3
  | TNode => 4 | TRoot => 5
  | TName (NsUri _) (Some _) => 9
  | TName (NsUri _) None => 8
  | TName _ (Some _) => 7                  (* eEMPTY and eELEMWILDCARD both read as "no namespace string" *)
  | TName _ None => 6
  end.

Fixpoint dispatch_lookup (tb : list (nat * nat * nat)) (sh : nat) (attr : bool) : option nat :=
  match tb with
  | [] => None
  | (s, a, f) :: r =>
      if (Nat.eqb s sh && (Nat.eqb a 2 || Nat.eqb a (if attr then 1 else 0)))%bool then Some f
      else dispatch_lookup r sh attr
  end.

(* the test function a tester number denotes, with the strings of THIS node test *)
Definition tester_of (f : nat) (t : ntest) : tester :=
  let u := match t with TName (NsUri u) _ => u | _ => [] end in
  let l := match t with TName _ (Some l) => l | TPi (Some l) => l | _ => [] end in
  match f with
  | 0 => TsComment | 1 => TsText | 2 => TsPI | 3 => TsPIName l | 4 => TsNode | 5 => TsRoot
  | 6 => TsAttrNCName l | 7 => TsAttrQName u l | 8 => TsAttrNsOnly u | 9 => TsAttrWild
  | 10 => TsElemNCName l | 11 => TsElemQName u l | 12 => TsElemNsOnly u | 13 => TsElemWild
  | _ => TsDefault
  end.

(* NodeTester::NodeTester(xpath, executionContext, opPos, argLen, stepType) *)
Definition pick_tester (t : ntest) (attr : bool) : tester :=
  match dispatch_lookup gen_patc_dispatch (shape_id t) attr with
  | Some f => tester_of f t
  | None => TsDefault
  end.

(* when the test function does not return eMatchScoreNone *)
Definition tester_accepts (ts : tester) (x : xnode) : bool :=
  let isattr := match xkind x with NkAttr => true | _ => false end in      (* ATTRIBUTE_NODE && !isNamespaceDeclaration *)
  let iselem := match xkind x with NkElem => true | _ => false end in
  match ts with
  | TsComment => match xkind x with NkComment => true | _ => false end
  | TsText => match xkind x with NkText => true | _ => false end
  | TsPI => match xkind x with NkPI => true | _ => false end
  | TsPIName n => match xkind x with NkPI => str_eqb (xlocal x) n | _ => false end
  | TsNode => true
  | TsRoot => match xkind x with NkRoot => true | _ => false end
  | TsAttrNCName l => (isattr && isnil (xns x) && str_eqb (xlocal x) l)%bool
  | TsAttrQName u l => (isattr && str_eqb (xlocal x) l && str_eqb (xns x) u)%bool
  | TsAttrNsOnly u => (isattr && str_eqb (xns x) u)%bool
  | TsAttrWild => isattr
  | TsElemNCName l => (iselem && isnil (xns x) && str_eqb (xlocal x) l)%bool
  | TsElemQName u l => (iselem && str_eqb (xlocal x) l && str_eqb (xns x) u)%bool
  | TsElemNsOnly u => (iselem && str_eqb (xns x) u)%bool
  | TsElemWild => iselem
  | TsDefault => false
  end.

Fixpoint score_lookup (tb : list (nat * nat)) (f : nat) : nat :=
  match tb with [] => 0 | (s, k) :: r => if Nat.eqb s f then k else score_lookup r f end.
Definition tester_score (ts : tester) : score := score_of_nat (score_lookup gen_patc_tester_score (tester_id ts)).

(* NodeTester::operator(): the score of one node test on one node *)
Definition node_test_score (t : ntest) (attr : bool) (x : xnode) : score :=
  let ts := pick_tester t attr in
  if tester_accepts ts x then tester_score ts else ScNone.

(* XPath::getMatchScore for a pattern whose alternatives are ONE step without predicates (and the heads '/' alone):
   stepPattern's switch lets an attribute step see attribute nodes only, a child-like step everything but attribute and
   document nodes; eFROM_ROOT accepts the document node with eMatchScoreOther; first alternative with a score wins *)
Definition single_step_score (s : pstep) (x : xnode) : option score :=
  let isattrnode := match xkind x with NkAttr | NkNsDecl => true | _ => false end in
  match s with
  | (PkRoot, _, []) => Some (match xkind x with NkRoot => ScOther | _ => ScNone end)
  | (PkAttribute, t, []) => Some (if isattrnode then node_test_score t true x else ScNone)
  | (PkImmediateAncestor, t, []) =>
      Some (if (isattrnode || match xkind x with NkRoot => true | _ => false end)%bool then ScNone
            else node_test_score t false x)
  | _ => None
  end.
Fixpoint simple_pattern_score (P : pattern) (x : xnode) : option score :=
  match P with
  | [] => Some ScNone
  | [s] :: r =>
      match single_step_score s x with
      | Some ScNone => simple_pattern_score r x
      | Some sc => Some sc
      | None => None
      end
  | _ => None
  end.

(* XPath::getTargetData: the class of one alternative (what the default priority is computed from) *)
Definition test_class (t : ntest) : score :=
  match t with
  | TComment | TText | TNode | TRoot => ScNodeTest
  | TPi None => ScNodeTest
  | TPi (Some _) => ScQName
  | TName (NsUri _) None => ScNSWild
  | TName _ None => ScNodeTest
  | TName _ (Some _) => ScQName
  end.
Definition target_class (a : lpattern) : score :=
  match a with
  | [] => ScNone                                     (* the loop body never runs: nothing is pushed *)
  | [(PkFunction _, _, _)] => ScOther
  | [(PkRoot, _, _)] => ScOther
  | [((PkAttribute | PkImmediateAncestor | PkAnyAncestor), t, [])] => test_class t
  | _ => ScOther                                     (* more than one step, or a predicate *)
  end.

(* expanded names: (namespace URI, local name); an unprefixed name test has the null namespace *)
Definition test_expanded_name (t : ntest) : option (str * str) :=
  match t with
  | TName NsEmpty (Some l) => Some ([], l)
  | TName (NsUri u) (Some l) => Some (u, l)
  | _ => None
  end.
