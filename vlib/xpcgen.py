"""Generator side of the compiler part of C02 (family xpc; props/C02_compiler.py).

* gen_expr(r, depth): a WELL-FORMED XPath 1.0 expression as a tree (grammar based: every operator, unary minus
  chains, unions, every axis in full and abbreviated syntax, every node test, predicates, filter expressions,
  variables, literals of both quote kinds, number forms, every specialised function with its legal argument
  counts, core functions, extension functions with the bound prefix p).
* toks(e, rp=None, full=False): the token list of the tree: minimal parentheses (precedence, left associativity;
  or/and chains nest to the right without parentheses), rp=(rng, prob): additional REDUNDANT parentheses, full:
  every operator node parenthesised.  join(ts, r, p): the string, white space only where 3.7 requires it
  (need_space: the two token texts would lex differently when glued together, judged with the token grammar
  of vlib/xpsyntax.py) plus random white space between any two tokens.
* expect(e): the tree in the s-expression syntax of harness/xpc.cpp / ocaml/xpc_driver.ml as nested lists
  (no groups); parse_sx / erase_groups / flatten_assoc for the other side.
* boundary_strings(): the exhaustive small boundary sets (frozen in corpus/C02c/boundary.lst);
  deep_strings(): the nesting-depth strings around eMaximumNestingDepth (made at run time: 2 KB each).

Trees:  (op, a, b) op in BIN | ("neg", a) | ("union", [e..]) | ("lit", s) | ("var", prefix|None, local) |
        ("num", text) | ("fn", name, [args]) | ("ext", prefix, local, [args]) |
        ("path", head|None, [pred..], root:bool, [(sep, step)..])     sep: "" (first step of a relative path), "/", "//"
        step = ("s", axis, test, [pred..], form)    form: "full" (axis::test) | "abbr" (child: nothing, attribute: @,
                                                    self::node(): ., parent::node(): ..)
        test = ("name", prefix|None, local|"*") | "node" | "text" | "comment" | ("pi", None|literal)
The tags of the arithmetic part are those of vlib/xpref.py, so that Ref.ev evaluates number-only trees."""
import functools
import json
import os

from vlib import xpsyntax

NS = {"p": "http://p"}
AXES = ["ancestor", "ancestor-or-self", "attribute", "child", "descendant", "descendant-or-self", "following",
        "following-sibling", "namespace", "parent", "preceding", "preceding-sibling", "self"]
#            token  level      (levels: or 1, and 2, equality 3, relational 4, additive 5, multiplicative 6)
BIN = {"or": ("or", 1), "and": ("and", 2), "eq": ("=", 3), "ne": ("!=", 3), "lt": ("<", 4), "lte": ("<=", 4),
       "gt": (">", 4), "gte": (">=", 4), "plus": ("+", 5), "minus": ("-", 5), "mult": ("*", 6), "div": ("div", 6),
       "mod": ("mod", 6)}
P_UNARY, P_UNION, P_PATH, P_PRIMARY = 7, 8, 9, 10
RIGHT_NESTED = ("or", "and")          # a or b or c compiles as (or a (or b c)); the value is the same either way
NAMED_OPS = ("or", "and", "div", "mod", "*")

# XPath 1.0 section 4 (and XSLT 1.0 section 12) argument counts of the functions Xalan compiles to op codes of
# their own: the compiler checks exactly these counts
SPECIAL = {"position": (0, 0), "last": (0, 0), "count": (1, 1), "not": (1, 1), "true": (0, 0), "false": (0, 0),
           "boolean": (1, 1), "name": (0, 1), "local-name": (0, 1), "number": (0, 1), "floor": (1, 1),
           "ceiling": (1, 1), "round": (1, 1), "string-length": (0, 1), "sum": (1, 1)}
# the other functions of XPath 1.0 / XSLT 1.0 with legal argument counts (not checked when compiled)
GENERIC = {"concat": (2, 4), "substring": (2, 3), "string": (0, 1), "contains": (2, 2), "id": (1, 1), "key": (2, 2),
           "lang": (1, 1), "translate": (3, 3), "starts-with": (2, 2), "substring-before": (2, 2),
           "substring-after": (2, 2), "normalize-space": (0, 1), "namespace-uri": (0, 1), "generate-id": (0, 1),
           "current": (0, 0), "document": (1, 2), "format-number": (2, 3), "system-property": (1, 1),
           "unparsed-entity-uri": (1, 1), "element-available": (1, 1), "function-available": (1, 1)}

NAMES = ["a", "b", "c", "d", "item", "x1", "_u", "a-b", "a.b", "b-", "c.", "div", "mod", "and", "or", "child", "text", "node",
         "self", "id", "key", "ancestor", "comment", "true", "position", "last", "not", "\u00e9", "\u4e2dx", "x\u00b7y"]
LITS = ["", "a", "a b", "it's", 'say "hi"', " or ", "1 + 2", "a/b", "*", "\u00e9", "(", "]", "$x", "p:a", "--", " ", "div", "'", '"', "1.5"]
NUMS = ["1", "1.", ".5", "1.5", "007", "10", "0", "2", "3", "0.0", "12.25", "100", ".0", "9."]
WS = [" ", " ", "  ", "\t", "\n", "\r\n", "\r", " \t "]


# props/C02_compiler.py sets this to False when translator/gen_xpc.py reports the tokenizer repaired (fix_dot_token)
DOT_NEEDS_SPACE = True


class Op(str):
    """a binary operator token (the pretty print puts spaces around it)"""


# ---------------------------------------------------------------------------------------------------------------
# generation

def gen_name(r):
    return r.choice(NAMES[:8]) if r.random() < 0.6 else r.choice(NAMES)


def gen_test(r, axis):
    k = r.random()
    if k < 0.50:
        return ("name", None, gen_name(r))
    if k < 0.60:
        return ("name", "p", gen_name(r))
    if k < 0.66:
        return ("name", "p", "*")
    if k < 0.76:
        return ("name", None, "*")
    if k < 0.83:
        return "node"
    if k < 0.89:
        return "text"
    if k < 0.93:
        return "comment"
    if k < 0.96:
        return ("pi", None)
    return ("pi", r.choice([l for l in LITS if l]))


def gen_pred(r, d):
    k = r.random()
    if k < 0.2:
        return ("num", r.choice(["1", "2", "3"]))
    if k < 0.35:
        return (r.choice(["eq", "lt", "gte", "ne"]), ("fn", "position", []), r.choice([("num", "1"), ("fn", "last", []), ("minus", ("fn", "last", []), ("num", "1"))]))
    if k < 0.42:
        return ("fn", "last", [])
    return gen_expr(r, d)


def gen_step(r, d):
    k = r.random()
    if k < 0.06:
        return ("s", "self", "node", [], "abbr")
    if k < 0.12:
        return ("s", "parent", "node", [], "abbr")
    k = r.random()
    if k < 0.45:
        axis, form = "child", "abbr"
    elif k < 0.55:
        axis, form = "attribute", "abbr"
    else:
        axis, form = r.choice(AXES), "full"
    test = gen_test(r, axis)
    preds = []
    while d > 0 and len(preds) < 3 and r.random() < 0.3:
        preds.append(gen_pred(r, d - 1))
    return ("s", axis, test, preds, form)


def gen_primary(r, d):
    k = r.random()
    if k < 0.18:
        return ("lit", r.choice(LITS))
    if k < 0.36:
        return ("num", r.choice(NUMS))
    if k < 0.50:
        return ("var", "p" if r.random() < 0.3 else None, gen_name(r))
    if d <= 0:
        return r.choice([("fn", "position", []), ("fn", "last", []), ("fn", "true", []), ("fn", "false", []), ("fn", "name", []),
                         ("fn", "string", []), ("fn", "current", []), ("ext", "p", "f", [])])
    if k < 0.72:
        name = r.choice(sorted(SPECIAL))
        lo, hi = SPECIAL[name]
    elif k < 0.90:
        name = r.choice(sorted(GENERIC))
        lo, hi = GENERIC[name]
    else:
        n = r.choice([0, 1, 1, 2, 3])
        return ("ext", "p", r.choice(["f", "g-h", "node", "text", "div", "count", "\u00e9"]), [gen_expr(r, d - 1) for _ in range(n)])
    return ("fn", name, [gen_expr(r, d - 1) for _ in range(r.randint(lo, hi))])


def gen_path(r, d):
    head, hpreds, root, steps = None, [], False, []
    if r.random() < 0.3:
        k = r.random()
        head = gen_primary(r, d - 1) if k < 0.6 else gen_expr(r, d - 1)
        while d > 0 and len(hpreds) < 3 and r.random() < 0.5:
            hpreds.append(gen_pred(r, d - 1))
        n = r.choice([0, 1, 1, 2, 3]) if hpreds else r.choice([1, 1, 2, 3])
    else:
        root = r.random() < 0.25
        n = r.choice([0, 1, 1, 2, 3]) if root else r.choice([1, 1, 1, 2, 2, 3, 4])
    for i in range(n):
        if i == 0 and head is None and not root:
            sep = ""
        else:
            sep = "//" if r.random() < 0.2 else "/"
        steps.append((sep, gen_step(r, d)))
    return ("path", head, hpreds, root, steps)


def gen_expr(r, d):
    if d <= 0:
        k = r.random()
        if k < 0.5:
            return gen_primary(r, 0)
        return ("path", None, [], False, [("", gen_step(r, 0))])
    k = r.random()
    if k < 0.42:
        op = r.choice(sorted(BIN))
        return (op, gen_expr(r, d - 1), gen_expr(r, d - 1))
    if k < 0.50:
        e = gen_expr(r, d - 1)
        for _ in range(r.choice([1, 1, 1, 2, 3])):
            e = ("neg", e)
        return e
    if k < 0.60:
        return ("union", [(gen_path(r, d - 1) if r.random() < 0.8 else gen_expr(r, d - 1)) for _ in range(r.choice([2, 2, 3, 4]))])
    if k < 0.85:
        return gen_path(r, d - 1)
    return gen_primary(r, d)


def gen_value_expr(r, d):
    """arithmetic / comparison / boolean operators over number literals only"""
    if d <= 0 or r.random() < 0.12:
        return ("num", r.choice(["0", "1", "2", "3", "5", "7", "10", "0.5", ".25", "1.5", "4.", "100", "007"]))
    k = r.random()
    if k < 0.12:
        return ("neg", gen_value_expr(r, d - 1))
    ops = sorted(BIN)
    op = r.choice(ops) if r.random() < 0.4 else r.choice(["minus", "minus", "div", "div", "mod", "mod", "plus", "mult", "lt", "gt", "eq", "ne", "lte"])
    return (op, gen_value_expr(r, d - 1), gen_value_expr(r, d - 1))


# ---------------------------------------------------------------------------------------------------------------
# printing

def prec(e):
    t = e[0]
    if t in BIN:
        return BIN[t][1]
    if t == "neg":
        return P_UNARY
    if t == "union":
        return P_UNION
    if t == "path":
        return P_PATH
    return P_PRIMARY


def quote(s):
    if "'" not in s:
        return "'" + s + "'" if '"' in s or (len(s) % 2 == 0) else '"' + s + '"'
    assert '"' not in s
    return '"' + s + '"'


def _wrap(ts):
    return ["("] + ts + [")"]


def _sub(e, minprec, rp, full):
    ts = toks(e, rp, full)
    if prec(e) < minprec or (full and prec(e) < P_PATH):
        ts = _wrap(ts)
    if rp is not None:
        while rp[0].random() < rp[1]:
            ts = _wrap(ts)
    return ts


def test_toks(t):
    if t == "node" or t == "text" or t == "comment":
        return [t, "(", ")"]
    if t[0] == "pi":
        return ["processing-instruction", "("] + ([quote(t[1])] if t[1] is not None else []) + [")"]
    _, pfx, local = t
    return [(pfx + ":" + local) if pfx else local]


def pred_toks(ps, rp, full):
    out = []
    for p in ps:
        out += ["["] + _sub(p, 0, rp, full) + ["]"]
    return out


def step_toks(s, rp, full):
    _, axis, test, preds, form = s
    if form == "abbr":
        if axis == "self":
            return ["."]
        if axis == "parent":
            return [".."]
        pre = ["@"] if axis == "attribute" else []
    else:
        pre = [axis, "::"]
    return pre + test_toks(test) + pred_toks(preds, rp, full)


def toks(e, rp=None, full=False):
    """token list of the tree; rp = (rng, probability) adds redundant parentheses around sub-expressions;
    full = every operator node below the top is parenthesised"""
    t = e[0]
    if t in BIN:
        tok, lvl = BIN[t]
        if t in RIGHT_NESTED:
            l, rr = _sub(e[1], lvl + 1, rp, full), _sub(e[2], lvl, rp, full)
        else:
            l, rr = _sub(e[1], lvl, rp, full), _sub(e[2], lvl + 1, rp, full)
        if tok in NAMED_OPS and l[-1] == "/":
            # 3.7: a name or '*' after '/' is a name test, so a bare root cannot directly precede such an operator
            l = _wrap(l)
        return l + [Op(tok)] + rr
    if t == "neg":
        return ["-"] + _sub(e[1], P_UNARY, rp, full)
    if t == "union":
        out = []
        for i, a in enumerate(e[1]):
            if i:
                out.append(Op("|"))
            out += _sub(a, P_PATH, rp, full)
        return out
    if t == "lit":
        return [quote(e[1])]
    if t == "num":
        return [e[1]]
    if t == "var":
        return ["$" + ((e[1] + ":") if e[1] else "") + e[2]]
    if t == "fn" or t == "ext":
        name, args = (e[1], e[2]) if t == "fn" else (e[1] + ":" + e[2], e[3])
        out = [name, "("]
        for i, a in enumerate(args):
            if i:
                out.append(",")
            out += _sub(a, 0, rp, full)
        return out + [")"]
    if t == "path":
        _, head, hpreds, root, steps = e
        out = []
        if head is not None:
            out = _sub(head, P_PRIMARY, rp, full) + pred_toks(hpreds, rp, full)
        elif root and not steps:
            return ["/"]
        for sep, s in steps:
            if sep:
                out.append(sep)
            out += step_toks(s, rp, full)
        return out
    raise ValueError(t)


def _raw(s):
    out, i = [], 0
    while i < len(s):
        m = xpsyntax.TOKEN_RX.match(s, i)
        if not m or m.end() == i:
            return None
        out.append(m.group(0))
        i = m.end()
    return out


@functools.lru_cache(maxsize=100000)
def need_space(a, b):
    """3.7: white space is required exactly where the two tokens glued together would lex differently (longest token
    rule), judged with the token grammar of the independent recogniser."""
    if a[-1] in "'\"" or b[0] in "'\"":
        return False
    ra, rb = _raw(a), _raw(b)
    if ra is None or rb is None:
        return True
    return _raw(a + b) != ra + rb


def join(ts, r=None, p=0.0, pretty=True):
    """the string of a token list.  pretty: single spaces around binary operators and after commas; r, p: random
    white space with probability p at every token boundary (and at both ends)"""
    out = []
    if r is not None and r.random() < p / 2:
        out.append(r.choice(WS))
    for i, t in enumerate(ts):
        if i:
            a = ts[i - 1]
            if r is not None and r.random() < p:
                out.append(r.choice(WS))
            elif need_space(str(a), str(t)) or (DOT_NEEDS_SPACE and a in (".", "..") and isinstance(t, Op) and (t[0].isalpha() or t == "-")):
                # the second case: the unrepaired tokenizer reads '.div' and '.-' as one token (finding K-xpc-dot-glue, see
                # corpus/C02c/k_xpc_dot_glue.txt); stream (i) stays out of it until the source says it is repaired
                out.append(" ")
            elif pretty and (isinstance(a, Op) or isinstance(t, Op) or a == ","):
                out.append(" ")
        out.append(t)
    if r is not None and r.random() < p / 2:
        out.append(r.choice(WS))
    return "".join(out)


# ---------------------------------------------------------------------------------------------------------------
# the tree in the shared s-expression syntax (nested lists)

def hexs(s):
    return "#" + s.encode("utf-16-be", "surrogatepass").hex()


def unhex(h):
    return bytes.fromhex(h[1:]).decode("utf-16-be", "surrogatepass")


def num_of_text(t):
    """the double of a Number token: ASCII digits and at most one '.', anything else NaN"""
    if t and all(c in "0123456789." for c in t) and t.count(".") <= 1 and t != ".":
        return float(t)
    return float("nan")


def canon_num(x):
    return "nan" if x != x else repr(float(x))


def uses_pos(e):
    """position() / last() called in the predicate expression e itself (not in a nested predicate)"""
    t = e[0]
    if t in BIN:
        return uses_pos(e[1]) or uses_pos(e[2])
    if t == "neg":
        return uses_pos(e[1])
    if t == "union":
        return any(uses_pos(a) for a in e[1])
    if t == "fn":
        return e[1] in ("position", "last") or any(uses_pos(a) for a in e[2])
    if t == "ext":
        return any(uses_pos(a) for a in e[3])
    if t == "path":
        return e[1] is not None and uses_pos(e[1])
    return False


def _preds(ps):
    return [["p", "1" if uses_pos(p) else "0", expect(p)] for p in ps]


def _test(t):
    if isinstance(t, str):
        return t
    if t[0] == "pi":
        return ["pi"] if t[1] is None else ["pi", hexs(t[1])]
    _, pfx, local = t
    return ["name", hexs(NS[pfx]) if pfx else "-", "*" if local == "*" else hexs(local)]


def expect(e):
    t = e[0]
    if t in BIN:
        return [t, expect(e[1]), expect(e[2])]
    if t == "neg":
        return ["neg", expect(e[1])]
    if t == "union":
        return ["union"] + [expect(a) for a in e[1]]
    if t == "lit":
        return ["lit", hexs(e[1])]
    if t == "num":
        return ["num", canon_num(num_of_text(e[1]))]
    if t == "var":
        return ["var", hexs(NS[e[1]]) if e[1] else "#", hexs(e[2])]
    if t == "fn":
        return ["func", hexs(e[1])] + [expect(a) for a in e[2]]
    if t == "ext":
        return ["extfunc", hexs(NS[e[1]]), hexs(e[2])] + [expect(a) for a in e[3]]
    if t == "path":
        _, head, hpreds, root, steps = e
        ss = [["step", "root", "root"]] if root else []
        for sep, s in steps:
            if sep == "//":
                ss.append(["step", "descendant-or-self", "node"])
            ss.append(["step", s[1], _test(s[2])] + _preds(s[3]))
        return ["path", expect(head) if head is not None else "-", ["preds"] + _preds(hpreds), ["steps"] + ss]
    raise ValueError(t)


def parse_sx(s):
    """'(a b (c d))' -> ['a', 'b', ['c', 'd']]; the NUM of (num NUM) is canonicalised: model '#hex of the token text',
    harness 'd:%.17g' -> canon_num of the double"""
    stack, cur, i, n = [], None, 0, len(s)
    top = None
    while i < n:
        c = s[i]
        if c == "(":
            new = []
            if cur is not None:
                cur.append(new)
                stack.append(cur)
            cur = new
            i += 1
        elif c == ")":
            if cur is None:
                raise ValueError("unbalanced")
            if len(cur) == 2 and cur[0] == "num" and isinstance(cur[1], str):
                v = cur[1]
                if v.startswith("d:"):
                    cur[1] = canon_num(float(v[2:]))
                elif v.startswith("#"):
                    cur[1] = canon_num(num_of_text(unhex(v)))
            if stack:
                cur = stack.pop()
            else:
                top, cur = cur, None
                if s[i + 1:].strip():
                    raise ValueError("trailing text")
            i += 1
        elif c == " ":
            i += 1
        else:
            j = i
            while j < n and s[j] not in " ()":
                j += 1
            if cur is None:
                raise ValueError("atom outside a list")
            cur.append(s[i:j])
            i = j
    if top is None or cur is not None:
        raise ValueError("unbalanced")
    return top


def erase_groups(x):
    if isinstance(x, list):
        if len(x) == 2 and x[0] == "group":
            return erase_groups(x[1])
        return [erase_groups(y) for y in x]
    return x


def flatten_assoc(x):
    """or / and chains as n-ary nodes: the Recommendation makes them left associative, the compiler nests them to
    the right; the operators are associative, so the structural oracle does not tell the two apart"""
    if not isinstance(x, list):
        return x
    x = [flatten_assoc(y) for y in x]
    if x and x[0] in ("or", "and"):
        out = [x[0]]
        for y in x[1:]:
            if isinstance(y, list) and y and y[0] == x[0]:
                out += y[1:]
            else:
                out.append(y)
        return out
    return x


def show(x):
    if isinstance(x, list):
        return "(" + " ".join(show(y) for y in x) + ")"
    return x


def count_ops(e):
    """(operators, paths with a predicate) of a tree"""
    t = e[0]
    if t in BIN:
        a, b = count_ops(e[1]), count_ops(e[2])
        return (1 + a[0] + b[0], a[1] + b[1])
    if t == "neg":
        a = count_ops(e[1])
        return (1 + a[0], a[1])
    if t == "union":
        cs = [count_ops(a) for a in e[1]]
        return (len(e[1]) - 1 + sum(c[0] for c in cs), sum(c[1] for c in cs))
    if t == "fn" or t == "ext":
        cs = [count_ops(a) for a in (e[2] if t == "fn" else e[3])]
        return (sum(c[0] for c in cs), sum(c[1] for c in cs))
    if t == "path":
        ps = list(e[2]) + [p for _, s in e[4] for p in s[3]]
        cs = [count_ops(p) for p in ps] + ([count_ops(e[1])] if e[1] is not None else [])
        return (sum(c[0] for c in cs), (1 if ps else 0) + sum(c[1] for c in cs))
    return (0, 0)


def top_class(e):
    t = e[0]
    if t in BIN:
        return "op:" + t
    if t == "path":
        return "path:" + ("filter" if e[1] is not None else ("absolute" if e[3] else "relative"))
    if t == "fn":
        return "call:" + ("special" if e[1] in SPECIAL else "generic")
    return t


# ---------------------------------------------------------------------------------------------------------------
# boundary streams

def boundary_strings():
    """stream (iii): exhaustive small sets aimed at the case splits of tokenizer and parser"""
    out = []

    def add(*ss):
        for s in ss:
            if s not in out:
                out.append(s)
    # operator names as element names in every operand position
    opn = ["div", "mod", "and", "or", "*"]
    for a in opn:
        add("%s %s %s" % (a, a, a))
    for a in opn + ["a"]:
        for o in opn:
            for b in opn + ["a"]:
                add("%s %s %s" % (a, o, b))
    add("a div div", "div * div", "*/*", "* div *", "***", "* * *", "a div", "div", "div div", "div div div div", "div div div div div",
        "a and and", "or or", "a or or or or", "- - a", "a - -b", "a -b", "a-b", "a - b", "a- b", "a -", "- a", "-a", "--a", "a--b", "a - - b",
        "a*b", "a *b", "a* b", "a * b", "2*3", "2 * 3", "a div b", "a divb", "adiv b", "2div 3", "2 div3", "2 div 3", "2mod 3", "a mod b",
        "@div", "@*", "@* * @*", "div/div", "div/mod div and/or", "a[div]", "a[div div div]", "f(div)", "count(div div div)", "(div) div (div)",
        "$div div $div", "$div", "$and and $or", "1 and 2 or 3", "1 or 2 and 3", "1 or 2 or 3", "1 and 2 and 3",
        "1 = 2 = 3", "1 != 2 = 3", "1 < 2 < 3", "1 < 2 = 3 > 4", "1 + 2 - 3 + 4", "1 - 2 - 3", "1 div 2 div 3", "8 div 4 mod 3 * 2", "1 - 2 * 3", "2 * 3 - 1",
        "-1 - -1", "- 1 * 2", "-a | b", "- a | b | c", "a | b | c", "a | b and c | d", "1 | 2", "(a | b) | c", "a | (b | c)", "(1 - 2) - 3", "1 - (2 - 3)")
    # '-' and '.' inside names
    add("a-b.c", "a.-b", "a.b", "a-b", "a.", "a-", "a..b", "a.-", "a-.b", "-a-b", "a -.5", "a-.5", ".a", "-.5", "-.a", "_a", "_", "_-_", "a._")
    # numbers
    add("1", "1.", ".5", "1.5", "1.5.", "1..5", ".5.5", "1.a", "1a", "a1", "1div 2", "1 div2", "5mod 2", ".5mod.5", "1.e3", "1e3", "1.5e3", "007", "10", "0",
        ".", "..", "...", "....", ". .", ".. .", "1 .", "1 ..", ".1.", "1.2.3", "1 2", "1 .5", "1. 5", "1 . 5", ".5.", "..5", "5..", ".-5", "1.-5", "1-.5", "1.-.5",
        "1 div .5", "1 div.5", ".5 div 1", ".5div 1", ". div 2", ".div 2", ".. div 2", "..div 2", ". = 1", ".=1", "..=..", ".|..", "./.", "../..", ".//.", ".[1]", "..[1]",
        "1[1]", "1/a", "1.[1]", "1./a", ".5/a", "12345678901234567890", "0.00000000000000000001", "1.0000000000000000000001", "00", "0.", ".0", "-0", "- 0", "1e", "0x10", "1,5", "1_000")
    # '/' and '//' followed by every operator and closer
    add("/", "//", "///", "/ = /", "/ | a", "a | /", "/*", "/* * 2", "/ * 2", "// a", "a//", "a/", "a/ /b", "a / / b", "a // b", "a//b", "a / b", "/and", "/ and /", "(/) and (/)",
        "/-1", "/+1", "/ - 1", "/ + 1", "/div 2", "/ div 2", "(/) div 2", "/ mod 2", "/ or /", "/ != /", "/ < /", "/ <= /", "/ > /", "/ >= /", "/ , /", "f(/)", "f(/,/)", "f(/ , /)",
        "a[/]", "a[/ ]", "a[//]", "(/)", "(//)", "(/)/a", "(/)[1]", "/[1]", "//[1]", "/.", "/..", "//.", "//..", "/@a", "//@a", "/ @a", "/a", "/ a", "//a", "/ /a", "/a/", "/a//", "//a//b",
        "/ | /", "/|/", "/ ]", "/ )", "/ (", "/(a)", "/$x", "/1", "/'a'", "/f()", "/text()", "//text()", "/ text()", "/child::a", "//child::a", "a/child::b", "a//child::b",
        "a///b", "a/ //b", "a// /b", "a/..//../b", "$x/a", "$x//a", "$x/", "$x//", "$x / a", "$x // a", "$x/ /a", "f()/a", "f()//a", "(a)/b", "(a)//b", "(a)/", "'a'/b", "1//b")
    # ':' forms
    add("p:a", "p: a", "p :a", "p : a", "p:*", "p: *", "p :*", "p::a", "child::p:a", "child:: p:a", "child ::p:a", "child :: p:a", "child : : a", "child: :a", "child::a", "a:b:c", "p:a:b", "::a", "a::",
        "::", ":", ":a", "a:", "p:", "p:1", "p:-a", "p:a-b", "p:a.b", "p:.a", "q:a", "q:*", "q:f()", "*:a", "*:*", "p:*:a", "@p:a", "@p:*", "@ p:a", "@p: a", "attribute::p:*", "p:f()", "p:f ()", "p: f()",
        "p :f()", "p:f(1,2)", "p:*()", "p:node()", "p:text()", "text:a", "child::child", "child::child::a", "self::node()", "self::*", "self::p:*", "xml:lang", "p:p:p", "p::p",
        "ancestor::a", "ancestor-or-self::a", "attribute::a", "descendant::a", "descendant-or-self::a", "following::a", "following-sibling::a", "namespace::a", "parent::a", "preceding::a",
        "preceding-sibling::a", "self::a", "root::a", "foo::a", "Child::a", "child::", "child::/a", "child::@a", "child::.", "child::..", "@child::a", "@@a", "@", "@.", "@..", "@/a", "@ a", "@a", "@text()",
        "@node()", "@comment()", "@processing-instruction()", "child::text()", "child::text ( )", "child::node()", "child::comment()", "child::processing-instruction()",
        "child::processing-instruction('a')", 'child::processing-instruction("a")', "processing-instruction(a)", "processing-instruction('a','b')", "processing-instruction(1)",
        "processing-instruction('a' )", "text('a')", "node(1)", "comment(a)", "text(", "text)", "text ()", "text( )", "text", "node", "comment", "processing-instruction", "text[1]", "text()[1]", "text/node")
    # '$' forms
    add("$x", "$ x", "$p:x", "$p: x", "$p :x", "$ p:x", "$1", "$", "$$", "$$x", "$x$y", "$x y", "$x$", "$'a'", "$*", "$p:*", "$q:x", "$x:", "$:x", "$x-1", "$x -1", "$x - 1", "$x-y", "$x.y", "$x.", "$-x", "$.x",
        "$x[1]", "$x [1]", "$x[1][2]", "$x[1]/a", "$x[1]//a", "$x/a[1]", "$x(1)", "$x ()", "$f()", "$x|$y", "$x*$y", "$x div $y", "$xdiv $y", "$x div$y", "$\u00e9", "$_", "$a1", "$text()", "$node")
    # quotes
    add("'a\"b'", "\"a'b\"", "'a", "'a'b'", "''", '""', "'", '"', "'''", "''''", "'a''b'", "'a' 'b'", "'a'\"b\"", "'a'b", "a'b'", "a 'b'", "'a' = \"a\"", "'a'='a'", "'a'[1]", "'a'/b", "' '", "'  a  '", "'<'",
        "'a' | 'b'", "-'a'", "f('a','b')", "f('a' 'b')", "'a'()", "'\u00e9'", "\"\u4e2d\"")
    # '!' '<' '>' '=' forms
    add("1!=2", "1 != 2", "1 ! = 2", "1 !=2", "1!= 2", "1<=2", "1 <= 2", "1< =2", "1 < = 2", "1<2", "1<<2", "1=<2", "1==2", "1>=2", "1 > = 2", "1>>2", "1><2", "1<>2", "1=>2", "1 = = 2", "1!2", "1 ! 2", "!1", "1!",
        "1 !", "!", "!=", "=", "<", ">", "<=", ">=", "= 1", "1 =", "1 <", "< 1", "1 !== 2", "1 != = 2", "1 =! 2", "1 <== 2", "1 <= = 2", "1 = 2", "1=2", "a=b", "a!=b", "a<b", "a<=b", "a>b", "a>=b", "a = !b", "1 != -2",
        "1!=-2", "1<-2", "1<=-2", "1=-2", "1 !\t= 2", "1 <\n= 2", "1 !  = 2", "1 + + 2", "1 ++ 2", "+1", "1 +", "+", "1 + 2", "1+2", "1+-2", "1-+2", "1 * * 2", "1 * / 2", "1 div div 2", "1 div * 2", "1 * div 2")
    # other shapes: parentheses, brackets, commas
    add("", " ", "\t", "()", "(", ")", "[", "]", "[]", "[1]", "(1", "1)", "((1)", "(1))", "((1))", "(1)(2)", "(1)[1]", "(1)[1][2]", "(1)/a", "(a)[1]/b", "(a)[1]//b", "a[1", "a 1]", "a[]", "a[1][", "a[1]]", "a[[1]]", "a[(1)]",
        "a[1][2][3]", "a[b[c[d]]]", "a[b][c]/d[e]", "a()", "a ()", "a(1)", "f(", "f)", "f(,)", "f(1,)", "f(,1)", "f(1,,2)", "f(1 2)", "f(1;2)", "f((1,2))", "f((1),(2))", "f(1)(2)", "f(1)[1]", "f(1)[1]/a", "f(1)/a", "f()[1]",
        "f ( 1 , 2 )", "f(1,2", ",", "1,2", "a,b", "(1,2)", "count()", "count(a)", "count(a,b)", "count (a)", "count( a )", "count", "count[1]", "position()", "position(1)", "last()", "last(1)", "not()", "not(1)", "not(1,2)",
        "true()", "true(1)", "false()", "false(1)", "boolean()", "boolean(1)", "boolean(1,2)", "name()", "name(a)", "name(a,b)", "local-name()", "local-name(a)", "local-name(a,b)", "number()", "number(1)", "number(1,2)", "floor()",
        "floor(1)", "floor(1,2)", "ceiling()", "ceiling(1)", "ceiling(1,2)", "round()", "round(1)", "round(1,2)", "string-length()", "string-length('a')", "string-length('a','b')", "sum()", "sum(a)", "sum(a,b)", "string()",
        "string(1)", "concat('a','b')", "concat('a','b','c')", "substring('a',1)", "substring('a',1,2)", "contains('a','b')", "id('a')", "key('a','b')", "lang('a')", "translate('a','b','c')", "namespace-uri()", "namespace-uri(a)",
        "normalize-space()", "starts-with('a','b')", "substring-before('a','b')", "substring-after('a','b')", "generate-id()", "current()", "document('a')", "format-number(1,'#')", "system-property('a')", "unparsed-entity-uri('a')",
        "element-available('a')", "function-available('a')", "nosuch()", "nosuch(1)", "Count(a)", "position ()", "position( )", "id('a')/b", "id('a')[1]", "key('a','b')/c", "a/id('b')", "a/f()", "a/$x", "a/1", "a/'b'", "a/(b)", "a/(b|c)",
        "a|(b)", "(a|b)/c", "(a|b)[1]", "a/b|c/d", "a[1]|b[2]", "a|b[1]", "-(a)", "-(1)", "(-1)", "-(-1)", "(-1)[1]", "-1[1]", "- 1 [ 1 ]", "--1", "---1", "- - - 1", "1 - - 1", "1--1", "1 - -1")
    # the same call shapes with functions that exist (f() is an unknown function: refused for that reason)
    add("concat(/,/)", "concat(/ , /)", "string(/)", "string(div)", "string(div div div)", "p:f(/)", "p:f(/,/)", "id(1)[1]", "id(1)[1]/a", "id(1)/a", "current()/a", "current()//a", "current()[1]",
        "current()[1][2]/a//b", "concat((1),(2))", "concat ( 1 , 2 )", "string(position())[1]", "concat('a' 'b')", "concat(1,)", "concat(,1)", "concat(1,,2)", "concat(1 2)", "concat(1;2)", "concat((1,2))",
        "string(1)(2)", "concat(1,2", "concat(,)", "concat(", "concat)", "string(1)[1]/a", "p:f(1)[1]/a", "p:f()/a", "p:f ( 1 , 2 )", "p:f(1,)", "p:f(,)", "p:f(1 2)", "a/string()", "a/p:f()", "string()()", "string()/",
        "string()//", "string()[", "string()[]", "string()[1]/", "- string()", "-string()", "string() - 1", "string()-1", "string() -1", "p:f()-1", "p:f() -1", "p:f-1()", "p:f.1()", "true() and false()", "true()and false()",
        "true() andfalse()", "1and 2", "1 and2", "1or 2", "(1)and(2)", "(1)or(2)", "(1)div(2)", "(1)mod(2)", "(1)*(2)", "'a'and'b'", "'a'div'b'", "$x and$y", "$x or $y", "a[1]and b", "a[1]div b", "a[1]*b", "a[1] * b")
    # nested predicates / arguments to depth 6
    for k in range(1, 7):
        e = "a"
        for _ in range(k):
            e = "a[%s]" % e
        add(e)
        e = "position()"
        for _ in range(k):
            e = "a[%s]" % e
        add(e)
        e = "1"
        for _ in range(k):
            e = "string(%s)" % e
        add(e)
        e = "last()"
        for _ in range(k):
            e = "b[count(%s) = 1]" % e
        add(e)
        e = "1"
        for _ in range(k):
            e = "p:f(%s, a[%s])" % (e, e) if len(e) < 200 else "p:f(%s)" % e
        add(e)
        add("(" * k + "a" + ")" * k, "(" * k + "a" + ")" * (k - 1), "(" * (k - 1) + "a" + ")" * k, "-" * k + "1", "a" + "[1]" * k, "(" * k + "a" + ")" * k + "[1]" * k,
            "a" + "/b" * k, "a" + "//b" * k, "/".join(["a[%d]" % i for i in range(k)]), " | ".join(["a"] * (k + 1)))
    add("a[position()]", "a[position() = 1]", "a[last()]", "a[b[position() = 1]]", "a[b[1]][position() = 1]", "a[count(b[last()])]", "a[string(position())]", "a[-position()]", "a[(position())]", "a[p:f(last())]",
        "a[$x[position()]]", "a[position()[1]]", "(a)[position()]", "f(position())[1]", "$x[last()][1]", "a[b/c[last()]/d]", "a[last() and b[1]]", "position()", "last()", "a[1][last()]", "a[position() | last()]")
    # non-ASCII names and digits
    add("\u00e9", "\u4e2d", "\u00e9\u00e9", "a\u00e9", "\u00e9/\u4e2d", "p:\u00e9", "$\u00e9", "@\u00e9", "\u00e9()", "\u0661", "a\u0661", "\u0661a", ".\u0661", "1.\u0661", "1\u0661", "\u06611", "a.\u0661", "a-\u0661", "$\u0661", "$a\u0661",
        "p:\u0661", "p:a\u0661", "@\u0661", "\u0661 + 1", "1 + \u0661", "\u00b7", "a\u00b7", "\u00b7a", "\u0300", "a\u0300", "\u00d7", "a\u00d7b", "\u00f7", "\u2160", "\u3007", "\u3005", "\uff11", "a\uff11", "\u00a0", "a\u00a0b", "a\u3000b",
        "\u2028", "a\u0085b", "\ud800", "\U00010000", "a\U00010000", "\ufffe", "a\uffff")
    # every ASCII character alone, between two names, after a name, before a name, between two numbers
    for c in range(0x20, 0x7f):
        ch = chr(c)
        add(ch, "a%sb" % ch, "a%s" % ch, "%sb" % ch, "1%s2" % ch, "a %s b" % ch)
    # (U+0000 is left out: XalanDOMString-level functions stop at it, the model does not; it cannot come from an XML document)
    for c in (0x09, 0x0a, 0x0d, 0x0b, 0x0c, 0x01, 0x1f, 0x7f):
        ch = chr(c)
        add(ch, "a%sb" % ch, "1%s+%s2" % (ch, ch))
    return out


def deep_strings():
    """nesting depth around eMaximumNestingDepth = 1024 (the limit is the library's; model and library must agree exactly)"""
    out = []
    for k in range(1020, 1031):
        out += ["(" * k + "1" + ")" * k, "-" * k + "1", "a" + "[a" * k + "]" * k, "string(" * k + ")" * k, "(" * (k // 2) + "-" * (k - k // 2) + "1" + ")" * (k // 2)]
    return out


def corpus_dir():
    return os.path.join(os.path.dirname(os.path.dirname(os.path.abspath(__file__))), "corpus", "C02c")


def load_boundary():
    p = os.path.join(corpus_dir(), "boundary.lst")
    if not os.path.exists(p):
        return None
    return [json.loads(l) for l in open(p, encoding="utf-8") if l.startswith('"')]


REGRESSION_FILES = {"K-xpc-name-chars": "k_xpc_name_chars.txt", "K-xpc-dot-glue": "k_xpc_dot_glue.txt", "K-xpc-unicode-digit": "k_xpc_unicode_digit.txt"}


def load_strings(name):
    """a regression file of corpus/C02c: '#' comment lines, then one JSON string per line; None when it is missing"""
    p = os.path.join(corpus_dir(), name)
    if not os.path.exists(p):
        return None
    return [json.loads(l) for l in open(p, encoding="utf-8") if l.startswith('"')]


def freeze():
    """maintenance: python3 -c 'from vlib import xpcgen; xpcgen.freeze()' (re)writes corpus/C02c/boundary.lst"""
    os.makedirs(corpus_dir(), exist_ok=True)
    with open(os.path.join(corpus_dir(), "boundary.lst"), "w", encoding="utf-8") as f:
        f.write("# C02 compiler part, stream (iii): one JSON string per line (vlib/xpcgen.py boundary_strings(); inputs, not expectations)\n")
        for s in boundary_strings():
            try:
                line = json.dumps(s, ensure_ascii=False)
                line.encode("utf-8")
            except UnicodeEncodeError:
                line = json.dumps(s)
            f.write(line + "\n")
