(* XpSpecAxesModel.v — the axis walks of the interpreter model (XpDefs.v Section Axes) return
   exactly the nodes the declarative axes of XpSpecDefs.v relate to the context node, in the order
   the axis counts in (document order for forward axes, reverse document order for reverse axes),
   hence without duplicates: self, parent, child, attribute, ancestor, ancestor-or-self,
   descendant, descendant-or-self, following-sibling, preceding-sibling, root.
   (following / preceding: XpSpecFollowModel.v) *)
From Coq Require Import NArith List Bool Arith Lia Relations Sorted Operators_Properties.
Require Import XV.XpAst XV.DomDefs XV.NumDefs XV.XpDefs XV.DomModel XV.DomDescModel XV.XpModel
               XV.XpSpecDefs XV.XpSpecLayoutModel.
Import ListNotations.

(** * sorted lists *)
Lemma ss_app_inv {A} (R : A -> A -> Prop) l1 l2 : StronglySorted R (l1 ++ l2) ->
  StronglySorted R l1 /\ StronglySorted R l2 /\ forall a b, In a l1 -> In b l2 -> R a b.
Proof.
  induction l1 as [|x l1 IH]; simpl; intros H.
  - repeat split; [constructor | exact H | intros a b []].
  - inversion H as [|? ? Hs Hall]; subst. destruct (IH Hs) as [H1 [H2 H3]].
    rewrite Forall_forall in Hall. split; [|split; [exact H2|]].
    + constructor; [exact H1|]. apply Forall_forall. intros y Hy. apply Hall. apply in_or_app. left. exact Hy.
    + intros a b [<-|Ha] Hb; [apply Hall; apply in_or_app; right; exact Hb | apply H3; assumption].
Qed.

Lemma ss_app {A} (R : A -> A -> Prop) l1 l2 : StronglySorted R l1 -> StronglySorted R l2 ->
  (forall a b, In a l1 -> In b l2 -> R a b) -> StronglySorted R (l1 ++ l2).
Proof.
  induction 1 as [|x l1 Hs IH Hall]; simpl; intros H2 H3; [exact H2|].
  constructor.
  - apply IH; [exact H2|]. intros a b Ha Hb. apply H3; [right; exact Ha | exact Hb].
  - apply Forall_forall. intros y Hy. apply in_app_or in Hy. destruct Hy as [Hy|Hy].
    + rewrite Forall_forall in Hall. apply Hall. exact Hy.
    + apply H3; [left; reflexivity | exact Hy].
Qed.

Lemma ss_filter {A} (R : A -> A -> Prop) f (l : list A) : StronglySorted R l -> StronglySorted R (filter f l).
Proof.
  induction 1 as [|a l Hs IH Hall]; simpl; [constructor|].
  destruct (f a); [|exact IH]. constructor; [exact IH|].
  rewrite Forall_forall in *. intros x Hx. apply filter_In in Hx. apply Hall, Hx.
Qed.

Lemma ss_seq start len : StronglySorted lt (seq start len).
Proof.
  revert start. induction len as [|len IH]; intros start; simpl; constructor; [apply IH|].
  apply Forall_forall. intros x Hx. apply in_seq in Hx. lia.
Qed.

Lemma ss_rev l : StronglySorted lt l -> StronglySorted (fun a b => b < a) (rev l).
Proof.
  induction 1 as [|a l Hs IH Hall]; simpl; [constructor|].
  apply ss_app; [exact IH | constructor; constructor |].
  intros x y Hx [<-|[]]. rewrite Forall_forall in Hall. apply Hall. apply in_rev. exact Hx.
Qed.

Lemma ss_one {A} (R : A -> A -> Prop) x : StronglySorted R [x].
Proof. constructor; constructor. Qed.

Lemma axis_ordered_fwd ax l : axis_reverse ax = false -> StronglySorted lt l -> axis_ordered ax l.
Proof. intros H Hs. unfold axis_ordered, axis_before. rewrite H. exact Hs. Qed.

Lemma axis_ordered_rev ax l : axis_reverse ax = true -> StronglySorted (fun a b => b < a) l -> axis_ordered ax l.
Proof. intros H Hs. unfold axis_ordered, axis_before. rewrite H. exact Hs. Qed.

Lemma axis_ordered_filter ax f l : axis_ordered ax l -> axis_ordered ax (filter f l).
Proof. apply ss_filter. Qed.

Lemma axis_before_irrefl ax x : ~ axis_before ax x x.
Proof. unfold axis_before. destruct (axis_reverse ax); lia. Qed.

Lemma axis_ordered_nodup ax l : axis_ordered ax l -> NoDup l.
Proof.
  induction 1 as [|a l Hs IH Hall]; constructor; [|exact IH].
  intros Hin. rewrite Forall_forall in Hall. exact (axis_before_irrefl ax a (Hall a Hin)).
Qed.

Section AxesCorrect.
  Variable d : doc.
  Variable sz : nat -> nat.
  Hypothesis Hsz0 : sz 0 = length d.
  Hypothesis HL : forall n, n < length d -> node_layout d sz n.
  Hypothesis Hroot : n_parent (get d 0) = None.

  Let Hwf : wf d := wf_of_layout d sz Hsz0 HL.
  Let Hpar := par_lt d sz Hsz0 HL Hroot.
  Let fuel0 := S (length d).

  (* a walk is correct for an axis when it lists exactly the nodes of the axis, in axis order *)
  Definition walk_correct (ax : axis) (n : nat) (l : list nat) : Prop :=
    axis_ordered ax l /\ forall x, In x l <-> axis_rel d ax n x.

  (** ** self *)
  Theorem self_walk n : walk_correct AxSelf n [n].
  Proof.
    split; [apply ss_one|]. intros x. cbn [axis_rel In]. unfold self_ax. split; [intros [<-|[]]; reflexivity | intros ->; left; reflexivity].
  Qed.

  (** ** parent *)
  Theorem parent_walk n :
    walk_correct AxParent n (match parent_of d n with Some p => [p] | None => [] end).
  Proof.
    split.
    - destruct (parent_of d n); [apply ss_one | constructor].
    - intros x. cbn [axis_rel]. rewrite <- (parent_iff d sz Hsz0 HL Hroot n x). unfold parent_of.
      destruct (n_parent (get d n)) as [p|]; cbn [In]; split.
      + intros [<-|[]]. reflexivity.
      + intros H. inversion H. left. reflexivity.
      + intros [].
      + discriminate.
  Qed.

  (** ** child *)
  Lemma children_length p : length (n_children (get d p)) <= length d.
  Proof.
    rewrite <- (seq_length (length d) 0). apply NoDup_incl_length; [apply (wf_nodup d Hwf)|].
    intros c Hc. apply in_seq. destruct (child_facts d sz Hsz0 HL p c Hc) as [_ [_ [_ [H _]]]]. lia.
  Qed.

  Theorem child_walk_correct n fuel : length (n_children (get d n)) <= fuel ->
    walk_correct AxChild n (siblings_after d fuel (first_child d n)).
  Proof.
    intros Hf. rewrite (child_walk d Hwf n fuel Hf). split.
    - apply axis_ordered_fwd; [reflexivity | apply (children_sorted d sz Hsz0 HL)].
    - intros x. reflexivity.
  Qed.

  (** ** attribute: the attribute nodes proper among the stored list (declarations of namespaces are
         kept in the same list by the source tree; they are not on the axis) *)
  Definition is_kattr (x : nat) : bool := nkind_eqb (n_kind (get d x)) KAttr.

  Lemma nkind_eqb_eq a b : nkind_eqb a b = true <-> a = b.
  Proof. destruct a, b; simpl; split; intros H; try reflexivity; try discriminate. Qed.

  Theorem attribute_walk_correct n : n < length d ->
    walk_correct AxAttribute n
      (filter is_kattr (if nkind_eqb (n_kind (get d n)) KElem then n_attrs (get d n) else [])).
  Proof.
    intros Hn. split.
    - apply axis_ordered_filter. apply axis_ordered_fwd; [reflexivity|].
      destruct (nkind_eqb (n_kind (get d n)) KElem); [|constructor].
      rewrite (nl_attrs _ _ _ (HL n Hn)). apply ss_seq.
    - intros x. cbn [axis_rel]. unfold attribute_of. rewrite filter_In. unfold is_kattr. rewrite nkind_eqb_eq.
      destruct (nkind_eqb (n_kind (get d n)) KElem) eqn:E.
      + apply nkind_eqb_eq in E. tauto.
      + split; [intros [[] _]|]. intros [H _]. apply nkind_eqb_eq in H. congruence.
  Qed.

  (** ** ancestor, ancestor-or-self: nearest first *)
  Lemma ancestor_step n p : parent_of d n = Some p -> forall x, ancestor d n x <-> x = p \/ ancestor d p x.
  Proof.
    intros Hp x. unfold ancestor. split.
    - intros H. apply clos_trans_t1n in H. inversion H as [y Hy | y z Hy Hz]; subst.
      + apply (parent_iff d sz Hsz0 HL Hroot) in Hy. unfold parent_of in Hp. left. congruence.
      + apply (parent_iff d sz Hsz0 HL Hroot) in Hy. unfold parent_of in Hp. rewrite Hp in Hy. inversion Hy; subst.
        right. apply clos_t1n_trans. exact Hz.
    - assert (Hr : parent_rel d n p) by (apply (parent_iff d sz Hsz0 HL Hroot); exact Hp).
      intros [->|H]; [apply t_step; exact Hr | eapply t_trans; [apply t_step; exact Hr | exact H]].
  Qed.

  Lemma ancestor_none n : parent_of d n = None -> forall x, ~ ancestor d n x.
  Proof.
    intros Hp x H. unfold ancestor in H. apply clos_trans_t1n in H.
    inversion H as [y Hy | y z Hy Hz]; subst;
      apply (parent_iff d sz Hsz0 HL Hroot) in Hy; unfold parent_of in Hp; congruence.
  Qed.

  Lemma ancestors_walk : forall n fuel, n < fuel ->
    let l := ancestors_from d fuel (parent_of d n) in
    StronglySorted (fun a b => b < a) l /\ (forall x, In x l -> x < n) /\ forall x, In x l <-> ancestor d n x.
  Proof.
    induction n as [n IH] using lt_wf_ind. intros fuel Hf. cbv zeta.
    destruct fuel as [|f]; [lia|].
    destruct (parent_of d n) as [p|] eqn:Ep.
    - pose proof (Hpar _ _ Ep) as Hlt. cbn [ancestors_from].
      destruct (IH p Hlt f) as [Hs [Hb Hm]]; [lia|]. split; [|split].
      + constructor; [exact Hs|]. apply Forall_forall. intros y Hy. apply Hb. exact Hy.
      + intros x [<-|Hx]; [exact Hlt | specialize (Hb x Hx); lia].
      + intros x. rewrite (ancestor_step n p Ep x). cbn [In]. rewrite (Hm x). split; intros [H|H]; auto.
    - cbn [ancestors_from]. split; [constructor|]. split; [intros x []|].
      intros x. split; [intros [] | intros H; exact (ancestor_none n Ep x H)].
  Qed.

  Theorem ancestor_walk_correct n fuel : n < fuel ->
    walk_correct AxAncestor n (ancestors_from d fuel (parent_of d n)).
  Proof.
    intros Hf. destruct (ancestors_walk n fuel Hf) as [Hs [_ Hm]]. split; [|exact Hm].
    apply axis_ordered_rev; [reflexivity | exact Hs].
  Qed.

  Theorem ancestor_or_self_walk_correct n fuel : n < fuel ->
    walk_correct AxAncestorOrSelf n (ancestors_from d (S fuel) (Some n)).
  Proof.
    intros Hf. destruct (ancestors_walk n fuel Hf) as [Hs [Hb Hm]]. cbn [ancestors_from]. split.
    - apply axis_ordered_rev; [reflexivity|]. constructor; [exact Hs|]. apply Forall_forall. exact Hb.
    - intros x. cbn [axis_rel In]. unfold ancestor_or_self. rewrite (Hm x). split; intros [H|H]; auto.
  Qed.

  (** ** descendant, descendant-or-self: the pre-order walk *)
  Lemma desc_list_sorted n : StronglySorted lt (desc_list d sz n).
  Proof. unfold desc_list. apply ss_filter, ss_seq. Qed.

  Theorem descendant_or_self_walk_correct n : n < length d ->
    walk_correct AxDescendantOrSelf n (descendants_or_self d n).
  Proof.
    intros Hn. rewrite (descendants_or_self_eq d sz Hsz0 HL Hroot n Hn). split.
    - apply axis_ordered_fwd; [reflexivity|]. constructor; [apply desc_list_sorted|].
      apply Forall_forall. intros x Hx. apply (desc_list_In d sz Hsz0 HL n x Hn) in Hx.
      apply (desc_interval d sz Hsz0 HL) in Hx. lia.
    - intros x. cbn [axis_rel In]. unfold descendant_or_self. rewrite (desc_list_In d sz Hsz0 HL n x Hn).
      split; intros [H|H]; auto.
  Qed.

  Theorem descendant_walk_correct n : n < length d ->
    walk_correct AxDescendant n (tl (descendants_or_self d n)).
  Proof.
    intros Hn. rewrite (descendants_or_self_eq d sz Hsz0 HL Hroot n Hn). cbn [tl]. split.
    - apply axis_ordered_fwd; [reflexivity | apply desc_list_sorted].
    - intros x. apply (desc_list_In d sz Hsz0 HL n x Hn).
  Qed.

  (** ** following-sibling, preceding-sibling *)
  Lemma not_a_child n : (forall p, ~ child_of d p n) -> next_sibling d n = None /\ prev_sibling d n = None.
  Proof.
    intros H. unfold next_sibling, prev_sibling.
    destruct (is_attr_kind (n_kind (get d n))) eqn:Ek; [split; reflexivity|].
    destruct (n_parent (get d n)) as [p|] eqn:Ep; [|split; reflexivity].
    exfalso. apply (parent_iff d sz Hsz0 HL Hroot) in Ep. destruct Ep as [Hc|Ha].
    - exact (H p Hc).
    - pose proof (kind_of_attr d sz Hsz0 HL p n Ha) as Hk. unfold nonattrb in Hk. rewrite Ek in Hk. discriminate.
  Qed.

  Lemma child_unique_parent p q n : child_of d p n -> child_of d q n -> p = q.
  Proof.
    intros H1 H2. destruct (child_facts d sz Hsz0 HL p n H1) as [_ [_ [_ [_ [_ [A _]]]]]].
    destruct (child_facts d sz Hsz0 HL q n H2) as [_ [_ [_ [_ [_ [B _]]]]]]. congruence.
  Qed.

  Lemma child_dec n : (exists p, child_of d p n) \/ (forall p, ~ child_of d p n).
  Proof.
    destruct (n_parent (get d n)) as [p|] eqn:Ep.
    - destruct (in_dec Nat.eq_dec n (n_children (get d p))) as [Hin|Hnin]; [left; exists p; exact Hin|].
      right. intros q Hq. destruct (child_facts d sz Hsz0 HL q n Hq) as [_ [_ [_ [_ [_ [A _]]]]]].
      rewrite Ep in A. inversion A; subst. exact (Hnin Hq).
    - right. intros q Hq. destruct (child_facts d sz Hsz0 HL q n Hq) as [_ [_ [_ [_ [_ [A _]]]]]]. congruence.
  Qed.

  Theorem following_sibling_walk_correct n fuel : length d <= fuel ->
    walk_correct AxFollowingSibling n (siblings_after d fuel (next_sibling d n)).
  Proof.
    intros Hf. destruct (child_dec n) as [[p Hp]|Hno].
    - destruct (in_split _ _ Hp) as [pre [post Hc]].
      assert (Hlen : length post <= fuel).
      { pose proof (children_length p) as Hl. rewrite Hc, app_length in Hl. simpl in Hl. lia. }
      rewrite (following_sibling_walk d Hwf p pre n post fuel Hc Hlen).
      pose proof (children_sorted d sz Hsz0 HL p) as Hs. rewrite Hc in Hs.
      destruct (ss_app_inv _ _ _ Hs) as [_ [Hs2 Hx]]. inversion Hs2 as [|? ? Hs3 Hall]; subst.
      rewrite Forall_forall in Hall. split.
      + apply axis_ordered_fwd; [reflexivity | exact Hs3].
      + intros x. cbn [axis_rel]. unfold following_sibling, doc_before. split.
        * intros Hin. exists p. split; [exact Hp|]. split; [|apply Hall; exact Hin].
          unfold child_of. rewrite Hc. apply in_or_app. right. right. exact Hin.
        * intros [q [Hq [Hxq Hlt]]]. assert (q = p) by (exact (child_unique_parent q p n Hq Hp)). subst q.
          unfold child_of in Hxq. rewrite Hc in Hxq. apply in_app_or in Hxq. destruct Hxq as [Hin|[<-|Hin]].
          -- specialize (Hx x n Hin (or_introl eq_refl)). lia.
          -- lia.
          -- exact Hin.
    - destruct (not_a_child n Hno) as [-> _]. destruct fuel; cbn [siblings_after]; (split; [constructor|]);
        intros x; cbn [axis_rel]; unfold following_sibling; (split; [intros [] | intros [p [Hp _]]; exact (Hno p Hp)]).
  Qed.

  Theorem preceding_sibling_walk_correct n fuel : length d <= fuel ->
    walk_correct AxPrecedingSibling n (siblings_before d fuel (prev_sibling d n)).
  Proof.
    intros Hf. destruct (child_dec n) as [[p Hp]|Hno].
    - destruct (in_split _ _ Hp) as [pre [post Hc]].
      assert (Hlen : length pre <= fuel).
      { pose proof (children_length p) as Hl. rewrite Hc, app_length in Hl. simpl in Hl. lia. }
      rewrite (preceding_sibling_walk d Hwf p pre n post fuel Hc Hlen).
      pose proof (children_sorted d sz Hsz0 HL p) as Hs. rewrite Hc in Hs.
      destruct (ss_app_inv _ _ _ Hs) as [Hs1 [Hs2 Hx]]. inversion Hs2 as [|? ? Hs3 Hall]; subst.
      rewrite Forall_forall in Hall. split.
      + apply axis_ordered_rev; [reflexivity | apply ss_rev; exact Hs1].
      + intros x. cbn [axis_rel]. unfold preceding_sibling, doc_before. rewrite <- in_rev. split.
        * intros Hin. exists p. split; [exact Hp|]. split; [|exact (Hx x n Hin (or_introl eq_refl))].
          unfold child_of. rewrite Hc. apply in_or_app. left. exact Hin.
        * intros [q [Hq [Hxq Hlt]]]. assert (q = p) by (exact (child_unique_parent q p n Hq Hp)). subst q.
          unfold child_of in Hxq. rewrite Hc in Hxq. apply in_app_or in Hxq. destruct Hxq as [Hin|[<-|Hin]].
          -- exact Hin.
          -- lia.
          -- specialize (Hall x Hin). lia.
    - destruct (not_a_child n Hno) as [_ ->]. destruct fuel; cbn [siblings_before]; (split; [constructor|]);
        intros x; cbn [axis_rel]; unfold preceding_sibling; (split; [intros [] | intros [p [Hp _]]; exact (Hno p Hp)]).
  Qed.

  (** ** the root *)
  Lemma root_is_ancestor : forall n, n < length d -> ancestor_or_self d n 0.
  Proof.
    induction n as [n IH] using lt_wf_ind. intros Hn.
    destruct (Nat.eq_dec n 0) as [->|Hne]; [left; reflexivity|]. right.
    destruct (has_parent d sz Hsz0 HL n) as [p Hp]; [lia|].
    assert (Hr : parent_rel d n p) by (unfold parent_rel, child_of; tauto).
    assert (Hl : parent_of d n = Some p) by (apply (parent_iff d sz Hsz0 HL Hroot); exact Hr).
    pose proof (Hpar _ _ Hl) as Hlt.
    assert (Hpl : p < length d) by (eapply lists_in_range; exact Hp).
    destruct (IH p Hlt Hpl) as [E|A].
    - subst p. apply t_step. exact Hr.
    - eapply t_trans; [apply t_step; exact Hr | exact A].
  Qed.

  Lemma ancestor_in_range n x : ancestor d n x -> x < length d.
  Proof.
    unfold ancestor. intros H. apply clos_trans_tn1 in H. destruct H as [y Hy | y z Hy _];
      (eapply lists_in_range; unfold parent_rel, child_of in Hy; destruct Hy as [Hy|Hy]; [right|left]; exact Hy).
  Qed.

  Theorem root_walk_correct n : n < length d -> walk_correct AxRoot n [0].
  Proof.
    intros Hn. split; [apply ss_one|]. intros x. cbn [axis_rel In]. unfold root_of. split.
    - intros [<-|[]]. split; [apply root_is_ancestor; exact Hn|].
      intros p Hp. apply (parent_iff d sz Hsz0 HL Hroot) in Hp. congruence.
    - intros [Ha Hnp]. left. destruct (Nat.eq_dec x 0) as [->|Hne]; [reflexivity|]. exfalso.
      assert (Hx : x < length d) by (destruct Ha as [->|Ha]; [exact Hn | eapply ancestor_in_range; exact Ha]).
      destruct (has_parent d sz Hsz0 HL x) as [p Hp]; [lia|].
      apply (Hnp p). unfold parent_rel, child_of. tauto.
  Qed.
End AxesCorrect.
