(* extraction of the core2 interpreter + the top-level bindings (lazy evaluation and reference semantics) for the
   correspondence run *)
Require Import ExtrOcamlBasic.
Require Import XV.XsltEventsDefs XV.XsltVarsDefs XV.XsltCoreDefs XV.XsltCore2Defs XV.XsltCore3Defs.
Extraction "extracted/xsltCore3_model.ml"
  BinNums.positive BinNums.N BinNums.Z
  machine_main2 sem_main2 result_of canon_list result_tree2
  genv gval gfuel force_all l_init topo_eval.
