(* C08, part "html": FormatterToHTML as coded (HtmlDefs.v: indent off) against a reader written from HTML 4.01.
   Facts regenerated from /repo: GenHtml.v (entity table, character maps, constants), GenOutopt.v (element table). *)
From Coq Require Import NArith List Bool.
Require Import XV.GenOutopt XV.GenHtml XV.HtmlEnt4Defs XV.HtmlDefs XV.HtmlTableModel XV.HtmlSerModel XV.HtmlRefModel XV.HtmlTextModel XV.HtmlAttrModel XV.HtmlElemModel XV.HtmlUriModel XV.HtmlTagModel XV.HtmlTreeModel XV.HtmlNsDefs XV.HtmlNsModel.
Import ListNotations.
Open Scope N_scope.

(* ---- the property table, for every element name in every ASCII case ------------------------------------ *)
Theorem void_flag_is_html4 : forall name, elem_is flag_EMPTY name = in_names (map low name) void4.
Proof. exact elem_is_void. Qed.
Print Assumptions void_flag_is_html4.

Theorem raw_flag_is_script_style : forall name, elem_is flag_RAW name = in_names (map low name) raw4.
Proof. exact elem_is_raw. Qed.
Print Assumptions raw_flag_is_script_style.

Theorem script_flag_is_script : forall name, elem_is flag_SCRIPTELEM name = str_eqb (map low name) [115;99;114;105;112;116].
Proof. exact elem_is_script. Qed.
Print Assumptions script_flag_is_script.

Theorem head_flag_is_head : forall name, elem_is flag_HEADELEM name = str_eqb (map low name) head_name.
Proof. exact elem_is_head. Qed.
Print Assumptions head_flag_is_head.

(* ---- void elements: the start tag and nothing else ------------------------------------------------------ *)
Theorem void_elements_unclosed : forall c top ins raw op name attrs ao,
  in_names (map low name) void4 = true -> ser_attrs c name attrs = Some ao ->
  ser_node c top ins raw op (HEl name attrs []) = Some (pte op ++ [60] ++ acc_name c name ++ ao ++ [62], false).
Proof. exact void_unclosed. Qed.
Print Assumptions void_elements_unclosed.

Example void_elements_unclosed_br :
  serialize_html (mkcfg 65535 true true [] [] []) [HEl [66; 82] [([105; 100], [120])] []] = Some [60; 66; 82; 32; 105; 100; 61; 34; 120; 34; 62].
Proof. vm_compute. reflexivity. Qed.

(* ---- SCRIPT / STYLE: content written as it is ------------------------------------------------------------ *)
Theorem script_style_content_is_raw : forall c top ins raw op name attrs ao s,
  in_names (map low name) raw4 = true -> ser_attrs c name attrs = Some ao ->
  s <> [] -> wf16 s = true -> forallb (fun ch => (ch <=? maxc c) && negb (ch =? 13)) s = true ->
  ser_node c top ins raw op (HEl name attrs [HText s]) =
  Some (pte op ++ [60] ++ acc_name c name ++ ao ++ [62] ++ s ++ [60; 47] ++ acc_name c name ++ [62], false).
Proof. exact raw_content_verbatim. Qed.
Print Assumptions script_style_content_is_raw.

(* outside the guard: a unit the encoding cannot carry becomes a reference, which SCRIPT content does not read back *)
Theorem script_style_content_is_raw_refuted :
  serialize_html (mkcfg 127 true true [] [] []) [HEl [115;99;114;105;112;116] [] [HText [233]]] =
  Some ([60;115;99;114;105;112;116;62] ++ [38;35;50;51;51;59] ++ [60;47;115;99;114;105;112;116;62]).
Proof. vm_compute. reflexivity. Qed.

(* ---- processing instructions -------------------------------------------------------------------------------- *)
(* the repaired variant: data the encoding can carry goes out unit for unit (no reader decodes references in a PI) *)
Theorem pi_data_is_raw : forall c d, forallb (fun ch => ch <=? maxc c) d = true -> pi_data false c d = Some d.
Proof. exact pi_data_raw. Qed.
Print Assumptions pi_data_is_raw.

(* ... and that is the variant of this tree (GenHtml.pi_data_is_escaped = false): "<?target data>" *)
Theorem pi_data_is_raw_this_tree : forall c top ins raw op t d,
  forallb (fun ch => ch <=? maxc c) d = true ->
  ser_node c top ins raw op (HPI t d) =
  Some (pte op ++ [60; 63] ++ acc_name c t ++
        (match d with [] => [] | d0 :: _ => (if is_xml_ws d0 then [] else [32]) ++ d end) ++ [62] ++ (if top then newline else []), false).
Proof. exact pi_raw_this_tree. Qed.
Print Assumptions pi_data_is_raw_this_tree.

Example pi_data_is_raw_instance :
  serialize_html (mkcfg 65535 true true [] [] []) [HEl [112] [] [HPI [116] [97; 38; 98; 60; 99]]] =
  Some [60;112;62; 60;63;116;32;97;38;98;60;99;62; 60;47;112;62].
Proof. vm_compute. reflexivity. Qed.

(* the variant found first (K-C08h-2, repaired in /repo): the data went through writeCharacters *)
Theorem pi_data_before_fix_witness :
  pi_data true (mkcfg 65535 true true [] [] []) [97; 38; 98; 60; 99] = Some [97; 38;97;109;112;59; 98; 38;108;116;59; 99].
Proof. vm_compute. reflexivity. Qed.

(* ---- entity references ------------------------------------------------------------------------------------ *)
Theorem entity_references_resolve : forall ch e, ch <> 39 -> default_entity ch = Some e ->
  exists n, e = 38 :: n ++ [59] /\ resolve_ref n = Some [ch] /\ forallb is_alnum n = true /\ n <> [].
Proof. exact default_entity_resolves. Qed.
Print Assumptions entity_references_resolve.

Theorem entity_table_sorted : strictly_sorted html_entities = true.
Proof. exact html_entities_sorted. Qed.
Print Assumptions entity_table_sorted.

Example nbsp_is_an_entity : default_entity 160 = Some [38; 110; 98; 115; 112; 59].
Proof. vm_compute. reflexivity. Qed.

(* ---- text: what writeCharacters writes is read back, in the data state, as the units of the node ----------------
   chars_ok = well-formed UTF-16 over HTML 4.01's document character set (TAB LF CR, 32..126, 160 and above);
   maxc_ok = the three m_maxCharacter values (US-ASCII, ISO-8859-1, UTF-8/16) *)
Theorem text_escaping_roundtrip : forall c s, maxc_ok c -> chars_ok s = true ->
  exists o, write_chars c s = Some o /\ forall toks, run (Data, toks) o = (Data, emit_chars s toks).
Proof. exact text_roundtrip. Qed.
Print Assumptions text_escaping_roundtrip.

Theorem text_tokens_roundtrip : forall c s, maxc_ok c -> chars_ok s = true ->
  exists o, write_chars c s = Some o /\ tokenize o = Some (map TkChar s).
Proof. exact text_tokens. Qed.
Print Assumptions text_tokens_roundtrip.

Example text_escaping_hypotheses_hold :
  maxc_ok (mkcfg 127 true true [] [] []) /\ chars_ok [60; 38; 233; 160; 8364; 55357; 56832; 9; 10; 13] = true /\
  write_chars (mkcfg 127 true true [] [] []) [60; 38; 233; 160; 8364; 55357; 56832; 9; 13] =
  Some ([38;108;116;59] ++ [38;97;109;112;59] ++ [38;101;97;99;117;116;101;59] ++ [38;110;98;115;112;59] ++ [38;101;117;114;111;59] ++
        [38;35;49;50;56;53;49;50;59] ++ [9] ++ [38;35;49;51;59]).
Proof. split; [left; reflexivity|]. split; vm_compute; reflexivity. Qed.

(* outside the guard: a C1 control is written as &#128;..&#159;, which user agents read as Windows-1252 *)
Theorem text_escaping_roundtrip_refuted :
  exists o, write_chars (mkcfg 127 true true [] [] []) [128] = Some o /\ run (Data, []) o = (Data, emit_chars [8364] []).
Proof. exists [38; 35; 49; 50; 56; 59]. split; vm_compute; reflexivity. Qed.

(* ---- attribute values (not URL-valued): '<' and '>' and "&{" go out as they are, the rest as references ---------- *)
Theorem attr_escaping_roundtrip : forall nm ats an toks s, chars_ok s = true ->
  exists o, write_attr s = Some o /\
            forall v, run (AttrVal nm ats an v, toks) o = (AttrVal nm ats an (rev s ++ v), toks).
Proof. intros nm ats an toks. exact (attr_roundtrip nm ats an toks eq_refl). Qed.
Print Assumptions attr_escaping_roundtrip.

Example attr_escaping_lt_is_not_escaped :
  write_attr [60; 62; 38; 123; 34; 38; 10; 233] = Some ([60; 62; 38; 123] ++ [38;113;117;111;116;59] ++ [38;97;109;112;59] ++ [38;35;49;48;59] ++ [38;101;97;99;117;116;101;59]).
Proof. vm_compute. reflexivity. Qed.

(* ---- the whole way round for the smallest tree with content: <name>text</name>, any ASCII case of the name, every
   text of HTML's character set, the three encodings' m_maxCharacter (html_roundtrip for this shape; the statement over
   all trees - attributes, nesting, SCRIPT/STYLE, META - is not proved here: the extracted guard html_ok and reader are
   run on every generated case by the check instead) *)
Theorem html_roundtrip_element_text_partial : forall c name s,
  maxc_ok c -> name_ok name = true -> chars_ok s = true -> s <> [] ->
  in_names (map low name) void4 = false -> in_names (map low name) raw4 = false -> str_eqb (map low name) head_name = false ->
  exists o, serialize_html c [HEl name [] [HText s]] = Some (doctype_line c ++ o) /\
            parse_html o = Some [norm c (HEl name [] [HText s])].
Proof. exact element_text_roundtrip_lemma. Qed.
Print Assumptions html_roundtrip_element_text_partial.

Example html_roundtrip_instance :
  let c := mkcfg 255 true false [85;84;70;45;56] [] [] in
  let doc := [HEl [72;84;77;76] [] [HEl [72;69;65;68] [] []; HEl [98;111;100;121] [([99;108;97;115;115], [60;38;34])]
              [HEl [73;78;80;85;84] [([67;72;69;67;75;69;68], [])] []; HText [97;60;233;8364]; HEl [115;99;114;105;112;116] [] [HText [97;60;98;38;38]]]]] in
  html_ok c doc = true /\
  match serialize_html c doc with Some o => (parse_html o = Some (map (norm c) doc)) | None => False end.
Proof. split; vm_compute; reflexivity. Qed.

(* ---- URL-valued attributes ----------------------------------------------------------------------------------------
   uri_spec (HtmlDefs) is the definition: units 33..126 as they are except the quote mark (%22), the space as it is, every
   other code point as the %HH of its UTF-8 bytes, UTF-8 given by arithmetic (utf8_bytes).  The code's shifts and masks are
   shown equal to it by exhaustive computation over all 65536 units and, for surrogate pairs, over the 1024 values of each
   half plus linear arithmetic (HtmlUriModel.bytes4_utf8). *)
Theorem uri_escaping_is_percent_utf8 : forall nm ats an toks c s v, maxc_ok c -> esc_urls c = true -> chars_ok s = true ->
  run (AttrVal nm ats an v, toks) (write_uri c s) = (AttrVal nm ats an (rev (uri_spec s) ++ v), toks).
Proof. exact uri_on. Qed.
Print Assumptions uri_escaping_is_percent_utf8.

Theorem uri_bytes_of_a_pair_are_utf8 : forall hi lo, is_high hi = true -> is_lowsur lo = true -> bytes4 hi lo = utf8_bytes (pair_cp hi lo).
Proof. exact bytes4_utf8. Qed.
Print Assumptions uri_bytes_of_a_pair_are_utf8.

(* escapeURLs off: the reader gets the value itself (references for what the encoding lacks, &quot; &amp;) *)
Theorem uri_unescaped_roundtrip : forall nm ats an toks c s v, maxc_ok c -> esc_urls c = false -> chars_ok s = true ->
  run (AttrVal nm ats an v, toks) (write_uri c s) = (AttrVal nm ats an (rev s ++ v), toks).
Proof. intros nm ats an toks c s v Hc. exact (uri_off nm ats an toks c s v Hc eq_refl). Qed.
Print Assumptions uri_unescaped_roundtrip.

Example uri_escaping_instance :
  write_uri (mkcfg 127 true true [] [] []) [97; 32; 34; 38; 233; 2048; 55357; 56832] =
  [97; 32; 37;50;50; 38;97;109;112;59; 37;67;51;37;65;57; 37;69;48;37;65;48;37;56;48; 37;70;48;37;57;70;37;57;56;37;56;48] /\
  uri_spec [97; 32; 34; 38; 233; 2048; 55357; 56832] =
  [97; 32; 37;50;50; 38; 37;67;51;37;65;57; 37;69;48;37;65;48;37;56;48; 37;70;48;37;57;70;37;57;56;37;56;48].
Proof. split; vm_compute; reflexivity. Qed.

(* ---- the ATTREMPTY flags are HTML 4.01's boolean attributes; attribute lists in tag position ---------------------- *)
Theorem boolean_attribute_flag_is_html4 : forall elem name, attr_is aflag_ATTREMPTY elem name = is_bool4 (map low elem) (map low name).
Proof. exact bool_flag. Qed.
Print Assumptions boolean_attribute_flag_is_html4.

Theorem attribute_list_roundtrip : forall c elem, maxc_ok c ->
  forall attrs, forallb attr_ok attrs = true ->
  forall ats m, pending (map low elem) ats m ->
  exists ao, ser_attrs c elem attrs = Some ao /\
             forall toks, run (m, toks) (ao ++ [62]) = emit_start (map low elem) (rev (map (norm_attr c (map low elem)) attrs) ++ ats) toks.
Proof. intros c elem Hc. exact (attrs_run c elem Hc (conj eq_refl eq_refl)). Qed.
Print Assumptions attribute_list_roundtrip.

(* ---- html_roundtrip: every document HTML can represent (html_ok: elements with ASCII names, attributes and text over
   HTML's character set in well-formed UTF-16, void elements empty, SCRIPT/STYLE holding at most one text without "</",
   CR or a unit the encoding lacks, no empty or adjacent text nodes, no comments and no processing instructions, no
   DOCTYPE, the three encodings) is read back, by the HTML 4.01 reader, as norm of itself (names folded, META first in
   HEAD unless omitted, boolean attributes name = name, URL attributes escaped when escapeURLs is on) *)
Theorem html_roundtrip : forall c doc, html_ok c doc = true ->
  exists o, serialize_html c doc = Some o /\ parse_html o = Some (map (norm c) doc).
Proof. exact (html_roundtrip_all (conj eq_refl eq_refl)). Qed.
Print Assumptions html_roundtrip.

(* outside the guard: "</" inside SCRIPT ends the element for the reader *)
Theorem html_roundtrip_refuted :
  let c := mkcfg 65535 true true [] [] [] in
  let doc := [HEl [115;99;114;105;112;116] [] [HText [97; 60; 47; 98]]] in
  html_ok c doc = false /\
  match serialize_html c doc with Some o => parse_html o <> Some (map (norm c) doc) | None => True end.
Proof. split; [vm_compute; reflexivity|]. vm_compute. discriminate. Qed.

(* ---- the shared scratch string m_stringBuffer and the namespace bookkeeping (HtmlNsDefs.v: ser_node_b) ----------------
   doPushHasNamespace puts the prefix of the element name into the string and clears it before returning
   (GenHtml.push_has_namespace_clears_buffer, anchored on the source text); writeNumberedEntityReference and accumHexNumber
   append the number to it, write it and clear it. *)
(* started empty, the string is empty again after every node: text, comment, PI, element with all its descendants, whether
   the element is in a namespace (written by FormatterToXML's code) or not, with or without a prefix resolver, in every context *)
Theorem scratch_buffer_empty_between_events : forall n res c top ins raw op ns o op' b',
  ser_node_b push_has_namespace_clears_buffer res c top ins raw op ns [] n = Some (o, op', b') -> b' = [].
Proof. exact scratch_empty_after_every_node. Qed.
Print Assumptions scratch_buffer_empty_between_events.

Theorem scratch_buffer_empty_after_document : forall res c doc o b,
  serialize_html_b push_has_namespace_clears_buffer res c doc = Some (o, b) -> b = [].
Proof. exact scratch_empty_after_document. Qed.
Print Assumptions scratch_buffer_empty_after_document.

(* hence references and %HH escapes are exactly the number: without namespace declarations in the tree, the model with the
   string writes what the string-free model of the theorems above writes (with or without a prefix resolver) *)
Theorem references_are_exactly_the_number : forall res c doc, forallb no_decls doc = true ->
  serialize_html_b push_has_namespace_clears_buffer res c doc = lift (serialize_html c doc).
Proof. exact serialize_b_is_serialize. Qed.
Print Assumptions references_are_exactly_the_number.

Theorem html_roundtrip_as_coded : forall res c doc, html_ok c doc = true -> forallb no_decls doc = true ->
  exists o, serialize_html_b push_has_namespace_clears_buffer res c doc = Some (o, []) /\ parse_html o = Some (map (norm c) doc).
Proof.
  intros res c doc H N. destruct (html_roundtrip c doc H) as (o & S & P). exists o. split; [|exact P].
  rewrite (references_are_exactly_the_number res c doc N), S. reflexivity.
Qed.
Print Assumptions html_roundtrip_as_coded.

(* what the invariant rests on: without the clear() at the end of doPushHasNamespace (seeded change C08_d) the prefix of
   <svg:svg> stays in the string and is written in front of the next number: &#svg9731; *)
Theorem scratch_buffer_without_clear_witness :
  let c := mkcfg 127 true true [] [] [] in
  let doc := [HEl [104;116;109;108] [([120;109;108;110;115;58;115;118;103], [117])] [HEl [115;118;103;58;115;118;103] [] []; HEl [112] [] [HText [9731]]]] in
  serialize_html_b false true c doc =
    Some ([60;104;116;109;108;32;120;109;108;110;115;58;115;118;103;61;34;117;34;62] ++ [60;115;118;103;58;115;118;103;47;62] ++
          [60;112;62] ++ [38;35;115;118;103;57;55;51;49;59] ++ [60;47;112;62;60;47;104;116;109;108;62], []) /\
  serialize_html_b true true c doc =
    Some ([60;104;116;109;108;32;120;109;108;110;115;58;115;118;103;61;34;117;34;62] ++ [60;115;118;103;58;115;118;103;47;62] ++
          [60;112;62] ++ [38;35;57;55;51;49;59] ++ [60;47;112;62;60;47;104;116;109;108;62], []).
Proof. split; vm_compute; reflexivity. Qed.

(* an element whose prefix is bound is written by FormatterToXML's code ("/>" when empty), an unbound prefix leaves it to
   the HTML code (explicit end tag); without a prefix resolver nothing is looked up *)
Example namespaced_element_instance :
  let c := mkcfg 65535 true true [] [] [] in
  let e := [HEl [115;58;101] [([120;109;108;110;115;58;115], [117])] []] in
  serialize_html_b true true c e = Some ([60;115;58;101;32;120;109;108;110;115;58;115;61;34;117;34;47;62], []) /\
  serialize_html_b true false c e = Some ([60;115;58;101;32;120;109;108;110;115;58;115;61;34;117;34;62;60;47;115;58;101;62], []) /\
  serialize_html_b true true c [HEl [120;58;121] [] []] = Some ([60;120;58;121;62;60;47;120;58;121;62], []).
Proof. repeat split; vm_compute; reflexivity. Qed.
