(* PatcShapeModel.v — C09 part "compile": EVERY pattern the compiler accepts (any token list) has the shape the matcher
   model expects — head codes only in front, eMATCH_ANY_ANCESTOR_WITH_FUNCTION_CALL only behind the function, steps of
   the three step codes, eMATCH_ANY_ANCESTOR never last — or is one of the empty alternatives of K-patc-empty-alt. *)
From Coq Require Import List NArith Bool Arith Lia.
Import ListNotations.
Require Import XV.XpAst XV.GenXpc XV.GenPatc XV.XpcLexDefs XV.XpcParseDefs XV.XpcPrintDefs XV.XpcPrintFacts XV.XpcPrintModel.
Require Import XV.PatcDefs XV.PatcPrintDefs XV.PatcPrintModel.

Fixpoint shape_psteps (l : list pstep) : bool :=
  match l with
  | [] => true
  | (k, t, ps) :: r => (step_kind_ok k && (negb (is_any k) || negb (isnil r)) && shape_psteps r)%bool
  end.
Definition shape_lp (a : lpattern) : bool :=
  let (h, r) := split_head a in
  (shape_psteps r && match h with HdRel | HdAnyP | HdFnAny _ => negb (isnil r) | _ => true end)%bool.

Lemma canon_shape_psteps : forall l, canon_psteps l = true -> shape_psteps l = true.
Proof.
  induction l as [|[[k t] ps] r IH]; intros H; [reflexivity|]. cbn [canon_psteps] in H. andbs H.
  cbn [shape_psteps]. rewrite H, H1, (IH H0). reflexivity.
Qed.
Lemma canon_shape_lp : forall a, canon_lp a = true -> shape_lp a = true.
Proof.
  intros a H. unfold canon_lp, shape_lp in *. destruct (split_head a) as [h r]. andbs H.
  rewrite (canon_shape_psteps _ H). destruct h; auto. apply andb_prop in H0. destruct H0 as [_ H0]. exact H0.
Qed.

Lemma split_head_app : forall h ss, shape_psteps ss = true -> split_head (head_steps h ++ ss) = (h, ss).
Proof.
  intros h ss H.
  assert (K : forall f, split_head (head_fn f :: ss) = (HdFn f, ss)).
  { intros f. destruct ss as [|[[k t] ps] r]; [reflexivity|]. cbn [shape_psteps] in H. andbs H.
    destruct k; try discriminate; reflexivity. }
  destruct h; cbn [head_steps app]; try reflexivity; auto.
  destruct ss as [|[[k t] ps] r]; [reflexivity|]. cbn [shape_psteps] in H. andbs H.
  destruct k; try discriminate; reflexivity.
Qed.

Section Shape.
Variable fl : flags.
Variable pf : pflags.
Variable ns : str -> option str.
Variable pe : nat -> list tok -> res (expr * list tok).
Variable lf : nat.

Lemma pp_step_kind : forall ts k t ps r, pp_step fl ns pe lf ts = Ok ((k, t, ps), r) ->
  step_kind_ok k = true /\ (is_any k = true -> N.eqb (tokc r) ch_solidus = true).
Proof.
  intros ts k t ps r H. unfold pp_step in H.
  destruct (pp_axis ts) as [[c ts1]| |]; try discriminate.
  destruct (p_nodetest fl ns ts1) as [[t1 ts2]| |]; try discriminate.
  destruct (p_preds pe lf 0 ts2) as [[ps1 ts3]| |]; try discriminate.
  inversion H; subst. destruct c; [|split; [reflexivity|discriminate]].
  destruct (is_dslash r) eqn:E; split; try reflexivity; try discriminate.
  intros _. unfold is_dslash in E. apply andb_prop in E. destruct E as [E _]. exact E.
Qed.

Lemma pp_steps_shape : forall m ts l r, pp_steps fl ns pe lf m ts = Ok (l, r) -> shape_psteps l = true /\ l <> [].
Proof.
  induction m as [|m IH]; intros ts l r H; cbn [pp_steps] in H; [discriminate|].
  destruct (pp_step fl ns pe lf ts) as [[[[k t] ps] ts1]| |] eqn:E1; try discriminate.
  destruct (pp_step_kind _ _ _ _ _ E1) as [K1 K2].
  destruct (N.eqb (tokc ts1) ch_solidus) eqn:E2.
  - destruct (pp_steps fl ns pe lf m (tl ts1)) as [[l2 r2]| |] eqn:E3; try discriminate.
    inversion H; subst. destruct (IH _ _ _ E3) as [S1 S2]. split; [|discriminate].
    cbn [shape_psteps]. rewrite K1, S1. destruct l2; [congruence|]. cbn [isnil negb]. rewrite orb_true_r. reflexivity.
  - inversion H; subst. split; [|discriminate]. cbn [shape_psteps]. rewrite K1.
    destruct (is_any k) eqn:EA; [specialize (K2 eq_refl); congruence|reflexivity].
Qed.

Lemma pp_head_shape : forall ts hd q r, pp_head fl pf ns pe lf ts = Ok (hd, q, r) ->
  exists h, hd = head_steps h /\ (q = true <-> h = HdAnyP) /\ (match h with HdFnAny _ => N.eqb (tokc r) ch_solidus = true | _ => True end).
Proof.
  intros ts hd q r H. unfold pp_head in H.
  destruct (is_idkey ts).
  - destruct (p_funcall fl ns pe lf 0 ts) as [[f t1]| |]; try discriminate.
    destruct (negb (head_call_ok pf (tok_is ts kw_key) f)); try discriminate.
    destruct (px_lpp pf && negb (isnil t1) && negb (N.eqb (tokc t1) ch_solidus) && negb (N.eqb (tokc t1) ch_bar))%bool; try discriminate.
    destruct (is_dslash t1) eqn:E; inversion H; subst.
    + exists (HdFnAny f). repeat split; try discriminate.
      unfold is_dslash in E. apply andb_prop in E. destruct E as [_ E]. unfold look_c in E.
      destruct t1 as [|x [|y z]]; try discriminate. cbn [nth_error] in E. cbn [tl]. destruct y as [|c [|c2 yy]]; try discriminate. exact E.
    + exists (HdFn f). repeat split; discriminate.
  - destruct (N.eqb (tokc ts) ch_solidus); [destruct (look_c ts ch_solidus 1)|]; inversion H; subst.
    + exists HdAnyP. repeat split; auto.
    + exists HdRoot. repeat split; discriminate.
    + exists HdRel. repeat split; discriminate.
Qed.

Lemma pp_lpp_shape : forall ab ts a r, pp_lpp fl pf ns pe lf ab ts = Ok (a, r) -> a = [] \/ shape_lp a = true.
Proof.
  intros ab ts a r H. unfold pp_lpp in H.
  destruct (pp_head fl pf ns pe lf ts) as [[[hd q] ts1]| |] eqn:E1; try discriminate.
  destruct (pp_head_shape _ _ _ _ E1) as (h & -> & Hq & Hf).
  unfold pp_tail in H.
  assert (Steps : forall ss ts2, pp_steps fl ns pe lf lf ts1 = Ok (ss, ts2) -> shape_lp (head_steps h ++ ss) = true).
  { intros ss ts2 E5. destruct (pp_steps_shape _ _ _ _ E5) as [S1 S2].
    unfold shape_lp. rewrite (split_head_app h ss S1). rewrite S1.
    destruct ss; [congruence|]. destruct h; reflexivity. }
  assert (NoSteps : (isnil ts1 = true \/ N.eqb (tokc ts1) ch_bar = true) -> q = false ->
                    head_steps h = [] \/ shape_lp (head_steps h) = true).
  { intros Hx Hq0. destruct h; cbn [head_steps]; auto.
    - exfalso. assert (q = true) by (apply Hq; reflexivity). congruence.
    - exfalso. destruct Hx as [Hx|Hx].
      + destruct ts1; [discriminate Hf|discriminate Hx].
      + apply N.eqb_eq in Hf. apply N.eqb_eq in Hx. rewrite Hf in Hx. discriminate. }
  destruct (px_lpp pf).
  - destruct (negb (isnil ts1) && negb (N.eqb (tokc ts1) ch_bar))%bool eqn:E2.
    + destruct (q && N.eqb (tokc ts1) ch_solidus)%bool; try discriminate.
      destruct (pp_steps fl ns pe lf lf ts1) as [[ss ts2]| |] eqn:E5; try discriminate.
      inversion H; subst. right. eapply Steps; eauto.
    + destruct (q || isnil (head_steps h))%bool eqn:E3; try discriminate. inversion H; subst.
      apply orb_false_elim in E3. destruct E3 as [E3 _].
      apply NoSteps; auto. apply andb_false_iff in E2. destruct E2 as [E2|E2]; apply negb_false_iff in E2; auto.
  - destruct (q && (isnil ts1 || N.eqb (tokc ts1) ch_bar))%bool eqn:E2; try discriminate.
    assert (NoSteps' : (isnil ts1 = true \/ N.eqb (tokc ts1) ch_bar = true) -> head_steps h = [] \/ shape_lp (head_steps h) = true).
    { intros Hx. apply NoSteps; auto. destruct q; [|reflexivity]. cbn [andb] in E2.
      destruct Hx as [Hx|Hx]; rewrite Hx in E2; [discriminate|]. rewrite orb_true_r in E2. discriminate. }
    destruct (isnil ts1) eqn:E3; [inversion H; subst; apply NoSteps'; auto|].
    destruct (negb (N.eqb (tokc ts1) ch_bar)) eqn:E4.
    + destruct (pp_steps fl ns pe lf lf ts1) as [[ss ts2]| |] eqn:E5; try discriminate.
      inversion H; subst. right. eapply Steps; eauto.
    + apply negb_false_iff in E4.
      destruct (ab && isnil (head_steps h))%bool; inversion H; subst; apply NoSteps'; auto.
Qed.

(* the repaired LocationPathPattern() compiles no empty alternative *)
Lemma pp_lpp_nonempty_fixed : px_lpp pf = true -> forall ab ts a r, pp_lpp fl pf ns pe lf ab ts = Ok (a, r) -> a <> [].
Proof.
  intros Hpx ab ts a r H. unfold pp_lpp in H.
  destruct (pp_head fl pf ns pe lf ts) as [[[hd q] ts1]| |] eqn:E1; try discriminate.
  unfold pp_tail in H. rewrite Hpx in H.
  destruct (negb (isnil ts1) && negb (N.eqb (tokc ts1) ch_bar))%bool.
  - destruct (q && N.eqb (tokc ts1) ch_solidus)%bool; try discriminate.
    destruct (pp_steps fl ns pe lf lf ts1) as [[ss ts2]| |] eqn:E5; try discriminate.
    inversion H; subst. destruct (pp_steps_shape _ _ _ _ E5) as [_ S2].
    intros C. apply app_eq_nil in C. destruct C as [_ C]. congruence.
  - destruct (q || isnil hd)%bool eqn:E3; try discriminate. inversion H; subst.
    apply orb_false_elim in E3. destruct E3 as [_ E3]. destruct a; [discriminate|discriminate].
Qed.

Lemma pp_pattern_nonempty_fixed : px_lpp pf = true -> forall m ab ts P r, pp_pattern fl pf ns pe lf m ab ts = Ok (P, r) ->
  no_empty_alt P = true.
Proof.
  intros Hpx. induction m as [|m IH]; intros ab ts P r H; cbn [pp_pattern] in H; [discriminate|].
  destruct (pp_lpp fl pf ns pe lf ab ts) as [[a ts1]| |] eqn:E1; try discriminate.
  apply (pp_lpp_nonempty_fixed Hpx) in E1.
  destruct (N.eqb (tokc ts1) ch_bar).
  - destruct (pp_pattern fl pf ns pe lf m true (tl ts1)) as [[P2 r2]| |] eqn:E2; try discriminate.
    inversion H; subst. cbn [no_empty_alt forallb]. apply IH in E2. unfold no_empty_alt in E2. rewrite E2.
    destruct a; [congruence|reflexivity].
  - inversion H; subst. cbn [no_empty_alt forallb]. destruct a; [congruence|reflexivity].
Qed.

Lemma pp_pattern_shape : forall m ab ts P r, pp_pattern fl pf ns pe lf m ab ts = Ok (P, r) ->
  Forall (fun a => a = [] \/ shape_lp a = true) P.
Proof.
  induction m as [|m IH]; intros ab ts P r H; cbn [pp_pattern] in H; [discriminate|].
  destruct (pp_lpp fl pf ns pe lf ab ts) as [[a ts1]| |] eqn:E1; try discriminate.
  apply pp_lpp_shape in E1.
  destruct (N.eqb (tokc ts1) ch_bar).
  - destruct (pp_pattern fl pf ns pe lf m true (tl ts1)) as [[P2 r2]| |] eqn:E2; try discriminate.
    inversion H; subst. constructor; [exact E1|eapply IH; exact E2].
  - inversion H; subst. constructor; [exact E1|constructor].
Qed.

End Shape.

Theorem compiled_shape_m : forall fl pf ns ts P, pparse fl pf ns ts = Ok P ->
  Forall (fun a => a = [] \/ shape_lp a = true) P.
Proof.
  intros fl pf ns ts P H. unfold pparse in H.
  destruct (pp_pattern fl pf ns (p_expr fl ns (S (length ts))) (S (S (length ts))) (S (S (length ts))) false ts) as [[P0 [|t r]]| |] eqn:E;
    try discriminate.
  inversion H; subst. eapply pp_pattern_shape; exact E.
Qed.

(* with the repaired LocationPathPattern() no compiled pattern has an empty alternative *)
Theorem alternatives_nonempty_fixed_m : forall fl pf ns ts P, px_lpp pf = true -> pparse fl pf ns ts = Ok P -> no_empty_alt P = true.
Proof.
  intros fl pf ns ts P Hpx H. unfold pparse in H.
  destruct (pp_pattern fl pf ns (p_expr fl ns (S (length ts))) (S (S (length ts))) (S (S (length ts))) false ts) as [[P0 [|t r]]| |] eqn:E;
    try discriminate.
  inversion H; subst. eapply pp_pattern_nonempty_fixed; eauto.
Qed.
