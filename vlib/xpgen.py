"""Generators for the XPath families (C02, C09, C11): random documents, typed random expressions
built directly in the compiled shape (XpAst), printed both as an XPath string (for the library)
and as an S-expression (for the extracted model), and a Python-side copy of the node numbering."""
import re
import struct

# ------------------------------------------------------------------------------------------------
# documents

XML_NS = "http://www.w3.org/XML/1998/namespace"


def tok(s):
    b = s.encode("utf-16-le", "surrogatepass")
    return "u:" + ",".join("%x" % (b[i] | (b[i + 1] << 8)) for i in range(0, len(b), 2))


class Node:
    __slots__ = ("kind", "qname", "local", "uri", "value", "parent", "attrs", "children", "id", "nsenv")

    def __init__(self, kind, qname="", value=""):
        self.kind, self.qname, self.value = kind, qname, value
        self.local, self.uri = "", ""
        self.parent, self.attrs, self.children = None, [], []
        self.id = -1
        self.nsenv = {}


def gen_tree(r, depth, names, maxch):
    """returns a nested tuple tree: ('e', qname, [(aq, av)...], [children]) | ('t', s) | ('c', s) | ('p', target, data)"""
    name = r.choice(names)
    attrs = []
    used = set()
    for _ in range(r.choice([0, 0, 1, 1, 2, 3])):
        a = r.choice(["x", "y", "id", "n", "p:z", "xml:lang"])
        if a in used:
            continue
        used.add(a)
        if a == "xml:lang":
            v = r.choice(["en", "en-US", "de", "EN"])
        else:
            v = r.choice(["1", "2", "3", "10", "a", "b", "ab", "", "1.5", "-1", " 2 ", "x y", "NaN", "007"])
        attrs.append((a, v))
    needs_p = name.startswith("p:") or any(a.startswith("p:") for a, _ in attrs)
    if needs_p or r.random() < 0.1:
        attrs.insert(0, ("xmlns:p", r.choice(["urn:p", "urn:p", "urn:q"])))
    if r.random() < 0.08:
        attrs.insert(0, ("xmlns", r.choice(["urn:d", ""])))
    if r.random() < 0.05:
        attrs.insert(0, ("xmlns:q", "urn:q"))
    children = []
    if depth > 0:
        last_text = False
        for _ in range(r.randrange(0, maxch + 1)):
            k = r.random()
            if k < 0.6:
                children.append(gen_tree(r, depth - 1, names, maxch))
                last_text = False
            elif k < 0.85:
                if not last_text:
                    children.append(("t", r.choice(["1", "2", "3", "5", "10", "a", "b", "abc", " ", "\n  ", "1.5", "-2", "x y z", "é", "\U0001d4b3", "0", "  7 "])))
                    last_text = True
            elif k < 0.93:
                children.append(("c", r.choice(["c1", "", "note", "2"])))
                last_text = False
            else:
                children.append(("p", r.choice(["pi", "target", "a"]), r.choice(["", "data", "x=1"])))
                last_text = False
    return ("e", name, attrs, children)


def gen_doc(r, size="small"):
    names = ["a", "b", "c", "a", "b", "p:a", "p:b", "d"]
    depth, maxch = (3, 3) if size == "small" else (4, 4)
    top = []
    if r.random() < 0.15:
        top.append(("c", "top"))
    if r.random() < 0.1:
        top.append(("p", "tp", "d"))
    root = gen_tree(r, depth, names, maxch)
    # the document element must declare p if a descendant needs it and nobody did: force a declaration
    root = ("e", root[1], ([("xmlns:p", "urn:p")] if not any(a == "xmlns:p" for a, _ in root[2]) else []) + root[2], root[3])
    top.append(root)
    if r.random() < 0.1:
        top.append(("c", "end"))
    return top


def doc_tokens(top):
    out = []

    def go(t):
        if t[0] == "e":
            out.append("(" + t[1])
            for a, v in t[2]:
                out.append("@%s=%s" % (a, tok(v)))
            for c in t[3]:
                go(c)
            out.append(")")
        elif t[0] == "t":
            out.append("t=" + tok(t[1]))
        elif t[0] == "c":
            out.append("c=" + tok(t[1]))
        else:
            out.append("p=%s=%s" % (t[1], tok(t[2])))
    for t in top:
        go(t)
    return " ".join(out)


def build_nodes(top):
    """Python copy of the node table (same numbering as DomDefs.build_doc and harness/xp.cpp)."""
    nodes = []
    docn = Node("doc", "#document")
    docn.id = 0
    nodes.append(docn)
    seen_el = [False]

    def add(n, parent):
        n.id = len(nodes)
        n.parent = parent
        nodes.append(n)

    def go(t, parent, env):
        if t[0] == "e":
            n = Node("elem", t[1])
            add(n, parent)
            attrs = list(t[2])
            if not seen_el[0]:
                attrs = [("xmlns:xml", XML_NS)] + attrs
                seen_el[0] = True
            env = dict(env)
            for a, v in attrs:
                if a == "xmlns":
                    env[""] = v
                elif a.startswith("xmlns:"):
                    env[a[6:]] = v
            n.nsenv = env
            if ":" in t[1]:
                p, l = t[1].split(":", 1)
                n.local, n.uri = l, env.get(p, "")
            else:
                n.local, n.uri = t[1], env.get("", "")
            for a, v in attrs:
                an = Node("nsdecl" if (a == "xmlns" or a.startswith("xmlns:")) else "attr", a, v)
                if an.kind == "nsdecl":
                    an.local = a.split(":", 1)[1] if ":" in a else a
                elif ":" in a:
                    p, l = a.split(":", 1)
                    an.local, an.uri = l, env.get(p, "")
                else:
                    an.local = a
                add(an, n)
                n.attrs.append(an)
            for c in t[3]:
                n.children.append(go(c, n, env))
            return n
        n = Node({"t": "text", "c": "comment", "p": "pi"}[t[0]], t[1] if t[0] == "p" else "", t[2] if t[0] == "p" else t[1])
        if t[0] == "p":
            n.local = t[1]
        add(n, parent)
        return n
    for t in top:
        docn.children.append(go(t, docn, {"xml": XML_NS}))
    return nodes


# ------------------------------------------------------------------------------------------------
# expressions: generated as Python tuples in the compiled shape
#   ('or',a,b) ('and',a,b) ('ne'|'eq'|'lte'|'lt'|'gte'|'gt'|'plus'|'minus'|'mult'|'div'|'mod', a, b)
#   ('neg',a) ('union',[..]) ('lit',s) ('var',name) ('group',a) ('num',text) ('fn',name,[args])
#   ('path', head|None, [preds], [steps])   pred = (flag, expr)   step = (axis, test, [preds])
#   test = 'comment'|'text'|'node'|'root'|('pi',None|s)|('name', ns, local)   ns = None | uri ; local = None (*) | str

AXES = ["ancestor", "ancestor-or-self", "attribute", "child", "descendant", "descendant-or-self",
        "following", "following-sibling", "parent", "preceding", "preceding-sibling", "self", "namespace"]
PREC = {"or": 1, "and": 2, "eq": 3, "ne": 3, "lt": 4, "lte": 4, "gt": 4, "gte": 4, "plus": 5, "minus": 5,
        "mult": 6, "div": 6, "mod": 6, "neg": 7, "union": 8}
OPSTR = {"or": " or ", "and": " and ", "eq": " = ", "ne": " != ", "lt": " < ", "lte": " <= ", "gt": " > ", "gte": " >= ",
         "plus": " + ", "minus": " - ", "mult": " * ", "div": " div ", "mod": " mod "}
NSMAP = {"p": "urn:p", "q": "urn:q"}


def ends_with_bare_root(e):
    """does the printed form of e end with the token '/' (an absolute path with no steps)?"""
    t = e[0]
    if t in OPSTR:
        return ends_with_bare_root(e[2])
    if t == "neg":
        return ends_with_bare_root(e[1])
    if t == "union":
        return ends_with_bare_root(e[1][-1])
    if t == "path":
        _, head, preds, steps = e
        return head is None and len(steps) == 1 and steps[0][0] == "root"
    return False


def fix_bare_root(e):
    """XPath 1.0 section 3.7: after the operator token '/', a following '*' or NCName (div, mod, and,
    or) is a name test, not an operator, so '/ div 2' is a syntax error by the Recommendation.
    Wrap a left operand whose text ends in a bare '/' in parentheses when such an operator follows."""
    t = e[0]
    if t in OPSTR:
        a, b = fix_bare_root(e[1]), fix_bare_root(e[2])
        if t in ("or", "and", "mult", "div", "mod") and ends_with_bare_root(a):
            a = ("group", a)
        return (t, a, b)
    if t in ("neg", "group"):
        return (t, fix_bare_root(e[1]))
    if t == "union":
        return (t, [fix_bare_root(a) for a in e[1]])
    if t == "fn":
        return (t, e[1], [fix_bare_root(a) for a in e[2]]) + tuple(e[3:])
    if t == "path":
        _, head, preds, steps = e
        fp = lambda ps: [(f, fix_bare_root(x)) for f, x in ps]
        return (t, None if head is None else fix_bare_root(head), fp(preds), [(ax, ts, fp(ps)) for ax, ts, ps in steps])
    return e


class ExprGen:
    def __init__(self, r, nodes=None, depth=3, variables=None):
        self.r, self.depth0 = r, depth
        self.vars = variables or {}
        # string-values present in the document (text, attribute values): operands for comparisons
        # whose truth hinges on equality with some node
        self.values = sorted({n.value for n in (nodes or []) if n.kind in ("text", "attr") and n.value is not None and len(n.value) < 8})

    def g_cmp_boundary(self):
        """node-set compared with a string / number / boolean / node-set, every operator, both operand
        orders, the scalar drawn from the document's own values so that '=' vs '<' vs '<=' differ"""
        r = self.r
        ns = r.choice([
            ("path", None, [], [("descendant-or-self", "node", []), ("attribute", ("name", None, None), [])]),
            ("path", None, [], [("descendant", "text", [])]),
            ("path", None, [], [("root", "root", []), ("descendant", ("name", None, None), [])]),
            ("path", None, [], [("child", ("name", None, None), [])]),
            ("path", None, [], [("attribute", ("name", None, None), [])]),
        ] + [("var", v) for v in self.vars_of("nodes")])
        v = r.choice(self.values) if self.values and r.random() < 0.8 else r.choice(["1", "2", "3", "", "a", "NaN", "-1", "1.5"])
        k = r.random()
        if k < 0.4:
            other = ("lit", v)
        elif k < 0.7:
            try:
                float(v)
                other = ("num", v.strip()) if re.fullmatch(r"\d+(\.\d*)?|\.\d+", v.strip()) else ("lit", v)
            except ValueError:
                other = ("lit", v)
        elif k < 0.8:
            other = ("fn", r.choice(["true", "false"]), [])
        elif k < 0.9:
            other = ("fn", "string", [("lit", v)])
        else:
            other = ("path", None, [], [("descendant-or-self", "node", []), ("attribute", ("name", None, None), [])])
        op = r.choice(["eq", "ne", "lt", "lte", "gt", "gte"])
        return (op, ns, other) if r.random() < 0.5 else (op, other, ns)

    # ---- typed generation ----
    def gen(self, ty=None, depth=None):
        d = self.depth0 if depth is None else depth
        if ty is None and depth is None and self.r.random() < 0.07:
            # boundary stream: comparisons that hinge on equality with a node's value
            return self.g_cmp_boundary()
        if ty is None and depth is None and self.r.random() < 0.06:
            # boundary stream: string search with self-overlapping needles
            h, n = self.g_search(d)
            return (("fn", self.r.choice(["contains", "substring-before", "substring-after", "starts-with"]), [h, n]))
        ty = ty or self.r.choice(["nodes", "nodes", "num", "bool", "str", "any"])
        if ty == "any":
            ty = self.r.choice(["nodes", "num", "bool", "str"])
        return fix_bare_root(getattr(self, "g_" + ty)(d))

    def wrap(self, e, parent_prec, right=False):
        """insert an explicit group where the printed form would otherwise re-associate"""
        p = PREC.get(e[0], 9)
        if p < parent_prec or (right and p == parent_prec and e[0] not in ("or", "and")):
            return ("group", e)
        return e

    def binop(self, op, a, b):
        p = PREC[op]
        if op in ("or", "and"):
            # right-nested in the compiled form: a or (b or c) prints without parentheses
            a = self.wrap(a, p + 1)
            b = self.wrap(b, p)
            return (op, a, b)
        return (op, self.wrap(a, p), self.wrap(b, p, right=True))

    def g_bool(self, d):
        r = self.r
        if d <= 0:
            return r.choice([("fn", "true", []), ("fn", "false", [])])
        k = r.random()
        if k < 0.35:
            op = r.choice(["eq", "ne", "lt", "lte", "gt", "gte", "eq", "ne"])
            ta = r.choice(["nodes", "nodes", "num", "str", "bool", "nodes"])
            tb = r.choice(["nodes", "num", "str", "num", "bool", "nodes"])
            return self.binop(op, self.gen(ta, d - 1), self.gen(tb, d - 1))
        if k < 0.5:
            return self.binop(r.choice(["or", "and"]), self.gen("bool", d - 1), self.gen("bool", d - 1))
        if k < 0.6:
            return ("fn", "not", [self.gen("any", d - 1)])
        if k < 0.7:
            return ("fn", "boolean", [self.gen("any", d - 1)])
        if k < 0.8:
            if r.random() < 0.5:
                h, n = self.g_search(d)
                return ("fn", r.choice(["contains", "contains", "starts-with"]), [h, n])
            return ("fn", r.choice(["contains", "starts-with"]), [self.gen("str", d - 1), self.gen("str", d - 1)])
        if k < 0.85:
            return ("fn", "lang", [("lit", r.choice(["en", "EN", "de", "en-us", ""]))])
        if k < 0.9 and self.vars_of("bool"):
            return ("var", r.choice(self.vars_of("bool")))
        return r.choice([("fn", "true", []), ("fn", "false", [])])

    def g_num(self, d):
        r = self.r
        if d <= 0:
            return ("num", r.choice(["0", "1", "2", "3", "10", "0.5", "1.5", ".5", "2.", "007", "100000000000000000000", "0.1", "0.3"]))
        k = r.random()
        if k < 0.3:
            op = r.choice(["plus", "minus", "mult", "div", "mod", "div", "mod"])
            return self.binop(op, self.gen(r.choice(["num", "num", "nodes", "str"]), d - 1), self.gen(r.choice(["num", "num", "nodes"]), d - 1))
        if k < 0.4:
            a = self.gen("num", d - 1)
            return ("neg", self.wrap(a, 7) if a[0] != "neg" else a)
        if k < 0.5:
            return ("fn", "count", [self.gen("nodes", d - 1)])
        if k < 0.56:
            return ("fn", "sum", [self.gen("nodes", d - 1)])
        if k < 0.66:
            return ("fn", r.choice(["floor", "ceiling", "round"]), [self.gen(r.choice(["num", "num", "str", "nodes"]), d - 1)])
        if k < 0.74:
            return ("fn", "number", [self.gen("any", d - 1)] if r.random() < 0.8 else [])
        if k < 0.8:
            return ("fn", "string-length", [self.gen("str", d - 1)] if r.random() < 0.8 else [])
        if k < 0.88:
            return ("fn", r.choice(["position", "last"]), [])
        if k < 0.93 and self.vars_of("num"):
            return ("var", r.choice(self.vars_of("num")))
        return ("num", r.choice(["0", "1", "2", "3", "4", "0.5", "2.5", "-"[:0] + "9"]))

    def ab_lit(self, maxlen=8):
        """strings over a two/three letter alphabet: self-overlapping needles, partial matches before
        the real occurrence, repeated characters for translate()"""
        r = self.r
        alpha = r.choice(["ab", "ab", "abc", "a", "-> ", "ab \t\n"])
        return ("lit", "".join(r.choice(alpha) for _ in range(r.randrange(0, maxlen + 1))))

    def g_search(self, d):
        """haystack/needle pairs where the needle occurs (so the search has something to miss)"""
        r = self.r
        needle = self.ab_lit(4)[1]
        pre, post = self.ab_lit(5)[1], self.ab_lit(3)[1]
        hay = pre + (needle if r.random() < 0.7 else needle[:-1]) + post
        return ("lit", hay), ("lit", needle)

    def g_str(self, d):
        r = self.r
        if d > 0 and r.random() < 0.12:
            h, n = self.g_search(d)
            return ("fn", r.choice(["substring-before", "substring-after"]), [h, n])
        if d > 0 and r.random() < 0.05:
            return ("fn", "translate", [self.ab_lit(), self.ab_lit(4), self.ab_lit(4)])
        if d > 0 and r.random() < 0.04:
            return ("fn", "normalize-space", [self.ab_lit(10)])
        if d <= 0:
            return ("lit", r.choice(["", "a", "b", "ab", "abc", "1", "2", " 1 ", "x y", "12345", "NaN", "-0", "é", "\U0001d4b3z"]))
        k = r.random()
        if k < 0.15:
            return ("fn", "string", [self.gen("any", d - 1)] if r.random() < 0.8 else [])
        if k < 0.27:
            return ("fn", "concat", [self.gen(r.choice(["str", "str", "num", "nodes"]), d - 1) for _ in range(r.choice([2, 2, 3]))])
        if k < 0.42:
            args = [self.gen("str", d - 1), self.gen("num", d - 1)]
            if r.random() < 0.6:
                args.append(self.gen("num", d - 1))
            return ("fn", "substring", args)
        if k < 0.52:
            return ("fn", r.choice(["substring-before", "substring-after"]), [self.gen("str", d - 1), self.gen("str", d - 1)])
        if k < 0.6:
            return ("fn", "translate", [self.gen("str", d - 1), ("lit", r.choice(["ab", "abc", "a", "", "1 ", "aa"])), ("lit", r.choice(["AB", "x", "", "yz1", "A"]))])
        if k < 0.68:
            return ("fn", "normalize-space", [self.gen("str", d - 1)] if r.random() < 0.8 else [])
        if k < 0.78:
            return ("fn", r.choice(["name", "local-name", "namespace-uri"]), [self.gen("nodes", d - 1)] if r.random() < 0.7 else [])
        if k < 0.84 and self.vars_of("str"):
            return ("var", r.choice(self.vars_of("str")))
        return ("lit", r.choice(["", "a", "b", "ab", "1", "2", "10", " 3 ", "x y z", "1.5"]))

    def vars_of(self, ty):
        return [n for n, (t, _) in self.vars.items() if t == ty]

    def g_test(self, axis):
        r = self.r
        k = r.random()
        if axis == "namespace":
            return r.choice([("name", None, None), ("name", None, "p"), ("name", None, "xml"), "node"])
        if axis == "attribute":
            return r.choice([("name", None, None), ("name", None, "x"), ("name", None, "id"), ("name", "urn:p", "z"), ("name", "urn:p", None), ("name", None, "y"), "node"])
        if k < 0.45:
            return ("name", None, r.choice(["a", "b", "c", "d"]))
        if k < 0.6:
            return ("name", None, None)
        if k < 0.7:
            return ("name", "urn:p", r.choice(["a", "b", None]))
        if k < 0.82:
            return "node"
        if k < 0.9:
            return "text"
        if k < 0.95:
            return "comment"
        return ("pi", r.choice([None, None, "pi", "a"]))

    def g_pred(self, d):
        r = self.r
        k = r.random()
        if k < 0.3:
            e = ("num", r.choice(["1", "2", "3", "1", "2", "0", "1.5", "4"]))
        elif k < 0.45:
            e = self.binop(r.choice(["eq", "lt", "gt", "lte", "gte", "ne"]), ("fn", "position", []), r.choice([("num", "1"), ("num", "2"), ("fn", "last", []), self.binop("minus", ("fn", "last", []), ("num", "1"))]))
        elif k < 0.52:
            e = ("fn", "last", [])
        elif k < 0.62:
            e = self.gen("num", d - 1)
        elif k < 0.8:
            e = self.gen("bool", d - 1)
        else:
            e = self.gen("nodes", d - 1)
        return (has_pos(e), e)

    def g_steps(self, d, n=None):
        r = self.r
        steps = []
        for _ in range(n or r.choice([1, 1, 2, 2, 3])):
            k = r.random()
            if k < 0.5:
                axis = "child"
            elif k < 0.58:
                axis = "attribute"
            elif k < 0.64:
                axis = "descendant-or-self"
            else:
                axis = r.choice(AXES)
            test = self.g_test(axis)
            preds = []
            if d > 0:
                for _ in range(r.choice([0, 0, 0, 1, 1, 2])):
                    preds.append(self.g_pred(d))
            steps.append((axis, test, preds))
        return steps

    def g_nodes(self, d):
        r = self.r
        k = r.random()
        if d <= 0 or k < 0.5:
            steps = self.g_steps(d)
            if r.random() < 0.3:
                steps = [("root", "root", [])] + (steps if r.random() < 0.85 else [])
            return ("path", None, [], steps)
        if k < 0.62:
            n = r.choice([2, 2, 3])
            return ("union", [self.as_union_operand(self.gen("nodes", d - 1)) for _ in range(n)])
        if k < 0.75:
            head = ("group", self.gen("nodes", d - 1))
            preds = [self.g_pred(d) for _ in range(r.choice([0, 1, 1, 2]))]
            steps = self.g_steps(d - 1) if r.random() < 0.5 else []
            if not preds and not steps:
                return head
            return ("path", head, preds, steps)
        if k < 0.85 and self.vars_of("nodes"):
            head = ("var", r.choice(self.vars_of("nodes")))
            preds = [self.g_pred(d) for _ in range(r.choice([0, 0, 1]))]
            steps = self.g_steps(d - 1) if r.random() < 0.6 else []
            if not preds and not steps:
                return head
            return ("path", head, preds, steps)
        return ("path", None, [], self.g_steps(d))

    def as_union_operand(self, e):
        return ("group", e) if e[0] == "union" else e


def has_pos(e):
    """PREDICATE_WITH_POSITION flag: position()/last() inside this predicate, not inside a nested one"""
    t = e[0]
    if t == "fn":
        if e[1] in ("position", "last"):
            return True
        return any(has_pos(a) for a in e[2])
    if t in ("lit", "var", "num"):
        return False
    if t in ("neg", "group"):
        return has_pos(e[1])
    if t == "union":
        return any(has_pos(a) for a in e[1])
    if t == "path":
        return e[1] is not None and has_pos(e[1])
    return has_pos(e[1]) or has_pos(e[2])


# ---- printing ----

def p_test(t):
    if isinstance(t, str):
        return {"comment": "comment()", "text": "text()", "node": "node()", "root": ""}[t]
    if t[0] == "pi":
        return "processing-instruction(%s)" % ("" if t[1] is None else "'%s'" % t[1])
    _, ns, local = t
    pre = ""
    if ns is not None:
        pre = [p for p, u in NSMAP.items() if u == ns][0] + ":"
    return pre + ("*" if local is None else local)


def p_preds(ps):
    return "".join("[%s]" % p_expr(e) for _, e in ps)


def p_steps(steps, r=None):
    out = []
    for i, (axis, test, preds) in enumerate(steps):
        if axis == "root":
            continue
        abbrev = r.random() < 0.5 if r else True
        if axis == "child" and abbrev:
            s = p_test(test)
        elif axis == "attribute" and abbrev:
            s = "@" + p_test(test)
        elif axis == "self" and test == "node" and not preds and abbrev:
            s = "."
        elif axis == "parent" and test == "node" and not preds and abbrev:
            s = ".."
        else:
            s = axis + "::" + p_test(test)
        out.append(s + p_preds(preds))
    return "/".join(out)


def p_expr(e, r=None):
    t = e[0]
    if t in OPSTR:
        return p_expr(e[1], r) + OPSTR[t] + p_expr(e[2], r)
    if t == "neg":
        return "-" + p_expr(e[1], r)
    if t == "union":
        return " | ".join(p_expr(a, r) for a in e[1])
    if t == "lit":
        return ("'%s'" % e[1]) if "'" not in e[1] else ('"%s"' % e[1])
    if t == "var":
        return "$" + e[1]
    if t == "group":
        return "(" + p_expr(e[1], r) + ")"
    if t == "num":
        return e[1]
    if t == "fn":
        return e[1] + "(" + ", ".join(p_expr(a, r) for a in e[2]) + ")"
    if t == "path":
        _, head, preds, steps = e
        if head is None:
            if steps and steps[0][0] == "root":
                return "/" + p_steps(steps, r)
            return p_steps(steps, r)
        s = p_expr(head, r) + p_preds(preds)
        if steps:
            s += "/" + p_steps(steps, r)
        return s
    raise ValueError(t)


def sx_test(t):
    if isinstance(t, str):
        return t
    if t[0] == "pi":
        return "(pi)" if t[1] is None else "(pi %s)" % tok(t[1])
    _, ns, local = t
    return "(name %s %s)" % ("empty" if ns is None else "(uri %s)" % tok(ns), "*" if local is None else tok(local))


def sx_preds(ps):
    return "(" + " ".join("(pred %d %s)" % (1 if f else 0, sx_expr(e)) for f, e in ps) + ")"


def sx_expr(e):
    t = e[0]
    if t in OPSTR:
        return "(%s %s %s)" % (t, sx_expr(e[1]), sx_expr(e[2]))
    if t == "neg":
        return "(neg %s)" % sx_expr(e[1])
    if t == "union":
        return "(union %s)" % " ".join(sx_expr(a) for a in e[1])
    if t == "lit":
        return "(lit %s)" % tok(e[1])
    if t == "var":
        return "(var u: %s)" % tok(e[1])
    if t == "group":
        return "(group %s)" % sx_expr(e[1])
    if t == "num":
        return "(num %s)" % tok(e[1])
    if t == "fn":
        return "(fn %s%s)" % (tok(e[1]), "".join(" " + sx_expr(a) for a in e[2]))
    if t == "path":
        _, head, preds, steps = e
        return "(path %s %s (%s))" % ("none" if head is None else sx_expr(head), sx_preds(preds),
                                      " ".join("(step %s %s %s)" % (ax, sx_test(ts), sx_preds(ps)) for ax, ts, ps in steps))
    raise ValueError(t)


def dbits(x):
    return "%016x" % struct.unpack(">Q", struct.pack(">d", x))[0]


# ------------------------------------------------------------------------------------------------
# documents with an internal DTD subset + expressions around id()  (C02 id stream)
#
# A separate stream with its own random.Random: nothing above draws differently because of it.
# The generator KNOWS the declared attribute types (they are never parsed back from the library):
#   decl = {element qname: [(attribute qname, type, default-kind, default-value|None), ...]}   (declaration order)
#   type in ID IDREF IDREFS CDATA NMTOKEN NMTOKENS ENUM ; default-kind in IMPLIED REQUIRED DEFAULT FIXED
# An XML processor that has read the declarations (validating or not) normalises the values of
# non-CDATA attributes (XML 1.0 section 3.3.3: leading/trailing spaces dropped, runs of #x20 collapsed) and
# supplies defaulted attributes; `effective_tree` mirrors exactly that, so the Python node table and the
# library's tree agree (defaulted attributes after the specified ones, in declaration order).
# TAB/LF/CR are never put into values of non-CDATA attributes (how a parser treats character
# references to them during tokenised-type normalisation is Xerces' business, which is trusted here).

ID_EL_NAMES = ["a", "b", "c", "sec", "p:a", "d"]
ID_ATTR_POOL = ["id", "sid", "ref", "refs", "x", "n", "p:z", "p:id", "to"]
ID_VALUES = ["s1", "s2", "s3", "a", "b", "c", "x-1", "_z", "12", "1", "true", "A", "s10"]
ID_ENUM = ["x", "y", "s1", "a"]


def _id_typestr(t):
    return "(%s)" % "|".join(ID_ENUM) if t == "ENUM" else t


def dtd_text(root, decl):
    out = ["<!DOCTYPE %s [" % root]
    for el, ats in decl.items():
        if not ats:
            continue
        out.append("<!ATTLIST %s" % el)
        for a, t, dk, dv in ats:
            dflt = {"IMPLIED": "#IMPLIED", "REQUIRED": "#REQUIRED", "DEFAULT": '"%s"' % dv, "FIXED": '#FIXED "%s"' % dv}[dk]
            out.append("  %s %s %s" % (a, _id_typestr(t), dflt))
        out.append(">")
    out.append("]>")
    return "\n".join(out)


def norm_tokenized(v):
    """XML 1.0 3.3.3 for attributes whose declared type is not CDATA"""
    return " ".join(x for x in v.split(" ") if x)


def gen_id_decl(r):
    decl = {}
    for el in ID_EL_NAMES:
        if el == "d" or r.random() < 0.1:
            decl[el] = []            # this element type has no ATTLIST at all
            continue
        # at most one ID attribute per element type (XML validity; with two the "unique ID" of XPath 5.2.1 is ambiguous)
        idname = r.choice(["id", "sid", "sid", "p:id", None, "id"])
        ats = []
        if idname:
            ats.append((idname, "ID", r.choice(["IMPLIED", "IMPLIED", "REQUIRED"]), None))
        others = [a for a in ID_ATTR_POOL if a != idname]
        r.shuffle(others)
        for a in others[:r.randrange(1, 6)]:
            if a == "id":
                t = r.choice(["IDREF", "CDATA", "NMTOKEN", "IDREFS"])      # an attribute NAMED id that is not an ID
            elif a in ("ref", "to"):
                t = r.choice(["IDREF", "IDREF", "IDREF", "IDREFS", "CDATA"])
            elif a == "refs":
                t = r.choice(["IDREFS", "IDREFS", "NMTOKENS", "CDATA"])
            else:
                t = r.choice(["IDREF", "IDREFS", "CDATA", "CDATA", "NMTOKEN", "NMTOKENS", "ENUM"])
            k = r.random()
            if k < 0.75:
                dk, dv = "IMPLIED", None
            else:
                dk = "DEFAULT" if k < 0.9 else "FIXED"
                if t == "ENUM":
                    dv = r.choice(ID_ENUM)
                elif t in ("IDREFS", "NMTOKENS"):
                    dv = " ".join(r.choice(ID_VALUES) for _ in range(r.choice([1, 2])))
                else:
                    dv = r.choice(ID_VALUES)
            ats.append((a, t, dk, dv))
        r.shuffle(ats)
        decl[el] = ats
    return decl


def _id_value(r, t, state):
    """an attribute value as WRITTEN in the document for declared type t (None = undeclared)"""
    used, allow_dup = state["used"], state["dup"]
    pad = lambda s: (r.choice(["", "", "", " ", "  "]) + s + r.choice(["", "", "", " ", "   "]))
    anyid = lambda: r.choice(ID_VALUES + ["nope"]) if r.random() < 0.9 else r.choice(["S1", "s", "s1x"])
    if t == "ID":
        fresh = [v for v in ID_VALUES if v not in used]
        if fresh and not (allow_dup and used and r.random() < 0.3):
            v = r.choice(fresh)
        elif allow_dup and used:
            v = r.choice(sorted(used))
        else:
            return None
        used.add(v)
        return pad(v) if r.random() < 0.3 else v
    if t in ("IDREF", "NMTOKEN"):
        return pad(anyid())
    if t in ("IDREFS", "NMTOKENS"):
        return pad(r.choice([" ", " ", "  ", "    "]).join(anyid() for _ in range(r.choice([1, 2, 2, 3, 4]))))
    if t == "ENUM":
        return r.choice(ID_ENUM)
    # CDATA / undeclared: nothing is normalised, any white space survives
    k = r.random()
    if k < 0.5:
        return anyid()
    if k < 0.8:
        return r.choice(["", " ", "\t"]) + r.choice([" ", "  ", "\t", "\n", " \r\n"]).join(anyid() for _ in range(r.choice([1, 2, 3]))) + r.choice(["", " ", "\n"])
    return r.choice(["1", "2", "", "x y", "ab"])


def gen_id_tree(r, decl, depth, maxch, state):
    name = r.choice(ID_EL_NAMES)
    ats = {a: (t, dk) for a, t, dk, _ in decl.get(name, [])}
    attrs, used = [], set()
    idattr = [a for a, (t, _) in ats.items() if t == "ID"]
    cand = []
    if idattr and r.random() < 0.75:
        cand.append(idattr[0])
    for _ in range(r.choice([0, 1, 1, 2, 2, 3])):
        cand.append(r.choice(list(ats) + ["id", "sid", "x", "ref"]) if ats else r.choice(["id", "sid", "x", "ref", "refs"]))
    r.shuffle(cand)
    for a in cand:
        if a in used:
            continue
        used.add(a)
        v = _id_value(r, ats.get(a, (None, None))[0], state)
        if v is not None:
            attrs.append((a, v))
    children = []
    if depth > 0:
        last_text = False
        for _ in range(r.randrange(0, maxch + 1)):
            k = r.random()
            if k < 0.65:
                children.append(gen_id_tree(r, decl, depth - 1, maxch, state))
                last_text = False
            elif k < 0.9:
                if not last_text:
                    toks = [r.choice(ID_VALUES + ["nope"]) for _ in range(r.choice([1, 1, 2, 3]))]
                    children.append(("t", r.choice(["", "", " ", "\n "]) + r.choice([" ", "  ", "\t", "\n", "\r\n "]).join(toks) + r.choice(["", "", " ", "\n"])))
                    last_text = True
            elif k < 0.95:
                children.append(("c", r.choice(["s1", "note"])))
                last_text = False
            else:
                children.append(("p", "pi", r.choice(["s1", "s2 s3"])))
                last_text = False
    return ("e", name, attrs, children)


def effective_tree(t, decl):
    """the tree an XML processor reports for the written tree t under the declarations decl"""
    if t[0] != "e":
        return t
    ats = decl.get(t[1], [])
    types = {}
    for a, ty, dk, dv in ats:
        types.setdefault(a, ty)
    attrs = [(a, v if types.get(a, "CDATA") == "CDATA" else norm_tokenized(v)) for a, v in t[2]]
    have = {a for a, _ in attrs}
    seen = set()
    for a, ty, dk, dv in ats:
        if a in seen:
            continue
        seen.add(a)
        if dk in ("DEFAULT", "FIXED") and a not in have:
            attrs.append((a, dv if ty == "CDATA" else norm_tokenized(dv)))
    return ("e", t[1], attrs, [effective_tree(c, decl) for c in t[3]])


def gen_id_doc(r, size="small"):
    """returns {"written": top as serialised, "top": effective top (what the parser reports), "dtd": text,
                "decl": decl, "dup": whether duplicate ID values were allowed}"""
    decl = gen_id_decl(r)
    state = {"used": set(), "dup": r.random() < 0.2}
    depth, maxch = (3, 3) if size == "small" else (4, 4)
    root = None
    for _ in range(6):
        root = gen_id_tree(r, decl, depth, maxch, state)
        if len(doc_tokens([root]).split()) >= 12:
            break
        state["used"].clear()
    state["used"] = set()
    # re-walk is not needed for uniqueness: `used` only steers the choice; uniqueness is what the reference measures
    root = ("e", root[1], [("xmlns:p", "urn:p")] + root[2], root[3])
    top = []
    if r.random() < 0.1:
        top.append(("c", "s1"))
    top.append(root)
    return {"written": top, "top": [effective_tree(t, decl) for t in top], "dtd": dtd_text(root[1], decl), "decl": decl, "dup": state["dup"]}


def id_table(nodes, decl):
    """XPath 1.0 section 5.2.1: the unique ID of an element is the value of its attribute declared of type ID;
    of two elements reported with the same ID the second in document order has none.  value -> element id"""
    table = {}
    for n in nodes:
        if n.kind != "elem":
            continue
        types = {}
        for a, ty, dk, dv in decl.get(n.qname, []):
            types.setdefault(a, ty)
        for a in n.attrs:
            if a.kind == "attr" and types.get(a.qname) == "ID":
                table.setdefault(a.value, n.id)
    return table


class IdExprGen:
    """expressions around the core function id() (XPath 1.0 section 4.1), over a gen_id_doc document"""

    def __init__(self, r, nodes, table, variables=None):
        self.r, self.nodes, self.table = r, nodes, table
        self.vars = variables or {}
        self.known = sorted(table) or ["s1"]
        self.g = ExprGen(r, nodes=nodes, depth=1, variables=self.vars)

    def idv(self):
        r = self.r
        k = r.random()
        if k < 0.7:
            return r.choice(self.known)
        if k < 0.9:
            return r.choice(ID_VALUES + ["nope"])
        return r.choice(["S1", "s", "s1x", "nope", "é"])

    def idstring(self, n=None):
        r = self.r
        n = r.choice([1, 1, 2, 2, 3, 4]) if n is None else n
        seps = [" ", " ", "  ", "\t", "\n", "\r", " \t\n", "\r\n"]
        s = r.choice(["", "", "", " ", "\n", "\t "])
        toks = [self.idv() for _ in range(n)]
        if n > 1 and r.random() < 0.25:
            toks.append(toks[0])         # a repeated token
        for i, t in enumerate(toks):
            s += t + (r.choice(seps) if i + 1 < len(toks) else "")
        return s + r.choice(["", "", "", " ", "\n", " \t"])

    def attr_path(self, absolute=True):
        r = self.r
        a = r.choice(["ref", "refs", "id", "sid", "to", "x", "n", None])
        test = ("name", None, a)
        if r.random() < 0.1:
            test = ("name", "urn:p", r.choice(["id", "z"]))
        if absolute:
            return ("path", None, [], [("root", "root", []), ("descendant-or-self", "node", []), ("attribute", test, [])])
        return ("path", None, [], [("attribute", test, [])])

    def el(self, name=None):
        r = self.r
        name = name or r.choice(["a", "b", "c", "sec", "d", None])
        return ("path", None, [], [("root", "root", []), ("descendant-or-self", "node", []), ("child", ("name", None, name), [])])

    def fid(self, arg):
        return ("fn", "id", [arg])

    def lit_id(self, n=None):
        return self.fid(("lit", self.idstring(n)))

    def nodeset_id(self, d=1):
        """an id() call delivering a node-set, from every argument shape"""
        r = self.r
        k = r.random()
        if k < 0.3:
            return self.lit_id()
        if k < 0.45:
            return self.fid(self.attr_path(True))
        if k < 0.55:
            return self.fid(self.attr_path(False))
        if k < 0.62 and d > 0:
            return self.fid(("path", self.nodeset_id(d - 1), [], [("attribute", ("name", None, r.choice(["ref", "refs", "to", None])), [])]))
        if k < 0.68:
            return self.fid(("path", None, [], [("self", "node", [])]))          # id(.)
        if k < 0.74:
            return self.fid(r.choice([self.el(), ("path", None, [], [("root", "root", []), ("descendant", "text", [])]),
                                      ("path", None, [], [("child", "text", [])]), ("path", None, [], [("child", ("name", None, None), [])])]))
        if k < 0.80:
            return self.fid(r.choice([("num", r.choice(["12", "1", "1.0", "012", "2"])), ("plus", ("num", "1"), ("num", "11")),
                                      ("fn", "string", [("num", "12")]), ("fn", "true", []), ("fn", "false", []),
                                      ("fn", "concat", [("lit", self.idv()), ("lit", r.choice([" ", "\t", ""])), ("lit", self.idv())]),
                                      ("fn", "normalize-space", [("lit", self.idstring())]),
                                      ("fn", "string", [self.attr_path(True)]), ("mult", ("num", "1"), ("lit", "x"))]))
        if k < 0.86 and self.vars:
            vs = [n for n, (t, _) in self.vars.items() if t in ("nodes", "str")]
            return self.fid(("var", r.choice(vs)))
        if k < 0.93:
            return self.fid(self.g.gen(r.choice(["nodes", "nodes", "str", "any"]), 1))
        return self.fid(("union", [self.attr_path(True), self.el()]))

    def gen(self):
        r = self.r
        k = r.random()
        idn = self.nodeset_id()
        if k < 0.2:
            return idn
        if k < 0.3:      # as the start of a path
            steps = r.choice([[("child", ("name", None, None), [])], [("attribute", ("name", None, None), [])], [("parent", "node", [])],
                              [("descendant-or-self", "node", []), ("child", "text", [])], [("following-sibling", ("name", None, None), [])],
                              [("child", ("name", None, r.choice(["a", "sec", "b"])), [])], [("ancestor-or-self", ("name", None, None), [])]])
            return ("path", idn, [], steps)
        if k < 0.42:     # positional use: the result is in document order, not argument order
            toks = list(self.known)
            r.shuffle(toks)
            toks = toks[:r.choice([2, 3, 3, 4])]
            if r.random() < 0.5:
                toks = sorted(toks, key=lambda v: -self.table.get(v, 0))     # reverse document order
            base = self.fid(("lit", " ".join(toks))) if r.random() < 0.7 else idn
            pe = r.choice([("num", "1"), ("num", "2"), ("fn", "last", []), ("eq", ("fn", "position", []), ("num", "2")),
                           ("lt", ("fn", "position", []), ("fn", "last", [])), ("num", "3")])
            e = ("path", base, [(has_pos(pe), pe)], [])
            if r.random() < 0.4:
                return ("fn", r.choice(["name", "string", "local-name"]), [e])
            return e
        if k < 0.5:      # in a predicate
            inner = r.choice([self.fid(self.attr_path(False)), self.fid(("path", None, [], [("self", "node", [])])), self.lit_id(1)])
            pe = r.choice([inner, ("gt", ("fn", "count", [inner]), ("num", r.choice(["0", "1"]))),
                           ("eq", ("fn", "count", [("union", [inner, ("path", None, [], [("self", "node", [])])])]), ("num", "1")),
                           ("fn", "not", [inner]), ("eq", inner, ("lit", self.idv()))])
            return ("path", None, [], [("root", "root", []), ("descendant-or-self", "node", []), ("child", ("name", None, None), [(has_pos(pe), pe)])])
        if k < 0.58:     # filter on the id() result
            pe = r.choice([("path", None, [], [("attribute", ("name", None, r.choice(["x", "ref", "id", "sid"])), [])]),
                           ("eq", ("path", None, [], [("attribute", ("name", None, r.choice(["id", "sid"])), [])]), ("lit", self.idv())),
                           ("fn", "not", [("path", None, [], [("child", ("name", None, None), [])])])])
            return ("path", idn, [(False, pe)], [])
        if k < 0.68:     # union with something else
            other = r.choice([self.el(), self.nodeset_id(0), self.attr_path(True), ("path", None, [], [("self", "node", [])])])
            ops = [idn, other]
            r.shuffle(ops)
            return ("union", ops)
        if k < 0.76:
            return ("fn", "count", [idn])
        if k < 0.84:     # generate-id-free identity comparisons
            v = self.idv()
            a = self.fid(("lit", v))
            attr = r.choice(["id", "sid", "sid", "ref"])
            sel = ("path", None, [], [("root", "root", []), ("descendant-or-self", "node", []),
                                      ("child", ("name", None, r.choice([None, "sec", "a"])), [(False, ("eq", ("path", None, [], [("attribute", ("name", None, attr), [])]), ("lit", v)))])])
            return (r.choice(["eq", "lte", "gt"]), ("fn", "count", [("union", [a, sel])]), ("num", r.choice(["1", "1", "2", "0"])))
        if k < 0.92:
            return ("fn", r.choice(["name", "local-name", "string", "namespace-uri", "boolean", "not", "string-length", "number", "sum"]), [idn])
        # comparisons of an id() node-set with strings / other node-sets
        return (r.choice(["eq", "ne", "lt"]), idn, r.choice([("lit", self.idv()), self.attr_path(True), ("num", "12"), self.nodeset_id(0)]))


# ------------------------------------------------------------------------------------------------
# the namespace-axis stream (C02, known finding K21): documents whose namespace environment changes at
# several depths and expressions built around namespace:: steps.  Used only by props/C02.py:ns_stream with
# a random.Random of its own; nothing above draws from it, the random streams of the other styles are
# what they were.

NS_URIS = {"": ["urn:d", "urn:d", "urn:e"], "p": ["urn:p", "urn:p", "urn:q", "urn:r"], "q": ["urn:q", "urn:q", "urn:p"]}


def gen_ns_tree(r, depth, maxch, env, state, force_default=None):
    """('e', qname, attrs, children) with xmlns declarations chosen against the environment `env` (prefix -> URI)
    in scope on the parent: xmlns="" below a non-empty default (the undeclaration XPath 5.4 speaks of), xmlns=""
    where there is nothing to undeclare, a default re-declared (same or another URI) below an undeclaration,
    p / q re-declared with the same or another URI at any depth.  state counts the classes."""
    env = dict(env)
    decls = []
    k = r.random()
    if force_default is not None:
        decls.append(("xmlns", force_default))
    elif env.get("", "") != "":
        if k < 0.32:
            decls.append(("xmlns", ""))
            state["undeclare-below-default"] = state.get("undeclare-below-default", 0) + 1
        elif k < 0.47:
            decls.append(("xmlns", r.choice(NS_URIS[""])))
            state["default-redeclared"] = state.get("default-redeclared", 0) + 1
    else:
        if k < 0.30:
            decls.append(("xmlns", r.choice(NS_URIS[""])))
            if "" in env:
                state["default-declared-below-undeclaration"] = state.get("default-declared-below-undeclaration", 0) + 1
        elif k < 0.40:
            decls.append(("xmlns", ""))
            state["undeclare-nothing"] = state.get("undeclare-nothing", 0) + 1
    for p in ("p", "q"):
        if r.random() < (0.22 if p in env else 0.30):
            u = r.choice(NS_URIS[p])
            if p in env:
                state["prefix-redeclared" + ("-same-uri" if env[p] == u else "")] = state.get("prefix-redeclared" + ("-same-uri" if env[p] == u else ""), 0) + 1
            decls.append(("xmlns:" + p, u))
    for a, v in decls:
        env[a[6:] if ":" in a else ""] = v
    names = ["a", "b", "c", "a", "b"] + [p + ":" + l for p in ("p", "q") if p in env for l in ("a", "b")]
    name = r.choice(names)
    attrs = []
    for a in r.sample(["x", "y", "n"], r.choice([0, 0, 1, 1, 2])):
        attrs.append((a, r.choice(["1", "2", "a", "urn:d", "urn:p", ""])))
    if "p" in env and r.random() < 0.15:
        attrs.append(("p:z", r.choice(["1", "urn:p"])))
    # the declarations in any order among themselves, but BEFORE the ordinary attributes: the parser hands the
    # tree builder the xmlns attributes of a start tag first (their relative order kept), and the node numbering
    # shared by harness/xp.cpp, build_nodes and DomDefs.build_doc is "attributes in source order"
    r.shuffle(decls)
    attrs = decls + attrs
    children = []
    if depth > 0:
        last_text = False
        for _ in range(r.randrange(1 if depth > 1 else 0, maxch + 1)):
            if r.random() < 0.8:
                children.append(gen_ns_tree(r, depth - 1, maxch, env, state))
                last_text = False
            elif not last_text:
                children.append(("t", r.choice(["1", "urn:d", "a", " ", "urn:p"])))
                last_text = True
    return ("e", name, attrs, children)


def gen_ns_doc(r, size="small"):
    """-> (top, classes): the document element declares a non-empty default namespace in 3 of 4 documents"""
    depth, maxch = (3, 2) if size == "small" else (4, 3)
    state = {}
    top = []
    if r.random() < 0.1:
        top.append(("c", "top"))
    top.append(gen_ns_tree(r, depth, maxch, {}, state, force_default=r.choice(["urn:d", "urn:e"]) if r.random() < 0.75 else None))
    return top, state


class NsExprGen:
    """expressions around namespace:: steps: namespace::* / namespace::p / namespace::q / namespace::xml /
    namespace::node() (and tests that select nothing), with predicates (position, name(), the URI), reached from
    the context node and from element selections, inside count / name / local-name / namespace-uri / string /
    comparisons / unions / filter expressions / predicates of element steps, and FOLLOWED by steps (parent,
    ancestor, following, preceding, self, namespace, attribute) that start at the selected nodes"""

    def __init__(self, r, nodes, variables=None):
        self.r, self.nodes = r, nodes
        self.vars = variables or {}
        self.g = ExprGen(r, nodes=nodes, depth=1, variables=variables)
        self.uris = sorted({n.value for n in nodes if n.kind == "nsdecl"} | {"urn:d", ""})
        self.elnames = sorted({n.qname for n in nodes if n.kind == "elem" and ":" not in n.qname}) or ["a"]

    def pred(self, e):
        return (has_pos(e), e)

    def F(self, name, *a):
        return ("fn", name, list(a))

    def ns_test(self):
        return self.r.choice([("name", None, None)] * 5 + [("name", None, "p")] * 3 + [("name", None, "q")] * 2 +
                             [("name", None, "xml"), "node", "node", ("name", None, "d"), "text", "comment"])

    def ns_pred(self):
        r, F = self.r, self.F
        k = r.randrange(14)
        if k == 0:
            e = ("num", r.choice(["1", "1", "2", "3", "4"]))
        elif k == 1:
            e = F("last")
        elif k == 2:
            e = self.g.binop(r.choice(["gt", "lt", "eq", "ne"]), F("position"), r.choice([("num", "1"), ("num", "2"), F("last")]))
        elif k == 3:
            e = self.g.binop(r.choice(["eq", "ne"]), F("name"), ("lit", r.choice(["", "", "p", "q", "xml", "xmlns"])))
        elif k == 4:
            e = F("not", F("name"))
        elif k == 5:
            e = self.g.binop(r.choice(["eq", "ne"]), ("path", None, [], [("self", "node", [])]), ("lit", r.choice(self.uris)))
        elif k == 6:
            e = F("starts-with", ("path", None, [], [("self", "node", [])]), ("lit", r.choice(["urn:", "urn:d", "http"])))
        elif k == 7:
            e = self.g.binop(r.choice(["eq", "gt"]), F("string-length", F(r.choice(["name", "local-name"]))), ("num", r.choice(["0", "1"])))
        elif k == 8:
            e = self.g.binop("eq", F("local-name"), ("lit", r.choice(["p", "q", "", "xmlns"])))
        elif k == 9:
            e = ("path", None, [], [("parent", "node", []), ("attribute", ("name", None, r.choice(["x", "y", None])), [])])
        elif k == 10:
            e = self.g.binop(r.choice(["gt", "eq"]), F("count", ("path", None, [], [("parent", "node", []), ("namespace", ("name", None, None), [])])), ("num", r.choice(["1", "2", "3"])))
        elif k == 11:
            e = self.g.binop("eq", F("namespace-uri"), ("lit", r.choice(["", "urn:p"])))
        elif k == 12:
            e = self.g.binop("eq", ("path", None, [], [("self", "node", [])]), ("path", None, [], [("parent", "node", []), ("attribute", ("name", None, None), [])]))
        else:
            e = self.g.binop("ne", F("name"), F("name", ("path", None, [], [("parent", ("name", None, None), [])])))
        return self.pred(e)

    def ns_step(self):
        r = self.r
        return ("namespace", self.ns_test(), [self.ns_pred() for _ in range(r.choice([0, 0, 0, 1, 1, 2]))])

    def el_pred(self):
        """a predicate of an ELEMENT step that looks at the element's namespace nodes"""
        r, F = self.r, self.F
        k = r.randrange(7)
        ns = ("path", None, [], [self.ns_step()])
        if k == 0:
            e = ns
        elif k == 1:
            e = F("not", ("path", None, [], [("namespace", ("name", None, None), [self.pred(self.g.binop("eq", F("name"), ("lit", "")))])]))
        elif k == 2:
            e = self.g.binop(r.choice(["eq", "gt", "lt"]), F("count", ns), ("num", r.choice(["1", "2", "3", "4"])))
        elif k == 3:
            e = self.g.binop(r.choice(["eq", "ne"]), ns, ("lit", r.choice(self.uris)))
        elif k == 4:
            e = self.g.binop("eq", F("namespace-uri"), ("path", None, [], [("namespace", ("name", None, None), [self.pred(F("not", F("name")))])]))
        elif k == 5:
            e = ("path", None, [], [("attribute", ("name", None, r.choice(["x", "y"])), [])])
        else:
            e = self.g.binop("ne", F("count", ns), F("count", ("path", None, [], [("parent", "node", []), ("namespace", ("name", None, None), [])])))
        return self.pred(e)

    def el_steps(self):
        """steps selecting elements (possibly none = the context node itself)"""
        r = self.r
        anyel = ("name", None, None)
        nm = ("name", None, r.choice(self.elnames))
        k = r.randrange(12)
        if k <= 1:
            st = []
        elif k == 2:
            st = [("root", "root", []), ("descendant-or-self", "node", []), ("child", anyel, [])]
        elif k == 3:
            st = [("root", "root", []), ("descendant-or-self", "node", []), ("child", nm, [])]
        elif k == 4:
            st = [("descendant-or-self", anyel, [])]
        elif k == 5:
            st = [("child", anyel, [])]
        elif k == 6:
            st = [("parent", "node", [])]
        elif k == 7:
            st = [("ancestor-or-self", anyel, [])]
        elif k == 8:
            st = [("root", "root", []), ("child", anyel, [])]
        elif k == 9:
            st = [("descendant", anyel, [self.pred(("num", r.choice(["1", "2", "3"])))])]
        elif k == 10:
            st = [("root", "root", []), ("descendant", r.choice([anyel, nm, ("name", "urn:p", None)]), [])]
        else:
            st = [("ancestor", anyel, [self.pred(("num", r.choice(["1", "2"])))])]
        if st and st[-1][0] != "parent" and r.random() < 0.3:
            ax, t, ps = st[-1]
            st[-1] = (ax, t, ps + [self.el_pred()])
        return st

    def ns_path(self):
        r = self.r
        if self.g.vars_of("nodes") and r.random() < 0.08:
            return ("path", ("var", r.choice(self.g.vars_of("nodes"))), [], [self.ns_step()])
        return ("path", None, [], self.el_steps() + [self.ns_step()])

    def after(self, p):
        """p followed by steps that START at the selected namespace nodes"""
        r = self.r
        anyel = ("name", None, None)
        more = r.choice([
            [("parent", "node", [])], [("parent", anyel, [])], [("ancestor", anyel, [])], [("ancestor-or-self", "node", [])],
            [("self", "node", [])], [("self", anyel, [])], [("following", anyel, [])], [("preceding", anyel, [])],
            [("following-sibling", "node", [])], [("preceding-sibling", "node", [])], [("child", "node", [])], [("descendant-or-self", "node", [])],
            [("attribute", anyel, [])], [("namespace", anyel, [])], [("parent", "node", []), ("namespace", anyel, [])],
            [("parent", "node", []), ("attribute", anyel, [])], [("parent", "node", []), ("child", anyel, [])],
            [("ancestor", anyel, [self.pred(("num", "1"))])], [("parent", "node", []), ("parent", "node", []), ("namespace", self.ns_test(), [])],
        ])
        _, head, hp, st = p
        return ("path", head, hp, st + more)

    def g_ns(self):
        r = self.r
        k = r.random()
        p = self.ns_path()
        if k < 0.40:
            return p
        if k < 0.62:
            return self.after(p)
        if k < 0.80:
            other = r.choice([self.ns_path(), self.after(self.ns_path()),
                              ("path", None, [], self.el_steps() + [("attribute", ("name", None, None), [])]),
                              ("path", None, [], [("root", "root", []), ("descendant-or-self", "node", []), ("namespace", ("name", None, None), [])])])
            ops = [p, other] if r.random() < 0.5 else [other, p]
            if r.random() < 0.2:
                ops.append(self.ns_path())
            return ("union", ops)
        if k < 0.92:
            u = ("union", [p, self.ns_path()]) if r.random() < 0.6 else p
            preds = [self.ns_pred() for _ in range(r.choice([1, 1, 2]))]
            steps = [] if r.random() < 0.6 else [("parent", "node", [])]
            return ("path", ("group", u), preds, steps)
        # an element path whose predicate looks at the namespace axis
        st = [("root", "root", []), ("descendant", ("name", None, None), [self.el_pred()])]
        return ("path", None, [], st)

    def gen(self):
        r, F = self.r, self.F
        k = r.random()
        if k < 0.22:
            e = self.g_ns()
        elif k < 0.40:
            e = F("count", self.g_ns())
        elif k < 0.58:
            e = F(r.choice(["name", "name", "local-name", "namespace-uri", "string", "string", "string-length", "normalize-space"]), self.g_ns())
        elif k < 0.66:
            e = F(r.choice(["boolean", "not"]), self.g_ns())
        elif k < 0.78:
            other = r.choice([("lit", r.choice(self.uris)), self.g_ns(), ("num", "1"), F("true"), F("namespace-uri", ("path", None, [], [("self", "node", [])])), F("string", self.g_ns())])
            a, b = (self.g_ns(), other) if r.random() < 0.6 else (other, self.g_ns())
            e = self.g.binop(r.choice(["eq", "eq", "ne", "lt", "gte"]), a, b)
        elif k < 0.86:
            e = self.g.binop(r.choice(["minus", "plus", "eq", "lt"]), F("count", self.g_ns()), F("count", self.g_ns()))
        elif k < 0.93:
            n = self.g_ns()
            e = F("concat", F("name", n), ("lit", "="), F("string", n))
        else:
            e = self.g.binop(r.choice(["and", "or"]), F("boolean", self.g_ns()), self.g.gen("bool", 1))
        return fix_bare_root(e)
