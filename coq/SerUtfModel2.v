(* SerUtfModel2.v — the extracted entry point equals the specification-level [serialize]. *)
From Coq Require Import NArith List.
Require Import XV.SerDefs.
Import ListNotations.

Lemma serialize_fast_eq : forall k v11 ver enc es,
  serialize_fast k v11 ver enc es = serialize k v11 ver enc es.
Proof.
  intros. unfold serialize_fast, serialize.
  destruct (run _ _ _) as [w| |c]; try reflexivity.
  unfold all_units. rewrite !rev_append_rev, app_nil_r. reflexivity.
Qed.
