(* XpCpSearchModel.v -- the search functions (starts-with, contains, substring-before, the position
   substring-after cuts at) do not depend on the reading of "character" when the string searched
   FOR is well-formed UTF-16: the first occurrence among the code units starts at a character
   boundary, and it is the first occurrence among the code points. *)
From Coq Require Import ZArith NArith Lia List Bool Arith SpecFloat ZifyBool ZifyNat ZifyN.
Require Import XV.GenNum XV.NumDefs XV.XpAst XV.DomDefs XV.XpDefs XV.XpCpDefs XV.XpCpModel XV.XpCpTrModel.
Import ListNotations.

Lemma pair_value_big : forall h l, is_pair h l = true -> (65536 <= pair_value h l)%N.
Proof. intros h l E. unfold pair_value, is_pair, is_high, is_low in *. lia. Qed.

Lemma pair_value_inj : forall h l x y, is_pair h l = true -> is_pair x y = true ->
  pair_value x y = pair_value h l -> x = h /\ y = l.
Proof. intros h l x y E1 E2 Q. unfold pair_value, is_pair, is_high, is_low in *. lia. Qed.

Lemma u16_cons : forall u s, forallb is_u16 (u :: s) = true -> (u < 65536)%N /\ forallb is_u16 s = true.
Proof. intros u s H. cbn [forallb] in H. apply andb_true_iff in H. unfold is_u16 in H. split; [lia | tauto]. Qed.

Lemma starts_with_nil : forall s, starts_with s [] = true.
Proof. destruct s; reflexivity. Qed.

Lemma starts_with_decode : forall p, well_formed p = true -> forallb is_u16 p = true ->
  forall s, forallb is_u16 s = true -> starts_with s p = starts_with (decode s) (decode p).
Proof.
  induction p as [|h l r E IH|u r E IH] using cp_ind; intros Wp Up s Us.
  - change (decode []) with (@nil N). rewrite !starts_with_nil. reflexivity.
  - rewrite (decode_pair h l r E). rewrite well_formed_pair in Wp by exact E.
    apply u16_cons in Up. destruct Up as [Uh Up]. apply u16_cons in Up. destruct Up as [Ul Up].
    assert (Big := pair_value_big h l E).
    destruct s as [|x [|y s']].
    + reflexivity.
    + cbn [decode starts_with]. apply u16_cons in Us. destruct Us as [Ux _].
      replace (N.eqb x (pair_value h l)) with false by lia. rewrite andb_false_r. reflexivity.
    + apply u16_cons in Us. destruct Us as [Ux Us]. apply u16_cons in Us. destruct Us as [Uy Us].
      destruct (is_pair x y) eqn:Exy.
      * rewrite (decode_pair x y s' Exy). cbn [starts_with]. rewrite <- (IH Wp Up s' Us).
        destruct (N.eqb_spec (pair_value x y) (pair_value h l)) as [Q|Q].
        -- apply pair_value_inj in Q; try assumption. destruct Q; subst. rewrite !N.eqb_refl. reflexivity.
        -- destruct (N.eqb_spec x h), (N.eqb_spec y l); subst; try reflexivity. contradiction.
      * rewrite decode_single by (cbn; exact Exy). cbn [starts_with].
        replace (N.eqb x (pair_value h l)) with false by lia.
        destruct (N.eqb_spec x h), (N.eqb_spec y l); subst; try reflexivity. congruence.
  - rewrite (decode_single u r E). rewrite well_formed_single in Wp by exact E.
    apply andb_true_iff in Wp. destruct Wp as [Nu Wp].
    apply u16_cons in Up. destruct Up as [Uu Up].
    destruct s as [|x s1]; [reflexivity|].
    destruct (starts_pair (x :: s1)) eqn:Ex.
    + destruct s1 as [|y s']; [discriminate|]. cbn [starts_pair] in Ex.
      rewrite (decode_pair x y s' Ex). assert (Big := pair_value_big x y Ex). cbn [starts_with].
      replace (N.eqb (pair_value x y) u) with false by lia.
      replace (N.eqb x u) with false; [reflexivity|].
      unfold is_pair, is_surrogate, is_high, is_low in *. lia.
    + rewrite (decode_single x s1 Ex). cbn [starts_with]. apply u16_cons in Us. destruct Us as [_ Us].
      rewrite <- (IH Wp Up s1 Us). reflexivity.
Qed.

(* a well-formed string does not begin with a low surrogate *)
Lemma well_formed_head : forall x p, well_formed (x :: p) = true -> is_low x = false.
Proof.
  intros x p W. destruct (starts_pair (x :: p)) eqn:E.
  - destruct p as [|y p']; [discriminate|]. cbn in E. unfold is_pair, is_high, is_low in *. lia.
  - rewrite well_formed_single in W by exact E. unfold is_surrogate in W. apply andb_true_iff in W.
    destruct W as [W _]. destruct (is_low x); [rewrite orb_true_r in W; discriminate | reflexivity].
Qed.

Theorem index_of_sub_decode : forall p, well_formed p = true -> forallb is_u16 p = true ->
  forall s, forallb is_u16 s = true ->
  index_of_sub s p = option_map (units_of s) (index_of_sub (decode s) (decode p)).
Proof.
  intros p Wp Up. induction s as [|h l r E IH|h r E IH] using cp_ind; intros Us.
  - cbn [index_of_sub]. rewrite (starts_with_decode p Wp Up [] Us). change (decode []) with (@nil N).
    cbn [index_of_sub]. destruct (starts_with [] (decode p)); reflexivity.
  - assert (Us' := Us). apply u16_cons in Us'. destruct Us' as [_ Us']. assert (Ulr := Us').
    apply u16_cons in Us'. destruct Us' as [_ Ur].
    rewrite (decode_pair h l r E).
    change (index_of_sub (h :: l :: r) p) with
      (if starts_with (h :: l :: r) p then Some 0 else
       match index_of_sub (l :: r) p with Some i => Some (S i) | None => None end).
    change (index_of_sub (pair_value h l :: decode r) (decode p)) with
      (if starts_with (pair_value h l :: decode r) (decode p) then Some 0 else
       match index_of_sub (decode r) (decode p) with Some i => Some (S i) | None => None end).
    rewrite <- (decode_pair h l r E), <- (starts_with_decode p Wp Up (h :: l :: r) Us).
    destruct (starts_with (h :: l :: r) p) eqn:S0; [cbn [option_map]; rewrite units_of_0; reflexivity|].
    assert (S1 : starts_with (l :: r) p = false).
    { destruct p as [|x p']; [destruct r; discriminate|]. cbn [starts_with].
      assert (Lx := well_formed_head x p' Wp). unfold is_pair in E. apply andb_true_iff in E. destruct E as [_ El].
      destruct (N.eqb_spec l x); [subst; congruence | reflexivity]. }
    change (index_of_sub (l :: r) p) with
      (if starts_with (l :: r) p then Some 0 else
       match index_of_sub r p with Some i => Some (S i) | None => None end).
    rewrite S1, (IH Ur). destruct (index_of_sub (decode r) (decode p)) as [k|]; cbn [option_map]; [|reflexivity].
    rewrite units_of_pair by exact E. reflexivity.
  - assert (Us' := Us). apply u16_cons in Us'. destruct Us' as [_ Ur].
    rewrite (decode_single h r E).
    change (index_of_sub (h :: r) p) with
      (if starts_with (h :: r) p then Some 0 else
       match index_of_sub r p with Some i => Some (S i) | None => None end).
    change (index_of_sub (h :: decode r) (decode p)) with
      (if starts_with (h :: decode r) (decode p) then Some 0 else
       match index_of_sub (decode r) (decode p) with Some i => Some (S i) | None => None end).
    rewrite <- (decode_single h r E), <- (starts_with_decode p Wp Up (h :: r) Us).
    destruct (starts_with (h :: r) p); [cbn [option_map]; rewrite units_of_0; reflexivity|].
    rewrite (IH Ur). destruct (index_of_sub (decode r) (decode p)) as [k|]; cbn [option_map]; [|reflexivity].
    rewrite units_of_single by exact E. reflexivity.
Qed.

Lemma decode_firstn_units_of : forall s k, decode (firstn (units_of s k) s) = firstn k (decode s).
Proof.
  intros s k. rewrite (decode_chars (firstn (units_of s k) s)), firstn_units_of, chars_firstn, (decode_chars s), firstn_map.
  reflexivity.
Qed.

Lemma decode_skipn_units_of : forall s k, decode (skipn (units_of s k) s) = skipn k (decode s).
Proof.
  intros s k. rewrite (decode_chars (skipn (units_of s k) s)), skipn_units_of, (decode_chars s), skipn_map. reflexivity.
Qed.

(* contains() and what substring-before() returns *)
Theorem search_unaffected : forall s p,
  well_formed p = true -> forallb is_u16 p = true -> forallb is_u16 s = true ->
  starts_with s p = starts_with (decode s) (decode p) /\
  (match index_of_sub s p with Some _ => true | None => false end) =
  (match index_of_sub (decode s) (decode p) with Some _ => true | None => false end) /\
  decode (match index_of_sub s p with Some i => firstn i s | None => [] end) =
  (match index_of_sub (decode s) (decode p) with Some k => firstn k (decode s) | None => [] end).
Proof.
  intros s p Wp Up Us. split; [apply starts_with_decode; assumption|].
  rewrite (index_of_sub_decode p Wp Up s Us).
  destruct (index_of_sub (decode s) (decode p)) as [k|]; cbn [option_map].
  - split; [reflexivity | apply decode_firstn_units_of].
  - split; reflexivity.
Qed.
