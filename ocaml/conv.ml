(* Glue between OCaml scalars and the extracted inductives positive / n / z / nat (no arithmetic
   from the model is used here: values are built and read bit by bit).
   This text is prepended (after "open <Model>") to every family driver. *)
let rec pos_of_bits = function           (* little-endian bits, last one is the top 1 *)
  | [] -> XH
  | [_] -> XH
  | b :: r -> if b then XI (pos_of_bits r) else XO (pos_of_bits r)

let rec bits_of_pos = function
  | XH -> [true]
  | XO p -> false :: bits_of_pos p
  | XI p -> true :: bits_of_pos p

(* big non-negative numbers as little-endian bool lists *)
let bits_of_hex (s : string) : bool list =
  let acc = ref [] in
  String.iter (fun c ->
    let v = match c with
      | '0'..'9' -> Char.code c - 48
      | 'a'..'f' -> Char.code c - 87
      | 'A'..'F' -> Char.code c - 55
      | _ -> failwith ("bad hex digit in " ^ s) in
    (* prepend 4 bits, most significant first, so that the final list is little-endian *)
    acc := ((v land 1) <> 0) :: ((v land 2) <> 0) :: ((v land 4) <> 0) :: ((v land 8) <> 0) :: !acc) s;
  (* !acc has the last digit's bits first: that is little-endian already *)
  let rec strip = function [] -> [] | false :: r -> strip r | l -> l in
  List.rev (strip (List.rev !acc))

let z_of_hex (s : string) : z =
  match bits_of_hex s with [] -> Z0 | b -> Zpos (pos_of_bits b)

let hex_of_bits (b : bool list) (width : int) : string =
  let a = Array.of_list b in
  let n = Array.length a in
  let nd = max width ((n + 3) / 4) in
  let buf = Bytes.make nd '0' in
  for d = 0 to nd - 1 do
    let v = ref 0 in
    for k = 3 downto 0 do
      let i = d * 4 + k in
      v := !v * 2 + (if i < n && a.(i) then 1 else 0)
    done;
    Bytes.set buf (nd - 1 - d) "0123456789abcdef".[!v]
  done;
  Bytes.to_string buf

let hex_of_z (v : z) (width : int) : string =
  match v with
  | Z0 -> String.make (max width 1) '0'
  | Zpos p -> hex_of_bits (bits_of_pos p) width
  | Zneg p -> "-" ^ hex_of_bits (bits_of_pos p) width

let rec bits_of_int (i : int) : bool list = if i = 0 then [] else (i land 1 = 1) :: bits_of_int (i lsr 1)
let int_of_bits (b : bool list) : int = List.fold_right (fun x acc -> acc * 2 + (if x then 1 else 0)) b 0

let n_of_int (i : int) : n = if i = 0 then N0 else Npos (pos_of_bits (bits_of_int i))
let int_of_n (v : n) : int = match v with N0 -> 0 | Npos p -> int_of_bits (bits_of_pos p)
let z_of_int (i : int) : z = if i = 0 then Z0 else if i > 0 then Zpos (pos_of_bits (bits_of_int i)) else Zneg (pos_of_bits (bits_of_int (-i)))
let int_of_z (v : z) : int = match v with Z0 -> 0 | Zpos p -> int_of_bits (bits_of_pos p) | Zneg p -> - (int_of_bits (bits_of_pos p))
let rec nat_of_int (i : int) : nat = if i <= 0 then O else S (nat_of_int (i - 1))
let rec int_of_nat (v : nat) : int = match v with O -> 0 | S k -> 1 + int_of_nat k

(* "u:41,42" <-> list of code units *)
let u16_of_token (t : string) : n list =
  let body = String.sub t 2 (String.length t - 2) in
  if body = "" then [] else
  List.map (fun h -> n_of_int (int_of_string ("0x" ^ h))) (String.split_on_char ',' body)

let token_of_u16 (l : n list) : string =
  "u:" ^ String.concat "," (List.map (fun c -> Printf.sprintf "%x" (int_of_n c)) l)

let split_ws (s : string) : string list =
  List.filter (fun x -> x <> "") (String.split_on_char ' ' s)

let iter_lines (ic : in_channel) (f : string -> unit) : unit =
  try while true do f (input_line ic) done with End_of_file -> ()
