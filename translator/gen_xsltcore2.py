"""C01, part core2: structural facts of the code coq/XsltCore2Defs.v models (xsl:element / xsl:comment /
xsl:processing-instruction, the children-to-string switch of the output target, copy-text-nodes-only mode),
re-read from the current source on every run (coq/GenXsltCore2.v).  Each fact is what a transition of step2 was
written from; coq/Properties_C01core2.v (core2_machine_shapes_as_in_source) needs every one of them to be `true`,
so an edit that changes one breaks the proof leg (and the correspondence run decides whether inputs fail).
Lenient about formatting and renamings inside the functions; fails closed (AnchorError) when a function cannot
be found."""
import re
import srcfacts


def body_of(src, header_rx, what):
    return srcfacts.function_body(src, header_rx, what)


def in_order(body, *rxs):
    """the regexes match in this order (each searched after the end of the previous match)"""
    pos = 0
    for rx in rxs:
        m = re.compile(rx, re.S).search(body, pos)
        if not m:
            return False
        pos = m.end()
    return True


def nonrecursive(src, name, what):
    """the body of the iterative-build variant (#if !defined(XALAN_RECURSIVE_STYLESHEET_EXECUTION)) of a member function"""
    m = re.search(r"#if\s*!\s*defined\s*\(\s*XALAN_RECURSIVE_STYLESHEET_EXECUTION\s*\)(.*?)#endif", src, re.S)
    if not m:
        raise srcfacts.AnchorError("no iterative-build section for " + what)
    return body_of(m.group(1), name + r"\s*\([^)]*\)\s*const\s*\{", what)


def gen_xsltcore2():
    facts = {}
    com = srcfacts.strip_comments(srcfacts.read("XSLT/ElemComment.cpp"))
    b = nonrecursive(com, r"ElemComment::startElement", "ElemComment::startElement")
    facts["comment_start_flag_string_children"] = in_order(
        b, r"pushCopyTextNodesOnly\s*\(\s*true\s*\)", r"getAndPushCachedString\s*\(", r"beginChildrenToString\s*\(")
    b = nonrecursive(com, r"ElemComment::endElement", "ElemComment::endElement")
    facts["comment_end_children_pop_event_flag"] = in_order(
        b, r"endChildrenToString\s*\(", r"getAndPopCachedString\s*\(", r"executionContext\s*\.\s*comment\s*\(", r"popCopyTextNodesOnly\s*\(") and \
        len(re.findall(r"executionContext\s*\.\s*comment\s*\(", b)) == 1
    facts["comment_fixup_space_after_hyphen_before_hyphen_or_end"] = in_order(
        b, r"theChar\s*==\s*XalanUnicode::charHyphenMinus", r"theNext\s*==\s*theEnd\s*\|\|\s*\*\s*theNext\s*==\s*XalanUnicode::charHyphenMinus",
        r"theCurrent\s*=\s*theResult\s*\.\s*insert\s*\(\s*theNext\s*,\s*XalanUnicode::charSpace\s*\)", r"\+\+\s*theCurrent") and \
        len(re.findall(r"\+\+\s*theCurrent", b)) == 1

    pi = srcfacts.strip_comments(srcfacts.read("XSLT/ElemPI.cpp"))
    b = nonrecursive(pi, r"ElemPI::startElement", "ElemPI::startElement")
    facts["pi_start_name_check_string_flag_children"] = in_order(
        b, r"getAndPushCachedString\s*\(", r"m_nameAVT\s*->\s*evaluate\s*\(\s*piName", r"isValidNCName\s*\(\s*piName\s*\)\s*==\s*false", r"error\s*\(",
        r"getAndPushCachedString\s*\(", r"pushCopyTextNodesOnly\s*\(\s*true\s*\)", r"beginChildrenToString\s*\(")
    b = nonrecursive(pi, r"ElemPI::endElement", "ElemPI::endElement")
    facts["pi_end_children_pop_pop_event_flag"] = in_order(
        b, r"endChildrenToString\s*\(", r"piData\s*=\s*executionContext\s*\.\s*getAndPopCachedString\s*\(", r"piName\s*=\s*executionContext\s*\.\s*getAndPopCachedString\s*\(",
        r"executionContext\s*\.\s*processingInstruction\s*\(\s*piName\s*\.\s*c_str\s*\(\s*\)\s*,\s*piData\s*\.\s*c_str\s*\(\s*\)\s*\)", r"popCopyTextNodesOnly\s*\(")
    facts["pi_fixup_space_between_qmark_and_gt"] = in_order(
        b, r"theChar\s*==\s*XalanUnicode::charQuestionMark", r"theNext\s*!=\s*theEnd\s*&&\s*\*\s*theNext\s*==\s*XalanUnicode::charGreaterThanSign",
        r"theCurrent\s*=\s*piData\s*\.\s*insert\s*\(\s*theNext\s*,\s*XalanUnicode::charSpace\s*\)", r"\+\+\s*theCurrent", r"\+\+\s*theCurrent") and \
        len(re.findall(r"\+\+\s*theCurrent", b)) == 2

    el = srcfacts.strip_comments(srcfacts.read("XSLT/ElemElement.cpp"))
    b = nonrecursive(el, r"ElemElement::startElement", "ElemElement::startElement")
    facts["element_start_string_name_start_children"] = in_order(
        b, r"elemName\s*=\s*executionContext\s*\.\s*getAndPushCachedString\s*\(", r"m_nameAVT\s*->\s*evaluate\s*\(\s*elemName",
        r"isValidQName\s*\(\s*elemName\s*\)", r"executionContext\s*\.\s*startElement\s*\(\s*elemName\s*\.\s*c_str\s*\(\s*\)\s*\)",
        r"return\s+beginExecuteChildren\s*\(") and len(re.findall(r"executionContext\s*\.\s*startElement\s*\(", b)) == 1
    b = nonrecursive(el, r"ElemElement::endElement", "ElemElement::endElement")
    facts["element_end_children_pop_end"] = in_order(
        b, r"endExecuteChildren\s*\(", r"elemName\s*=\s*executionContext\s*\.\s*getAndPopCachedString\s*\(",
        r"executionContext\s*\.\s*endElement\s*\(\s*elemName\s*\.\s*c_str\s*\(\s*\)\s*\)")

    te = srcfacts.strip_comments(srcfacts.read("XSLT/ElemTemplateElement.cpp"))
    b = body_of(te, r"ElemTemplateElement::beginChildrenToString\s*\([^)]*\)\s*const\s*\{", "ElemTemplateElement::beginChildrenToString")
    facts["children_to_string_single_text_assigned_else_format_to_text"] = in_order(
        b, r"if\s*\(\s*hasSingleTextChild\s*\(\s*\)\s*==\s*true\s*\)", r"result\s*\.\s*assign\s*\(\s*m_textLiteralChild\s*->\s*getText\s*\(", r"return\s+0\s*;",
        r"else", r"executionContext\s*\.\s*beginFormatToText\s*\(\s*result\s*\)", r"return\s+beginExecuteChildren\s*\(")
    b = body_of(te, r"ElemTemplateElement::endChildrenToString\s*\([^)]*\)\s*const\s*\{", "ElemTemplateElement::endChildrenToString")
    facts["end_children_to_string_children_then_format"] = in_order(
        b, r"if\s*\(\s*hasSingleTextChild\s*\(\s*\)\s*==\s*false\s*\)", r"endExecuteChildren\s*\(", r"executionContext\s*\.\s*endFormatToText\s*\(")
    facts["single_text_child_is_only_child_literal_text"] = bool(re.search(
        r"theToken\s*==\s*StylesheetConstructionContext::ELEMNAME_TEXT_LITERAL_RESULT\s*&&\s*m_firstChild\s*->\s*getNextSiblingElem\s*\(\s*\)\s*==\s*0\s*\)\s*\{\s*m_flags\s*\|=\s*eHasSingleTextChild",
        te))

    ec = srcfacts.strip_comments(srcfacts.read("XSLT/StylesheetExecutionContextDefault.cpp"))
    b = body_of(ec, r"StylesheetExecutionContextDefault::beginFormatToText\s*\([^)]*\)\s*\{", "beginFormatToText")
    facts["format_to_text_pushes_output_context"] = in_order(b, r"setDOMString\s*\(\s*theResult\s*\)", r"pushOutputContext\s*\(\s*theFormatter\s*\)")
    b = body_of(ec, r"StylesheetExecutionContextDefault::endFormatToText\s*\(\s*\)\s*\{", "endFormatToText")
    # endDocument goes to the formatter, not through the engine: no flushPending
    facts["end_format_to_text_no_flush_then_pop"] = in_order(b, r"theFormatter\s*->\s*endDocument\s*\(\s*\)", r"popOutputContext\s*\(\s*\)") and \
        not re.search(r"m_xsltProcessor\s*->\s*(endDocument|flushPending)", b)
    b = body_of(ec, r"StylesheetExecutionContextDefault::getCopyTextNodesOnly\s*\(\s*\)\s*const\s*\{", "getCopyTextNodesOnly")
    facts["text_only_flag_is_top_or_false"] = in_order(b, r"m_copyTextNodesOnlyStack\s*\.\s*size\s*\(\s*\)\s*==\s*0", r"return\s+false", r"return\s+m_copyTextNodesOnlyStack\s*\.\s*back\s*\(")
    n_pass = len(re.findall(r"m_xsltProcessor\s*->\s*(?:cloneToResultTree|outputToResultTree|outputResultTreeFragment)\s*\([^;]*getCopyTextNodesOnly\s*\(\s*\)", ec))
    facts["copies_pass_text_only_flag"] = n_pass >= 4
    # ---- source variant flag 1 (K-C01-core2-1, repaired by /repo 16b1cb3): does a result tree fragment leave
    # copy-text-nodes-only mode?  Exactly two shapes are recognised; anything else fails closed
    b = body_of(ec, r"StylesheetExecutionContextDefault::beginCreateXResultTreeFrag\s*\([^)]*\)\s*\{", "beginCreateXResultTreeFrag")
    e = body_of(ec, r"StylesheetExecutionContextDefault::endCreateXResultTreeFrag\s*\(\s*\)\s*\{", "endCreateXResultTreeFrag")
    nb, ne = len(re.findall(r"CopyTextNodesOnly", b)), len(re.findall(r"CopyTextNodesOnly", e))
    if nb == 0 and ne == 0:
        facts["fragment_leaves_text_only_mode"] = False
    elif nb == 1 and ne == 1 and \
            in_order(b, r"pushOutputContext\s*\(\s*theFormatter\s*\)", r"pushCopyTextNodesOnly\s*\(\s*false\s*\)\s*;") and \
            in_order(e, r"endDocument\s*\(", r"popCopyTextNodesOnly\s*\(\s*\)\s*;", r"popOutputContext\s*\(\s*\)"):
        facts["fragment_leaves_text_only_mode"] = True
    else:
        raise srcfacts.AnchorError("begin/endCreateXResultTreeFrag: neither the shape without nor the shape with push/popCopyTextNodesOnly(false)")
    b = body_of(ec, r"StylesheetExecutionContextDefault::pushCopyTextNodesOnly\s*\([^)]*\)\s*\{", "pushCopyTextNodesOnly")
    facts["text_only_push_is_push_back"] = bool(re.search(r"m_copyTextNodesOnlyStack\s*\.\s*push_back\s*\(\s*copyTextNodesOnly\s*\)", b))

    eng = srcfacts.strip_comments(srcfacts.read("XSLT/XSLTEngineImpl.cpp"))
    b = body_of(eng, r"XSLTEngineImpl::cloneToResultTree\s*\(\s*const\s+XalanNode\s*&\s*node\s*,\s*bool\s+cloneTextNodesOnly\s*,\s*const\s+Locator\s*\*\s*locator\s*\)\s*\{",
                "XSLTEngineImpl::cloneToResultTree(node, cloneTextNodesOnly, locator)")
    facts["clone_text_only_skips_non_text_top_level"] = in_order(
        b, r"DOCUMENT_FRAGMENT_NODE", r"outputResultTreeFragment\s*\(", r"cloneTextNodesOnly\s*,",
        r"else\s+if\s*\(\s*cloneTextNodesOnly\s*==\s*true\s*&&\s*posNodeType\s*!=\s*XalanNode::TEXT_NODE\s*\)\s*\{\s*warnCopyTextNodesOnly")
    b = body_of(eng, r"XSLTEngineImpl::outputResultTreeFragment\s*\([^)]*\)\s*\{", "XSLTEngineImpl::outputResultTreeFragment")
    facts["fragment_copy_text_only_skips_non_text_top_level"] = in_order(
        b, r"for\s*\(\s*XalanNode\s*\*\s*child\s*=\s*theTree\s*\.\s*getFirstChild\s*\(",
        r"if\s*\(\s*outputTextNodesOnly\s*==\s*true\s*&&\s*posNodeType\s*!=\s*XalanNode::TEXT_NODE\s*\)\s*\{\s*warnCopyTextNodesOnly")
    b = body_of(eng, r"XSLTEngineImpl::cloneToResultTree\s*\(\s*const\s+XalanNode\s*&\s*node\s*,\s*XalanNode::NodeType\s+nodeType\s*,[^)]*\)\s*\{",
                "XSLTEngineImpl::cloneToResultTree(node, nodeType, ...)")
    facts["shallow_clone_text_only_keeps_text_only"] = in_order(
        b, r"if\s*\(\s*cloneTextNodesOnly\s*==\s*true\s*\)\s*\{\s*if\s*\(\s*nodeType\s*!=\s*XalanNode::TEXT_NODE\s*\)\s*\{\s*warnCopyTextNodesOnly",
        r"else\s*\{[^}]*cloneToResultTree\s*\(\s*tx\s*,\s*overrideStrip\s*\)", r"else\s*\{\s*switch\s*\(\s*nodeType\s*\)")

    cp = srcfacts.strip_comments(srcfacts.read("XSLT/ElemCopy.cpp"))
    s = nonrecursive(cp, r"ElemCopy::startElement", "ElemCopy::startElement")
    e = nonrecursive(cp, r"ElemCopy::endElement", "ElemCopy::endElement")
    facts["copy_end_tag_after_children"] = in_order(e, r"endExecuteChildren\s*\(", r"executionContext\s*\.\s*endElement\s*\(")
    # ---- source variant flag 2 (K-C01-core2-2, repaired by /repo 6d0ffbc): is an element xsl:copy cannot create (text-only
    # mode) ignored together with its content?  Exactly two shapes; anything else fails closed
    ns, ne = len(re.findall(r"CopyTextNodesOnly", s)), len(re.findall(r"CopyTextNodesOnly", e))
    old_e = in_order(e, r"XalanNode::ELEMENT_NODE\s*==\s*nodeType\s*\)", r"endExecuteChildren\s*\(", r"executionContext\s*\.\s*endElement\s*\(")
    old_s = in_order(s, r"cloneToResultTree\s*\(", r"XalanNode::ELEMENT_NODE\s*==\s*nodeType\s*\)\s*\{\s*ElemUse::startElement\s*\(")
    new_s = in_order(s, r"cloneToResultTree\s*\(", r"XalanNode::ELEMENT_NODE\s*==\s*nodeType\s*\)\s*\{\s*if\s*\(\s*executionContext\s*\.\s*getCopyTextNodesOnly\s*\(\s*\)\s*==\s*true\s*\)\s*\{\s*return\s+0\s*;\s*\}\s*ElemUse::startElement\s*\(")
    new_e = in_order(e, r"XalanNode::ELEMENT_NODE\s*==\s*nodeType\s*&&\s*executionContext\s*\.\s*getCopyTextNodesOnly\s*\(\s*\)\s*==\s*false\s*\)\s*\{\s*endExecuteChildren\s*\(",
                     r"executionContext\s*\.\s*endElement\s*\(")
    if ns == 0 and ne == 0 and old_s and old_e:
        facts["copy_skips_ignored_element"] = False
    elif ns == 1 and ne == 1 and new_s and new_e:
        facts["copy_skips_ignored_element"] = True
    else:
        raise srcfacts.AnchorError("ElemCopy::startElement/endElement: neither the shape without nor the shape with the getCopyTextNodesOnly() tests")

    ft = srcfacts.strip_comments(srcfacts.read("XMLSupport/FormatterToText.cpp"))

    def empty_body(rx, what):
        return body_of(ft, rx, what).strip().strip("{}").strip() == ""
    facts["text_formatter_ignores_all_but_characters"] = \
        empty_body(r"FormatterToText::startElement\s*\([^)]*\)\s*\{", "FormatterToText::startElement") and \
        empty_body(r"FormatterToText::endElement\s*\([^)]*\)\s*\{", "FormatterToText::endElement") and \
        empty_body(r"FormatterToText::comment\s*\([^)]*\)\s*\{", "FormatterToText::comment") and \
        empty_body(r"FormatterToText::processingInstruction\s*\([^)]*\)\s*\{", "FormatterToText::processingInstruction") and \
        bool(re.search(r"m_writer\s*->\s*write\s*\(\s*chars\s*,\s*0\s*,\s*length\s*\)",
                       body_of(ft, r"FormatterToText::characters\s*\([^)]*\)\s*\{", "FormatterToText::characters")))

    out = ["(* generated by translator/gen_xsltcore2.py from src/xalanc/XSLT/{ElemComment,ElemPI,ElemElement,ElemTemplateElement,ElemCopy,",
           "   StylesheetExecutionContextDefault,XSLTEngineImpl}.cpp and XMLSupport/FormatterToText.cpp - do not edit *)"]
    for k in sorted(facts):
        out.append("Definition src2_%s : bool := %s." % (k, "true" if facts[k] else "false"))
    return "\n".join(out) + "\n", facts


GENERATORS = {"GenXsltCore2": gen_xsltcore2}
