(* XpCpModel.v -- proofs about XpCpDefs.v: characters of a UTF-16 string, string-length and
   substring over characters. *)
From Coq Require Import ZArith NArith Lia List Bool Arith SpecFloat ZifyBool ZifyNat ZifyN.
Require Import XV.GenNum XV.NumDefs XV.XpAst XV.DomDefs XV.XpDefs XV.XpCpDefs.
Require Import XV.XpSpecSubstrModel.
Import ListNotations.

(** * induction character by character *)
Definition starts_pair (s : list N) : bool :=
  match s with h :: l :: _ => is_pair h l | _ => false end.

Lemma cp_ind : forall P : list N -> Prop,
  P [] ->
  (forall h l r, is_pair h l = true -> P r -> P (h :: l :: r)) ->
  (forall h r, starts_pair (h :: r) = false -> P r -> P (h :: r)) ->
  forall s, P s.
Proof.
  intros P H0 H2 H1 s.
  assert (G : forall n s, length s <= n -> P s).
  { induction n as [|n IH]; intros t Hl.
    - destruct t; [exact H0 | cbn in Hl; lia].
    - destruct t as [|h r]; [exact H0|].
      destruct r as [|l r'].
      + apply H1; [reflexivity | exact H0].
      + destruct (is_pair h l) eqn:E.
        * apply H2; [exact E|]. apply IH. cbn in Hl. lia.
        * apply H1; [cbn; exact E|]. apply IH. cbn in Hl |- *. lia. }
  apply (G (length s)). lia.
Qed.

(* unfolding equations *)
Lemma chars_pair : forall h l r, is_pair h l = true -> chars (h :: l :: r) = [h; l] :: chars r.
Proof. intros h l r E. cbn [chars]. rewrite E. reflexivity. Qed.
Lemma chars_single : forall h r, starts_pair (h :: r) = false -> chars (h :: r) = [h] :: chars r.
Proof. intros h [|l r'] E; cbn [chars]; [reflexivity|]. cbn in E. rewrite E. reflexivity. Qed.

Lemma decode_pair : forall h l r, is_pair h l = true -> decode (h :: l :: r) = pair_value h l :: decode r.
Proof. intros h l r E. cbn [decode]. rewrite E. reflexivity. Qed.
Lemma decode_single : forall h r, starts_pair (h :: r) = false -> decode (h :: r) = h :: decode r.
Proof. intros h [|l r'] E; cbn [decode]; [reflexivity|]. cbn in E. rewrite E. reflexivity. Qed.

Lemma count_pairs_pair : forall h l r, is_pair h l = true -> count_pairs (h :: l :: r) = S (count_pairs r).
Proof. intros h l r E. cbn [count_pairs]. rewrite E. reflexivity. Qed.
Lemma count_pairs_single : forall h r, starts_pair (h :: r) = false -> count_pairs (h :: r) = count_pairs r.
Proof. intros h [|l r'] E; cbn [count_pairs]; [reflexivity|]. cbn in E. rewrite E. reflexivity. Qed.

Lemma units_of_pair : forall h l r k, is_pair h l = true -> units_of (h :: l :: r) (S k) = 2 + units_of r k.
Proof. intros h l r k E. cbn [units_of]. rewrite E. reflexivity. Qed.
Lemma units_of_single : forall h r k, starts_pair (h :: r) = false -> units_of (h :: r) (S k) = 1 + units_of r k.
Proof.
  intros h [|l r'] k E; cbn [units_of].
  - destruct k; reflexivity.
  - cbn in E. rewrite E. reflexivity.
Qed.
Lemma units_of_0 : forall s, units_of s 0 = 0.
Proof. destruct s; reflexivity. Qed.

Lemma well_formed_pair : forall h l r, is_pair h l = true -> well_formed (h :: l :: r) = well_formed r.
Proof. intros h l r E. cbn [well_formed]. rewrite E. reflexivity. Qed.
Lemma well_formed_single : forall h r, starts_pair (h :: r) = false ->
  well_formed (h :: r) = negb (is_surrogate h) && well_formed r.
Proof.
  intros h [|l r'] E; cbn [well_formed].
  - rewrite andb_true_r. reflexivity.
  - cbn in E. rewrite E. reflexivity.
Qed.

(** * characters *)
Lemma concat_chars : forall s, concat (chars s) = s.
Proof.
  induction s as [|h l r E IHs|h r E IHs] using cp_ind.
  - reflexivity.
  - rewrite chars_pair by assumption. cbn [concat app]. congruence.
  - rewrite chars_single by assumption. cbn [concat app]. congruence.
Qed.

Lemma decode_chars : forall s, decode s = map group_value (chars s).
Proof.
  induction s as [|h l r E IHs|h r E IHs] using cp_ind.
  - reflexivity.
  - rewrite chars_pair, decode_pair by assumption. cbn [map group_value]. congruence.
  - rewrite chars_single, decode_single by assumption. cbn [map group_value]. congruence.
Qed.

Lemma length_chars : forall s, length s = length (chars s) + count_pairs s.
Proof.
  induction s as [|h l r E IHs|h r E IHs] using cp_ind.
  - reflexivity.
  - rewrite chars_pair, count_pairs_pair by assumption. cbn [length]. lia.
  - rewrite chars_single, count_pairs_single by assumption. cbn [length]. lia.
Qed.

Lemma cp_length_chars : forall s, cp_length s = length (chars s).
Proof. intros s. unfold cp_length. rewrite (length_chars s). lia. Qed.

Theorem cp_length_decode : forall s, cp_length s = length (decode s).
Proof. intros s. rewrite cp_length_chars, decode_chars, map_length. reflexivity. Qed.

Lemma chars_valid : forall s, forallb is_u16 s = true -> forallb valid_group (chars s) = true.
Proof.
  induction s as [|h l r E IHs|h r E IHs] using cp_ind; intros U.
  - reflexivity.
  - rewrite chars_pair by assumption. cbn [forallb valid_group] in *. rewrite E. apply IHs. lia.
  - rewrite chars_single by assumption. cbn [forallb valid_group] in *.
    apply andb_true_iff in U. destruct U as [U1 U2]. rewrite U1. apply IHs. exact U2.
Qed.

(* no pair: every character is one unit *)
Lemma no_pairs_chars : forall s, count_pairs s = 0 -> chars s = map (fun u => [u]) s.
Proof.
  induction s as [|h l r E IHs|h r E IHs] using cp_ind; intros C.
  - reflexivity.
  - rewrite count_pairs_pair in C by assumption. discriminate.
  - rewrite count_pairs_single in C by assumption. rewrite chars_single by assumption.
    cbn [map]. f_equal. auto.
Qed.

Lemma no_pairs_decode : forall s, count_pairs s = 0 -> decode s = s.
Proof.
  intros s C. rewrite decode_chars, no_pairs_chars by exact C. rewrite map_map. cbn [group_value].
  apply map_id.
Qed.

Lemma not_surrogate_no_pairs : forall s, forallb (fun u => negb (is_surrogate u)) s = true -> count_pairs s = 0.
Proof.
  induction s as [|h l r E IHs|h r E IHs] using cp_ind; intros U.
  - reflexivity.
  - exfalso. cbn [forallb] in U. unfold is_pair, is_surrogate in *. lia.
  - rewrite count_pairs_single by assumption. apply IHs. cbn [forallb] in U. lia.
Qed.

(** * cutting at a character boundary *)
Lemma skipn_units_of : forall s k, chars (skipn (units_of s k) s) = skipn k (chars s).
Proof.
  induction s as [|h l r E IHs|h r E IHs] using cp_ind; intros k.
  - destruct k; reflexivity.
  - destruct k as [|k]; [rewrite units_of_0; reflexivity|].
    rewrite units_of_pair, chars_pair by assumption. cbn [skipn plus]. apply IHs.
  - destruct k as [|k]; [rewrite units_of_0; reflexivity|].
    rewrite units_of_single, chars_single by assumption. cbn [skipn plus]. apply IHs.
Qed.

Lemma firstn_units_of : forall s k, firstn (units_of s k) s = concat (firstn k (chars s)).
Proof.
  induction s as [|h l r E IHs|h r E IHs] using cp_ind; intros k.
  - destruct k; reflexivity.
  - destruct k as [|k]; [rewrite units_of_0; reflexivity|].
    rewrite units_of_pair, chars_pair by assumption. cbn [firstn plus concat app]. rewrite IHs. reflexivity.
  - destruct k as [|k]; [rewrite units_of_0; reflexivity|].
    rewrite units_of_single, chars_single by assumption. cbn [firstn plus concat app]. rewrite IHs. reflexivity.
Qed.

(* a prefix of the characters is the characters of the prefix *)
Lemma chars_firstn : forall s k, chars (concat (firstn k (chars s))) = firstn k (chars s).
Proof.
  induction s as [|h l r E IHs|h r E IHs] using cp_ind; intros k.
  - destruct k; reflexivity.
  - destruct k as [|k]; [reflexivity|].
    rewrite chars_pair by assumption. cbn [firstn concat app]. rewrite chars_pair by assumption.
    f_equal. apply IHs.
  - destruct k as [|k]; [reflexivity|].
    rewrite chars_single by assumption. cbn [firstn concat app].
    rewrite chars_single; [f_equal; apply IHs|].
    (* the character after [h] in the prefix is the one after it in s, or nothing *)
    destruct r as [|l r']; [destruct k; reflexivity|].
    cbn in E. destruct k as [|k]; [reflexivity|].
    destruct r' as [|l2 r2].
    + cbn [chars firstn concat app]. cbn. exact E.
    + cbn [chars]. destruct (is_pair l l2); cbn [firstn concat app]; cbn; exact E.
Qed.

Lemma chars_window : forall s j k,
  chars (firstn (units_of (skipn (units_of s j) s) k) (skipn (units_of s j) s)) = firstn k (skipn j (chars s)).
Proof.
  intros s j k. rewrite firstn_units_of, chars_firstn, skipn_units_of. reflexivity.
Qed.

(** * substring() *)
Lemma cp_sub_start_eq : forall x len, cp_sub_start x len = sub_start x len.
Proof. reflexivity. Qed.
Lemma cp_sub_len_eq : forall x b len start, cp_sub_len x b len start = sub_len x b len start.
Proof. reflexivity. Qed.

Lemma no_pairs_app : forall a b, count_pairs (a ++ b) = 0 -> count_pairs a = 0 /\ count_pairs b = 0.
Proof.
  induction a as [|h r IH]; intros b C.
  - split; [reflexivity | exact C].
  - destruct r as [|l r'].
    + split; [reflexivity|]. cbn [app] in C. destruct b as [|l b']; [reflexivity|].
      cbn [count_pairs] in C. destruct (is_pair h l); [discriminate | exact C].
    + cbn [app] in C. change (count_pairs (h :: l :: (r' ++ b)) = 0) in C.
      cbn [count_pairs] in C |- *. destruct (is_pair h l) eqn:E; [discriminate|].
      apply (IH b). exact C.
Qed.

Lemma no_pairs_segment : forall s j k, count_pairs s = 0 -> count_pairs (firstn k (skipn j s)) = 0.
Proof.
  intros s j k C. rewrite <- (firstn_skipn j s) in C. apply no_pairs_app in C. destruct C as [_ C].
  rewrite <- (firstn_skipn k (skipn j s)) in C. apply no_pairs_app in C. tauto.
Qed.

(* the unconditional form of the unit model *)
Lemma f_substring_window : forall (l : list N) a b,
  f_substring l a b =
  let len := length l in
  let start := sub_start (d_round a) len in
  firstn (sub_len (d_round a) b len start) (skipn start l).
Proof.
  intros l a b. rewrite f_substring_unfold. cbv zeta.
  destruct (Nat.eqb (length l) 0) eqn:E0.
  - destruct l; [|discriminate]. rewrite skipn_nil, firstn_nil. reflexivity.
  - destruct (Nat.leb (length l) (sub_start (d_round a) (length l))) eqn:E1; [|reflexivity].
    rewrite skipn_all2 by lia. rewrite firstn_nil. reflexivity.
Qed.

Lemma cp_substring_chars : forall s a b,
  chars (cp_substring s a b) =
  let len := length (chars s) in
  let start := sub_start (d_round a) len in
  firstn (sub_len (d_round a) b len start) (skipn start (chars s)).
Proof.
  intros s a b. unfold cp_substring. cbv zeta.
  replace (length s - count_pairs s) with (length (chars s)) by (rewrite (length_chars s); lia).
  rewrite cp_sub_start_eq, cp_sub_len_eq.
  set (len := length (chars s)). set (start := sub_start (d_round a) len).
  set (sublen := sub_len (d_round a) b len start).
  destruct (Nat.eqb len 0) eqn:E0.
  - destruct (chars s); [|discriminate]. rewrite skipn_nil, firstn_nil. reflexivity.
  - destruct (Nat.leb len start) eqn:E1.
    + rewrite skipn_all2 by (fold len; lia). rewrite firstn_nil. reflexivity.
    + destruct (Nat.eqb sublen 0) eqn:E2.
      * replace sublen with 0 by lia. reflexivity.
      * destruct (Nat.eqb (count_pairs s) 0) eqn:E3.
        -- assert (C : count_pairs s = 0) by lia.
           rewrite no_pairs_chars by (apply no_pairs_segment; exact C).
           rewrite (no_pairs_chars s C). rewrite skipn_map, firstn_map. reflexivity.
        -- apply chars_window.
Qed.

Theorem cp_substring_decode : forall s a b, decode (cp_substring s a b) = f_substring (decode s) a b.
Proof.
  intros s a b. rewrite f_substring_window. cbv zeta.
  rewrite (decode_chars (cp_substring s a b)), cp_substring_chars. cbv zeta.
  rewrite (decode_chars s), map_length, skipn_map, firstn_map. reflexivity.
Qed.

Theorem cp_substring_spec : forall (s : str) (a : dbl) (b : option dbl),
  valid_binary prec emax a = true ->
  match b with Some t => valid_binary prec emax t = true | None => True end ->
  (Z.of_nat (length s) < 2 ^ 53)%Z ->
  decode (cp_substring s a b) = substring_spec (decode s) a b.
Proof.
  intros s a b Va Vb L. rewrite cp_substring_decode. apply substring_correct; try assumption.
  rewrite <- cp_length_decode. unfold cp_length. lia.
Qed.

(* the result is made of whole characters of the argument: a pair is never split *)
Lemma well_formed_chars : forall s,
  well_formed s = forallb (fun g => match g with [u] => negb (is_surrogate u) | _ => true end) (chars s).
Proof.
  induction s as [|h l r E IHs|h r E IHs] using cp_ind.
  - reflexivity.
  - rewrite well_formed_pair, chars_pair by assumption. cbn [forallb]. exact IHs.
  - rewrite well_formed_single, chars_single by assumption. cbn [forallb]. rewrite IHs. reflexivity.
Qed.

Lemma forallb_firstn_skipn : forall A (f : A -> bool) l j k,
  forallb f l = true -> forallb f (firstn k (skipn j l)) = true.
Proof.
  intros A f l j k H. rewrite forallb_forall in *. intros x Hx. apply H.
  rewrite <- (firstn_skipn j l). apply in_or_app. right.
  rewrite <- (firstn_skipn k (skipn j l)). apply in_or_app. left. exact Hx.
Qed.

Theorem cp_substring_well_formed : forall s a b,
  well_formed s = true -> well_formed (cp_substring s a b) = true.
Proof.
  intros s a b W. rewrite well_formed_chars in *. rewrite cp_substring_chars. cbv zeta.
  apply forallb_firstn_skipn. exact W.
Qed.

(* the fast path: on a string without pairs the repaired function is the old one *)
Theorem cp_substring_no_pairs : forall s a b, count_pairs s = 0 -> cp_substring s a b = f_substring s a b.
Proof.
  intros s a b C. rewrite <- (concat_chars (cp_substring s a b)), cp_substring_chars. cbv zeta.
  rewrite f_substring_window. cbv zeta. rewrite (no_pairs_chars s C), map_length, skipn_map, firstn_map.
  generalize (firstn (sub_len (d_round a) b (length s) (sub_start (d_round a) (length s)))
                (skipn (sub_start (d_round a) (length s)) s)).
  induction l as [|x l IH]; [reflexivity|]. cbn [map concat app]. f_equal. exact IH.
Qed.

Theorem cp_length_no_pairs : forall s, count_pairs s = 0 -> cp_length s = length s.
Proof. intros s C. unfold cp_length. lia. Qed.
