#!/usr/bin/env python3
"""Entry point of every registered check:  python3 check.py <ID> [--tier quick|thorough] [--replay FILE]
   python3 check.py --setup     builds everything once (MANIFEST.setup_cmd)."""
import os, sys, argparse, importlib, traceback

VERIF = os.path.dirname(os.path.abspath(__file__))
sys.path.insert(0, VERIF)
from vlib import core  # noqa: E402


def main():
    ap = argparse.ArgumentParser()
    ap.add_argument("prop", nargs="?")
    ap.add_argument("--tier", default=os.environ.get("VERIF_TIER", "quick"))
    ap.add_argument("--replay")
    ap.add_argument("--setup", action="store_true")
    a = ap.parse_args()
    seed = int(os.environ.get("VERIF_SEED", "1") or 1)
    if a.setup:
        from vlib import setup
        return setup.run()
    if not a.prop:
        ap.error("property id required")
    tier = a.tier if a.tier in ("quick", "thorough") else "quick"
    mod = importlib.import_module("props." + a.prop)
    ctx = core.Ctx(a.prop, tier, seed)
    try:
        if a.replay:
            return mod.replay(ctx, a.replay)
        return mod.run(ctx)
    except Exception:
        # an internal error must not pass silently: report as a broken check
        traceback.print_exc()
        ctx.broken.append("internal error in the check: " + traceback.format_exc()[-800:])
        return ctx.finish(level=getattr(mod, "LEVEL", "proof"))


if __name__ == "__main__":
    sys.exit(main())
