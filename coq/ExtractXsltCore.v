(* extraction of the core interpreter (machine and reference semantics) for the correspondence run *)
Require Import ExtrOcamlBasic.
Require Import XV.XsltEventsDefs XV.XsltVarsDefs XV.XsltCoreDefs.
Extraction "extracted/xsltCore_model.ml"
  BinNums.positive BinNums.N BinNums.Z
  machine_result machine_main sem_main result_of canon_list result_tree.
