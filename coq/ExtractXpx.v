(* Extraction of the xpx models (C02, extension part) for the correspondence driver. ExtrOcamlBasic only. *)
Require Import ExtrOcamlBasic.
Require Import XV.GenXpx XV.XpxDefs XV.XpxCpDefs.
Extraction "extracted/xpx_model.ml"
  difference intersection has_same_node has_same_nodes leading trailing distinct_tbl
  math_min math_max math_highest math_lowest padding align align_mode_of gen_padding_default padding_tree align_tree
  gen_exslt_padding_align_count_characters
  id_tokens id_nodes.
